"""Helper of props/C20.py (not a property): calls that the compiler maps to C-level argument lists.

  * the callee table shared by the compiled module (cdef / cpdef functions, C methods) and its CPython
    twin (plain def functions / methods that log the same event),
  * the systematic generator of call shapes for GeneralCallNode.map_to_simple_call_node
    (positional count x keyword permutation x argument kinds),
  * the front-end tie: the REAL map_to_simple_call_node is run on every call site of a generated module
    (pipeline stopped after expression analysis, no C compiler) and its result - which arguments went into
    temps, in which order, the final argument list, the is_simple() verdicts - is compared with the
    extracted model (ccmap / bsimple) and judged by an independent binding/order oracle,
  * optimised builtin calls and inline C arguments (two-way: compiled module vs CPython).
"""
import itertools, json, os
import cybuild

# ----------------------------------------------------------------------------------------------
# callees.  params: declared parameters after self; nreq: required ones; dfl: how an omitted parameter
# shows up in the callee's log ('!' = required); ctyped: parameters declared as C long
CALLEES = {
    "cf":  dict(params=["a", "b", "c", "d"], nreq=3, dfl=["!", "!", "!", "None"]),
    "co":  dict(params=["a", "b", "c", "d"], nreq=1, dfl=["!", "None", "None", "None"]),
    "pf":  dict(params=["a", "b", "c"], nreq=2, dfl=["!", "!", "None"], cpdef=True),
    "cl":  dict(params=["a", "b", "c"], nreq=2, dfl=["!", "!", "?0"], ctyped=("a", "c")),
    "K.m": dict(params=["a", "b", "c"], nreq=2, dfl=["!", "!", "None"], method=True),
    "K.p": dict(params=["a", "b", "c"], nreq=2, dfl=["!", "!", "None"], method=True, cpdef=True),
}

PRELUDE_CY = '''
cdef class K:
    cdef readonly int kid
    def __init__(self, kid):
        self.kid = kid
    cdef object m(self, object a, object b, object c=None):
        return ev('K.m', (self, a, b, c))
    cpdef object p(self, object a, object b, object c=None):
        return ev('K.p', (self, a, b, c))
cdef K kobj = K(0)
cdef K kk(object o):
    return <K>o
def KO(k):
    LOG.append('L%d' % k); return K(k)
cdef object cf(object a, object b, object c, object d=None):
    return ev('cf', (a, b, c, d))
cdef object co(object a, object b=None, object c=None, object d=None):
    return ev('co', (a, b, c, d))
cpdef object pf(object a, object b, object c=None):
    return ev('pf', (a, b, c))
cdef object cl(long a, object b, long c=0):
    return ev('cl', (a, b, c))
'''

PRELUDE_PY = '''
class K(object):
    def __init__(self, kid):
        self.kid = kid
    def m(self, a, b, c=None):
        return ev('K.m', (self, a, b, c))
    def p(self, a, b, c=None):
        return ev('K.p', (self, a, b, c))
kobj = K(0)
def kk(o):
    return o
def KO(k):
    LOG.append('L%d' % k); return K(k)
def cf(a, b, c, d=None):
    return ev('cf', (a, b, c, d))
def co(a, b=None, c=None, d=None):
    return ev('co', (a, b, c, d))
def pf(a, b, c=None):
    return ev('pf', (a, b, c))
def cl(a, b, c=0):
    return ev('cl', (a, b, c))
'''


def needs_prelude(x):
    """does the statement mention a C callee, the K objects or the typed names"""
    if isinstance(x, tuple) and x:
        if x[0] == "ccall" or (x[0] == "leaf" and x[1] == "K") or (x[0] == "name" and x[1] == "kobj"):
            return True
    if isinstance(x, (tuple, list)):
        return any(needs_prelude(y) for y in x)
    return False


def r_ccall(e, r_expr):
    """('ccall', fname, recv | None, [('pos', e) | ('kw', pname, e)])"""
    fname, recv, args = e[1], e[2], e[3]
    parts = []
    for a in args:
        parts.append(r_expr(a[1]) if a[0] == "pos" else "%s=%s" % (a[1], r_expr(a[2])))
    if CALLEES[fname].get("method"):
        rs = r_expr(recv)
        if not (rs.endswith(")") or recv[0] == "name"):
            rs = "(" + rs + ")"
        return "%s.%s(%s)" % (rs, fname.split(".")[1], ", ".join(parts))
    return "%s(%s)" % (fname, ", ".join(parts))


def t_ccall(e, t_expr):
    fname, recv, args = e[1], e[2], e[3]
    c = CALLEES[fname]
    pos = [a for a in args if a[0] == "pos"]
    kws = [a for a in args if a[0] == "kw"]
    out = ["Q", fname, str(c["nreq"]), str(len(c["params"])), ",".join(c["dfl"])]
    out += (["-"] if recv is None else ["+"] + t_expr(recv))
    out += [str(len(pos)), str(len(kws))]
    for a in pos:
        out += t_expr(a[1])
    for a in kws:
        out += [str(c["params"].index(a[1]))] + t_expr(a[2])
    return out


# ----------------------------------------------------------------------------------------------
# shapes
def call_shapes(fname):
    """every (npos, keyword order) that binds the declared parameters 0 .. m-1 (no gap), nreq <= m <= ndecl"""
    c = CALLEES[fname]
    P = c["params"]
    for m in range(c["nreq"], len(P) + 1):
        for npos in range(0, m + 1):
            for perm in itertools.permutations(P[npos:m]):
                yield npos, list(perm)


# argument kinds: how the compiler classifies them before type analysis / what they really are
#   T    logging call                                  not simple
#   sub  T(i)[T(j)]                                    not simple
#   neg  -x   (an operation on a name, no leaf)        not simple
#   fst2 f"{T(i)}{T(j)}" (an AddNode after ConstantFolding)  not simple; fst3 (three parts): a JoinedStrNode,
#        taken for simple like fst (one part: the FormattedValueNode itself)
#   x    a name                                        simple
#   none None                                          simple
#   xa   x.a  attribute of a name                      taken for simple, has a side effect
#   or / and / cond / tup / lst / dct / fst            taken for simple (class-level is_temp), evaluate leaves
NONSIMPLE = ["T", "sub", "neg", "fst2"]
SIMPLE = ["x", "none"]
FALSE_SIMPLE = ["xa", "or", "and", "cond", "tup", "lst", "dct", "fst", "xab", "fst3"]


def mk_arg(g, kind, ctyped=False):
    """g: the Gen of props/C20.py (leaf counter)"""
    if ctyped:
        return g.leaf("I")          # a C long parameter: only int-valued leaves (the coercion has no event)
    L = g.leaf
    if kind == "T":
        return L()
    if kind == "sub":
        return ("sub", L(), L())
    if kind == "neg":
        return ("un", "neg", ("name", g.rng.choice(["x", "y", "z"])))
    if kind == "x":
        return ("name", g.rng.choice(["x", "y", "z"]))
    if kind == "none":
        return ("none",)
    if kind == "xa":
        return ("attr", ("name", g.rng.choice(["x", "y", "z"])), g.rng.choice(["a", "b"]))
    if kind == "xab":
        return ("attr", ("attr", ("name", "x"), "a"), "b")
    if kind == "or":
        return ("or", L(), L())
    if kind == "and":
        return ("and", L(), L())
    if kind == "cond":
        return ("cond", L(), L(), L())
    if kind == "tup":
        return ("disp", "tuple", [("pos", L()), ("pos", ("name", "y"))])
    if kind == "lst":
        return ("disp", "list", [("pos", L())])
    if kind == "dct":
        return ("dict", [(L(), L())])
    if kind == "fst":
        return ("fstr", [L()])
    if kind == "fst2":
        return ("fstr", [L(), L()])
    if kind == "fst3":
        return ("fstr", [L(), L(), L()])
    raise ValueError(kind)


def mk_call(g, fname, npos, perm, kinds, recv_kind="name"):
    c = CALLEES[fname]
    P = c["params"]
    ct = c.get("ctyped", ())
    recv = None
    if c.get("method"):
        recv = ("name", "kobj") if recv_kind == "name" else g.leaf("K")
    args = []
    for i in range(npos):
        args.append(("pos", mk_arg(g, kinds[i], P[i] in ct)))
    for j, pname in enumerate(perm):
        args.append(("kw", pname, mk_arg(g, kinds[npos + j], pname in ct)))
    return ("ccall", fname, recv, args)


def systematic_calls(g, quick):
    """statements  r = <call>  over every shape; argument kinds: all non-simple, one simple, one taken for
    simple, random.  quick: a budgeted selection that keeps every branch of the mapping."""
    rng = g.rng
    out = []
    for fname in sorted(CALLEES):
        c = CALLEES[fname]
        shapes = list(call_shapes(fname))
        recvs = ["name", "leaf"] if c.get("method") else ["name"]
        for npos, perm in shapes:
            m = npos + len(perm)
            inorder = (perm == c["params"][npos:m])
            for rk in recvs:
                fam = []
                fam.append(["T"] * m)
                if not quick or rng.random() < 0.25:
                    for p in range(m):
                        k1 = ["T"] * m
                        k1[p] = rng.choice(SIMPLE) if (p + len(fam)) % 2 else rng.choice(FALSE_SIMPLE)
                        fam.append(k1)
                    for _ in range(2):
                        fam.append([rng.choice(NONSIMPLE + SIMPLE + FALSE_SIMPLE) for _ in range(m)])
                    fam.append([rng.choice(FALSE_SIMPLE) for _ in range(m)])
                for kinds in fam:
                    if quick:
                        # keep: everything small, a sample of the rest
                        keep = 1.0 if (m <= 3 and kinds == ["T"] * m and fname in ("cf", "K.m")) else \
                            (0.35 if kinds == ["T"] * m else 0.09)
                        if inorder and len(perm) > 0:
                            keep *= 0.5
                        if rng.random() > keep:
                            continue
                    out.append(("assign", [("name", "r")], mk_call(g, fname, npos, perm, kinds, rk)))
    # the arguments of a C call inside larger expressions and C calls as arguments of C calls
    for _ in range(6 if quick else 60):
        inner = mk_call(g, "cf", 0, rng.sample(["a", "b", "c"], 3), ["T", "T", "T"])
        perm = rng.sample(["b", "c", "d"], 3)
        outer = ("ccall", "cf", None, [("pos", ("name", "x"))] + [("kw", p, (inner if i == 1 else g.leaf())) for i, p in enumerate(perm)])
        out.append(("assign", [("name", "r")], rng.choice([outer, ("and", g.leaf(), outer), ("bin", "add", g.leaf(), outer),
                                                           ("call", g.leaf(), [("pos", outer), ("kw", "ka", g.leaf())])])))
    return out


# ----------------------------------------------------------------------------------------------
# front-end tie: the real GeneralCallNode.map_to_simple_call_node
FRONT = r'''
import sys, json, os
import pyload; pyload.install()
spec = json.load(sys.stdin)
from Cython.Compiler import Main, Options, Errors, ExprNodes, UtilNodes, ParseTreeTransforms
pyload.assert_sources()
REC = {}
orig = ExprNodes.GeneralCallNode.map_to_simple_call_node
def wrapped(self):
    line = self.pos[1]
    try:
        pos_args = list(self.positional_args.args)
        kws = [kv.value for kv in self.keyword_args.key_value_pairs]
    except Exception:
        return orig(self)
    vals = pos_args + kws
    ids = {id(v): i for i, v in enumerate(vals)}
    simple = []
    for v in vals:
        try:
            simple.append(1 if v.is_simple() else 0)
        except Exception:
            simple.append(2)
    node = orig(self)
    rec = {"simple": simple, "npos": len(pos_args)}
    if node is self:
        rec["res"] = "self"
    elif node is None:
        rec["res"] = "none"
    else:
        temps = []
        n = node
        while isinstance(n, UtilNodes.EvalWithTempExprNode):
            temps.append(ids.get(id(n.lazy_temp.expression), -1))
            n = n.subexpression
        args = []
        for a in n.args:
            if isinstance(a, UtilNodes.ResultRefNode):
                args.append(ids.get(id(a.expression), -1))
            else:
                args.append(ids.get(id(a), -1))
        rec["res"] = "ok"; rec["temps"] = temps; rec["args"] = args
    REC.setdefault(line, []).append(rec)
    return node
ExprNodes.GeneralCallNode.map_to_simple_call_node = wrapped
class Stop(Exception):
    pass
def stop(self, root):
    raise Stop()
ParseTreeTransforms.ExpandInplaceOperators.__call__ = stop
import io, re
directives = dict(Options.get_directive_defaults()); directives["language_level"] = 3
out = {}
for name in spec["modules"]:
    REC.clear()
    opts = Main.CompilationOptions(Main.default_options, compiler_directives=directives,
                                   output_file=os.path.join(spec["dir"], name + ".c"))
    err = io.StringIO(); old = sys.stderr; sys.stderr = err
    try:
        try:
            Main.compile(os.path.join(spec["dir"], name + ".pyx"), opts)
        except Stop:
            pass
        except BaseException as e:
            out.setdefault("crash", []).append([name, repr(e)[:300]])
    finally:
        sys.stderr = old
    out[name] = {str(k): v for k, v in REC.items()}
    out[name + "#err"] = [[int(m.group(1)), m.group(2)[:200]] for m in
                          re.finditer(r"^[^\n:]+:(\d+):\d+: ([^\n]*)$", err.getvalue(), re.M)]
print(json.dumps(out))
'''


def front_run(workdir, modules):
    """run the compiler front end (up to expression analysis) on <module>.pyx files with the recording hook:
    {module: {line: [record]}, module#err: [[line, message]]}"""
    if not modules:
        return {}
    r = cybuild.run_script(FRONT, workdir, {"modules": list(modules), "dir": workdir}, timeout=3000, name="c20_front.py")
    if not isinstance(r["json"], dict):
        raise RuntimeError("front-end run failed rc=%s %s" % (r["rc"], r["err"][-2000:]))
    return r["json"]


def tie_cases(g, quick):
    """(fname, npos, perm, kinds) for every shape with at least one keyword.
    thorough: every pattern over {non-simple, simple} plus patterns with arguments only taken for simple;
    quick: all-non-simple, all patterns for <= 3 arguments, a few random ones for 4 (budget: ~5 ms per call)"""
    rng = g.rng
    out = []
    for fname in sorted(CALLEES):
        if CALLEES[fname].get("ctyped"):
            continue
        for npos, perm in call_shapes(fname):
            if not perm:
                continue        # purely positional: a SimpleCallNode from the start, no mapping
            m = npos + len(perm)
            if quick and m > 2:
                pats = {tuple(["T"] * m)}
                for _ in range(2 if m > 3 else 3):
                    pats.add(tuple(rng.choice(["T", "T", "x"]) for _ in range(m)))
            else:
                pats = set(itertools.product(["T", "x"], repeat=m))
            for _ in range(1 if quick else 12):
                pats.add(tuple(rng.choice(NONSIMPLE + SIMPLE + FALSE_SIMPLE) for _ in range(m)))
            for p in range(m):
                if quick and rng.random() < 0.6:
                    continue
                for fs in (FALSE_SIMPLE if not quick else [rng.choice(FALSE_SIMPLE)]):
                    k = ["T"] * m; k[p] = fs; pats.add(tuple(k))
            for kinds in sorted(pats):
                out.append((fname, npos, perm, list(kinds)))
    return out


def expected_binding(fname, npos, perm):
    """independent oracle: call position bound to each declared parameter (what CPython's binding does)"""
    P = CALLEES[fname]["params"]
    slots = []
    for d, pname in enumerate(P):
        if d < npos:
            slots.append(d)
        elif pname in perm:
            slots.append(npos + perm.index(pname))
        else:
            break
    return slots
