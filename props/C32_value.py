"""C32, value level (helper of props/C32.py, not a property): the sentinel comparison emitted at call sites
(PyrexTypes.CFuncType.ExceptionValue.exception_test_code) for every integer/floating return type x sentinel spelling.

 * module c32_v<n>: nogil functions  cdef T vf_i(int mode, long long val) <clause> nogil  whose body returns <T>val,
   or raises (under 'with gil'); callers: assignment, inside an expression, expression statement
   (result discarded), 'with nogil' block.
 * static tie: the text  <result> == <rhs>  of every call site is parsed into the model's constant-expression AST and
   compared with  emitted tc (parse c_repr)  where (c_repr, type of the constant node) come from the compiler's own
   CFuncType.exception_value (dump); FX_CAST selects tc = return type (repaired) or the constant's type (as is).
 * value tie: the verbatim test text is compiled by gcc into a tiny program and swept over all (8/16 bit) or boundary
   (32/64 bit) values of the return type; 3-way against the extracted eq_test and the oracle  r == sentinel converted
   to the return type  (python integers / struct float rounding).
 * behaviour: 3-way compiled module / observe_value (Gallina composition) / documented semantics."""
import os, re, json, struct, math, subprocess, ast

FX_CAST = os.environ.get("C32_FX_CAST", "1") == "1"     # flip the default to "1" after proposed_fixes/C32-sentinel_cast_*.diff

INT_TYPES = [  # name, Cython type, width, signed
    ("schar", "signed char", 8, True), ("uchar", "unsigned char", 8, False), ("char", "char", 8, True),
    ("short", "short", 16, True), ("ushort", "unsigned short", 16, False),
    ("int", "int", 32, True), ("uint", "unsigned int", 32, False),
    ("long", "long", 64, True), ("ulong", "unsigned long", 64, False),
    ("llong", "long long", 64, True), ("ullong", "unsigned long long", 64, False),
    ("size_t", "size_t", 64, False), ("ssize_t", "Py_ssize_t", 64, True),
    ("ucs4", "Py_UCS4", 32, False), ("ust", "c32_us_t", 16, False), ("u8", "uint8_t", 8, False),
    ("i64", "int64_t", 64, True), ("bint", "bint", 32, True)]
FLOAT_TYPES = [("float", "float", 32), ("double", "double", 64)]
QUICK_INT = ["schar", "uchar", "short", "ushort", "int", "uint", "long", "ulong", "size_t", "ust", "bint"]

PRELUDE_V = '''
from libc.stdint cimport uint8_t, int64_t
from libc.math cimport NAN, INFINITY
ctypedef unsigned short c32_us_t
cdef enum C32E:
    C32E_A = 0
    C32E_M = -1
DEF KM1 = -1
'''


def wrap(w, sg, v):
    v %= 1 << w
    if sg and v >= 1 << (w - 1):
        v -= 1 << w
    return v


def f32(x):
    try:
        return struct.unpack("f", struct.pack("f", x))[0]
    except OverflowError:
        return math.copysign(float("inf"), x)


def int_sentinels(name, w, sg, thorough):
    """(short, source text, python value, spelling class)"""
    lo, hi = (-(1 << (w - 1)), (1 << (w - 1)) - 1) if sg else (0, (1 << w) - 1)
    if name == "bint":
        return [("m1", "-1", -1, "lit"), ("one", "1", 1, "lit"), ("em2", "-(1+1)", -2, "expr")]
    L = [("m1", "-1", -1, "lit"), ("hi", str(hi), hi, "lit"),
         ("em2", "-(1+1)", -2, "expr"), ("cim1", "<int>-1", -1, "expr")]
    if w < 64:
        # not a value of the type: reduced modulo 2^w.  (For 64-bit types Cython emits 0x10000000000000000, a
        # constant that fits no C type -- gcc warns and truncates; outside the model, not generated.)
        L.append(("over", str(hi + 1), hi + 1, "lit"))
    if sg:
        L.append(("lo", str(lo), lo, "lit"))
    if thorough:
        L += [("m2", "-2", -2, "lit"), ("zero", "0", 0, "lit"), ("one", "1", 1, "lit"), ("c255", "255", 255, "lit"),
              ("km1", "KM1", -1, "lit"), ("sub", "-1 - 1", -2, "expr"), ("clm1", "<long>-1", -1, "expr"),
              ("mul", "2 * 3", 6, "expr"), ("cuc", "<unsigned char>200", 200, "expr"), ("enm", "C32E_M", -1, "expr")]
        if w >= 32:
            L.append(("big", "-3000000000" if w == 32 else "-3000000001", -3000000000 if w == 32 else -3000000001, "lit"))
    return L


def float_sentinels(thorough):
    L = [("m1", "-1", -1.0, "lit"), ("p1", "0.1", 0.1, "flit"), ("h", "2.5", 2.5, "flit"), ("nan", "NAN", float("nan"), "ext")]
    if thorough:
        L += [("n3", "-0.3", -0.3, "flit"), ("inf", "INFINITY", float("inf"), "ext"), ("big", "1e300", 1e300, "flit"),
              ("i7", "7", 7.0, "lit"), ("z", "0.0", 0.0, "flit")]
    return L


class VFunc:
    def __init__(self, idx, tname, ctype, w, sg, isfloat, sent, form):
        self.idx, self.tname, self.ctype, self.w, self.sg, self.isfloat = idx, tname, ctype, w, sg, isfloat
        self.sshort, self.stext, self.pv, self.sclass = sent
        self.form = form                      # 'exq' | 'ex'
        self.name = "vf_%s_%s_%s" % (tname, self.sshort, form)
        self.clause = ("except? " if form == "exq" else "except ") + self.stext

    def conv(self, v):
        if self.isfloat:
            return f32(v) if self.w == 32 else float(v)
        if self.tname == "bint":
            return 1 if v else 0
        return wrap(self.w, self.sg, int(v))

    def stored(self):
        if self.isfloat:
            return f32(self.pv) if self.w == 32 else float(self.pv)
        return wrap(self.w, self.sg, self.pv)      # bint: the error path stores the constant in a C int

    def values(self, thorough):
        if self.isfloat:
            s = self.stored()
            vs = [s, 0.0, -1.0, 0.1, 2.5, float("nan")]
            if thorough:
                vs += [float("inf"), -0.3, 7.0]
            return vs
        if self.tname == "bint":
            return [0, 1]
        s = self.stored()
        lo, hi = (-(1 << (self.w - 1)), (1 << (self.w - 1)) - 1) if self.sg else (0, (1 << self.w) - 1)
        vs = {s, wrap(self.w, self.sg, s + 1), wrap(self.w, self.sg, s - 1), 0, hi, lo}
        if thorough:
            vs |= {wrap(self.w, self.sg, -1), wrap(self.w, self.sg, 255), wrap(self.w, self.sg, self.pv % (1 << 32))}
        return sorted(vs)


def make_funcs(thorough):
    F = []
    for name, ctype, w, sg in INT_TYPES:
        if not thorough and name not in QUICK_INT:
            continue
        for sent in int_sentinels(name, w, sg, thorough):
            forms = ["exq", "ex"] if (thorough or sent[0] in ("m1", "em2")) else ["exq"]
            for form in forms:
                F.append(VFunc(len(F), name, ctype, w, sg, False, sent, form))
    for name, ctype, w in FLOAT_TYPES:
        for sent in float_sentinels(thorough):
            for form in (["exq", "ex"] if (thorough or sent[0] == "p1") else ["exq"]):
                F.append(VFunc(len(F), name, ctype, w, True, True, sent, form))
    return F


CALLERS = ["asg", "expr", "stmt", "ng"]


def gen_module(funcs, callers_of):
    """-> source, {(func name, caller): (def name, fid)}"""
    ind = "    "
    L = ["# cython: language_level=3", PRELUDE_V, PRELUDE_SHARED]
    for f in funcs:
        vt = "double" if f.isfloat else "long long"
        L += ["cdef %s %s(int mode, %s val) %s nogil:" % (f.ctype, f.name, vt, f.clause),
              ind + "if mode == 1:", ind + "    with gil:", ind + "        raise ValueError('boom')",
              ind + "return <%s>val" % f.ctype, ""]
    index = {}
    bytype = {}
    for f in funcs:
        bytype.setdefault(f.tname, []).append(f)
    for tn, fl in bytype.items():
        f0 = fl[0]
        vt = "double" if f0.isfloat else "long long"
        for caller in CALLERS:
            members = [f for f in fl if caller in callers_of(f)]
            if not members:
                continue
            dn = "v%s_%s" % (caller, tn)
            W = ["def %s(int fid, int mode, %s val, bint stale):" % (dn, vt),
                 ind + "cdef %s r = 0" % f0.ctype, ind + "cdef %s acc = 0" % vt]
            base = ind
            if caller == "ng":
                W.append(ind + "with nogil:")
                base = ind + ind
            for i, f in enumerate(members):
                index[(f.name, caller)] = (dn, i)
                call = "%s(mode, val)" % f.name
                stmt = {"asg": "r = " + call, "ng": "r = " + call, "stmt": call,
                        "expr": ("acc = <%s>%s * 2" if f.isfloat else "acc = <%s>%s + 1") % (vt, call)}[caller]
                W += [base + "%s fid == %d:" % ("if" if i == 0 else "elif", i), base + ind + stmt]
            W += [ind + "pend = c32_take_pending()"]
            if caller == "expr":
                W += [ind + "return ('ok', %s, pend)" % ("acc / 2" if f0.isfloat else "acc - 1"), ""]
            elif caller == "stmt":
                W += [ind + "return ('ok', None, pend)", ""]
            else:
                # a Py_UCS4 result would be converted to a 1-character str
                W += [ind + "return ('ok', %s, pend)" % ("<unsigned int>r" if tn == "ucs4" else "r"), ""]
            L += W
    L += ["def c32_reached():", "    return 0", ""]
    return "\n".join(L) + "\n", index


PRELUDE_SHARED = r'''
cdef extern from *:
    """
    static PyObject* c32_take_pending(void) {
        PyObject *t, *v, *tb, *r;
        if (!PyErr_Occurred()) { Py_RETURN_NONE; }
        PyErr_Fetch(&t, &v, &tb);
        r = PyObject_GetAttrString(t, "__name__");
        Py_XDECREF(t); Py_XDECREF(v); Py_XDECREF(tb);
        return r;
    }
    """
    object c32_take_pending()
'''

# ----------------------------------------------------------------------------- C text -> model tokens
TYPE_WS = {"unsigned char": (8, 0), "signed char": (8, 1), "char": (8, 1), "short": (16, 1), "unsigned short": (16, 0),
           "int": (32, 1), "unsigned int": (32, 0), "long": (64, 1), "unsigned long": (64, 0),
           "PY_LONG_LONG": (64, 1), "unsigned PY_LONG_LONG": (64, 0), "long long": (64, 1), "unsigned long long": (64, 0),
           "size_t": (64, 0), "Py_ssize_t": (64, 1), "Py_UCS4": (32, 0), "uint8_t": (8, 0), "int64_t": (64, 1)}
TYPE_WORDS = {"unsigned", "signed", "char", "short", "int", "long", "PY_LONG_LONG", "size_t", "Py_ssize_t", "Py_UCS4",
              "uint8_t", "int64_t", "enum", "const", "float", "double", "void", "*"}
TOK = re.compile(r"\s*(0[xX][0-9a-fA-F]+[uUlL]*|\d+\.\d*(?:[eE][-+]?\d+)?|\d+[eE][-+]?\d+|\d+[uUlL]*|'(?:\\.|[^'])'|[A-Za-z_]\w*|[-+*()])")


def c_tokens(text):
    out, pos = [], 0
    text = text.strip()
    while pos < len(text):
        m = TOK.match(text, pos)
        if not m:
            raise ValueError("cannot tokenise %r at %d" % (text, pos))
        out.append(m.group(1))
        pos = m.end()
    return out


def type_ws(words, modname):
    """C type text (list of words) -> (w, sg) | ('f', 32|64) | None"""
    ws = [w for w in words if w != "const"]
    t = " ".join(ws)
    if t in TYPE_WS:
        return TYPE_WS[t]
    if t == "float":
        return ("f", 32)
    if t in ("double", "long double"):
        return ("f", 64)
    if re.fullmatch(r"__pyx_t_\d+%s_c32_us_t" % modname, t):
        return (16, 0)
    if re.fullmatch(r"enum __pyx_t_\d+%s_C32E" % modname, t):
        return (32, 1)
    return None


class CParser:
    """constant expressions of the generated C -> model expr tokens (prefix)"""
    def __init__(self, toks, modname):
        self.t, self.i, self.mod = toks, 0, modname

    def peek(self):
        return self.t[self.i] if self.i < len(self.t) else None

    def take(self):
        x = self.t[self.i]
        self.i += 1
        return x

    def expr(self):
        a = self.term()
        while self.peek() in ("+", "-"):
            op = self.take()
            b = self.term()
            a = ["add" if op == "+" else "sub"] + a + b
        return a

    def term(self):
        a = self.unary()
        while self.peek() == "*":
            self.take()
            b = self.unary()
            a = ["mul"] + a + b
        return a

    def is_type_start(self):
        j = self.i + 1
        if j >= len(self.t):
            return False
        w = self.t[j]
        return w in TYPE_WORDS or w.startswith("__pyx_t_")

    def unary(self):
        p = self.peek()
        if p == "-":
            self.take()
            return ["neg"] + self.unary()
        if p == "(":
            if self.is_type_start():
                self.take()
                words = []
                while self.peek() != ")":
                    words.append(self.take())
                self.take()
                ws = type_ws(words, self.mod)
                if ws is None or ws[0] == "f":
                    raise ValueError("cast type %r" % " ".join(words))
                return ["cast:%d:%d" % ws] + self.unary()
            self.take()
            e = self.expr()
            if self.take() != ")":
                raise ValueError("expected )")
            return e
        tok = self.take()
        m = re.fullmatch(r"(0[xX][0-9a-fA-F]+|\d+)([uUlL]*)", tok)
        if m:
            su = m.group(2).lower().replace("ll", "l")
            su = {"": "n", "l": "l", "u": "u", "ul": "ul", "lu": "ul"}[su]
            if m.group(1).lower().startswith("0x"):
                return ["hex:%d:%s" % (int(m.group(1), 16), su)]
            return ["dec:%d:%s" % (int(m.group(1)), su)]
        m = re.fullmatch(r"__pyx_e_\d+%s_C32E_(\w)" % self.mod, tok)
        if m:
            return ["int:%d" % {"A": 0, "M": -1}[m.group(1)]]
        if re.fullmatch(r"'(.)'", tok):
            return ["int:%d" % ord(tok[1])]
        raise ValueError("token %r" % tok)


def parse_cexpr(text, modname):
    p = CParser(c_tokens(text), modname)
    e = p.expr()
    if p.i != len(p.t):
        raise ValueError("trailing tokens in %r" % text)
    return ",".join(e)


def parse_float_rhs(text):
    """'((double)0.1)' -> (cast bits 32|64|None, python float)"""
    t = text.strip()
    while t.startswith("(") and t.endswith(")") and _balanced(t[1:-1]):
        t = t[1:-1].strip()
    m = re.match(r"\(\s*(float|double)(?:\s+const)?\s*\)\s*(.*)$", t)
    cast = None
    if m:
        cast = 32 if m.group(1) == "float" else 64
        t = m.group(2).strip()
    while t.startswith("(") and t.endswith(")") and _balanced(t[1:-1]):
        t = t[1:-1].strip()
    if t == "NAN":
        return cast, float("nan")
    if t == "INFINITY":
        return cast, float("inf")
    return cast, float(t.rstrip("fFlL") if not t.lower().startswith("0x") else t)


def _balanced(s):
    d = 0
    for ch in s:
        if ch == "(":
            d += 1
        elif ch == ")":
            d -= 1
            if d < 0:
                return False
    return d == 0


def call_sites(ctext, modname, funcs):
    """-> {func name: [ (result cname, first condition text, rest conditions) ... ]} from the generated C"""
    out = {}
    pat = re.compile(r"^\s*(?:(\w+) = )?__pyx_f_\d+%s_(vf_\w+)\([^;]*\); if \(unlikely\((.*)\)\) __PYX_ERR" % modname, re.M)
    for m in pat.finditer(ctext):
        cond = m.group(3)
        parts = cond.split(" && ")
        out.setdefault(m.group(2), []).append((m.group(1), parts[0], parts[1:]))
    return out


def split_test(first, rc):
    """'__pyx_t_1 == RHS' | '__PYX_CHECK_FLOAT_EXCEPTION(__pyx_t_1, RHS)' -> (macro?, rhs text)"""
    pre = rc + " == "
    if first.startswith(pre):
        return False, first[len(pre):]
    m = re.fullmatch(r"__PYX_CHECK_FLOAT_EXCEPTION\(%s, (.*)\)" % re.escape(rc), first)
    if m:
        return True, m.group(1)
    raise ValueError("unrecognised test %r" % first)


# ----------------------------------------------------------------------------- gcc readback
def sweep_values(f, thorough):
    if f.isfloat:
        s = f.stored()
        vs = [s, -1.0, 0.0, 0.1, f32(0.1), 2.5, -0.3, f32(-0.3), float("nan"), float("inf"), -float("inf"), 7.0, 1e300]
        return [f.conv(v) for v in vs]
    lo, hi = (-(1 << (f.w - 1)), (1 << (f.w - 1)) - 1) if f.sg else (0, (1 << f.w) - 1)
    if f.w <= 16:
        return list(range(lo, hi + 1))
    s = f.stored()
    cand = {lo, lo + 1, -2, -1, 0, 1, 2, 254, 255, 256, 65534, 65535, 65536, (1 << 31) - 1, 1 << 31, (1 << 32) - 2,
            (1 << 32) - 1, 1 << 32, hi - 1, hi, s, s - 1, s + 1, f.pv, f.pv % (1 << 32), f.pv % (1 << 64),
            -(1 << 31), -(1 << 31) - 1, -(1 << 32)}
    return sorted(v for v in cand if lo <= v <= hi)


def c_int_literal(v):
    if v == -(1 << 63):
        return "(-9223372036854775807LL-1)"
    return "(%dLL)" % v if v < 0 else "%dULL" % v


def c_float_literal(x):
    if x != x:
        return "NAN"
    if math.isinf(x):
        return "INFINITY" if x > 0 else "(-INFINITY)"
    return float(x).hex()


def readback_source(ctext, modname, tests, thorough):
    """tests: list of (VFunc, result cname, first condition text).  C program printing, per test, the sweep values for
    which the verbatim condition is true."""
    L = ["#include <stdio.h>", "#include <stdint.h>", "#include <stddef.h>", "#include <math.h>", "#include <sys/types.h>",
         "typedef ssize_t Py_ssize_t;", "typedef uint32_t Py_UCS4;", "#define PY_LONG_LONG long long"]
    for m in re.finditer(r"^typedef [^;{}]+ __pyx_t_\d+%s_\w+;$" % modname, ctext, re.M):
        L.append(m.group(0))
    for m in re.finditer(r"^enum __pyx_t_\d+%s_\w+ \{[^}]*\};" % modname, ctext, re.M):
        L.append(m.group(0))
    m = re.search(r"#define __PYX_CHECK_FLOAT_EXCEPTION\(.*?\n(?:.*\\\n)*.*\n", ctext)
    if m:
        L.append(m.group(0))
    ctype_c = {"bint": "int", "Py_ssize_t": "Py_ssize_t", "c32_us_t": None}
    main = ["int main(void) {"]
    for i, (f, rc, first) in enumerate(tests):
        cty = f.ctype
        if cty == "c32_us_t":
            cty = re.search(r"__pyx_t_\d+%s_c32_us_t" % modname, ctext).group(0)
        cty = ctype_c.get(cty) or cty
        cond = re.sub(r"\b%s\b" % re.escape(rc), "c32_r", first)
        L.append("static int t_%d(%s c32_r) { return (%s) ? 1 : 0; }" % (i, cty, cond))
        vals = sweep_values(f, thorough)
        if f.isfloat:
            L.append("static const double v_%d[] = {%s};" % (i, ", ".join(c_float_literal(v) for v in vals)))
        elif f.w <= 16:
            lo = vals[0]
            main.append('  printf("%d:"); for (long k = %d; k <= %d; k++) if (t_%d((%s)k)) printf(" %%ld", k); printf("\\n");'
                        % (i, lo, vals[-1], i, cty))
            continue
        else:
            L.append("static const %s v_%d[] = {%s};" % (cty, i, ", ".join("(%s)%s" % (cty, c_int_literal(v)) for v in vals)))
        main.append('  printf("%d:"); for (int k = 0; k < %d; k++) if (t_%d((%s)v_%d[k])) printf(" #%%d", k); printf("\\n");'
                    % (i, len(vals), i, cty, i))
    main += ["  return 0;", "}"]
    return "\n".join(L + main) + "\n"


def run_readback(wd, src):
    p = os.path.join(wd, "c32_readback.c")
    with open(p, "w") as fh:
        fh.write(src)
    exe = os.path.join(wd, "c32_readback")
    r = subprocess.run(["gcc", "-O0", "-w", p, "-o", exe, "-lm"], capture_output=True, text=True, timeout=300)
    if r.returncode != 0:
        return None, r.stderr[-1500:]
    r = subprocess.run([exe], capture_output=True, text=True, timeout=120)
    out = {}
    for line in r.stdout.splitlines():
        k, _, rest = line.partition(":")
        out[int(k)] = rest.split()
    return out, None


# ----------------------------------------------------------------------------- compiler dump of (c_repr, constant type)
DUMP_V = r'''
import sys, os, io, json
import pyload; pyload.install()
from Cython.Compiler import Main, Options
pyload.assert_sources()
spec = json.load(sys.stdin)
out = {}
for path, modname in spec["jobs"]:
    directives = dict(Options.get_directive_defaults()); directives["language_level"] = 3
    opts = Main.CompilationOptions(Main.default_options, compiler_directives=directives,
                                   output_file=os.path.splitext(path)[0] + "_dump.c")
    ctx = Main.Context.from_options(opts)
    err = io.StringIO(); old = sys.stderr; sys.stderr = err
    try:
        res = Main.run_pipeline(path, opts, modname, ctx)
    finally:
        sys.stderr = old
    rows = {}
    for name, e in ctx.modules[modname].entries.items():
        t = e.type
        if getattr(t, "is_cfunction", 0) and name.startswith("vf_"):
            ev = t.exception_value
            rows[name] = None if ev is None else [str(ev), ev.type.declaration_code("").strip(), bool(t.exception_check),
                                                  t.return_type.declaration_code("").strip()]
    out[modname] = {"rows": rows, "nerr": res.num_errors, "err": err.getvalue()[-2000:]}
print(json.dumps(out))
'''


def classify(f):
    """class of a value-level failure, from the input only"""
    if f.isfloat:
        if f.sclass == "flit" and f.w == 32 and f32(f.pv) != f.pv:
            return "float_function_sentinel_literal_not_representable_in_float"
        return "sentinel_test_wrong/float"
    if f.sclass == "expr":
        return "sentinel_constant_expression_cast_to_its_own_type"
    return "sentinel_test_wrong/int"


# ----------------------------------------------------------------------------- the run
def callers_of_factory(thorough):
    def callers_of(f):
        if thorough or f.sshort in ("m1", "em2", "p1"):
            return CALLERS
        return ["asg", "ng"]
    return callers_of


def plan_modules(thorough):
    funcs = make_funcs(thorough)
    n = 5 if thorough else 3
    groups = [[] for _ in range(n)]
    # whole types stay together (one dispatcher per type and caller)
    order = []
    for f in funcs:
        if f.tname not in order:
            order.append(f.tname)
    for i, tn in enumerate(order):
        groups[i % n] += [f for f in funcs if f.tname == tn]
    co = callers_of_factory(thorough)
    mods = []
    for i, g in enumerate(groups):
        name = "c32_v%d" % i
        src, index = gen_module(g, co)
        mods.append(dict(name=name, funcs=g, source=src, index=index))
    return mods, co


def start_dump(cybuild, wd, mods):
    """compiler's own (c_repr, constant type, exception_check, return type) of every vf_ function; runs in a thread"""
    import threading
    d = os.path.join(wd, "vdump")
    os.makedirs(d, exist_ok=True)
    jobs = []
    for m in mods:
        p = os.path.join(d, m["name"] + ".pyx")
        with open(p, "w") as fh:
            fh.write(m["source"])
        jobs.append([p, m["name"]])
    box = {}

    def work():
        try:
            r = cybuild.run_script(DUMP_V, d, {"jobs": jobs}, name="dump_v.py")
            box["res"] = r["json"] if r["json"] else {"error": r["err"][-1500:]}
        except Exception as e:          # noqa
            box["res"] = {"error": repr(e)}
    th = threading.Thread(target=work)
    th.start()
    return th, box


def fval_tok(x):
    return "nan" if x != x else ("inf" if x == float("inf") else "-inf" if x == -float("inf") else float(x).hex())


def run_value(ctx, model, cybuild, mods, callers_of, dump_box, EXC_ID, EXC_NAME, dtag, model_expect):
    quick = ctx.tier == "quick"
    wd = ctx.workdir
    dump = dump_box.get("res") or {}
    if "error" in dump:
        ctx.corr_break("excspec:value_dump", "c32_v", dump["error"], "compiler dump of exception values")
        return
    tests = []          # (VFunc, modname, rc, first, macro, rhs, dump row)
    for m in mods:
        ctext = open(os.path.join(wd, m["name"] + ".c")).read()
        m["ctext"] = ctext
        sites = call_sites(ctext, m["name"], m["funcs"])
        rows = dump[m["name"]]["rows"]
        for f in m["funcs"]:
            want_sites = len(callers_of(f))
            got = sites.get(f.name, [])
            row = rows.get(f.name)
            inp = {"module": m["name"], "func": f.name, "return": f.ctype, "clause": f.clause}
            if row is None or len(got) != want_sites:
                ctx.corr_break("excspec:value_sites", inp, "%d call sites with a sentinel test, dump=%r" % (len(got), row),
                               "%d call sites, declared sentinel" % want_sites)
                continue
            seen = {}
            for rc, first, rest in got:
                if rc is None:
                    ctx.corr_break("excspec:value_sites", inp, "call result not stored", "result temp for the test")
                    continue
                want_rest = [] if f.form == "ex" else None
                if f.form == "ex" and rest:
                    ctx.fail("wrong_outcome/ex/return", inp, "extra condition %r" % rest, "test on the value only")
                if f.form == "exq" and len(rest) != 1:
                    ctx.corr_break("excspec:value_sites", inp, rest, "&& PyErr_Occurred() / __Pyx_ErrOccurredWithGIL()")
                norm = re.sub(r"\b%s\b" % re.escape(rc), "R", first)
                if norm in seen:
                    continue
                seen[norm] = 1
                try:
                    macro, rhs = split_test(first, rc)
                except ValueError as e:
                    ctx.corr_break("excspec:test_text", inp, first, "result == constant: %s" % e)
                    continue
                tests.append((f, m["name"], rc, first, macro, rhs, row))
    # ---- static tie: emitted text == model's emitted text
    q, qi = [], []
    parsed = {}
    for i, (f, mn, rc, first, macro, rhs, row) in enumerate(tests):
        inp = {"module": mn, "func": f.name, "return": f.ctype, "clause": f.clause, "test": first}
        crepr, ctype_txt, ck, rtype_txt = row
        if f.isfloat:
            try:
                cast, c = parse_float_rhs(rhs)
                _, c0 = parse_float_rhs(crepr)
            except ValueError as e:
                ctx.corr_break("excspec:test_text", inp, rhs, "float constant: %s" % e)
                continue
            tws = type_ws(ctype_txt.split(), mn)
            want_cast = f.w if FX_CAST else (tws[1] if tws and tws[0] == "f" else None)
            parsed[i] = (macro, cast, c)
            same = (cast == want_cast) and (c == c0 or (c != c and c0 != c0))
            if not same:
                ctx.corr_break("excspec:test_text", inp, {"cast": cast, "const": repr(c)}, {"cast": want_cast, "const": repr(c0)})
            continue
        try:
            real = parse_cexpr(rhs, mn)
            e0 = parse_cexpr(crepr, mn)
            tws = type_ws(ctype_txt.split(), mn)
            if tws is None or tws[0] == "f":
                raise ValueError("constant type %r" % ctype_txt)
        except ValueError as e:
            ctx.corr_break("excspec:test_text", inp, rhs, "parsable constant expression: %s" % e)
            continue
        tc = (f.w, int(f.sg)) if FX_CAST else tws
        if f.tname == "bint":
            tc = (32, 1) if FX_CAST else tws
        parsed[i] = (real, e0, tc)
        q.append("emit %d:%d %s" % (tc[0], tc[1], e0)); qi.append(i)
    for i, ans in zip(qi, model.batch(q)):
        f, mn, rc, first, macro, rhs, row = tests[i]
        if ans != parsed[i][0]:
            ctx.corr_break("excspec:test_text", {"module": mn, "func": f.name, "return": f.ctype, "clause": f.clause,
                                                  "test": first}, parsed[i][0], ans)
    # ---- value tie: gcc on the verbatim text / extracted eq_test / oracle
    bymod = {}
    for i, t in enumerate(tests):
        if i in parsed:
            bymod.setdefault(t[1], []).append(i)
    for mn, idxs in bymod.items():
        ctext = [m for m in mods if m["name"] == mn][0]["ctext"]
        sub = os.path.join(wd, "rb_" + mn)
        os.makedirs(sub, exist_ok=True)
        src = readback_source(ctext, mn, [(tests[i][0], tests[i][2], tests[i][3]) for i in idxs], not quick)
        got, err = run_readback(sub, src)
        if got is None:
            ctx.corr_break("excspec:value_readback", mn, err, "the emitted test texts compile stand-alone")
            continue
        mq, mmeta = [], []
        for k, i in enumerate(idxs):
            f, _, rc, first, macro, rhs, row = tests[i]
            vals = sweep_values(f, not quick)
            raw = got.get(k, [])
            if f.isfloat or f.w > 16:
                gtrue = {int(x[1:]) for x in raw}                   # indices
                gset = None
            else:
                gset = {int(x) for x in raw}
            inp0 = {"module": mn, "func": f.name, "return": f.ctype, "clause": f.clause, "test": first}
            if f.isfloat:
                s = f.stored()
                orc = [(v == s) or (v != v and s != s) for v in vals]
                gbits = [j in gtrue for j in range(len(vals))]
                macro_, cast, c = parsed[i]
                mq.append("ftest %d %s %s %s" % (int(macro_), cast or "-", fval_tok(c), ",".join(fval_tok(v) for v in vals)))
                mmeta.append((i, vals, gbits, orc))
            else:
                s = f.stored()
                if gset is not None:
                    oset = {s} if vals[0] <= s <= vals[-1] else set()
                    ctx.count("value/gcc_sweep/%s" % f.tname, len(vals), distinct_sigs=[("vsweep", f.name)])
                    if gset != oset:
                        bad = sorted(gset ^ oset)[0]
                        ctx.fail(classify(f), dict(inp0, returned=bad), "test is %s" % (bad in gset),
                                 "true exactly for the sentinel converted to the return type (%d)" % s)
                    mv = sorted(set(v for v in sweep_boundary(f) if vals[0] <= v <= vals[-1]) | gset | oset)
                    gbits = [v in gset for v in mv]
                    orc = [v in oset for v in mv]
                    vals2 = mv
                else:
                    gbits = [j in gtrue for j in range(len(vals))]
                    orc = [v == s for v in vals]
                    vals2 = vals
                real = parsed[i][0]
                mq.append("vtest %d:%d - %s %s" % (f.w, int(f.sg), real, ",".join(str(v) for v in vals2)))
                mmeta.append((i, vals2, gbits, orc))
        for (i, vals, gbits, orc), ans in zip(mmeta, model.batch(mq)):
            f, _, rc, first, macro, rhs, row = tests[i]
            inp0 = {"module": mn, "func": f.name, "return": f.ctype, "clause": f.clause, "test": first}
            for v, g, o, a in zip(vals, gbits, orc, ans):
                ctx.case("value/test/%s/%s" % (f.tname, f.sclass), dict(inp0, returned=repr(v)),
                         sig=("vtest", f.name, first, repr(v)))
                if a not in "01" or (a == "1") != g:
                    ctx.corr_break("excspec:value_test", dict(inp0, returned=repr(v)), g, a)
                if g != o and not (f.w <= 16 and not f.isfloat):
                    ctx.fail(classify(f), dict(inp0, returned=repr(v)), "test is %s" % g,
                             "true exactly for the sentinel converted to the return type (%r)" % f.stored())
    run_behaviour(ctx, model, cybuild, mods, callers_of, dump, EXC_ID, EXC_NAME, dtag, model_expect)


def sweep_boundary(f):
    s = f.stored()
    lo, hi = (-(1 << (f.w - 1)), (1 << (f.w - 1)) - 1) if f.sg else (0, (1 << f.w) - 1)
    return {lo, lo + 1, -2, -1, 0, 1, 2, 127, 128, 254, 255, 256, hi - 1, hi, s, s - 1, s + 1}


def run_behaviour(ctx, model, cybuild, mods, callers_of, dump, EXC_ID, EXC_NAME, dtag, model_expect):
    quick = ctx.tier == "quick"
    wd = ctx.workdir
    cases, mq, fq = [], [], []
    for m in mods:
        rows = dump[m["name"]]["rows"]
        for f in m["funcs"]:
            row = rows.get(f.name)
            if row is None:
                continue
            crepr, ctype_txt, ck, rtype_txt = row
            tws = type_ws(ctype_txt.split(), m["name"])
            plan = [(0, v) for v in f.values(not quick)] + [(1, 0)]
            for caller in callers_of(f):
                if (f.name, caller) not in m["index"]:
                    continue
                dn, fid = m["index"][(f.name, caller)]
                for mode, val in plan:
                    rv = f.conv(val)
                    s = f.stored()
                    hit = (rv == s) or (f.isfloat and rv != rv and s != s)
                    if f.form == "ex" and mode != 1 and hit:
                        continue                   # outside the contract of plain 'except v' (and crashes on 3.12)
                    cases.append(dict(mod=m["name"], fn=dn, fid=fid, f=f, caller=caller, mode=mode, val=val, rv=rv,
                                      row=row, tws=tws))
    # model expectations
    chk = {True: "y", False: "n"}
    for c in cases:
        f = c["f"]
        crepr, ctype_txt, ck, rtype_txt = c["row"]
        cn = "1" if c["caller"] == "ng" else "0"
        if f.isfloat:
            cast, c0 = parse_float_rhs(crepr)
            tcb = f.w if FX_CAST else (c["tws"][1] if c["tws"] and c["tws"][0] == "f" else None)
            c["fq"] = len(fq)
            fq.append("ftest 1 %s %s %s" % (tcb or "-", fval_tok(c0), fval_tok(f.stored())))
        else:
            e0 = parse_cexpr(crepr, c["mod"])
            tc = (f.w, int(f.sg)) if FX_CAST else c["tws"]
            if f.tname == "bint" and FX_CAST:
                tc = (32, 1)
            body = "raise=%d" % EXC_ID["ValueError"] if c["mode"] == 1 else "ret=i:%d" % c["rv"]
            c["mq"] = len(mq)
            mq.append("vobs %d:%d %d:%d %s %s nogil %s %s -" % (tc[0], tc[1], f.w, int(f.sg), e0, chk[ck], cn, body))
    fres = model.batch(fq)
    q2 = []
    for c in cases:
        f = c["f"]
        if f.isfloat:
            # composition for floating types (the value test is the extracted float_test; the decision model works
            # on tags): a test that does not accept the stored error value behaves like a site without check
            fires = fres[c["fq"]] == "1"
            crepr, ctype_txt, ck, rtype_txt = c["row"]
            fsp = "%s/%s" % (dtag(f.stored()), chk[ck])
            psp = fsp if fires else "-/n"
            body = "raise=%d" % EXC_ID["ValueError"] if c["mode"] == 1 else "ret=" + dtag(c["rv"])
            c["mq"] = len(mq) + len(q2)
            q2.append("obs %s %s F nogil %s %s -" % (psp, fsp, "1" if c["caller"] == "ng" else "0", body))
    mres = model.batch(mq) + model.batch(q2)
    # run
    calls, owners = [], []
    B = 400
    chunk, own = [], []
    for i, c in enumerate(cases):
        f = c["f"]
        v = repr(float(c["val"])) if f.isfloat else wrap(64, True, c["val"])
        chunk.append([c["mod"], c["fn"], c["fid"], c["mode"], "d" if f.isfloat else "x", v, 0, False])
        own.append(i)
        if len(chunk) == B:
            calls.append(["c32_drv.batch", [chunk]]); owners.append(own); chunk, own = [], []
    if chunk:
        calls.append(["c32_drv.batch", [chunk]]); owners.append(own)
    res = cybuild.call_cases(wd, calls, setup="import c32_drv", alarm=120, timeout=1500, max_crashes=50)
    obs = [None] * len(cases)
    redo = []
    for (fx, args), own, r in zip(calls, owners, res):
        if "e" in r:
            redo += own
            continue
        for i, o in zip(own, json.loads(ast.literal_eval(r["r"]))):
            obs[i] = o
    if redo:
        calls2 = []
        for i in redo:
            c = cases[i]
            f = c["f"]
            v = repr(float(c["val"])) if f.isfloat else wrap(64, True, c["val"])
            calls2.append(["c32_drv.run", [c["mod"], c["fn"], c["fid"], c["mode"], "d" if f.isfloat else "x", v, 0, False]])
        for i, r in zip(redo, cybuild.call_cases(wd, calls2, setup="import c32_drv", alarm=60, timeout=1500)):
            obs[i] = json.loads(ast.literal_eval(r["r"])) if "r" in r else [["crash", r.get("e"), r.get("m", "")], [], 0]
    for i, c in enumerate(cases):
        f, o = c["f"], obs[i]
        if o is None:
            continue
        inp = {"module": c["mod"], "func": c["fn"], "fid": c["fid"], "callee": f.name, "return": f.ctype,
               "clause": f.clause, "caller": c["caller"], "mode": c["mode"], "val": repr(c["val"])}
        body = "raise" if c["mode"] == 1 else "handled" if c["mode"] == 2 else "ret"
        ctx.case("value/run/%s/%s/%s/%s/%s" % (c["caller"], f.tname, f.sclass, f.form, body), inp,
                 sig=("vrun", c["mod"], c["fn"], c["fid"], c["mode"], repr(c["val"])))
        out, log, _ = o
        # observation -> (kind, value, pend)
        if out[0] == "ok":
            _, r, pend = out[1]
            if isinstance(r, dict):
                r = float(r["f"])
            ob = ("ok", r, pend, log)
        else:
            ob = (out[0], out[1], None, log)
        m = mres[c["mq"]]
        if m == "UNDEF" or m.startswith("!"):
            ctx.corr_break("excspec:value_observe", inp, ob, m)
            continue
        e = model_expect(None, m)
        if e["err"]:
            okm = ob[0] == "exc" and ob[1] == e["pend"] and log == e["unr"]
        else:
            okm = ob[0] == "ok" and ob[2] == e["pend"] and log == e["unr"]
            if okm and c["caller"] != "stmt":
                if f.isfloat:
                    okm = dtag(float(ob[1])) == e["val"][0:] if e["val"].startswith("d:") else False
                else:
                    got_v = wrap(f.w, f.sg, ob[1]) if c["caller"] == "expr" else ob[1]
                    okm = ("i:%d" % got_v) == e["val"]
        if e["viol"] != 0:
            ctx.corr_break("excspec:gil", inp, "ran", "model predicts thread-state access without the GIL: " + m)
        if not okm:
            ctx.corr_break("excspec:value_observe", inp, list(ob), {k: e[k] for k in ("err", "val", "pend", "unr")})
        # documented semantics
        if c["mode"] == 1:
            good = ob[0] == "exc" and ob[1] == "ValueError" and log == []
            want = ["exc", "ValueError"]
        else:
            rv = c["rv"]
            want = ["ok", None if c["caller"] == "stmt" else rv, None, []]
            good = ob[0] == "ok" and ob[2] is None and log == []
            if good and c["caller"] != "stmt":
                got_v = wrap(f.w, f.sg, ob[1]) if (c["caller"] == "expr" and not f.isfloat) else ob[1]
                good = (got_v == rv) or (f.isfloat and got_v != got_v and rv != rv)
        if not good:
            ctx.fail(classify(f), inp, list(ob), want, note="model: " + m)
