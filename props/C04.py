"""C04 - overflowcheck reports exactly the overflowing C arithmetic (DESIGN 7/C04)."""
import json, os, re, subprocess, time
import cybuild

TITLE = "overflowcheck reports exactly the overflowing C arithmetic"
EXTRACTS = ["Overflow"]
RULE = ("operand tuples per (C type, operator or expression tree, variable/constant operand, fold on/off, "
        "preprocessor branch of Overflow.c); exhaustive for 8-bit types (run inside the module), boundary "
        "lattice + PRNG values for 16/32/64-bit types; distinct by (module, function, operands); non-trivial "
        "= operands reach the helper (every case does; strata separate fits / overflows / spurious); "
        "typedef'd types: every spelling that reaches the helpers other than by a literal base name (ctypedef "
        "aliases of each width/signedness, chained aliases, libc.stdint, extern ctypedefs whose real width is "
        "8/16/32/64 under a declared int/unsigned int/long, signed long, Py_hash_t, ptrdiff_t, char, bint, enum) "
        "x (+ - * << unary-, T-typed constant operand, in-place, folded a*b+c) x corner pairs of the type's "
        "limits {min,min+1,-1,0,1,2,max-1,max}^2 + lattice samples; the instantiated Binop if-chain of every "
        "such type is read from the generated C and interpreted at every width/signedness")
EXPLANATION = ("theorems (all widths >= 8, all in-range operands, every __builtin_constant_p outcome): each "
               "portable helper of Overflow.c (unsigned/signed add, sub, mul, mul_const, widening paths) "
               "returns the wrapped exact result and sets the bit iff the exact result does not fit, equals "
               "the __builtin_*_overflow contract, and its own operations are free of UB; lshift is sound and "
               "complete with its spurious set characterised exactly; abs and // (C03 model) are exact; the "
               "folded check of ConsolidateOverflowCheck raises iff the unfolded one does. Correspondence: "
               "extracted model vs compiled modules (gcc builtin branch; clang -D__ibmxl__ portable branch in "
               "thorough) vs Python big-int oracle. Typedef'd result types: the sizeof dispatch of Binop picks the "
               "base helper of exactly the type's width and signedness and is exact for every sane width >= int; "
               "any guard that lets a width take the unchecked shortcut is refuted by a witness for every "
               "operator and signedness (so 'sizeof(T) <= sizeof(int)' fails at int-sized typedefs); LeftShift at "
               "a typedef of any width is sound and complete; the generated if-chain is interpreted and compared "
               "with the model's choice. partial: the sizeof(T)<sizeof(int) arm of Binop is unchecked in the code "
               "and IS reached by an extern typedef really narrower than int (refuted, known finding; the repaired "
               "arm is proved exact for all widths); nested expressions over such a type are compared with the "
               "oracle only; the fold theorem is about the tree "
               "model of the transform; mixed signed/unsigned operands are outside the property's quantifier.")
TRUSTED = ["model of C arithmetic: explicit two's-complement wrap per operation at the width of its C type (Lib/CInt.v)",
           "contract of __builtin_{add,sub,mul}_overflow as documented by gcc/clang (builtin_res)",
           "gcc / clang as conforming C compilers for the generated module; clang -D__ibmxl__ selects the portable branch (checked with -E -dM)",
           "M_CMath.div_node (C03) for '//'"]
ASSUMPTIONS = ["LP64: char 8, short 16, int 32, long/long long 64 bits (theorems are for all widths; the "
               "widening multiplication needs 2*w <= width of the wider type, true on LP64 and LLP64)",
               "operands of one binary operation have the same C type (or one is an integer literal)"]

# set to True once the proposed fix C04-unary_neg_unchecked is applied to the tree
NEG_CHECKED = os.environ.get("C04_NEG_CHECKED", "1") == "1"   # (env override: trying the fix in a worktree)

# set to "1" once proposed_fixes/C04-extern_typedef_narrower_than_int_unchecked.diff is applied to the tree
NARROW_FIXED = os.environ.get("C04_NARROW_FIXED", "1") == "1"

# (ctype, name, width, signed)
TYPES = [("signed char", "schar", 8, True), ("short", "short", 16, True), ("int", "int", 32, True),
         ("long", "long", 64, True), ("long long", "longlong", 64, True),
         ("unsigned char", "uchar", 8, False), ("unsigned short", "ushort", 16, False),
         ("unsigned int", "uint", 32, False), ("unsigned long", "ulong", 64, False),
         ("unsigned long long", "ulonglong", 64, False),
         ("Py_ssize_t", "ssize_t", 64, True), ("size_t", "size_t", 64, False)]
TYPE_BY_NAME = {t[1]: t for t in TYPES}
OPS = [("add", "+"), ("sub", "-"), ("mul", "*"), ("lshift", "<<")]
SYM = dict(OPS)
RCONST = {"add": [1, -1, 100], "sub": [1, -1, 100], "mul": [0, 1, 2, 3, -1, -3, 7, 65536],
          "lshift": [0, 1, 3, 31, 32, 63, 64]}
LCONST = {"add": [1], "sub": [10, -1], "mul": [3, -2], "lshift": [1, 5]}
RCONST_QUICK = {"add": [1, -1], "sub": [1, -1], "mul": [0, 2, -1, -3, 65536], "lshift": [0, 3, 31, 64]}
LCONST_QUICK = {"add": [1], "sub": [-1], "mul": [-2], "lshift": [1]}
# helper-name suffix in the generated C -> (width, signed)
CNAME = {"int": (32, True), "long": (64, True), "PY_LONG_LONG": (64, True), "Py_ssize_t": (64, True),
         "unsigned_int": (32, False), "unsigned_long": (64, False), "unsigned_PY_LONG_LONG": (64, False),
         "size_t": (64, False)}
# expression trees (prefix); v0 v1 v2 have the same C type, so every node has the promoted type
FIXED_TREES = ["+ * v0 v1 v2", "* + v0 v1 - v0 v2", "- * v0 v1 * v2 v0", "+ << v0 v1 v2",
               "* * v0 v1 v2", "- - v0 v1 v2", "+ v0 + v1 + v2 v0", "<< + v0 v1 v2"]


def rng_of(w, sg):
    return (-(2 ** (w - 1)), 2 ** (w - 1) - 1) if sg else (0, 2 ** w - 1)


def cn(c):
    return ("m%d" % -c) if c < 0 else str(c)


def restype(w, sg, const=None):
    """C result type of T op T (integer promotions) resp. T op literal (a literal is a C long)."""
    if const is not None:
        return (64, not (w == 64 and not sg))
    return (max(w, 32), sg or w < 32)


def tree_src(toks):
    t = toks.pop(0)
    if t in ("+", "-", "*", "<<"):
        a = tree_src(toks); b = tree_src(toks)
        return "(%s %s %s)" % (a, t, b)
    return "abc"[int(t[1:])]


def tree_exact(toks, env, lo, hi):
    """(value, must_raise): exact evaluation; must_raise if some sub-operation's exact result does not fit"""
    t = toks.pop(0)
    if t in ("+", "-", "*", "<<"):
        a, ra = tree_exact(toks, env, lo, hi)
        b, rb = tree_exact(toks, env, lo, hi)
        if ra or rb:
            return None, True
        if t == "<<":
            if b < 0 or b > 200:
                return None, True
            v = a << b
        else:
            v = a + b if t == "+" else a - b if t == "-" else a * b
        return (v, False) if lo <= v <= hi else (None, True)
    return env[int(t[1:])], False


def random_trees(rng, n):
    out = []
    def gen(d):
        if d == 0 or rng.random() < 0.25:
            return ["v%d" % rng.randrange(3)]
        op = rng.choice(["+", "-", "*", "<<", "+", "-", "*"])
        return [op] + gen(d - 1) + gen(d - 1)
    while len(out) < n:
        t = gen(3)
        if len(t) >= 5:
            out.append(" ".join(t))
    return out


def vec_func(name, ctype, nargs, expr, ctype2=None):
    argn = "abc"[:nargs]
    L = ["def %s(cases):" % name,
         ("    cdef %s a\n    cdef %s b" % (ctype, ctype2)) if ctype2 else
         "    cdef %s %s" % (ctype, ", ".join(argn)),
         "    out = []",
         "    for t in cases:"]
    L.append("        " + "; ".join("%s = t[%d]" % (v, i) for i, v in enumerate(argn)))
    L += ["        try:", "            out.append(%s)" % expr,
          "        except OverflowError:", "            out.append('O')",
          "        except ZeroDivisionError:", "            out.append('Z')",
          "    return ','.join([str(x) for x in out])", ""]
    return L


GROUPS = {"1": ["schar", "short", "int"], "2": ["long", "longlong", "ssize_t"],
          "3": ["uchar", "ushort", "uint"], "4": ["ulong", "ulonglong", "size_t"]}


def module_plan(trees, quick=False):
    """[(module name, functions, fold, types whose 8-bit sweeps live there)]: several small modules
    so that they build in parallel"""
    plan = []
    for g, names in sorted(GROUPS.items()):
        plan.append(("c04_f" + g, functions(trees, True, names, quick), True,
                     [n for n in names if n in ("schar", "uchar")]))
    plan.append(("c04_n1", functions(trees, False, GROUPS["1"] + GROUPS["2"]), False, []))
    plan.append(("c04_n2", functions(trees, False, GROUPS["3"] + GROUPS["4"]), False, []))
    return plan


def functions(trees, full, names, quick=False):
    """list of dict(name, type, kind, op, const, expr, nargs, tree)"""
    F = []
    for ct, nm, w, sg in TYPES:
        if nm not in names:
            continue
        for op, sym in OPS:
            F.append(dict(name="f_%s_%s" % (op, nm), ty=nm, kind="var", op=op, nargs=2, expr="a %s b" % sym))
        for i, tr in enumerate(trees):
            F.append(dict(name="t%d_%s" % (i, nm), ty=nm, kind="tree", tree=tr, nargs=3,
                          expr=tree_src(tr.split())))
        F.append(dict(name="f_neg_%s" % nm, ty=nm, kind="neg", nargs=1, expr="-a"))
        if not full:
            continue
        for op, sym in OPS:
            for c in (RCONST_QUICK if quick else RCONST)[op]:
                F.append(dict(name="r_%s_%s_%s" % (op, nm, cn(c)), ty=nm, kind="rconst", op=op, const=c,
                              nargs=1, expr="a %s (%d)" % (sym, c)))
            for c in (LCONST_QUICK if quick else LCONST)[op]:
                F.append(dict(name="l_%s_%s_%s" % (op, nm, cn(c)), ty=nm, kind="lconst", op=op, const=c,
                              nargs=1, expr="(%d) %s a" % (c, sym)))
        if sg and nm in ("int", "long"):
            # signed variable operand with an unsigned one of the same rank: the result type is unsigned
            for op, sym in OPS[:3]:
                F.append(dict(name="x_%s_%s" % (op, nm), ty=nm, ty2="u" + nm, kind="mix", op=op, nargs=2,
                              expr="a %s b" % sym))
        F.append(dict(name="f_abs_%s" % nm, ty=nm, kind="abs", nargs=1, expr="abs(a)"))
        F.append(dict(name="f_div_%s" % nm, ty=nm, kind="div", nargs=2, expr="a // b"))
        if sg:
            F.append(dict(name="r_div_%s_m1" % nm, ty=nm, kind="divc", const=-1, nargs=1, expr="a // (-1)"))
    return F


def gen_source(funcs, fold, sweeps):
    L = ["# cython: language_level=3, overflowcheck=True, overflowcheck.fold=%s" % ("True" if fold else "False"), ""]
    for f in funcs:
        L += vec_func(f["name"], TYPE_BY_NAME[f["ty"]][0], f["nargs"], f["expr"],
                      TYPE_BY_NAME[f["ty2"]][0] if "ty2" in f else None)
    if sweeps:
        for ct, nm, lo, hi in [("signed char", "schar", -128, 128), ("unsigned char", "uchar", 0, 256)]:
            if nm not in sweeps:
                continue
            for op, sym in OPS:
                L += ["def sweep_%s_%s():" % (op, nm),
                      "    cdef %s a, b" % ct, "    cdef int i, j", "    out = []",
                      "    for i in range(%d, %d):" % (lo, hi),
                      "        for j in range(%d, %d):" % (lo, hi),
                      "            a = <%s>i; b = <%s>j" % (ct, ct),
                      "            try:", "                out.append(a %s b)" % sym,
                      "            except OverflowError:", "                out.append('O')",
                      "    return ','.join([str(x) for x in out])", ""]
            L += ["def sweep_neg_%s():" % nm, "    cdef %s a" % ct, "    cdef int i", "    out = []",
                  "    for i in range(%d, %d):" % (lo, hi), "        a = <%s>i" % ct,
                  "        try:", "            out.append(-a)",
                  "        except OverflowError:", "            out.append('O')",
                  "    return ','.join([str(x) for x in out])", ""]
    return "\n".join(L)


def lattice(w, sg, rng, nrand):
    lo, hi = rng_of(w, sg)
    vals = {lo, lo + 1, lo + 2, hi, hi - 1, hi - 2, 0, 1, 2, 3, 7, 31, 32, 33, 63, 64, 65,
            hi // 2, hi // 2 + 1, hi // 3, hi // 3 + 1, hi // 7}
    r = int(2 ** (w / 2.0))
    vals |= {r, r + 1, r - 1, 1 << (w // 2), (1 << (w // 2)) - 1, (1 << (w // 2)) + 1}
    if w > 32:
        vals |= {2 ** 31 - 1, 2 ** 31, 2 ** 32 - 1, 2 ** 32, 46341, 46340, 3037000499, 3037000500}
    if w == 32:
        vals |= {46340, 46341, 65535, 65536, 23170, 23171}
    if sg:
        vals |= {-1, -2, -3, -7, lo // 2, lo // 2 - 1, lo // 2 + 1, lo // 3, lo // 3 - 1, -r, -r - 1, -(1 << (w // 2))}
    for _ in range(nrand):
        k = rng.randrange(1, w + 1)
        v = rng.getrandbits(k)
        if sg and rng.random() < 0.5:
            v = -v
        vals.add(v)
    return sorted(v for v in vals if lo <= v <= hi)


def inspect_c(c_file, funcs):
    """helper names called from each generated function body -> {fname: set((op, const?, cname))}"""
    txt = open(c_file).read()
    pos = [(m.start(), m.group(1)) for m in re.finditer(
        r"^static PyObject \*__pyx_pf_\w+?_\d*((?:f|r|l|x|t\d+)_\w+|sweep_\w+)\(.*\) \{", txt, re.M)]
    used = {}
    for i, (p, fn) in enumerate(pos):
        end = pos[i + 1][0] if i + 1 < len(pos) else txt.find("static PyMethodDef", p)
        body = txt[p:end]
        s = set()
        for m in re.finditer(r"= (__Pyx_(add|sub|mul|div|lshift)(_const)?_(\w+?)_(checking_overflow|no_overflow))\(", body):
            s.add((m.group(2), bool(m.group(3)), m.group(4), m.group(5)))
        used[fn] = s
    return used


def expected_of(f, w, sg, args):
    """property oracle (independent of the model): ('val', v) must be that value or a spurious 'O';
    ('raise',) must raise; result type by the C promotion rule."""
    k = f["kind"]
    a = args[0]
    if k in ("var", "rconst", "lconst", "mix"):
        if k == "var":
            x, y, (rw, rs) = a, args[1], restype(w, sg)
        elif k == "mix":
            x, y, (rw, rs) = a, args[1], (w, False)
        elif k == "rconst":
            x, y, (rw, rs) = a, f["const"], restype(w, sg, f["const"])
        else:
            x, y, (rw, rs) = f["const"], a, restype(w, sg, f["const"])
        lo, hi = rng_of(rw, rs)
        op = f["op"]
        if op == "lshift":
            if y < 0:
                return ("raise",)
            if y > 200:
                return ("raise",) if x != 0 else ("val", 0)
            v = x << y
        else:
            v = x + y if op == "add" else x - y if op == "sub" else x * y
        return ("val", v) if lo <= v <= hi else ("raise",)
    if k == "neg":
        rw, rs = restype(w, sg)
        lo, hi = rng_of(rw, rs)
        return ("val", -a) if lo <= -a <= hi else ("raise",)
    if k == "abs":
        # abs(int/long/long long) returns that type; other types go through the Python object protocol
        if sg and f["ty"] in ("int", "long", "longlong"):
            lo, hi = rng_of(w, sg)
            return ("val", abs(a)) if abs(a) <= hi else ("raise",)
        return ("val", abs(a))
    if k in ("div", "divc"):
        b = args[1] if k == "div" else f["const"]
        if b == 0:
            return ("zero",)
        rw, rs = restype(w, sg, None if k == "div" else b)
        lo, hi = rng_of(rw, rs)
        q = a // b
        return ("val", q) if lo <= q <= hi else ("raise",)
    if k == "tree":
        rw, rs = restype(w, sg)
        lo, hi = rng_of(rw, rs)
        v, must = tree_exact(f["tree"].split(), args, lo, hi)
        return ("raise",) if must else ("val", v)
    raise ValueError(k)


def model_query(f, w, sg, args, builtin, fold, single=False):
    k = f["kind"]
    B = 1 if builtin else 0
    if k in ("var", "rconst", "lconst", "mix"):
        if k == "var":
            x, y, (rw, rs) = args[0], args[1], restype(w, sg)
        elif k == "mix":
            x, y, (rw, rs) = args[0], args[1], (w, False)
        elif k == "rconst":
            x, y, (rw, rs) = args[0], f["const"], restype(w, sg, f["const"])
        else:
            x, y, (rw, rs) = f["const"], args[0], restype(w, sg, f["const"])
        if not rs:
            # C converts a negative operand (variable or literal) to the unsigned result type first
            x, y = x % 2 ** rw, y % 2 ** rw
        if single:
            return "op %d %s %d %d 64 64 0 0 0 %d %d" % (B, f["op"], rw, rs, x, y)
        return "opall %d %s %d %d 64 64 %d %d" % (B, f["op"], rw, rs, x, y)
    if k == "neg":
        rw, rs = restype(w, sg)
        return "neg %d %d %d %d" % (1 if NEG_CHECKED else 0, rw, rs, args[0])
    if k == "abs":
        # only abs(int/long/long long) is the C function guarded by the __PYX_MIN test; the other
        # types are converted to Python objects (not Overflow.c): oracle only, no model
        return "abs %d %d" % (w, args[0]) if (sg and f["ty"] in ("int", "long", "longlong")) else "skip"
    if k in ("div", "divc"):
        b = args[1] if k == "div" else f["const"]
        rw, rs = restype(w, sg, None if k == "div" else b)
        return "div %d %d %d %d %d" % (rw, rs, 0 if k == "div" else 1, args[0], b)
    if k == "tree":
        rw, rs = restype(w, sg)
        return "tree %d %d 64 64 %d %d %s %s" % (B, rw, rs, 1 if fold else 0,
                                               ",".join(str(x) for x in args), f["tree"])
    raise ValueError(k)


def classify(f, w, sg, args):
    if f["kind"] == "neg":
        rw, rs = restype(w, sg)
        if rs and args[0] == rng_of(rw, rs)[0]:
            return "unary_neg_signed_min_unchecked"
        if not rs and args[0] > 0:
            return "unary_neg_unsigned_wraps"
    if f["kind"] in ("rconst", "lconst") and f["const"] < 0 and not restype(w, sg, f["const"])[1]:
        return "negative_operand_converted_to_unsigned"
    if f["kind"] == "mix" and args[0] < 0:
        return "negative_operand_converted_to_unsigned"
    return "wrong_result_%s" % f["kind"]


def parse_out(r):
    if "e" in r:
        return None
    s = r["r"]
    if s.startswith("'") or s.startswith('"'):
        s = s[1:-1]
    return s.split(",") if s else []


def check_types(ctx, modname, funcs, used):
    """the helper the compiler chose for every function is the one of the C result type"""
    for f in funcs:
        ct, nm, w, sg = TYPE_BY_NAME[f["ty"]]
        u = used.get(f["name"])
        if u is None:
            ctx.corr_break("inspect_c", {"module": modname, "func": f["name"]}, "function body not found", "found")
            continue
        for (op, isconst, cname, kindsuffix) in u:
            if op == "div" or kindsuffix == "no_overflow":
                ctx.corr_break("dead-helper assumption", {"module": modname, "func": f["name"]},
                               "__Pyx_%s_%s_%s is called" % (op, cname, kindsuffix),
                               "never called (div helpers / unchecked macros unreachable)")
                continue
            if cname not in CNAME:
                ctx.corr_break("result type", {"module": modname, "func": f["name"]}, cname, "known type name")
                continue
            k = f["kind"]
            want = restype(w, sg, f.get("const")) if k in ("rconst", "lconst") else ((w, False) if k == "mix" else restype(w, sg))
            if k in ("var", "rconst", "lconst", "tree", "mix") and CNAME[cname] != want:
                ctx.corr_break("result type", {"module": modname, "func": f["name"]},
                               "%s %s" % (cname, CNAME[cname]), "%s" % (want,))
        if f["kind"] in ("var", "rconst", "lconst") and not u:
            ctx.corr_break("result type", {"module": modname, "func": f["name"]}, "no helper call", "checked helper")


# ---------------------------------------------------------------------------------------------
# typedef'd / non-literal C integer types: every way a C integer type reaches the helpers other than
# by its literal name.  route "T": the result type of T op T is T itself, so Binop / LeftShift are
# instantiated at the typedef name and the sizeof if-chain picks the callee at C compile time;
# route "int": the declared rank is below int, the operation is promoted to plain int.
TD_PREAMBLE = '''from libc.stdint cimport int8_t, int16_t, int32_t, int64_t, uint8_t, uint16_t, uint32_t, uint64_t
cdef extern from *:
    """
    typedef signed char c04x_i8; typedef short c04x_i16; typedef int c04x_i32; typedef long long c04x_i64;
    typedef unsigned char c04x_u8; typedef unsigned short c04x_u16; typedef unsigned int c04x_u32;
    typedef unsigned long long c04x_u64;
    typedef int c04x_l32; typedef long c04x_il64; typedef unsigned int c04x_ul32;
    """
    ctypedef int c04x_i8
    ctypedef int c04x_i16
    ctypedef int c04x_i32
    ctypedef int c04x_i64
    ctypedef unsigned int c04x_u8
    ctypedef unsigned int c04x_u16
    ctypedef unsigned int c04x_u32
    ctypedef unsigned int c04x_u64
    ctypedef long c04x_l32
    ctypedef int c04x_il64
    ctypedef unsigned long c04x_ul32
ctypedef int c04_myint
ctypedef unsigned int c04_myuint
ctypedef long c04_mylong
ctypedef unsigned long c04_myulong
ctypedef long long c04_myll
ctypedef unsigned long long c04_myull
ctypedef short c04_myshort
ctypedef unsigned short c04_myushort
ctypedef signed char c04_mychar
ctypedef unsigned char c04_myuchar
ctypedef c04_myint c04_myint2
ctypedef Py_ssize_t c04_myssize
cdef enum C04E:
    C04E_NEG = -1
    C04E_ZERO = 0
    C04E_BIG = 2147483647
'''
# (name, pyx spelling, real width, real signedness, route, in the quick tier?)
TD_TYPES = [
    # module-level ctypedef aliases of every width and signedness (exact C typedefs)
    ("myint", "c04_myint", 32, True, "T", True), ("myuint", "c04_myuint", 32, False, "T", True),
    ("mylong", "c04_mylong", 64, True, "T", False), ("myulong", "c04_myulong", 64, False, "T", False),
    ("myll", "c04_myll", 64, True, "T", True), ("myull", "c04_myull", 64, False, "T", True),
    ("myshort", "c04_myshort", 16, True, "int", True), ("myushort", "c04_myushort", 16, False, "int", False),
    ("mychar", "c04_mychar", 8, True, "int", False), ("myuchar", "c04_myuchar", 8, False, "int", False),
    ("myint2", "c04_myint2", 32, True, "T", True), ("myssize", "c04_myssize", 64, True, "T", False),
    # libc.stdint
    ("int8", "int8_t", 8, True, "int", False), ("int16", "int16_t", 16, True, "int", False),
    ("int32", "int32_t", 32, True, "T", True), ("int64", "int64_t", 64, True, "T", True),
    ("uint8", "uint8_t", 8, False, "int", False), ("uint16", "uint16_t", 16, False, "int", True),
    ("uint32", "uint32_t", 32, False, "T", True), ("uint64", "uint64_t", 64, False, "T", True),
    # extern typedefs whose declared size is inexact (documented as allowed: "you don't need to match
    # the type exactly"): declared int / unsigned int / long, real type see TD_PREAMBLE
    ("xi8", "c04x_i8", 8, True, "T", True), ("xi16", "c04x_i16", 16, True, "T", True),
    ("xi32", "c04x_i32", 32, True, "T", True), ("xi64", "c04x_i64", 64, True, "T", True),
    ("xu8", "c04x_u8", 8, False, "T", False), ("xu16", "c04x_u16", 16, False, "T", True),
    ("xu32", "c04x_u32", 32, False, "T", True), ("xu64", "c04x_u64", 64, False, "T", True),
    ("xl32", "c04x_l32", 32, True, "T", True), ("xil64", "c04x_il64", 64, True, "T", False),
    ("xul32", "c04x_ul32", 32, False, "T", False),
    # other spellings that are not the literal base-case names
    ("hash", "Py_hash_t", 64, True, "T", False), ("ptrdiff", "ptrdiff_t", 64, True, "T", False),
    ("slong", "signed long", 64, True, "T", True), ("sint", "signed int", 32, True, "int", False),
    ("char", "char", 8, True, "int", True), ("bint", "bint", 8, False, "int", True),
    ("enum", "C04E", 32, True, "int", True),
]
TD_BY_NAME = {t[0]: t for t in TD_TYPES}
TD_TREES = ["+ * v0 v1 v2", "- * v0 v1 * v2 v0", "+ << v0 v1 v2"]
NARROW_CLASS = "extern_typedef_narrower_than_int_unchecked"


def td_res(td):
    nm, decl, w, sg, route, q = td
    return (w, sg) if route == "T" else (32, True)


def td_functions(quick, part, nparts):
    """the types are dealt to nparts modules (parallel builds).  One compiled function per type with one
    branch per operation (selected by f['k']): much less generated C than one function per operation"""
    F = []
    types = [t for t in TD_TYPES if (t[5] or not quick)]
    for i, td in enumerate(types):
        if i % nparts != part:
            continue
        nm, decl, w, sg, route, q = td
        G = []
        for op, sym in OPS:
            G.append(dict(kind="var", op=op, nargs=2, expr="a %s b" % sym))
        G.append(dict(kind="neg", nargs=1, expr="-a"))
        if nm not in ("enum", "bint"):
            G.append(dict(kind="mulc", op="mul", const=3, nargs=1, expr="a * (<%s>3)" % decl))
        for j, tr in enumerate(TD_TREES[:1] if quick else TD_TREES):
            G.append(dict(kind="tree", tree=tr, nargs=3, expr=tree_src(tr.split())))
        if route == "T":
            for op, sym in (OPS[:1] if quick else OPS):
                G.append(dict(kind="iop", op=op, nargs=2, stmt="a %s= b" % sym))
        for k, g in enumerate(G):
            F.append(dict(g, name="f_td_%s" % nm, td=nm, k=k))
    return F


def td_source(funcs, fold):
    L = ["# cython: language_level=3, overflowcheck=True, overflowcheck.fold=%s" % ("True" if fold else "False"),
         TD_PREAMBLE]
    tds = []
    for f in funcs:
        if f["td"] not in tds:
            tds.append(f["td"])
    for nm in tds:
        decl = TD_BY_NAME[nm][1]
        L += ["def f_td_%s(int k, cases):" % nm, "    cdef %s a, b, c" % decl, "    out = []",
              "    for t in cases:", "        a = t[0]; b = t[1]; c = t[2]", "        try:"]
        for f in funcs:
            if f["td"] != nm:
                continue
            L += ["            %s k == %d:" % ("if" if f["k"] == 0 else "elif", f["k"])]
            if "stmt" in f:
                L += ["                " + f["stmt"], "                out.append(a)"]
            else:
                L += ["                out.append(%s)" % f["expr"]]
        L += ["        except OverflowError:", "            out.append('O')",
              "    return ','.join([('O' if x == 'O' else str(int(x))) for x in out])", ""]
    # what the C compiler says about every type (the tie of the dispatch model is made at these values)
    tds = [nm for nm in sorted(tds) if nm not in ("bint", "enum")]
    L += ["def td_sizes():", "    out = []"]
    for nm in tds:
        L += ["    cdef %s v_%s = <%s>(-1)" % (TD_BY_NAME[nm][1], nm, TD_BY_NAME[nm][1])]
    for nm in tds:
        L += ["    out.append('%s %%d %%d' %% (sizeof(%s), 1 if v_%s < 0 else 0))" % (nm, TD_BY_NAME[nm][1], nm)]
    L += ["    return ','.join(out)", ""]
    return "\n".join(L)


def td_plan(quick):
    if quick:
        return [("c04_td1", td_functions(True, 0, 1), True)]
    return ([("c04_td%d" % (p + 1), td_functions(False, p, 2), True) for p in (0, 1)] +
            [("c04_tdn%d" % (p + 1), td_functions(False, p, 2), False) for p in (0, 1)])


def td_expected(f, args):
    rw, rs = td_res(TD_BY_NAME[f["td"]])
    lo, hi = rng_of(rw, rs)
    k = f["kind"]
    if k in ("var", "iop", "mulc"):
        x, y = (args[0], args[1]) if k != "mulc" else (args[0], f["const"])
        op = f["op"]
        if op == "lshift":
            if y < 0:
                return ("raise",)
            if y > 200:
                return ("raise",) if x != 0 else ("val", 0)
            v = x << y
        else:
            v = x + y if op == "add" else x - y if op == "sub" else x * y
        return ("val", v) if lo <= v <= hi else ("raise",)
    if k == "neg":
        return ("val", -args[0]) if lo <= -args[0] <= hi else ("raise",)
    if k == "tree":
        v, must = tree_exact(f["tree"].split(), args, lo, hi)
        return ("raise",) if must else ("val", v)
    raise ValueError(k)


def td_model_query(f, args, builtin, fold):
    nm, decl, w, sg, route, q = TD_BY_NAME[f["td"]]
    B = 1 if builtin else 0
    k = f["kind"]
    if k in ("var", "iop", "mulc"):
        x, y = (args[0], args[1]) if k != "mulc" else (args[0], f["const"])
        if route == "int":
            return "opall %d %s 32 1 64 64 %d %d" % (B, f["op"], x, y)
        return "td %d lt %d %s 32 64 64 %d %d %d %d" % (1 if NARROW_FIXED else 0, B, f["op"], w, sg, x, y)
    rw, rs = td_res(TD_BY_NAME[f["td"]])
    if k == "neg":
        return "neg %d %d %d %d" % (1 if NEG_CHECKED else 0, rw, rs, args[0])
    if k == "tree":
        if route == "T" and w < 32:
            return "skip"      # nested expression over a type of the finding class: oracle only
        return "tree %d %d 64 64 %d %d %s %s" % (B, rw, rs, 1 if fold else 0, ",".join(str(x) for x in args), f["tree"])
    raise ValueError(k)


def td_classify(f, args):
    nm, decl, w, sg, route, q = TD_BY_NAME[f["td"]]
    if route == "T" and w < 32 and decl.startswith("c04x_") and (
            (f["kind"] in ("var", "iop", "mulc") and f["op"] != "lshift") or f["kind"] == "tree"):
        return NARROW_CLASS
    return "wrong_result_typedef_%s" % f["kind"]


def td_values(td, rng, nrand):
    nm, decl, w, sg, route, q = td
    if nm == "bint":
        return [0, 1]
    return lattice(w, sg, rng, nrand)


def td_cases(f, vals, w, sg, quick, rng):
    if f["nargs"] == 1:
        return [(a,) for a in vals]
    lo, hi = (vals[0], vals[-1])
    edge = [v for v in sorted({lo, hi, 0, 1, 2, -1, lo + 1, hi - 1}) if v in vals]
    if f["nargs"] == 2:
        cases = [(a, b) for a in vals for b in vals]
        budget = 120 if quick else 600
        if len(cases) > 3 * budget:
            corner = [(a, b) for a in edge for b in edge]
            cs = set(corner)
            side = [c for c in cases if (c[0] in edge or c[1] in edge) and c not in cs]
            rest = [c for c in cases if not (c[0] in edge or c[1] in edge)]
            cases = corner + rng.sample(side, min(len(side), budget)) + rng.sample(rest, min(len(rest), budget))
        return cases
    small = [v for v in vals if abs(v) <= 70]
    cases = [(hi, 1, hi), (hi, 2, lo), (lo, 1, lo), (hi // 2 + 1, 2, 0), (hi // 2, 2, 1), (hi // 2, 2, 2),
             (hi, 1, 1), (lo, 1, 0), (hi // 3 + 1, 3, 0)]
    for _ in range(50 if quick else 500):
        pool = [vals, vals, small] if rng.random() < 0.6 else [vals, small, vals]
        cases.append(tuple(rng.choice(pool[i]) for i in range(3)))
    return [c for c in cases if all(lo <= v <= hi for v in c)]


# ---- reading the instantiated Binop if-chain from the generated C -------------------------------
def _match(txt, i, o, c):
    d = 0
    for j in range(i, len(txt)):
        if txt[j] == o:
            d += 1
        elif txt[j] == c:
            d -= 1
            if d == 0:
                return j
    raise ValueError("unbalanced")


def parse_chain(txt):
    txt = txt.strip()
    if re.match(r"if\s*\(", txt):
        i = txt.index("(")
        j = _match(txt, i, "(", ")")
        k = txt.index("{", j)
        if txt[j + 1:k].strip():
            raise ValueError("unbraced if")
        l = _match(txt, k, "{", "}")
        then = parse_chain(txt[k + 1:l])
        rest = txt[l + 1:].strip()
        els = None
        if rest.startswith("else"):
            rest = rest[4:].strip()
            if re.match(r"if\s*\(", rest):
                els = parse_chain(rest)
            else:
                if not rest.startswith("{"):
                    raise ValueError("unbraced else")
                l2 = _match(rest, 0, "{", "}")
                if rest[l2 + 1:].strip():
                    raise ValueError("code after else block")
                els = parse_chain(rest[1:l2])
        elif rest:
            raise ValueError("code after if block")
        return ("if", txt[i + 1:j], then, els)
    return ("leaf", txt)


C_SIZEOF = {"int": 4, "unsigned int": 4, "long": 8, "unsigned long": 8, "PY_LONG_LONG": 8,
            "unsigned PY_LONG_LONG": 8, "short": 2, "char": 1}
BASE_OF = {"int": (32, 1), "long": (64, 1), "long_long": (64, 1),
           "unsigned_int": (32, 0), "unsigned_long": (64, 0), "unsigned_long_long": (64, 0)}


def eval_chain(node, T, binop, nbytes, unsigned):
    """interpret the parsed if-chain for a type of nbytes bytes -> 'narrow' | 'narrowfx' | 'base W S' | 'fatal'"""
    while node[0] == "if":
        cond = node[1].strip()
        while cond.startswith("(") and _match(cond, 0, "(", ")") == len(cond) - 1:
            cond = cond[1:-1].strip()
        m = re.fullmatch(r"sizeof\((.+?)\)\s*(<=|>=|==|!=|<|>)\s*sizeof\((.+?)\)", cond)
        if m:
            sz = dict(C_SIZEOF)
            sz[T] = nbytes
            x, y = sz[m.group(1)], sz[m.group(3)]
            v = {"<": x < y, "<=": x <= y, "==": x == y, "!=": x != y, ">": x > y, ">=": x >= y}[m.group(2)]
        elif cond == "__PYX_IS_UNSIGNED(%s)" % T:
            v = unsigned
        else:
            raise ValueError("condition not understood: " + cond)
        node = node[2] if v else node[3]
        if node is None:
            raise ValueError("no else branch")
    leaf = node[1]
    if leaf == "return __Pyx_%s_no_overflow(a, b, overflow);" % binop:
        return "narrow"
    leaf1 = re.sub(r"(//[^\n]*\n|/\*.*?\*/)", "", leaf, flags=re.S).strip()
    if re.fullmatch(r"int r = __Pyx_%s_int_checking_overflow\(a, b, overflow\);\s*"
                    r"if \(unlikely\(\(%s\) r != r\)\) \*overflow \|= 1;\s*return \(%s\) r;"
                    % (binop, re.escape(T), re.escape(T)), leaf1):
        return "narrowfx"
    m = re.fullmatch(r"return \(%s\) __Pyx_%s_(\w+)_checking_overflow\(a, b, overflow\);" % (re.escape(T), binop), leaf)
    if m and m.group(1) in BASE_OF:
        return "base %d %d" % BASE_OF[m.group(1)]
    if leaf.startswith("Py_FatalError("):
        return "fatal"
    raise ValueError("statement not understood: " + leaf[:120])


def binop_instances(c_text):
    """{(binop, NAME): (TYPE, parsed chain)} for every instantiated Binop definition"""
    out = {}
    for m in re.finditer(r"^static CYTHON_INLINE ([\w ]+?) __Pyx_((?:add|sub|mul)(?:_const)?)_(\w+)_checking_overflow"
                         r"\(\1 a, \1 b, int \*overflow\) \{\n(    if \(\(sizeof.*?)\n\}\n", c_text, re.M | re.S):
        T, binop, name, body = m.group(1), m.group(2), m.group(3), m.group(4)
        try:
            out[(binop, name)] = (T, parse_chain(body))
        except ValueError as e:
            out[(binop, name)] = (T, ("error", str(e)))
    return out


def td_check_code(ctx, model, mn, funcs, c_file, sizes):
    """tie of the dispatch model to the generated C: (1) every function calls the helper of its result
    type; (2) the if-chain of each instantiated Binop, interpreted at the sizeof / signedness the C
    compiler reports for the type AND at every width 8..64 / signedness, selects the callee the model
    selects"""
    txt = open(c_file).read()
    used = inspect_c(c_file, funcs)
    inst = binop_instances(txt)
    seen = set()
    queries, qmeta = [], []
    done = set()
    for f in funcs:
        if f["td"] in done:
            continue
        done.add(f["td"])
        nm, decl, w, sg, route, q = TD_BY_NAME[f["td"]]
        u = used.get(f["name"])
        inp = {"module": mn, "func": f["name"], "type": decl}
        if u is None:
            ctx.corr_break("inspect_c", inp, "function body not found", "found")
            continue
        ops_seen = {(op, isconst) for (op, isconst, cname, suffix) in u}
        want_ops = {("add", False), ("sub", False), ("mul", False), ("lshift", False)}
        if nm not in ("enum", "bint"):
            want_ops.add(("mul", True))
        if not want_ops <= ops_seen:
            ctx.corr_break("typedef helper", inp, sorted(ops_seen), "checked helper for each of %s" % sorted(want_ops))
            continue
        if nm not in ("bint", "enum") and sizes.get(nm) != (w // 8, 1 if sg else 0):
            ctx.corr_break("typedef size", inp, sizes.get(nm), (w // 8, 1 if sg else 0))
        for (op, isconst, cname, suffix) in u:
            if suffix == "no_overflow" or op == "div":
                ctx.corr_break("dead-helper assumption", inp, "__Pyx_%s_%s_%s is called" % (op, cname, suffix), "never called")
                continue
            if cname in CNAME and not cname.endswith(decl.replace(" ", "_")):
                if CNAME[cname] != td_res(TD_BY_NAME[f["td"]]):
                    ctx.corr_break("typedef result type", inp, cname, td_res(TD_BY_NAME[f["td"]]))
                if cname in ("int", "long", "unsigned_int", "unsigned_long"):
                    continue                     # base case helper called directly
            elif route != "T" or not cname.endswith(decl.replace(" ", "_")):
                ctx.corr_break("typedef result type", inp, cname, "helper of %s" % decl)
                continue
            if op == "lshift":
                continue
            binop = op + ("_const" if isconst else "")
            if (binop, cname) in seen:
                continue
            seen.add((binop, cname))
            hname = "__Pyx_%s_%s_checking_overflow" % (binop, cname)
            if (binop, cname) not in inst:
                ctx.corr_break("Binop instance", dict(inp, helper=hname), "definition not found", "found")
                continue
            T, chain = inst[(binop, cname)]
            if chain[0] == "error":
                ctx.corr_break("Binop instance", dict(inp, helper=hname), chain[1], "if-chain on sizeof")
                continue
            pts = [(w, sg, "real")] + [(ww, ss, "sweep") for ww in (8, 16, 32, 64) for ss in (True, False)]
            for (ww, ss, why) in pts:
                try:
                    got = eval_chain(chain, T, binop, ww // 8, not ss)
                except (ValueError, KeyError) as e:
                    got = "unreadable: %s" % e
                queries.append("choice lt 32 64 64 %d %d" % (ww, 1 if ss else 0))
                qmeta.append((dict(inp, helper=hname, width=ww, signed=ss, at=why), got))
    res = model.batch(queries) if queries else []
    nbad = 0
    for (inp, got), want in zip(qmeta, res):
        if want == "narrow" and NARROW_FIXED:
            want = "narrowfx"
        ctx.case("typedef/dispatch-text/%s" % inp["at"], inp, sig=(mn, inp["helper"], inp["width"], inp["signed"], inp["at"]))
        if got != want and nbad < 6:
            ctx.corr_break("Binop dispatch (generated C vs model)", inp, got, want)
            nbad += 1
    ctx.extra.setdefault("typedef_binop_instances", {})[mn] = len(seen)


def run_td(ctx, model, plan, cfiles, variants, quick, spur):
    for vname, wd, builtin in variants:
        for mn, funcs, fold in plan:
            calls, meta = [["%s.td_sizes" % mn, []]], []
            for f in funcs:
                td = TD_BY_NAME[f["td"]]
                vals = td_values(td, ctx.rng, 6 if quick else 30)
                cases = td_cases(f, vals, td[2], td[3], quick, ctx.rng)
                calls.append(["%s.%s" % (mn, f["name"]), [f["k"], [(list(c) + [0, 0])[:3] for c in cases]]])
                meta.append((f, cases))
            res = cybuild.call_cases(wd, calls, setup="import %s" % mn, alarm=120)
            sizes = {}
            for item in (parse_out(res[0]) or []):
                p = item.split()
                sizes[p[0]] = (int(p[1]), int(p[2]))
            if vname == "builtin":
                td_check_code(ctx, model, mn, funcs, cfiles[mn], sizes)
            mres = model.batch([td_model_query(f, c, builtin, fold) for (f, cases) in meta for c in cases])
            mi = 0
            for (f, cases), r in zip(meta, res[1:]):
                nm, decl, w, sg, route, q = TD_BY_NAME[f["td"]]
                outs = parse_out(r)
                inp0 = {"variant": vname, "module": mn, "func": f["name"], "k": f["k"], "type": decl,
                        "expr": f.get("expr") or f.get("stmt")}
                if outs is None or len(outs) != len(cases):
                    ctx.fail("crash_or_error", dict(inp0, cases=len(cases)), r, "one result per case")
                    mi += len(cases)
                    continue
                nbad = nfail = 0
                for c, got, m in zip(cases, outs, mres[mi:mi + len(cases)]):
                    exp = td_expected(f, c)
                    inp = dict(inp0, args=list(c))
                    st = ("fits" if got != "O" else "spurious") if exp[0] == "val" else "overflows"
                    key = f.get("op") or f["kind"]
                    ctx.case("typedef/%s/%s/%s%d%s/%s/%s/%s" % (vname, "fold" if fold else "nofold", route, w,
                                                               "s" if sg else "u", f["kind"], key, st),
                             inp, sig=(vname, mn, f["name"], f["k"], c))
                    if st == "spurious":
                        k2 = key if (key == "lshift" or f["kind"] == "tree") else key + "@" + decl
                        spur[(vname, "typedef:" + k2)] = spur.get((vname, "typedef:" + k2), 0) + 1
                    mval = m[2:] if m.startswith("V ") else m
                    if m not in ("UB", "SKIP") and mval != got and nbad < 5:
                        ctx.corr_break("overflow:typedef:" + f["kind"], inp, got, m)
                        nbad += 1
                    ok = ((exp[0] == "val" and (got == str(exp[1]) or got == "O")) or (exp[0] == "raise" and got == "O"))
                    if not ok and nfail < 5:
                        ctx.fail(td_classify(f, c), inp, got,
                                 ("%s or OverflowError" % exp[1]) if exp[0] == "val" else "OverflowError",
                                 note="model says %s" % m)
                        nfail += 1
                mi += len(cases)


# ---------------------------------------------------------------------------------------------
# contexts of a checked operation other than "operand of another checked operation":
#  - inside a nogil section / nogil function (the raise needs the GIL),
#  - under a node that closes the fold scope of ConsolidateOverflowCheck (conditional expression,
#    widening cast, unary minus, comparison, abs()): the inner check must still be tested
# set to "1" once the corresponding proposed_fixes/C04-*.diff is applied to the tree
NOGIL_FIXED = os.environ.get("C04_NOGIL_FIXED", "1") == "1"
ABS_FIXED = os.environ.get("C04_ABS_FIXED", "1") == "1"
NOGIL_CLASS = "overflow_raised_in_nogil_context_crashes"
ABS_CLASS = "abs_of_temporary_argument_invalid_c"
I32, I64, U64 = (32, True), (64, True), (64, False)
V = lambda i: ("var", i)
# (name, C type, (w, s), shape, in_nogil, source template)
CX_FUNCS = [
    ("cx_ngblock_add_int", "int", I32, ("bin", "add", V(0), V(1), I32), True, "NGBLOCK +"),
    ("cx_ngblock_mul_int", "int", I32, ("bin", "mul", V(0), V(1), I32), True, "NGBLOCK *"),
    ("cx_ngblock_add_ulong", "unsigned long", U64, ("bin", "add", V(0), V(1), U64), True, "NGBLOCK +"),
    ("cx_ngblock_lshift_long", "long", I64, ("bin", "lshift", V(0), V(1), I64), True, "NGBLOCK <<"),
    ("cx_ngfunc_int", "int", I32, ("bin", "add", V(0), V(1), I32), True, "NGFUNC"),
    ("cx_gilfunc_int", "int", I32, ("bin", "add", V(0), V(1), I32), False, "GILFUNC"),
    ("cx_cond_int", "int", I32, ("bin", "add", ("cond", V(2), ("bin", "mul", V(0), V(1), I32), ("bin", "add", V(0), V(1), I32)), V(2), I32),
     False, "(a * b if c else a + b) + c"),
    ("cx_cast_int", "int", I32, ("bin", "add", ("bin", "mul", V(0), V(1), I32), V(2), I64), False, "<long>(a * b) + c"),
    ("cx_negin_int", "int", I32, ("bin", "add", ("neg", ("bin", "mul", V(0), V(1), I32), I32), V(2), I32), False, "-(a * b) + c"),
    ("cx_cmp_int", "int", I32, ("bin", "add", ("cmp", ("bin", "mul", V(0), V(1), I32), V(2)), V(0), I32), False, "(a * b < c) + a"),
    ("cx_cond_long", "long", I64, ("bin", "sub", ("cond", V(2), ("bin", "mul", V(0), V(1), I64), ("bin", "lshift", V(0), V(1), I64)), V(2), I64),
     False, "(a * b if c else a << b) - c"),
]
AB_FUNCS = [
    ("ab_mul_int", "int", I32, ("bin", "add", ("abs", ("bin", "mul", V(0), V(1), I32), 32), V(2), I32), False, "abs(a * b) + c"),
    ("ab_mul_long", "long", I64, ("bin", "add", ("abs", ("bin", "sub", V(0), V(1), I64), 64), V(2), I64), False, "abs(a - b) + c"),
    ("ab_call_int", "int", I32, ("abs", ("bin", "add", V(0), V(1), I32), 32), False, "abs(ng_add_int(a, b))"),
]
CX_HEAD = """# cython: language_level=3, overflowcheck=True, overflowcheck.fold=True
cdef int ng_add_int(int a, int b) except? -1 nogil:
    return a + b
"""


def cx_source(funcs):
    L = [CX_HEAD]
    for name, ct, ws, shape, ng, tmpl in funcs:
        if tmpl.startswith("NGBLOCK"):
            L += ["def %s(%s a, %s b, %s c):" % (name, ct, ct, ct), "    cdef %s r" % ct, "    with nogil:",
                  "        r = a %s b" % tmpl.split()[1], "    return r", ""]
        elif tmpl == "NGFUNC":
            L += ["def %s(int a, int b, int c):" % name, "    cdef int r", "    with nogil:",
                  "        r = ng_add_int(a, b)", "    return r", ""]
        elif tmpl == "GILFUNC":
            L += ["def %s(int a, int b, int c):" % name, "    return ng_add_int(a, b)", ""]
        else:
            L += ["def %s(%s a, %s b, %s c):" % (name, ct, ct, ct), "    return %s" % tmpl, ""]
    return "\n".join(L)


def cx_oracle(node, args):
    """exact value, or None if some checked sub-operation does not fit its C type (must raise)"""
    k = node[0]
    if k == "var":
        return args[node[1]]
    if k == "bin":
        x, y = cx_oracle(node[2], args), cx_oracle(node[3], args)
        if x is None or y is None:
            return None
        lo, hi = rng_of(*node[4])
        if node[1] == "lshift":
            if y < 0 or (y > 200 and x != 0):
                return None
            v = x << min(y, 200)
        else:
            v = x + y if node[1] == "add" else x - y if node[1] == "sub" else x * y
        return v if lo <= v <= hi else None
    if k == "neg":
        x = cx_oracle(node[1], args)
        lo, hi = rng_of(*node[2])
        return None if x is None or not lo <= -x <= hi else -x
    if k == "abs":
        x = cx_oracle(node[1], args)
        return None if x is None or abs(x) > rng_of(node[2], True)[1] else abs(x)
    if k == "cond":
        return cx_oracle(node[2] if args[node[1][1]] else node[3], args)
    if k == "cmp":
        x, y = cx_oracle(node[1], args), cx_oracle(node[2], args)
        return None if x is None or y is None else int(x < y)
    raise ValueError(k)


def cx_model(model, node, cases, ng):
    """the same tree evaluated by the extracted model, one batch per arithmetic node.
    values: int | 'O' | 'UB'"""
    k = node[0]
    def lift(vals_list, mk):
        idx = [i for i in range(len(cases)) if all(isinstance(v[i], int) for v in vals_list)]
        res = model.batch([mk(*[v[i] for v in vals_list]) for i in idx])
        out = []
        for i in range(len(cases)):
            bad = [v[i] for v in vals_list if not isinstance(v[i], int)]
            out.append(bad[0] if bad else None)
        for i, r in zip(idx, res):
            out[i] = int(r[2:]) if r.startswith("V ") else r
        return out
    if k == "var":
        return [c[node[1]] for c in cases]
    if k == "bin":
        w, s = node[4]
        conv = (lambda x: x) if s else (lambda x: x % 2 ** w)
        return lift([cx_model(model, node[2], cases, ng), cx_model(model, node[3], cases, ng)],
                    lambda x, y: "ngop %d %d 1 %s %d %d 64 64 %d %d" % (1 if NOGIL_FIXED else 0, 1 if ng else 0,
                                                                      node[1], w, 1 if s else 0, conv(x), conv(y)))
    if k == "neg":
        return lift([cx_model(model, node[1], cases, ng)],
                    lambda x: "neg %d %d %d %d" % (1 if NEG_CHECKED else 0, node[2][0], 1 if node[2][1] else 0, x))
    if k == "abs":
        return lift([cx_model(model, node[1], cases, ng)], lambda x: "abs %d %d" % (node[2], x))
    if k == "cond":
        a, b = cx_model(model, node[2], cases, ng), cx_model(model, node[3], cases, ng)
        return [a[i] if c[node[1][1]] else b[i] for i, c in enumerate(cases)]
    if k == "cmp":
        a, b = cx_model(model, node[1], cases, ng), cx_model(model, node[2], cases, ng)
        return [(int(x < y) if isinstance(x, int) and isinstance(y, int) else (x if not isinstance(x, int) else y))
                for x, y in zip(a, b)]
    raise ValueError(k)


def cx_cases(ws, rng, quick, ng):
    lo, hi = rng_of(*ws)
    base = [(hi, 1, 1), (hi, 2, 0), (1, 2, 0), (hi - 1, 1, 1), (0, 0, 0), (3, 5, hi), (hi // 2 + 1, 2, 1),
            (hi // 2, 2, 1), (hi // 2, 2, 2), (lo, 1, 0), (5, 62, 1), (1, 64, 0), (hi, hi, 1)]
    if ws[1]:
        base += [(lo, 1, 1), (lo, -1, 1), (lo, -1, 0), (-3, 5, lo), (lo + 1, -1, 1), (hi, -1, 1), (-1, 1, 1), (1, -1, 0)]
    if ng:                       # every overflowing call of the unrepaired code costs a worker process
        return [base[0], base[2], base[3]] if quick else base[:5]
    vals = lattice(ws[0], ws[1], rng, 4)
    small = [v for v in vals if abs(v) <= 70]
    for _ in range(25 if quick else 400):
        base.append((rng.choice(vals), rng.choice(vals if rng.random() < 0.5 else small), rng.choice(small + [lo, hi])))
    return [c for c in base if all(lo <= v <= hi for v in c)]


def run_cx(ctx, model, quick, built):
    """built: {module: None | error text}"""
    for mn, funcs, klass_build in (("c04_cx", CX_FUNCS, None), ("c04_abs", AB_FUNCS, ABS_CLASS)):
        err = built.get(mn)
        if err is not None:
            if klass_build:
                ctx.fail(klass_build, {"module": mn, "source": cx_source(funcs)}, err[-400:], "the module compiles")
                ctx.case("context/%s/does-not-build" % mn, mn, sig=(mn, "build"))
            else:
                ctx.corr_break("build " + mn, mn, err[-1500:], "module builds")
            continue
        calls, meta = [], []
        for f in funcs:
            name, ct, ws, shape, ng, tmpl = f
            if quick and name in ("cx_ngblock_mul_int", "cx_ngblock_add_ulong"):
                continue
            for c in cx_cases(ws, ctx.rng, quick, tmpl.startswith("NG")):
                calls.append(["%s.%s" % (mn, name), list(c)])
                meta.append((f, c))
        res = cybuild.call_cases(ctx.workdir, calls, setup="import %s" % mn, alarm=20, max_crashes=60)
        mvals = {}
        for f in funcs:
            cs = [c for (g, c) in meta if g is f]
            if cs:
                mvals[f[0]] = dict(zip(cs, cx_model(model, f[3], cs, f[4])))
        nbad = 0
        for (f, c), r in zip(meta, res):
            name, ct, ws, shape, ng, tmpl = f
            got = r["r"] if "r" in r else {"OverflowError": "O", "CRASH": "CRASH"}.get(r.get("e"), "E:%s" % r.get("e"))
            exp = cx_oracle(shape, c)
            m = mvals[name][c]
            inp = {"module": mn, "func": name, "expr": tmpl, "type": ct, "args": list(c)}
            ctx.case("context/%s/%s/%s" % ("nogil" if ng else "gil", name, "overflows" if exp is None else "fits"),
                     inp, sig=(mn, name, c))
            if m != "UB" and str(m) != got and nbad < 5:
                ctx.corr_break("overflow:context", inp, got, m)
                nbad += 1
            ok = (got == "O") if exp is None else (got == str(exp) or got == "O")
            if not ok:
                ctx.fail(NOGIL_CLASS if (ng and got == "CRASH" and exp is None) else "wrong_result_context", inp, got,
                         "OverflowError" if exp is None else "%d or OverflowError" % exp, note="model says %s" % m)


def build_all(ctx, mods, portable):
    """mods: list of (name, source). Returns dict name -> dict(workdir, c_file) or None on failure"""
    out = {}
    specs = [dict(name=n, source=s, workdir=ctx.workdir) for n, s in mods]
    built = cybuild.build_many(specs, jobs=len(specs))
    import concurrent.futures as cf
    for (so, err), (n, s) in zip(built, mods):
        if err is not None:
            ctx.corr_break("build " + n, n, str(err)[:1500], "module builds")
            return None
        out[n] = os.path.join(ctx.workdir, n + ".c")
    if portable:
        pdir = os.path.join(ctx.workdir, "portable")
        os.makedirs(pdir, exist_ok=True)
        def one(n):
            c_file = out[n]
            # the portable branch really is selected: no __PYX_HAVE_BUILTIN_OVERFLOW after preprocessing
            p = subprocess.run(["clang", "-E", "-dM", "-w", "-D__ibmxl__", "-I" + cybuild.INC, c_file],
                               capture_output=True, text=True, timeout=600)
            if p.returncode != 0 or "__PYX_HAVE_BUILTIN_OVERFLOW" in p.stdout:
                return ("portable branch selection", n, "builtin branch still selected or clang -E failed: " + p.stderr[-300:],
                        "portable branch")
            rc, err = cybuild.cc(c_file, os.path.join(pdir, n + cybuild.EXT), cflags=["-O1"],
                                 macros=["__ibmxl__"], compiler="clang")
            if rc != 0:
                return ("build portable " + n, n, err[-1500:], "module builds")
            return None
        with cf.ThreadPoolExecutor(max_workers=len(mods)) as ex:
            errs = [e for e in ex.map(one, [n for n, s in mods]) if e]
        for e in errs:
            ctx.corr_break(*e)
        if errs:
            return None
    return out


def run(ctx):
    quick = ctx.tier == "quick"
    trees = (FIXED_TREES[:4] if quick else FIXED_TREES) + random_trees(ctx.rng, 2 if quick else 16)
    plan = module_plan(trees, quick)
    tdplan = td_plan(quick)
    only_td = os.environ.get("C04_ONLY_TD") == "1"      # development hook: typedef part alone
    if only_td:
        plan = []
    T0 = time.time(); TM = {}
    import concurrent.futures as cf
    def small(mn, funcs):
        try:
            cybuild.build(mn, cx_source(funcs), ctx.workdir, cflags=["-O1"])
            return None
        except cybuild.BuildError as e:
            return str(e)
    pool = cf.ThreadPoolExecutor(max_workers=2)
    fut = {"c04_cx": pool.submit(small, "c04_cx", CX_FUNCS), "c04_abs": pool.submit(small, "c04_abs", AB_FUNCS)}
    cfiles = build_all(ctx, [(mn, gen_source(funcs, fold, sw)) for mn, funcs, fold, sw in plan] +
                       [(mn, td_source(funcs, fold)) for mn, funcs, fold in tdplan], portable=not quick)
    TM["build"] = time.time() - T0
    if cfiles is None:
        return
    model = ctx.model("overflow")
    for mn, funcs, fold, sw in plan:
        check_types(ctx, mn, funcs, inspect_c(cfiles[mn], funcs))

    nrand = 10 if quick else 40
    lat = {nm: lattice(w, sg, ctx.rng, nrand) for ct, nm, w, sg in TYPES}
    variants = [("builtin", ctx.workdir, True)]
    if not quick:
        variants.append(("portable", os.path.join(ctx.workdir, "portable"), False))
    spur = {}
    for vname, wd, builtin in variants:
        for mn, funcs, fold, _sw in plan:
            calls, meta = [], []
            for f in funcs:
                ct, nm, w, sg = TYPE_BY_NAME[f["ty"]]
                vals = lat[nm]
                if f["nargs"] == 1:
                    cases = [(a,) for a in vals]
                elif f["nargs"] == 2:
                    cases = [(a, b) for a in vals for b in (lat[f["ty2"]] if "ty2" in f else vals)]
                    if quick and len(cases) > 900:
                        lo, hi = rng_of(w, sg)
                        edge = {lo, hi, 0, 1, -1, lo + 1, hi - 1}
                        keep = [c for c in cases if c[0] in edge or c[1] in edge]
                        rest = [c for c in cases if not (c[0] in edge or c[1] in edge)]
                        cases = keep + ctx.rng.sample(rest, min(len(rest), 500))
                else:
                    small = [v for v in vals if abs(v) <= 70]
                    n3 = 150 if quick else 600
                    cases = []
                    for _ in range(n3):
                        pool = [vals, vals, small] if ctx.rng.random() < 0.6 else [vals, small, vals]
                        cases.append(tuple(ctx.rng.choice(pool[i]) for i in range(3)))
                calls.append(["%s.%s" % (mn, f["name"]), [[list(c) for c in cases]]])
                meta.append((f, cases))
            res = cybuild.call_cases(wd, calls, setup="import %s" % mn, alarm=120)
            mq = []
            for (f, cases) in meta:
                ct, nm, w, sg = TYPE_BY_NAME[f["ty"]]
                mq += [model_query(f, w, sg, c, builtin, fold) for c in cases]
            mres = model.batch(mq)
            mi = 0
            for (f, cases), r in zip(meta, res):
                ct, nm, w, sg = TYPE_BY_NAME[f["ty"]]
                outs = parse_out(r)
                inp0 = {"variant": vname, "module": mn, "func": f["name"]}
                if outs is None or len(outs) != len(cases):
                    ctx.fail("crash_or_error", dict(inp0, cases=len(cases)), r, "one result per case")
                    mi += len(cases)
                    continue
                nbad = 0
                for c, got, m in zip(cases, outs, mres[mi:mi + len(cases)]):
                    exp = expected_of(f, w, sg, c)
                    inp = dict(inp0, args=list(c))
                    # stratum
                    if exp[0] == "val":
                        st = "fits" if got != "O" else "spurious"
                    else:
                        st = "overflows" if exp[0] == "raise" else "zero"
                    key = f.get("op") or f["kind"]
                    ctx.case("%s/%s/%s/%s/%s" % (vname, "fold" if fold else "nofold", f["kind"], key, st),
                             inp, sig=(vname, mn, f["name"], c))
                    if st == "spurious" and classify(f, w, sg, c) == "negative_operand_converted_to_unsigned":
                        key = "negconv"
                    if st == "spurious":
                        spur[(vname, key)] = spur.get((vname, key), 0) + 1
                    # tie: implementation vs model
                    mval = m[2:] if m.startswith("V ") else m
                    if m not in ("UB", "SKIP") and mval != got and nbad < 5:
                        ctx.corr_break("overflow:" + f["kind"], inp, got, m); nbad += 1
                    if m.startswith("!") and nbad < 5:
                        ctx.corr_break("overflow:model-error", inp, got, m); nbad += 1
                    # property
                    ok = ((exp[0] == "val" and (got == str(exp[1]) or got == "O")) or
                          (exp[0] == "raise" and got == "O") or (exp[0] == "zero" and got == "Z"))
                    if not ok:
                        ctx.fail(classify(f, w, sg, c), inp, got,
                                 {"val": "%s or OverflowError" % (exp[1] if len(exp) > 1 else ""),
                                  "raise": "OverflowError", "zero": "ZeroDivisionError"}[exp[0]],
                                 note="model says %s" % m)
                mi += len(cases)
    TM["named"] = time.time() - T0 - TM["build"]
    t1 = time.time()
    run_cx(ctx, model, quick, {k: v.result() for k, v in fut.items()})
    TM["contexts"] = time.time() - t1
    t1 = time.time()
    run_td(ctx, model, tdplan, cfiles, variants, quick, spur)
    TM["typedef"] = time.time() - t1
    ctx.extra["phase_wall_s"] = {k: round(v, 1) for k, v in TM.items()}
    # exhaustive 8-bit sweeps (fold module; builtin and, in thorough, portable build)
    for vname, wd, builtin in ([] if only_td else variants):
        sw = [["%s.sweep_%s_%s" % (mn, op, nm), []] for mn, nm in (("c04_f1", "schar"), ("c04_f3", "uchar"))
              for op in ("add", "sub", "mul", "lshift", "neg")]
        sres = cybuild.call_cases(wd, sw, setup="import c04_f1, c04_f3", alarm=300)
        for (fexpr, _), r in zip(sw, sres):
            _, op, nm = fexpr.split(".")[1].split("_")
            sg = nm == "schar"
            lo, hi = (-128, 128) if sg else (0, 256)
            outs = parse_out(r)
            pairs = [(a, b) for a in range(lo, hi) for b in range(lo, hi)] if op != "neg" else [(a,) for a in range(lo, hi)]
            if outs is None or len(outs) != len(pairs):
                ctx.fail("crash_or_error", {"variant": vname, "func": fexpr}, r, "one result per pair")
                continue
            f = dict(kind="neg" if op == "neg" else "var", op=op, ty=nm)
            mres = model.batch([model_query(f, 8, sg, p, builtin, True, single=True) for p in pairs])
            nbad = 0
            for p, got, m in zip(pairs, outs, mres):
                exp = expected_of(f, 8, sg, p)
                mval = m[2:] if m.startswith("V ") else m
                inp = {"variant": vname, "func": fexpr, "args": list(p)}
                if m != "UB" and mval != got and nbad < 5:
                    ctx.corr_break("overflow:sweep", inp, got, m); nbad += 1
                ok = (exp[0] == "val" and (got == str(exp[1]) or got == "O")) or (exp[0] == "raise" and got == "O")
                if exp[0] == "val" and got == "O":
                    spur[(vname, op + "/8bit")] = spur.get((vname, op + "/8bit"), 0) + 1
                if not ok and nbad < 5:
                    ctx.fail(classify(f, 8, sg, p), inp, got, str(exp)); nbad += 1
            ctx.count("sweep8/%s/%s" % (vname, fexpr), len(pairs), distinct_sigs=[(vname, fexpr, "exhaustive", len(pairs))])
            ctx.extra.setdefault("exhaustive_domains", []).append("%s %s: all %d operand tuples" % (vname, fexpr, len(pairs)))
    ctx.extra["spurious_flags"] = {"%s/%s" % k: v for k, v in sorted(spur.items())}
    ctx.extra["spurious_note"] = ("OverflowError although the exact result fits: only '<<' (negative left operand, or "
                                  "zero shifted by >= width), as characterised by C04_lshift_spurious_exactly")
    # typedef'd types: '<<' as above (on an unsigned type narrower than int LeftShift always sets the bit,
    # lshift_td); nothing else may be spurious
    bad = [k for k in spur if not (k[1].startswith("lshift") or k[1] in ("tree", "negconv", "typedef:lshift", "typedef:tree"))]
    if bad:
        ctx.corr_break("spurious flags outside lshift", bad, "spurious", "none (theorems say add/sub/mul are exact)")
    if os.environ.get("C04_DEBUG"):      # development: the framework prints corr breaks only when no failure fired
        with open(os.environ["C04_DEBUG"], "w") as fh:
            json.dump({"fails": ctx.prop_failures, "breaks": ctx.corr_breaks}, fh, indent=1, default=str)


def replay(ctx, obj):
    inp = obj["input"]
    quick = ctx.tier == "quick"
    trees = (FIXED_TREES[:4] if quick else FIXED_TREES) + random_trees(ctx.rng, 2 if quick else 16)
    plan = module_plan(trees, quick)
    mn = inp["func"].split(".")[0] if "." in inp["func"] else inp["module"]
    if mn.startswith("c04_td"):
        for m, funcs, fold in td_plan(quick):
            if m == mn:
                cybuild.build(m, td_source(funcs, fold), ctx.workdir)
        r = cybuild.call_cases(ctx.workdir, [["%s.%s" % (mn, inp["func"]), [inp["k"], [(inp["args"] + [0, 0])[:3]]]]],
                               setup="import %s" % mn)
        print("replayed (builtin branch):", json.dumps(inp), "->", str(r[0])[:300], "expected", obj.get("expected"))
        return
    for m, funcs, fold, sw in plan:
        if m == mn:
            cybuild.build(m, gen_source(funcs, fold, sw), ctx.workdir)
    fn = inp["func"].split(".")[-1]
    call = [["%s.%s" % (mn, fn), [] if fn.startswith("sweep") else [[inp["args"]]]]]
    r = cybuild.call_cases(ctx.workdir, call, setup="import %s" % mn)
    print("replayed (builtin branch; sweeps return the whole table):", json.dumps(inp), "->",
          str(r[0])[:300], "expected", obj.get("expected"))
