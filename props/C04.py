"""C04 - overflowcheck reports exactly the overflowing C arithmetic (DESIGN 7/C04)."""
import json, os, re, subprocess
import cybuild

TITLE = "overflowcheck reports exactly the overflowing C arithmetic"
EXTRACTS = ["Overflow"]
RULE = ("operand tuples per (C type, operator or expression tree, variable/constant operand, fold on/off, "
        "preprocessor branch of Overflow.c); exhaustive for 8-bit types (run inside the module), boundary "
        "lattice + PRNG values for 16/32/64-bit types; distinct by (module, function, operands); non-trivial "
        "= operands reach the helper (every case does; strata separate fits / overflows / spurious)")
EXPLANATION = ("theorems (all widths >= 8, all in-range operands, every __builtin_constant_p outcome): each "
               "portable helper of Overflow.c (unsigned/signed add, sub, mul, mul_const, widening paths) "
               "returns the wrapped exact result and sets the bit iff the exact result does not fit, equals "
               "the __builtin_*_overflow contract, and its own operations are free of UB; lshift is sound and "
               "complete with its spurious set characterised exactly; abs and // (C03 model) are exact; the "
               "folded check of ConsolidateOverflowCheck raises iff the unfolded one does. Correspondence: "
               "extracted model vs compiled modules (gcc builtin branch; clang -D__ibmxl__ portable branch in "
               "thorough) vs Python big-int oracle. partial: unary minus is unchecked in the code (refuted, "
               "known finding); the Binop sizeof(T)<sizeof(int) arm is unchecked but the compiler never "
               "instantiates it (tested on the generated C, not proved); the fold theorem is about the tree "
               "model of the transform; mixed signed/unsigned operands are outside the property's quantifier.")
TRUSTED = ["model of C arithmetic: explicit two's-complement wrap per operation at the width of its C type (Lib/CInt.v)",
           "contract of __builtin_{add,sub,mul}_overflow as documented by gcc/clang (builtin_res)",
           "gcc / clang as conforming C compilers for the generated module; clang -D__ibmxl__ selects the portable branch (checked with -E -dM)",
           "M_CMath.div_node (C03) for '//'"]
ASSUMPTIONS = ["LP64: char 8, short 16, int 32, long/long long 64 bits (theorems are for all widths; the "
               "widening multiplication needs 2*w <= width of the wider type, true on LP64 and LLP64)",
               "operands of one binary operation have the same C type (or one is an integer literal)"]

# set to True once the proposed fix C04-unary_neg_unchecked is applied to the tree
NEG_CHECKED = os.environ.get("C04_NEG_CHECKED", "1") == "1"   # (env override: trying the fix in a worktree)

# (ctype, name, width, signed)
TYPES = [("signed char", "schar", 8, True), ("short", "short", 16, True), ("int", "int", 32, True),
         ("long", "long", 64, True), ("long long", "longlong", 64, True),
         ("unsigned char", "uchar", 8, False), ("unsigned short", "ushort", 16, False),
         ("unsigned int", "uint", 32, False), ("unsigned long", "ulong", 64, False),
         ("unsigned long long", "ulonglong", 64, False),
         ("Py_ssize_t", "ssize_t", 64, True), ("size_t", "size_t", 64, False)]
TYPE_BY_NAME = {t[1]: t for t in TYPES}
OPS = [("add", "+"), ("sub", "-"), ("mul", "*"), ("lshift", "<<")]
SYM = dict(OPS)
RCONST = {"add": [1, -1, 100], "sub": [1, -1, 100], "mul": [0, 1, 2, 3, -1, -3, 7, 65536],
          "lshift": [0, 1, 3, 31, 32, 63, 64]}
LCONST = {"add": [1], "sub": [10, -1], "mul": [3, -2], "lshift": [1, 5]}
RCONST_QUICK = {"add": [1, -1], "sub": [1, -1], "mul": [0, 2, -1, -3, 65536], "lshift": [0, 3, 31, 64]}
LCONST_QUICK = {"add": [1], "sub": [-1], "mul": [-2], "lshift": [1]}
# helper-name suffix in the generated C -> (width, signed)
CNAME = {"int": (32, True), "long": (64, True), "PY_LONG_LONG": (64, True), "Py_ssize_t": (64, True),
         "unsigned_int": (32, False), "unsigned_long": (64, False), "unsigned_PY_LONG_LONG": (64, False),
         "size_t": (64, False)}
# expression trees (prefix); v0 v1 v2 have the same C type, so every node has the promoted type
FIXED_TREES = ["+ * v0 v1 v2", "* + v0 v1 - v0 v2", "- * v0 v1 * v2 v0", "+ << v0 v1 v2",
               "* * v0 v1 v2", "- - v0 v1 v2", "+ v0 + v1 + v2 v0", "<< + v0 v1 v2"]


def rng_of(w, sg):
    return (-(2 ** (w - 1)), 2 ** (w - 1) - 1) if sg else (0, 2 ** w - 1)


def cn(c):
    return ("m%d" % -c) if c < 0 else str(c)


def restype(w, sg, const=None):
    """C result type of T op T (integer promotions) resp. T op literal (a literal is a C long)."""
    if const is not None:
        return (64, not (w == 64 and not sg))
    return (max(w, 32), sg or w < 32)


def tree_src(toks):
    t = toks.pop(0)
    if t in ("+", "-", "*", "<<"):
        a = tree_src(toks); b = tree_src(toks)
        return "(%s %s %s)" % (a, t, b)
    return "abc"[int(t[1:])]


def tree_exact(toks, env, lo, hi):
    """(value, must_raise): exact evaluation; must_raise if some sub-operation's exact result does not fit"""
    t = toks.pop(0)
    if t in ("+", "-", "*", "<<"):
        a, ra = tree_exact(toks, env, lo, hi)
        b, rb = tree_exact(toks, env, lo, hi)
        if ra or rb:
            return None, True
        if t == "<<":
            if b < 0 or b > 200:
                return None, True
            v = a << b
        else:
            v = a + b if t == "+" else a - b if t == "-" else a * b
        return (v, False) if lo <= v <= hi else (None, True)
    return env[int(t[1:])], False


def random_trees(rng, n):
    out = []
    def gen(d):
        if d == 0 or rng.random() < 0.25:
            return ["v%d" % rng.randrange(3)]
        op = rng.choice(["+", "-", "*", "<<", "+", "-", "*"])
        return [op] + gen(d - 1) + gen(d - 1)
    while len(out) < n:
        t = gen(3)
        if len(t) >= 5:
            out.append(" ".join(t))
    return out


def vec_func(name, ctype, nargs, expr, ctype2=None):
    argn = "abc"[:nargs]
    L = ["def %s(cases):" % name,
         ("    cdef %s a\n    cdef %s b" % (ctype, ctype2)) if ctype2 else
         "    cdef %s %s" % (ctype, ", ".join(argn)),
         "    out = []",
         "    for t in cases:"]
    L.append("        " + "; ".join("%s = t[%d]" % (v, i) for i, v in enumerate(argn)))
    L += ["        try:", "            out.append(%s)" % expr,
          "        except OverflowError:", "            out.append('O')",
          "        except ZeroDivisionError:", "            out.append('Z')",
          "    return ','.join([str(x) for x in out])", ""]
    return L


GROUPS = {"1": ["schar", "short", "int"], "2": ["long", "longlong", "ssize_t"],
          "3": ["uchar", "ushort", "uint"], "4": ["ulong", "ulonglong", "size_t"]}


def module_plan(trees, quick=False):
    """[(module name, functions, fold, types whose 8-bit sweeps live there)]: several small modules
    so that they build in parallel"""
    plan = []
    for g, names in sorted(GROUPS.items()):
        plan.append(("c04_f" + g, functions(trees, True, names, quick), True,
                     [n for n in names if n in ("schar", "uchar")]))
    plan.append(("c04_n1", functions(trees, False, GROUPS["1"] + GROUPS["2"]), False, []))
    plan.append(("c04_n2", functions(trees, False, GROUPS["3"] + GROUPS["4"]), False, []))
    return plan


def functions(trees, full, names, quick=False):
    """list of dict(name, type, kind, op, const, expr, nargs, tree)"""
    F = []
    for ct, nm, w, sg in TYPES:
        if nm not in names:
            continue
        for op, sym in OPS:
            F.append(dict(name="f_%s_%s" % (op, nm), ty=nm, kind="var", op=op, nargs=2, expr="a %s b" % sym))
        for i, tr in enumerate(trees):
            F.append(dict(name="t%d_%s" % (i, nm), ty=nm, kind="tree", tree=tr, nargs=3,
                          expr=tree_src(tr.split())))
        F.append(dict(name="f_neg_%s" % nm, ty=nm, kind="neg", nargs=1, expr="-a"))
        if not full:
            continue
        for op, sym in OPS:
            for c in (RCONST_QUICK if quick else RCONST)[op]:
                F.append(dict(name="r_%s_%s_%s" % (op, nm, cn(c)), ty=nm, kind="rconst", op=op, const=c,
                              nargs=1, expr="a %s (%d)" % (sym, c)))
            for c in (LCONST_QUICK if quick else LCONST)[op]:
                F.append(dict(name="l_%s_%s_%s" % (op, nm, cn(c)), ty=nm, kind="lconst", op=op, const=c,
                              nargs=1, expr="(%d) %s a" % (c, sym)))
        if sg and nm in ("int", "long"):
            # signed variable operand with an unsigned one of the same rank: the result type is unsigned
            for op, sym in OPS[:3]:
                F.append(dict(name="x_%s_%s" % (op, nm), ty=nm, ty2="u" + nm, kind="mix", op=op, nargs=2,
                              expr="a %s b" % sym))
        F.append(dict(name="f_abs_%s" % nm, ty=nm, kind="abs", nargs=1, expr="abs(a)"))
        F.append(dict(name="f_div_%s" % nm, ty=nm, kind="div", nargs=2, expr="a // b"))
        if sg:
            F.append(dict(name="r_div_%s_m1" % nm, ty=nm, kind="divc", const=-1, nargs=1, expr="a // (-1)"))
    return F


def gen_source(funcs, fold, sweeps):
    L = ["# cython: language_level=3, overflowcheck=True, overflowcheck.fold=%s" % ("True" if fold else "False"), ""]
    for f in funcs:
        L += vec_func(f["name"], TYPE_BY_NAME[f["ty"]][0], f["nargs"], f["expr"],
                      TYPE_BY_NAME[f["ty2"]][0] if "ty2" in f else None)
    if sweeps:
        for ct, nm, lo, hi in [("signed char", "schar", -128, 128), ("unsigned char", "uchar", 0, 256)]:
            if nm not in sweeps:
                continue
            for op, sym in OPS:
                L += ["def sweep_%s_%s():" % (op, nm),
                      "    cdef %s a, b" % ct, "    cdef int i, j", "    out = []",
                      "    for i in range(%d, %d):" % (lo, hi),
                      "        for j in range(%d, %d):" % (lo, hi),
                      "            a = <%s>i; b = <%s>j" % (ct, ct),
                      "            try:", "                out.append(a %s b)" % sym,
                      "            except OverflowError:", "                out.append('O')",
                      "    return ','.join([str(x) for x in out])", ""]
            L += ["def sweep_neg_%s():" % nm, "    cdef %s a" % ct, "    cdef int i", "    out = []",
                  "    for i in range(%d, %d):" % (lo, hi), "        a = <%s>i" % ct,
                  "        try:", "            out.append(-a)",
                  "        except OverflowError:", "            out.append('O')",
                  "    return ','.join([str(x) for x in out])", ""]
    return "\n".join(L)


def lattice(w, sg, rng, nrand):
    lo, hi = rng_of(w, sg)
    vals = {lo, lo + 1, lo + 2, hi, hi - 1, hi - 2, 0, 1, 2, 3, 7, 31, 32, 33, 63, 64, 65,
            hi // 2, hi // 2 + 1, hi // 3, hi // 3 + 1, hi // 7}
    r = int(2 ** (w / 2.0))
    vals |= {r, r + 1, r - 1, 1 << (w // 2), (1 << (w // 2)) - 1, (1 << (w // 2)) + 1}
    if w > 32:
        vals |= {2 ** 31 - 1, 2 ** 31, 2 ** 32 - 1, 2 ** 32, 46341, 46340, 3037000499, 3037000500}
    if w == 32:
        vals |= {46340, 46341, 65535, 65536, 23170, 23171}
    if sg:
        vals |= {-1, -2, -3, -7, lo // 2, lo // 2 - 1, lo // 2 + 1, lo // 3, lo // 3 - 1, -r, -r - 1, -(1 << (w // 2))}
    for _ in range(nrand):
        k = rng.randrange(1, w + 1)
        v = rng.getrandbits(k)
        if sg and rng.random() < 0.5:
            v = -v
        vals.add(v)
    return sorted(v for v in vals if lo <= v <= hi)


def inspect_c(c_file, funcs):
    """helper names called from each generated function body -> {fname: set((op, const?, cname))}"""
    txt = open(c_file).read()
    pos = [(m.start(), m.group(1)) for m in re.finditer(
        r"^static PyObject \*__pyx_pf_\w+?_\d*((?:f|r|l|x|t\d+)_\w+|sweep_\w+)\(.*\) \{", txt, re.M)]
    used = {}
    for i, (p, fn) in enumerate(pos):
        end = pos[i + 1][0] if i + 1 < len(pos) else txt.find("static PyMethodDef", p)
        body = txt[p:end]
        s = set()
        for m in re.finditer(r"= (__Pyx_(add|sub|mul|div|lshift)(_const)?_(\w+?)_(checking_overflow|no_overflow))\(", body):
            s.add((m.group(2), bool(m.group(3)), m.group(4), m.group(5)))
        used[fn] = s
    return used


def expected_of(f, w, sg, args):
    """property oracle (independent of the model): ('val', v) must be that value or a spurious 'O';
    ('raise',) must raise; result type by the C promotion rule."""
    k = f["kind"]
    a = args[0]
    if k in ("var", "rconst", "lconst", "mix"):
        if k == "var":
            x, y, (rw, rs) = a, args[1], restype(w, sg)
        elif k == "mix":
            x, y, (rw, rs) = a, args[1], (w, False)
        elif k == "rconst":
            x, y, (rw, rs) = a, f["const"], restype(w, sg, f["const"])
        else:
            x, y, (rw, rs) = f["const"], a, restype(w, sg, f["const"])
        lo, hi = rng_of(rw, rs)
        op = f["op"]
        if op == "lshift":
            if y < 0:
                return ("raise",)
            if y > 200:
                return ("raise",) if x != 0 else ("val", 0)
            v = x << y
        else:
            v = x + y if op == "add" else x - y if op == "sub" else x * y
        return ("val", v) if lo <= v <= hi else ("raise",)
    if k == "neg":
        rw, rs = restype(w, sg)
        lo, hi = rng_of(rw, rs)
        return ("val", -a) if lo <= -a <= hi else ("raise",)
    if k == "abs":
        # abs(int/long/long long) returns that type; other types go through the Python object protocol
        if sg and f["ty"] in ("int", "long", "longlong"):
            lo, hi = rng_of(w, sg)
            return ("val", abs(a)) if abs(a) <= hi else ("raise",)
        return ("val", abs(a))
    if k in ("div", "divc"):
        b = args[1] if k == "div" else f["const"]
        if b == 0:
            return ("zero",)
        rw, rs = restype(w, sg, None if k == "div" else b)
        lo, hi = rng_of(rw, rs)
        q = a // b
        return ("val", q) if lo <= q <= hi else ("raise",)
    if k == "tree":
        rw, rs = restype(w, sg)
        lo, hi = rng_of(rw, rs)
        v, must = tree_exact(f["tree"].split(), args, lo, hi)
        return ("raise",) if must else ("val", v)
    raise ValueError(k)


def model_query(f, w, sg, args, builtin, fold, single=False):
    k = f["kind"]
    B = 1 if builtin else 0
    if k in ("var", "rconst", "lconst", "mix"):
        if k == "var":
            x, y, (rw, rs) = args[0], args[1], restype(w, sg)
        elif k == "mix":
            x, y, (rw, rs) = args[0], args[1], (w, False)
        elif k == "rconst":
            x, y, (rw, rs) = args[0], f["const"], restype(w, sg, f["const"])
        else:
            x, y, (rw, rs) = f["const"], args[0], restype(w, sg, f["const"])
        if not rs:
            # C converts a negative operand (variable or literal) to the unsigned result type first
            x, y = x % 2 ** rw, y % 2 ** rw
        if single:
            return "op %d %s %d %d 64 64 0 0 0 %d %d" % (B, f["op"], rw, rs, x, y)
        return "opall %d %s %d %d 64 64 %d %d" % (B, f["op"], rw, rs, x, y)
    if k == "neg":
        rw, rs = restype(w, sg)
        return "neg %d %d %d %d" % (1 if NEG_CHECKED else 0, rw, rs, args[0])
    if k == "abs":
        # only abs(int/long/long long) is the C function guarded by the __PYX_MIN test; the other
        # types are converted to Python objects (not Overflow.c): oracle only, no model
        return "abs %d %d" % (w, args[0]) if (sg and f["ty"] in ("int", "long", "longlong")) else "skip"
    if k in ("div", "divc"):
        b = args[1] if k == "div" else f["const"]
        rw, rs = restype(w, sg, None if k == "div" else b)
        return "div %d %d %d %d %d" % (rw, rs, 0 if k == "div" else 1, args[0], b)
    if k == "tree":
        rw, rs = restype(w, sg)
        return "tree %d %d 64 64 %d %d %s %s" % (B, rw, rs, 1 if fold else 0,
                                               ",".join(str(x) for x in args), f["tree"])
    raise ValueError(k)


def classify(f, w, sg, args):
    if f["kind"] == "neg":
        rw, rs = restype(w, sg)
        if rs and args[0] == rng_of(rw, rs)[0]:
            return "unary_neg_signed_min_unchecked"
        if not rs and args[0] > 0:
            return "unary_neg_unsigned_wraps"
    if f["kind"] in ("rconst", "lconst") and f["const"] < 0 and not restype(w, sg, f["const"])[1]:
        return "negative_operand_converted_to_unsigned"
    if f["kind"] == "mix" and args[0] < 0:
        return "negative_operand_converted_to_unsigned"
    return "wrong_result_%s" % f["kind"]


def parse_out(r):
    if "e" in r:
        return None
    s = r["r"]
    if s.startswith("'") or s.startswith('"'):
        s = s[1:-1]
    return s.split(",") if s else []


def check_types(ctx, modname, funcs, used):
    """the helper the compiler chose for every function is the one of the C result type"""
    for f in funcs:
        ct, nm, w, sg = TYPE_BY_NAME[f["ty"]]
        u = used.get(f["name"])
        if u is None:
            ctx.corr_break("inspect_c", {"module": modname, "func": f["name"]}, "function body not found", "found")
            continue
        for (op, isconst, cname, kindsuffix) in u:
            if op == "div" or kindsuffix == "no_overflow":
                ctx.corr_break("dead-helper assumption", {"module": modname, "func": f["name"]},
                               "__Pyx_%s_%s_%s is called" % (op, cname, kindsuffix),
                               "never called (div helpers / unchecked macros unreachable)")
                continue
            if cname not in CNAME:
                ctx.corr_break("result type", {"module": modname, "func": f["name"]}, cname, "known type name")
                continue
            k = f["kind"]
            want = restype(w, sg, f.get("const")) if k in ("rconst", "lconst") else ((w, False) if k == "mix" else restype(w, sg))
            if k in ("var", "rconst", "lconst", "tree", "mix") and CNAME[cname] != want:
                ctx.corr_break("result type", {"module": modname, "func": f["name"]},
                               "%s %s" % (cname, CNAME[cname]), "%s" % (want,))
        if f["kind"] in ("var", "rconst", "lconst") and not u:
            ctx.corr_break("result type", {"module": modname, "func": f["name"]}, "no helper call", "checked helper")


def build_all(ctx, mods, portable):
    """mods: list of (name, source). Returns dict name -> dict(workdir, c_file) or None on failure"""
    out = {}
    specs = [dict(name=n, source=s, workdir=ctx.workdir) for n, s in mods]
    built = cybuild.build_many(specs, jobs=len(specs))
    import concurrent.futures as cf
    for (so, err), (n, s) in zip(built, mods):
        if err is not None:
            ctx.corr_break("build " + n, n, str(err)[:1500], "module builds")
            return None
        out[n] = os.path.join(ctx.workdir, n + ".c")
    if portable:
        pdir = os.path.join(ctx.workdir, "portable")
        os.makedirs(pdir, exist_ok=True)
        def one(n):
            c_file = out[n]
            # the portable branch really is selected: no __PYX_HAVE_BUILTIN_OVERFLOW after preprocessing
            p = subprocess.run(["clang", "-E", "-dM", "-w", "-D__ibmxl__", "-I" + cybuild.INC, c_file],
                               capture_output=True, text=True, timeout=600)
            if p.returncode != 0 or "__PYX_HAVE_BUILTIN_OVERFLOW" in p.stdout:
                return ("portable branch selection", n, "builtin branch still selected or clang -E failed: " + p.stderr[-300:],
                        "portable branch")
            rc, err = cybuild.cc(c_file, os.path.join(pdir, n + cybuild.EXT), cflags=["-O1"],
                                 macros=["__ibmxl__"], compiler="clang")
            if rc != 0:
                return ("build portable " + n, n, err[-1500:], "module builds")
            return None
        with cf.ThreadPoolExecutor(max_workers=len(mods)) as ex:
            errs = [e for e in ex.map(one, [n for n, s in mods]) if e]
        for e in errs:
            ctx.corr_break(*e)
        if errs:
            return None
    return out


def run(ctx):
    quick = ctx.tier == "quick"
    trees = (FIXED_TREES[:4] if quick else FIXED_TREES) + random_trees(ctx.rng, 2 if quick else 16)
    plan = module_plan(trees, quick)
    cfiles = build_all(ctx, [(mn, gen_source(funcs, fold, sw)) for mn, funcs, fold, sw in plan], portable=not quick)
    if cfiles is None:
        return
    model = ctx.model("overflow")
    for mn, funcs, fold, sw in plan:
        check_types(ctx, mn, funcs, inspect_c(cfiles[mn], funcs))

    nrand = 10 if quick else 40
    lat = {nm: lattice(w, sg, ctx.rng, nrand) for ct, nm, w, sg in TYPES}
    variants = [("builtin", ctx.workdir, True)]
    if not quick:
        variants.append(("portable", os.path.join(ctx.workdir, "portable"), False))
    spur = {}
    for vname, wd, builtin in variants:
        for mn, funcs, fold, _sw in plan:
            calls, meta = [], []
            for f in funcs:
                ct, nm, w, sg = TYPE_BY_NAME[f["ty"]]
                vals = lat[nm]
                if f["nargs"] == 1:
                    cases = [(a,) for a in vals]
                elif f["nargs"] == 2:
                    cases = [(a, b) for a in vals for b in (lat[f["ty2"]] if "ty2" in f else vals)]
                    if quick and len(cases) > 900:
                        lo, hi = rng_of(w, sg)
                        edge = {lo, hi, 0, 1, -1, lo + 1, hi - 1}
                        keep = [c for c in cases if c[0] in edge or c[1] in edge]
                        rest = [c for c in cases if not (c[0] in edge or c[1] in edge)]
                        cases = keep + ctx.rng.sample(rest, min(len(rest), 500))
                else:
                    small = [v for v in vals if abs(v) <= 70]
                    n3 = 150 if quick else 600
                    cases = []
                    for _ in range(n3):
                        pool = [vals, vals, small] if ctx.rng.random() < 0.6 else [vals, small, vals]
                        cases.append(tuple(ctx.rng.choice(pool[i]) for i in range(3)))
                calls.append(["%s.%s" % (mn, f["name"]), [[list(c) for c in cases]]])
                meta.append((f, cases))
            res = cybuild.call_cases(wd, calls, setup="import %s" % mn, alarm=120)
            mq = []
            for (f, cases) in meta:
                ct, nm, w, sg = TYPE_BY_NAME[f["ty"]]
                mq += [model_query(f, w, sg, c, builtin, fold) for c in cases]
            mres = model.batch(mq)
            mi = 0
            for (f, cases), r in zip(meta, res):
                ct, nm, w, sg = TYPE_BY_NAME[f["ty"]]
                outs = parse_out(r)
                inp0 = {"variant": vname, "module": mn, "func": f["name"]}
                if outs is None or len(outs) != len(cases):
                    ctx.fail("crash_or_error", dict(inp0, cases=len(cases)), r, "one result per case")
                    mi += len(cases)
                    continue
                nbad = 0
                for c, got, m in zip(cases, outs, mres[mi:mi + len(cases)]):
                    exp = expected_of(f, w, sg, c)
                    inp = dict(inp0, args=list(c))
                    # stratum
                    if exp[0] == "val":
                        st = "fits" if got != "O" else "spurious"
                    else:
                        st = "overflows" if exp[0] == "raise" else "zero"
                    key = f.get("op") or f["kind"]
                    ctx.case("%s/%s/%s/%s/%s" % (vname, "fold" if fold else "nofold", f["kind"], key, st),
                             inp, sig=(vname, mn, f["name"], c))
                    if st == "spurious" and classify(f, w, sg, c) == "negative_operand_converted_to_unsigned":
                        key = "negconv"
                    if st == "spurious":
                        spur[(vname, key)] = spur.get((vname, key), 0) + 1
                    # tie: implementation vs model
                    mval = m[2:] if m.startswith("V ") else m
                    if m not in ("UB", "SKIP") and mval != got and nbad < 5:
                        ctx.corr_break("overflow:" + f["kind"], inp, got, m); nbad += 1
                    if m.startswith("!") and nbad < 5:
                        ctx.corr_break("overflow:model-error", inp, got, m); nbad += 1
                    # property
                    ok = ((exp[0] == "val" and (got == str(exp[1]) or got == "O")) or
                          (exp[0] == "raise" and got == "O") or (exp[0] == "zero" and got == "Z"))
                    if not ok:
                        ctx.fail(classify(f, w, sg, c), inp, got,
                                 {"val": "%s or OverflowError" % (exp[1] if len(exp) > 1 else ""),
                                  "raise": "OverflowError", "zero": "ZeroDivisionError"}[exp[0]],
                                 note="model says %s" % m)
                mi += len(cases)
    # exhaustive 8-bit sweeps (fold module; builtin and, in thorough, portable build)
    for vname, wd, builtin in variants:
        sw = [["%s.sweep_%s_%s" % (mn, op, nm), []] for mn, nm in (("c04_f1", "schar"), ("c04_f3", "uchar"))
              for op in ("add", "sub", "mul", "lshift", "neg")]
        sres = cybuild.call_cases(wd, sw, setup="import c04_f1, c04_f3", alarm=300)
        for (fexpr, _), r in zip(sw, sres):
            _, op, nm = fexpr.split(".")[1].split("_")
            sg = nm == "schar"
            lo, hi = (-128, 128) if sg else (0, 256)
            outs = parse_out(r)
            pairs = [(a, b) for a in range(lo, hi) for b in range(lo, hi)] if op != "neg" else [(a,) for a in range(lo, hi)]
            if outs is None or len(outs) != len(pairs):
                ctx.fail("crash_or_error", {"variant": vname, "func": fexpr}, r, "one result per pair")
                continue
            f = dict(kind="neg" if op == "neg" else "var", op=op, ty=nm)
            mres = model.batch([model_query(f, 8, sg, p, builtin, True, single=True) for p in pairs])
            nbad = 0
            for p, got, m in zip(pairs, outs, mres):
                exp = expected_of(f, 8, sg, p)
                mval = m[2:] if m.startswith("V ") else m
                inp = {"variant": vname, "func": fexpr, "args": list(p)}
                if m != "UB" and mval != got and nbad < 5:
                    ctx.corr_break("overflow:sweep", inp, got, m); nbad += 1
                ok = (exp[0] == "val" and (got == str(exp[1]) or got == "O")) or (exp[0] == "raise" and got == "O")
                if exp[0] == "val" and got == "O":
                    spur[(vname, op + "/8bit")] = spur.get((vname, op + "/8bit"), 0) + 1
                if not ok and nbad < 5:
                    ctx.fail(classify(f, 8, sg, p), inp, got, str(exp)); nbad += 1
            ctx.count("sweep8/%s/%s" % (vname, fexpr), len(pairs), distinct_sigs=[(vname, fexpr, "exhaustive", len(pairs))])
            ctx.extra.setdefault("exhaustive_domains", []).append("%s %s: all %d operand tuples" % (vname, fexpr, len(pairs)))
    ctx.extra["spurious_flags"] = {"%s/%s" % k: v for k, v in sorted(spur.items())}
    ctx.extra["spurious_note"] = ("OverflowError although the exact result fits: only '<<' (negative left operand, or "
                                  "zero shifted by >= width), as characterised by C04_lshift_spurious_exactly")
    bad = [k for k in spur if not (k[1].startswith("lshift") or k[1] in ("tree", "negconv"))]
    if bad:
        ctx.corr_break("spurious flags outside lshift", bad, "spurious", "none (theorems say add/sub/mul are exact)")


def replay(ctx, obj):
    inp = obj["input"]
    quick = ctx.tier == "quick"
    trees = (FIXED_TREES[:4] if quick else FIXED_TREES) + random_trees(ctx.rng, 2 if quick else 16)
    plan = module_plan(trees, quick)
    mn = inp["func"].split(".")[0] if "." in inp["func"] else inp["module"]
    for m, funcs, fold, sw in plan:
        if m == mn:
            cybuild.build(m, gen_source(funcs, fold, sw), ctx.workdir)
    fn = inp["func"].split(".")[-1]
    call = [["%s.%s" % (mn, fn), [] if fn.startswith("sweep") else [[inp["args"]]]]]
    r = cybuild.call_cases(ctx.workdir, call, setup="import %s" % mn)
    print("replayed (builtin branch; sweeps return the whole table):", json.dumps(inp), "->",
          str(r[0])[:300], "expected", obj.get("expected"))
