"""C10 - String and bytes literals keep their exact values (DESIGN 7/C10)."""
import os, re, json, hashlib, warnings, zlib, bz2, subprocess, shutil
import concurrent.futures as cf
import cybuild

TITLE = "String and bytes literals keep their exact values"
EXTRACTS = ["StrLit"]
RULE = ("literal texts = prefix ('' u U b B r R br Rb bR rb BR c) x quote style (' \" ''' \"\"\") x body made of "
        "pieces drawn from: plain characters per code-point class (ASCII, Latin-1, BMP, astral, tab, raw newline in "
        "triple quotes), every escape kind (simple, octal of 1-3 digits incl. > 0o377, \\x, \\u, \\U over "
        "NUL/ASCII/Latin-1/BMP/surrogate/astral values, \\N{name}, line continuation, unknown escapes, truncated "
        "\\x \\u \\U, out-of-range \\U) and digits/hex letters placed after escapes; implicit concatenation of 2-3 "
        "literals; long bodies of 1..70000 characters.  Decoder cases are distinct by literal text; module cases by "
        "(literal text, CYTHON_COMPRESS_STRINGS value); table cases by the list of constants.  A case is "
        "non-trivial when its body contains an escape or a non-ASCII character or is longer than the 2000 split.  "
        "Large tables (props/C10_big.py): modules whose sorted string table is laid out byte-exactly so that a unique "
        "marker of ln bytes recurs eo bytes after its end, for (eo, ln) on both sides of every threshold of the storage "
        "forms (end offsets 0,1,127|128,639|640, 128+2^k-1|128+2^k for every offset bit k up to 8319|8320, "
        "16511|16512|16513 = window limit; lengths 3|4, 34|35, 258|259, 300, 520), in str (ASCII, Latin-1, BMP, astral, "
        "NUL/control characters), f-string parts, bytes (all 256 values), identifiers (ASCII and non-ASCII) and "
        "text-to-bytes cross references; filler = random characters, local duplicates, runs, words; table sizes "
        "0.3 KiB .. 220 KiB (quick: 18 KiB, 27 KiB, 72 KiB) incl. 8.3 KiB, 16 KiB and 64 KiB+; run-length sweeps that bisect "
        "the 200-byte saving threshold of the lzss and zlib branches (one module on each side); a table whose repeat lies "
        "beyond the LZSS and zlib windows (bz2 branch emitted).  Every module is built for CYTHON_COMPRESS_STRINGS "
        "undefined/0/1/2 (thorough: also 3/90/5/91/-1) and every literal and global name is compared with CPython's exec of "
        "the same source.  The run fails if the model token streams of the generated tables do not contain every "
        "required (form, end offset / length) class and every offset bit both set and clear in every form.")
EXPLANATION = ("theorems (Coq, 18 closed + 2 non-vacuity examples): (1) the modelled decoder (scanner ESCAPE token lex_escape + "
               "_append_escape_sequence + the three literal builders + the p_string_literal loop) with the proposed octal "
               "repair is total for EVERY kind, raw flag and body (never an internal error, fuel len+1 suffices) and, for "
               "every non-raw str/u/b body without a \\N{ escape, yields exactly the code points/bytes of an independently "
               "written specification of Python's literal value and rejects exactly what the specification rejects; as the "
               "tree is, totality is refuted by \\777 (internal UnicodeEncodeError; Python: chr(511) / b'\\xff'). (2) UTF-8: "
               "strict decode inverts encode on all scalar strings, the encoder is defined exactly on scalar values and "
               "refuses surrogates; unicode_escape (the path that carries surrogates) round-trips for EVERY code point. "
               "(3) string table: for ALL lists of text and byte constants (any order, empty, NUL) with lengths < 2^32 the "
               "bit-field width max(index).bit_length() is legal and holds every length and the unpacking loops give back "
               "exactly the lists; as the tree is, refuted when every constant of a category is empty (width 0). "
               "(4) pipeline_identity: table -> C literal or MSVC char array (C11) -> every branch selectable by "
               "CYTHON_COMPRESS_STRINGS incl. undefined/default (LZSS by C12, zlib/bz2/zstd by contract) -> module init "
               "rebuilds exactly the constants.  (5) large tables: split(decode(encode(concat table))) = table for EVERY "
               "non-empty table whatever its size and repeat distances (on C12's round trip + the length index); one back "
               "reference written by LZSS.py for (end offset, length) is read by the C field decoding as exactly that, for "
               "all three forms (hence distinct references have distinct encodings - no offset or length bit may be "
               "dropped); the C12 decoder model copies exactly the range so named; the thresholds of the forms and of "
               "the 200-byte storage test.  Tied to the code by compiled modules with tables up to 220 KiB: concat bytes and "
               "LZSS output of the real compiler = model (md5), selection chain = model, values at run time = CPython.  partial: the Plex tokenisation of literal bodies is modelled by "
               "lex_escape and tied to the real scanner only by the correspondence run; value agreement is not proved for "
               "raw and char literals nor for the unrepaired decoder on bodies without big octal escapes (tested on every "
               "case); \\N{name} lookups, f-string fields, implicit concatenation (harness list join) and constant "
               "de-duplication/sorting are outside the model (two findings there come from the correspondence run).")
TRUSTED = ["CPython eval() of the same literal text as the property oracle (type, value, len)",
           "py_text/py_bytes/py_raw in M_StrLit.v as the meaning of the language reference (cross-checked against "
           "CPython eval on every decoder case); py_text also stands for PyUnicode_DecodeUnicodeEscape",
           "decode_utf8 as the contract of PyUnicode_DecodeUTF8 (strict), enc_char as str.encode('utf-8')",
           "zlib/bz2/compression.zstd: decompress(compress(x)) = x and outputs are byte strings (codec_ok)",
           "C11's reference C reader and C12's model of the C decompressor (their own checks)",
           "C bit-field semantics: width 1..32 required, initialiser reduced modulo 2^width",
           "CPython exec() of the generated module source as the oracle for the large-table modules; the recording hook "
           "around Code.compression_algorithms / GlobalState.generate_pystring_constants (reads the table, changes nothing)",
           "gcc as a conforming C compiler"]
ASSUMPTIONS = ["language_level=3, UTF-8 source: body characters are Unicode scalar values",
               "every constant shorter than 2^32 bytes", "LP64, unsigned int of 32 bits"]

FX_OCT = os.environ.get("C10_FX_OCT", "1")        # flip to "1" after proposed_fixes/C10-octal_escape_above_0o377
FX_WIDTH = os.environ.get("C10_FX_WIDTH", "1")    # flip to "1" after proposed_fixes/C10-only_empty_bytes_constants
FX_SURR = os.environ.get("C10_FX_SURR", "1")      # flip to "1" after proposed_fixes/C10-surrogate_str_then_equal_bytes_literal
FX_NAMED = os.environ.get("C10_FX_NAMED", "1")    # flip to "1" after proposed_fixes/C10-named_escape_with_digit

IMPL = r'''
import pyload; pyload.install()
import sys, json, types
from io import StringIO
from Cython.Compiler import Parsing, Scanning, Main, Options, Errors, Code, StringEncoding as SE
from Cython.Compiler.Scanning import PyrexScanner, StringSourceDescriptor
pyload.assert_sources()
spec = json.load(sys.stdin)
ctx = Main.Context([], Options.get_directive_defaults())
ctx.set_language_level(3)
def lit(text):
    Errors.init_thread(); Errors.reset()
    src = text + "\n"
    s = PyrexScanner(StringIO(src), StringSourceDescriptor("lit", src), source_encoding="UTF-8", context=ctx,
                     scope=types.SimpleNamespace(included_files=[]))
    try:
        while s.sy in ('INDENT', 'NEWLINE'): s.next()
        if s.sy != 'BEGIN_STRING':
            return ["NOSTRING", s.sy]
        k, b, u = Parsing.p_cat_string_literal(s)
        n = Errors.get_errors_count()
        if s.sy not in ('NEWLINE', 'EOF'):
            return ["TRAILING", s.sy]
        return ["ok", k, None if b is None else list(bytes(b)), None if u is None else [ord(c) for c in u], n]
    except Errors.CompileError as e:
        return ["CompileError", str(e)[-200:]]
    except Exception as e:
        return ["INTERNAL", type(e).__name__, str(e)[:200]]
class W:
    def __init__(s): s.lines = []
    def putln(s, t="", safe=False): s.lines.append(t)
    def put(s, t): s.lines.append(t)
    def error_goto_if_null(s, *a): return "GOTOIFNULL"
    def error_goto(s, *a): return "GOTO"
    def name_in_main_c_code_module_state(s, n): return n
class G:
    module_pos = None
    def __init__(s): s.parts = {'constant_name_defines': W(), 'init_constants': W()}
    def use_utility_code(s, u): pass
    def immortalize_constants(s, *a): pass
def table(texts, bstrs):
    g = G()
    ts = [(False, "T%d" % i, SE.EncodedString("".join(map(chr, t)))) for i, t in enumerate(texts)]
    bs = [(False, "B%d" % i, SE.bytes_literal(bytes(b), 'utf8')) for i, b in enumerate(bstrs)]
    try:
        Code.GlobalState.generate_pystring_constants(g, ts, bs)
    except Exception as e:
        return {"exc": type(e).__name__}
    return {"lines": g.parts['init_constants'].lines, "defs": g.parts['constant_name_defines'].lines}
out = {"lits": [lit(t) for t in spec.get("lits", [])],
       "tables": [table(t, b) for t, b in spec.get("tables", [])]}
print(json.dumps(out))
'''

LOADER = r'''
import sys, json, importlib
sys.path.insert(0, sys.argv[1])
try:
    m = importlib.import_module(sys.argv[2])
    vals = m.VALUES
    res = []
    for v in vals:
        if isinstance(v, str): res.append(["str", [ord(c) for c in v]])
        elif isinstance(v, bytes): res.append(["bytes", list(v)])
        else: res.append([type(v).__name__, repr(v)])
    print(json.dumps({"ok": res}))
except BaseException as e:
    print(json.dumps({"exc": type(e).__name__, "msg": str(e)[:300]}))
'''

# ------------------------------------------------------------------------------------ literal generator
PREFIXES = [("", "s", False), ("u", "u", False), ("U", "u", False), ("b", "b", False), ("B", "b", False),
            ("r", "s", True), ("R", "s", True), ("br", "b", True), ("Rb", "b", True), ("bR", "b", True),
            ("rb", "b", True), ("BR", "b", True)]
QUOTES = ["'", '"', "'''", '"""']
CLASSES = {
    "ascii": lambda r: r.choice("abcxyz019 AF_-+{}()#%"),
    "digit": lambda r: r.choice("0123456789abcdefABCDEFxuUN{}"),
    "latin1": lambda r: chr(r.randrange(0xA1, 0x100)),
    "bmp": lambda r: chr(r.choice([0x100, 0x17F, 0x3A9, 0x7FF, 0x800, 0x20AC, 0x4E00, 0xD7FF, 0xE000, 0xFFFD, 0xFFFF])),
    "astral": lambda r: chr(r.choice([0x10000, 0x1F600, 0x2F800, 0xFFFFF, 0x100000, 0x10FFFF])),
    "tab": lambda r: "\t",
}
CP_VALUES = {"nul": [0], "ascii": [0x41, 0x7F, 0x22, 0x27, 0x5C, 0x0A], "latin1": [0x80, 0xE9, 0xFF],
             "bmp": [0x100, 0x7FF, 0x800, 0x20AC, 0xFFFF], "surrogate": [0xD800, 0xDBFF, 0xDC00, 0xDFFF, 0xD83D, 0xDE00],
             "astral": [0x10000, 0x1F600, 0x10FFFF]}


def gen_piece(r, kind, quote, allow_bad):
    """one piece of a body: (text, tag)"""
    triple = len(quote) == 3
    c = r.random()
    if c < 0.30:
        cls = r.choice(["ascii", "digit", "ascii", "tab"] if kind in "bc" else list(CLASSES))
        return CLASSES[cls](r), "plain:" + cls
    if c < 0.34:
        other = '"' if quote[0] == "'" else "'"
        return other, "plain:otherquote"
    if c < 0.37 and triple:
        return "\n", "plain:newline"
    if c < 0.47:
        return "\\" + r.choice(["\\", "'", '"', "a", "b", "f", "n", "r", "t", "v"]), "esc:simple"
    if c < 0.57:
        n = r.choice([1, 2, 3])
        ds = "".join(r.choice("01234567") for _ in range(n))
        if n == 3 and ds[0] in "4567" and not allow_bad:
            ds = r.choice("0123") + ds[1:]
        return "\\" + ds, "esc:octal%d" % n
    if c < 0.65:
        return "\\x" + "".join(r.choice("0123456789abcdefABCDEF") for _ in range(2)), "esc:x"
    if c < 0.75:
        cls = r.choice(["nul", "ascii", "latin1", "bmp", "surrogate"])
        return "\\u%04x" % r.choice(CP_VALUES[cls]), "esc:u:" + cls
    if c < 0.83:
        cls = r.choice(list(CP_VALUES))
        v = r.choice(CP_VALUES[cls])
        return ("\\U%08x" if r.random() < 0.5 else "\\U%08X") % v, "esc:U:" + cls
    if c < 0.87:
        return "\\\n", "esc:linecont"
    if c < 0.95:
        return "\\" + r.choice(["q", "8", "9", "z", "%", " ", "N", "u", "U", "x", "c", "E", "\u00e9", "{"]), "esc:unknown/truncated"
    if c < 0.98:
        return "\\N{" + r.choice(["EM DASH", "em dash", "LATIN SMALL LETTER A WITH MACRON", "HYPHEN-MINUS",
                                   "NO SUCH NAME", ""]) + "}", "esc:named"
    return r.choice(["\\U00110000", "\\UFFFFFFFF", "\\x4", "\\u12g4", "\\U0001F60"]), "esc:invalid"


def gen_literal(r, npieces, allow_bad=True, prefixes=None):
    pre, kind, raw = r.choice(prefixes or PREFIXES)
    quote = r.choice(QUOTES)
    pieces = [gen_piece(r, kind, quote, allow_bad) for _ in range(npieces)]
    body = "".join(p for p, _ in pieces)
    return pre, kind, raw, quote, body, sorted(set(t for _, t in pieces))


def body_ok_for_quote(body, quote):
    """the body must not end the literal early (the generator never emits the quote character unescaped,
    except the other quote kind) and must not end in an odd run of backslashes"""
    n = len(body) - len(body.rstrip("\\"))
    return n % 2 == 0


def has_big_octal(body):
    i = 0
    while i < len(body):
        if body[i] == "\\" and i + 1 < len(body):
            if body[i + 1] in "4567" and i + 3 < len(body) and body[i + 2] in "01234567" and body[i + 3] in "01234567":
                return True
            i += 2
        else:
            i += 1
    return False


NAMED_DIGIT = re.compile(r"\\N\{[A-Za-z \-]*[0-9][A-Za-z0-9 \-]*\}")


def classify(kind, raw, body):
    if not raw and kind in "sbc" and has_big_octal(body):
        return "octal_escape_above_0o377_internal_error"
    if not raw and kind in "su" and NAMED_DIGIT.search(body):
        return "named_escape_name_with_digit_rejected"
    return "literal_value_mismatch"


def cps(s):
    return ",".join(str(ord(c)) for c in s) if s else "-"


def nums(l):
    return ",".join(map(str, l)) if l else "-"


def py_eval(text):
    with warnings.catch_warnings():
        warnings.simplefilter("ignore")
        try:
            v = eval(compile(text, "<lit>", "eval"))
        except SyntaxError:
            return None
        except ValueError:      # source code string cannot contain null bytes
            return None
    if isinstance(v, str):
        return ("str", [ord(c) for c in v])
    return ("bytes", list(v))


# ------------------------------------------------------------------------------------ the run
def run(ctx):
    import time
    T0 = time.time()
    quick = ctx.tier == "quick"
    r = ctx.rng
    model = ctx.model("strlit")

    def lap(what):
        tm = os.times()
        ctx.note("t+%.0fs cpu(children)=%.0fs %s" % (time.time() - T0, tm.children_user + tm.children_system, what))

    # ============================================================ F. large string tables (props/C10_big.py): generated,
    # translated, built under every storage mode and pushed through the model in a background thread; accounted at the end
    import threading, traceback
    from props import C10_big as big
    bigW = {}

    def big_thread():
        try:
            bigW.update(big.work(ctx.tier, ctx.seed, ctx.workdir, model, FX_WIDTH))
        except Exception:
            bigW["error"] = "worker raised: " + traceback.format_exc()[-1500:]
    bt = threading.Thread(target=big_thread)
    if os.environ.get("C10_NO_BIG") != "1":      # development switch (timing of the other parts only)
        bt.start()

    # ============================================================ A. decoder: model / p_string_literal / CPython
    lits = []   # (pre, kind, raw, quote, body, tags)
    fixed = [("", "s", False, '"', "\\777", ["esc:octal3"]), ("b", "b", False, '"', "\\777", ["esc:octal3"]),
             ("u", "u", False, '"', "\\777", ["esc:octal3"]), ("", "s", False, '"', "\\400", ["esc:octal3"]),
             ("", "s", False, '"', "\\377\\0\\08\\1234", ["esc:octal3"]),
             ("", "s", False, '"', "\\N{CJK UNIFIED IDEOGRAPH-4E00}", ["esc:named"]),
             ("", "s", False, '"', "\\N{EM DASH}", ["esc:named"]), ("b", "b", False, '"', "\\N{EM DASH}\\u1234\\U00012345", ["esc:unknown/truncated"]),
             ("", "s", False, '"', "\\ud83d\\ude00", ["esc:u:surrogate"]), ("", "s", False, '"', "\\x4", ["esc:invalid"]),
             ("", "s", False, '"', "\\x4\\777", ["esc:invalid"]), ("r", "s", True, '"', "\\777\\\"\\\\", ["esc:octal3"]),
             ("", "s", False, '"""', "a\nb\\\nc'\"x", ["plain:newline"]), ("", "s", False, '"', "", []),
             ("b", "b", False, "'", "", []), ("b", "b", False, "'", "\u00e9", ["plain:latin1"]),
             ("", "s", False, '"', "\\U00110000", ["esc:invalid"]), ("", "s", False, '"', "\\N", ["esc:invalid"]),
             ("", "s", False, '"', "\\N{", ["esc:invalid"]), ("", "s", False, '"', "\\N{}", ["esc:invalid"])]
    lits += fixed
    # every single escape form followed by every follower class (small exhaustive product)
    singles = (["\\" + c for c in "\\'\"abfnrtvqz89NuUx% "] + ["\\0", "\\7", "\\12", "\\77", "\\101", "\\377", "\\400", "\\777",
               "\\x00", "\\x7f", "\\xff", "\\xFF", "\\u0000", "\\u00e9", "\\ud800", "\\udfff", "\\uffff", "\\U00000000",
               "\\U0001f600", "\\U0010FFFF", "\\U0000d800", "\\\n"])
    followers = ["", "0", "7", "8", "a", "F", "g", "\\", "1\\", "\u00e9", "\U0001F600"]
    for pre, kind, raw in [("", "s", False), ("u", "u", False), ("b", "b", False), ("r", "s", True), ("rb", "b", True)]:
        for e in singles:
            for f in followers:
                body = e + f
                if body_ok_for_quote(body, '"""'):
                    lits.append((pre, kind, raw, '"""' if "\n" in body or '"' in body else '"', body, ["single-escape-product"]))
    ctx.extra.setdefault("exhaustive_domains", []).append(
        "%d escape forms x %d followers x 5 prefixes (single-escape product)" % (len(singles), len(followers)))
    nrand = 1500 if quick else 40000
    while len(lits) < nrand + len(fixed):
        n = r.choice([1, 1, 2, 3, 5, 8, 13, 30])
        pre, kind, raw, quote, body, tags = gen_literal(r, n)
        if not body_ok_for_quote(body, quote):
            continue
        if len(quote) == 1 and "\n" in body.replace("\\\n", ""):
            continue
        if quote[0] in body.replace("\\" + quote[0], "") and len(quote) == 1:
            continue
        if len(quote) == 3 and (quote in body or body.endswith(quote[0])):
            continue
        lits.append((pre, kind, raw, quote, body, tags))
    # char literals (Cython only; oracle = the bytes literal with the same body, which must have length 1)
    chars = []
    for body in ["a", "\\n", "\\0", "\\x41", "\\377", "\\'", "\\\\", "ab", "", "\\101", "\\xff", "\"", "\\777"]:
        chars.append(("c", "c", False, "'", body, ["char-literal"]))
    lits += chars
    seen, uniq = set(), []
    for L in lits:
        key = (L[0], L[3], L[4])
        if key not in seen:
            seen.add(key); uniq.append(L)
    lits = uniq
    texts = [pre + q + body + q for pre, kind, raw, q, body, tags in lits]

    # implicit concatenation cases (implementation vs CPython; model = join of the parts)
    cats = []
    for _ in range(150 if quick else 2000):
        k = r.choice([2, 2, 3])
        grp = r.choice([[p for p in PREFIXES if p[1] in "su"], [p for p in PREFIXES if p[1] == "b"]])
        parts = []
        while len(parts) < k:
            L = gen_literal(r, r.choice([0, 1, 2, 4]), allow_bad=False, prefixes=grp)
            pre, kind, raw, quote, body, tags = L
            if not body_ok_for_quote(body, quote) or (len(quote) == 1 and "\n" in body.replace("\\\n", "")):
                continue
            if (quote[0] in body.replace("\\" + quote[0], "") and len(quote) == 1) or \
                    (len(quote) == 3 and (quote in body or body.endswith(quote[0]))):
                continue
            if "\\N{" in body or "esc:invalid" in tags:
                continue
            if FX_OCT != "1" and not raw and kind in "sbc" and has_big_octal(body):
                continue
            parts.append(L)
        cats.append(parts)
    cat_texts = [r.choice([" ", "\t", "  "]).join(p[0] + p[3] + p[4] + p[3] for p in parts) for parts in cats]
    with open(os.path.join(ctx.workdir, "cat_debug.json"), "w") as fdbg:
        json.dump([cats, cat_texts], fdbg)

    # ============================================================ C. string table: inputs
    def rand_text():
        c = r.random()
        if c < 0.15: return []
        n = r.choice([1, 2, 3, 7, 30, 200])
        return [r.choice([0, 0x41, 0x7F, 0x80, 0xFF, 0x100, 0x7FF, 0x800, 0xD7FF, 0xE000, 0xFFFF, 0x10000, 0x10FFFF,
                          r.randrange(0x20, 0x7F)]) for _ in range(n)]

    def rand_bytes():
        c = r.random()
        if c < 0.2: return []
        n = r.choice([1, 2, 3, 7, 30, 255, 256, 300])
        return [r.choice([0, 0, 0x22, 0x5C, 0x3F, 0xFF, r.randrange(256)]) for _ in range(n)]
    tables = [([], [[]]), ([], [[], []]), ([[]], []), ([[0x41]], []), ([], [[0]]), ([[0x41] * 255], [[1] * 256]),
              ([[0x20AC] * 1500], [[0] * 2100])]
    if not quick:
        tables.append(([[0x41] * 70000], [[7] * 65536]))
        tables.append(([[0x10FFFF] * 16384], [[0] * 65535]))
    for _ in range(40 if quick else 400):
        tables.append(([rand_text() for _ in range(r.choice([0, 1, 2, 5, 12]))],
                       [rand_bytes() for _ in range(r.choice([0, 1, 2, 5]))]))
    for _ in range(6 if quick else 40):    # compressible tables (the compression branches appear)
        word = rand_text() or [0x61]
        tables.append(([word * r.choice([10, 50, 200]), rand_text()], [rand_bytes() * r.choice([1, 20])]))

    res = cybuild.run_script(IMPL, ctx.workdir, {"lits": texts + cat_texts, "tables": tables}, timeout=1500)
    if res["json"] is None:
        ctx.corr_break("impl driver", "pure-python driver", (res["err"] or res["out"])[-1500:], "runs")
        return
    impl = res["json"]["lits"]
    lap("implementation: %d literals, %d tables" % (len(impl), len(tables)))

    # ---------------- model + spec on the same bodies
    q = []
    for pre, kind, raw, quote, body, tags in lits:
        q.append("dec %s %s %d %s" % (FX_OCT, kind, raw, cps(body)))
        q.append("spec %s %d %s" % (kind, raw, cps(body)))
    mres = model.batch(q)
    lap("model: %d queries" % len(q))

    def impl_canon(kind, rec):
        if rec[0] == "INTERNAL": return "INTERNAL"
        if rec[0] == "CompileError": return "ERR"
        if rec[0] != "ok": return "HARNESS " + str(rec)
        _, k, b, u, n = rec
        if n: return "ERR"
        return "OK %s %s" % ("N" if b is None else nums(b), "N" if u is None else nums(u))

    for i, (pre, kind, raw, quote, body, tags) in enumerate(lits):
        text = texts[i]
        md, sp = mres[2 * i], mres[2 * i + 1]
        im = impl_canon(kind, impl[i])
        named = "\\N{" in body and not raw and kind in "su"
        stratum = "decoder/%s%s/%s" % (kind, "r" if raw else "", "+".join(t.split(":")[0] + ":" + t.split(":")[1] if ":" in t else t for t in tags[:1]) or "empty")
        ctx.case(stratum, text, sig=text, nontrivial=("\\" in body or not body.isascii() or len(body) > 2000))
        # --- tie: model vs implementation
        if md == "UNMODELLED":
            if not named:
                ctx.corr_break("decoder unmodelled", text, im, md)
        elif named and FX_NAMED == "1" and NAMED_DIGIT.search(body):
            pass    # names with digits: the modelled lexer is the unpatched one; name escapes are outside the model
        elif kind == "c" and md.startswith("OK") and im.startswith("OK"):
            if md != im:
                ctx.corr_break("decoder (char literal)", text, im, md)
        elif md != im:
            ctx.corr_break("decoder model vs p_string_literal", text, im, md)
        # --- oracle
        if kind == "c":
            o = py_eval("b" + quote + body + quote)
            if o is not None and len(o[1]) != 1:
                o = None
        else:
            o = py_eval(text)
        # spec vs CPython (validates the specification itself)
        if sp == "NAMED":
            pass
        elif sp == "NOTBODY":
            ctx.corr_break("generator produced an unterminated body", text, sp, "a complete literal")
        else:
            so = "REJECT" if o is None else "V " + nums(o[1])
            if sp != so:
                ctx.corr_break("specification vs CPython", text, so, sp)
        # --- property: implementation vs CPython
        if o is not None:
            if im.startswith("OK"):
                _, k, b, u, n = impl[i]
                got = u if kind in "su" else b
                if got != o[1]:
                    ctx.fail(classify(kind, raw, body), text, im, "%s %s" % o)
            else:
                ctx.fail(classify(kind, raw, body), text, im, "%s %s" % (o[0], nums(o[1])[:200]))
    # concatenations
    base = len(lits)
    q = []
    for parts in cats:
        for pre, kind, raw, quote, body, tags in parts:
            q.append("dec %s %s %d %s" % (FX_OCT, kind, raw, cps(body)))
    mres = model.batch(q)
    qi = 0
    for j, parts in enumerate(cats):
        text = cat_texts[j]
        kind = parts[0][1]
        vals, bad = [], False
        for _ in parts:
            m = mres[qi]; qi += 1
            if not m.startswith("OK"):
                bad = True; continue
            _, b, u = m.split(" ")
            v = u if kind in "su" else b
            vals += [] if v == "-" else [int(x) for x in v.split(",")]
        ctx.case("concat/%s/%d" % (kind, len(parts)), text, sig=text)
        rec = impl[base + j]
        o = py_eval(text)
        if rec[0] != "ok" or rec[4]:
            if not bad:
                ctx.corr_break("concatenation", text, str(rec)[:300], "OK " + nums(vals))
            if o is not None:
                ctx.fail("literal_value_mismatch", text, str(rec)[:300], str(o)[:300])
            continue
        got = rec[3] if kind in "su" else rec[2]
        if not bad and got != vals:
            ctx.corr_break("concatenation", text, nums(got), nums(vals))
        if o is not None and got != o[1]:
            ctx.fail("literal_value_mismatch", text, nums(got), nums(o[1]))
    lap("decoder compared")

    # ============================================================ B2. UTF-8 / unicode_escape codecs
    q, exp = [], []
    samples = [[c] for c in ([0, 1, 0x7F, 0x80, 0x7FF, 0x800, 0xD7FF, 0xD800, 0xDFFF, 0xE000, 0xFFFF, 0x10000, 0x10FFFF, 0x110000]
                             + [r.randrange(0x110000) for _ in range(300 if quick else 5000)])]
    samples += [rand_text() for _ in range(100)] + [[0xD800, 0x41, 0xDC00], [0x5C, 0x6E, 10, 9, 13, 0x22, 0x27]]
    for s in samples:
        q.append("u8enc " + nums(s)); q.append("uesc " + nums(s)); q.append("uescrt " + nums(s))
    mres = model.batch(q)
    for i, s in enumerate(samples):
        ctx.case("codec/utf8+unicode_escape", s, sig=tuple(s))
        if any(c >= 0x110000 for c in s):
            continue
        st = "".join(map(chr, s))
        try:
            e = nums(list(st.encode("utf-8")))
        except UnicodeEncodeError:
            e = "NONE"
        if mres[3 * i] != e:
            ctx.corr_break("encode_utf8 vs str.encode", s, e, mres[3 * i])
        ue = nums(list(st.encode("unicode_escape")))
        if mres[3 * i + 1] != ue:
            ctx.corr_break("uesc_encode vs str.encode('unicode_escape')", s, ue, mres[3 * i + 1])
        if mres[3 * i + 2] != "1":
            ctx.corr_break("unicode_escape round trip (model)", s, "1", mres[3 * i + 2])
    # strict decoder on arbitrary byte strings
    q, bl = [], []
    for _ in range(400 if quick else 20000):
        n = r.choice([1, 2, 3, 4, 5])
        b = [r.choice([0, 0x41, 0x7F, 0x80, 0x8F, 0x90, 0x9F, 0xA0, 0xBF, 0xC0, 0xC1, 0xC2, 0xDF, 0xE0, 0xE1, 0xEC, 0xED, 0xEE,
                       0xEF, 0xF0, 0xF1, 0xF3, 0xF4, 0xF5, 0xFF]) for _ in range(n)]
        bl.append(b); q.append("u8dec " + nums(b))
    mres = model.batch(q)
    for b, m in zip(bl, mres):
        ctx.case("codec/utf8-strict-decode", b, sig=tuple(b))
        try:
            e = "S " + nums([ord(c) for c in bytes(b).decode("utf-8")])
        except UnicodeDecodeError:
            e = "NONE"
        if m != e:
            ctx.corr_break("decode_utf8 vs bytes.decode", b, e, m)
    lap("codecs compared")

    # ============================================================ C. string table tie
    def lol(ll):
        return "/".join(nums(l) for l in ll) if ll else "_"
    tab_impl = res["json"]["tables"]
    for (texts_, bstrs_), ti in zip(tables, tab_impl):
        ctx.case("table/%dtexts/%dbytes" % (min(len(texts_), 3), min(len(bstrs_), 3)), None,
                 sig=hashlib.md5(repr((texts_, bstrs_)).encode()).hexdigest())
        if "exc" in ti:
            ctx.corr_break("generate_pystring_constants raised", (texts_, bstrs_), ti["exc"], "a table")
            continue
        lines, defs = ti["lines"], ti["defs"]
        order = {}
        for d in defs:
            mm = re.match(r"#define ([TB])(\d+) \w+\[(\d+)\]", d)
            order[int(mm.group(3))] = (mm.group(1), int(mm.group(2)))
        seq = [order[i] for i in range(len(order))]
        ts = [texts_[i] for k, i in seq if k == "T"]
        bs = [bstrs_[i] for k, i in seq if k == "B"]
        if [k for k, _ in seq] != ["T"] * len(ts) + ["B"] * len(bs):
            ctx.corr_break("table order", seq, "texts then bytes", "mixed")
        decl = {}
        for ln in lines:
            mm = re.match(r"const struct \{ const unsigned int length: (\d+); \} (\w+)_length_index\[\] = \{(.*)\};", ln)
            if mm:
                decl[mm.group(2)] = (int(mm.group(1)), [int(x) for x in re.findall(r"\{(\d+)\}", mm.group(3))])
        data = b"".join("".join(map(chr, t)).encode("utf-8") for t in ts) + b"".join(bytes(b) for b in bs)
        # the property oracle for the layout: stored lengths fit the width, width is a legal bit-field
        zero_w = [k for k, (w, idx) in decl.items() if w == 0 or w > 32 or any(v >= 2 ** w for v in idx)]
        m = model.batch(["table %s %s %s" % (FX_WIDTH, lol(ts), lol(bs))])[0]
        def part(name):
            return "%d %s" % (decl[name][0], nums(decl[name][1])) if name in decl else "-1 -"
        if zero_w:
            if m != "CERR":
                ctx.corr_break("table (compile error expected by implementation text)", (ts, bs), "CERR", m)
            if "str" in zero_w and all(len(t) == 0 for t in ts):
                continue    # synthetic: a real module always has non-empty str constants (__name__, __main__ ...)
            ctx.fail("only_empty_bytes_constants_zero_width_bitfield" if zero_w == ["bytes"] and not any(bs) else
                     "string_table_bitfield_width", (ts, bs), "bit-field width %s" % {k: decl[k][0] for k in zero_w},
                     "a width in 1..32 that holds every length")
            continue
        im = "T %s %s %s 1" % (part("str"), part("bytes"), hashlib.md5(data).hexdigest())
        if m != im:
            ctx.corr_break("gen_table vs generate_pystring_constants", (ts, bs), im, m)
        # compression selection: parse the #if chain
        chain = []
        for ln in lines:
            mm = re.match(r"#(?:if|elif) (.*) /\* compression: (\w+) \((\d+) bytes\) \*/", ln)
            if mm:
                chain.append(({"lzss": 90, "zlib": 1, "bz2": 2, "zstd": 3}[mm.group(2)], int(mm.group(3))))
        default = 0
        for ln in lines:
            mm = re.match(r"\s*#define CYTHON_COMPRESS_STRINGS (\d+)", ln)
            if mm: default = int(mm.group(1))
        sizes = "1:%d,2:%d,3:x" % (len(zlib.compress(data, 9)), len(bz2.compress(data, 9)))
        if len(data) <= (1200 if quick else 40000):
            ms = model.batch(["select %s %s" % (sizes, nums(list(data)))])[0]
            comps = list(reversed(chain))
            exp = "%s %s %d" % (nums([a for a, _ in comps]), nums([s for _, s in comps]), default)
            if ms != exp:
                ctx.corr_break("compression selection", (sizes, len(data)), exp, ms)
    lap("tables compared")

    # ============================================================ D. compiled modules x CYTHON_COMPRESS_STRINGS
    def module_literals(n, maxpieces, long_lengths):
        out = []
        while len(out) < n:
            npc = r.choice([0, 1, 2, 3, 5, maxpieces])
            pre, kind, raw, quote, body, tags = gen_literal(r, npc, allow_bad=False)
            if "\\N{" in body and FX_NAMED != "1" and NAMED_DIGIT.search(body):
                continue
            if FX_OCT != "1" and not raw and kind in "sbc" and has_big_octal(body):
                continue
            text = pre + quote + body + quote
            if not body_ok_for_quote(body, quote) or (len(quote) == 1 and "\n" in body.replace("\\\n", "")):
                continue
            if (quote[0] in body.replace("\\" + quote[0], "") and len(quote) == 1) or \
                    (len(quote) == 3 and (quote in body or body.endswith(quote[0]))):
                continue
            if py_eval(text) is None:
                continue
            out.append((text, tags))
        for n_ in long_lengths:
            unit = r.choice(["a", "\\x00", "\u00e9", "\\n\\\\", "\U0001F600", "\\ud800", "?", "\\\"", "\\0001"])
            reps = max(1, n_ // max(1, len(eval('"' + unit + '"'))))
            pre = "b" if unit in ("a", "\\x00", "\\n\\\\", "?", "\\\"", "\\0001") and r.random() < 0.5 else ""
            out.append((pre + '"' + unit * reps + '"', ["long:%d" % n_]))
        # implicit concatenations and f-strings without fields
        out.append(('"a" \'b\' """c\n"""', ["concat"]))
        out.append(('b"\\x00" B\'\\377\' rb"\\n"', ["concat"]))
        out.append(('"\\ud800" "\\udc00"', ["concat", "esc:u:surrogate"]))
        out.append(('f"a\\n\\x41\\u20ac{{}}"', ["fstring"]))
        out.append(('rf"a\\n\\x41"', ["fstring"]))
        out.append(('""', ["empty"])); out.append(('b""', ["empty"]))
        if FX_SURR != "1":
            # known finding (separate module below): a bytes literal equal to the unicode_escape text of a
            # str literal with surrogates shares its C string constant and crashes the compiler
            vals = [py_eval(t) for t, _ in out]
            clash = set()
            for v in vals:
                if v[0] == "str" and any(0xD800 <= c <= 0xDFFF for c in v[1]):
                    clash.add(bytes("".join(map(chr, v[1])).encode("unicode_escape")))
            out = [o for o, v in zip(out, vals) if not (v[0] == "bytes" and bytes(v[1]) in clash)]
        return out

    mods = []
    if quick:
        mods.append(("c10_m1", module_literals(120, 12, [1, 1999, 2000, 2001, 70000])))
        mods.append(("c10_small", [('"x\\u00e9"', ["small"]), ('b"\\x00y"', ["small"])]))
    else:
        mods.append(("c10_m1", module_literals(1500, 30, [1, 255, 256, 1999, 2000, 2001, 3999, 4000, 4100, 65535, 65536, 65537, 70000, 140000])))
        mods.append(("c10_m2", module_literals(300, 12, [70000, 70001])))
        mods.append(("c10_small", [('"x\\u00e9"', ["small"]), ('b"\\x00y"', ["small"])]))
    mods.append(("c10_emptyb", [('b""', ["empty-bytes-only"])]))
    mods.append(("c10_surrclash", [('"\\ud800"', ["surrogate-clash"]), ('b"\\\\ud800"', ["surrogate-clash"])]))
    macros = [None, 0, 1, 2, 3, 90, 5, 91, -1]

    def build_mod(name, items):
        src = "# cython: language_level=3\nVALUES = [\n" + "".join("    %s,\n" % t for t, _ in items) + "]\n"
        d = os.path.join(ctx.workdir, name)
        os.makedirs(d, exist_ok=True)
        pyx = os.path.join(d, name + ".pyx")
        with open(pyx, "w", encoding="utf-8") as f:
            f.write(src)
        cfile = os.path.join(d, name + ".c")
        tr = cybuild.translate(pyx, cfile)
        if tr.get("crash") or not tr.get("ok"):
            return name, ("translate", (tr.get("crash") or tr.get("errors") or "")[-800:]), {}
        outs = {}

        def one(m):
            md = os.path.join(d, "m_%s" % ("undef" if m is None else str(m).replace("-", "n")))
            os.makedirs(md, exist_ok=True)
            so = os.path.join(md, name + cybuild.EXT)
            rc, err = cybuild.cc(cfile, so, cflags=["-O0"], macros=None if m is None else ["CYTHON_COMPRESS_STRINGS=%d" % m])
            if rc != 0:
                return m, {"cc": err[-600:]}
            p = subprocess.run([cybuild.PY, "-c", LOADER, md, name], capture_output=True, text=True,
                               env=cybuild.base_env(), timeout=600)
            try:
                js = json.loads(p.stdout.strip().splitlines()[-1])
            except Exception:
                js = {"exc": "CRASH", "msg": "rc=%s %s" % (p.returncode, p.stderr[-300:])}
            # which branch did the preprocessor keep?
            pp = subprocess.run(["gcc", "-E", "-P", "-I" + cybuild.INC] + ([] if m is None else ["-DCYTHON_COMPRESS_STRINGS=%d" % m])
                                + [cfile], capture_output=True, text=True, timeout=600)
            br = re.findall(r"PyObject \*data = (__Pyx_DecompressString(?:_LZSS)?\(cstring, \d+, \d+\)|NULL|\(\(void ?\*\)0\));", pp.stdout)
            js["branch"] = br
            return m, js
        mlist = macros if not quick else ([None, 0, 1, 2, 3, 90] if name == "c10_m1" else [None, 1, 90])
        with cf.ThreadPoolExecutor(max_workers=9) as ex:
            for m, js in ex.map(one, mlist):
                outs[m] = js
        with open(cfile, encoding="utf-8", errors="replace") as f:
            ctext = f.read()
        return name, None, {"outs": outs, "c": ctext}

    with cf.ThreadPoolExecutor(max_workers=3) as ex:
        built = list(ex.map(lambda a: build_mod(*a), mods))
    lap("modules built and loaded")
    for (name, items), (_, err, info) in zip(mods, built):
        expected = [py_eval(t) for t, _ in items]
        if name == "c10_emptyb":
            ctx.case("module/empty-bytes-only", name, sig=name)
            bad = err or any("cc" in js or "exc" in js for js in info["outs"].values())
            if bad:
                detail = err[1] if err else str([js for js in info["outs"].values() if "cc" in js or "exc" in js][0])[:400]
                if FX_WIDTH == "1":
                    ctx.corr_break("model says this builds", "VALUES = [b\"\"]", detail, "builds")
                ctx.fail("only_empty_bytes_constants_zero_width_bitfield", "VALUES = [b\"\"]", detail[-300:], "[b'']")
            elif FX_WIDTH != "1":
                ctx.corr_break("model says zero-width bit-field", "VALUES = [b\"\"]", "builds", "compile error")
            continue
        if name == "c10_surrclash":
            ctx.case("module/surrogate-str-then-equal-bytes", name, sig=name)
            bad = err or any("cc" in js or "exc" in js for js in info["outs"].values())
            if bad:
                detail = err[1] if err else str([js for js in info["outs"].values() if "cc" in js or "exc" in js][0])
                ctx.fail("surrogate_str_then_equal_bytes_literal_assertion", 'VALUES = ["\\ud800", b"\\\\ud800"]',
                         detail[-300:], "['\\ud800', b'\\\\ud800']")
                continue
        if err:
            ctx.corr_break("module %s does not translate" % name, name, err[1], "translates")
            continue
        chain = [({"lzss": 90, "zlib": 1, "bz2": 2, "zstd": 3}[a], int(s)) for a, s in
                 re.findall(r"#(?:if|elif) [^\n]* /\* compression: (\w+) \((\d+) bytes\) \*/", info["c"])]
        comps = list(reversed(chain))
        dm = re.search(r"#define CYTHON_COMPRESS_STRINGS (\d+)", info["c"])
        default = int(dm.group(1)) if dm else 0
        for m in macros:
            if m not in info["outs"]:
                continue
            js = info["outs"][m]
            # tie: the preprocessor branch == choose
            mv = default if m is None else m
            ch = model.batch(["choose %d 0 %s" % (mv, nums([a for a, _ in comps]))])[0]
            br = js.get("branch") or []
            if len(br) != 1:
                ctx.corr_break("preprocessor branch not identified", (name, m), br, ch)
            else:
                if br[0] == "NULL" or "void" in br[0]: got = "NONE"
                elif "LZSS" in br[0]: got = "90"
                else: got = br[0].rstrip(")").split(",")[-1].strip()
                if got != ch:
                    ctx.corr_break("choose vs preprocessor", (name, m, comps), got, ch)
            if "cc" in js or "exc" in js:
                ctx.fail("module_init_failure", (name, m), str(js)[:400], "module imports")
                continue
            vals = js["ok"]
            for (text, tags), e, v in zip(items, expected, vals):
                ctx.case("module/%s/%s" % ("undef" if m is None else m, tags[0].split(":")[0] if tags else "plain"),
                         text[:60], sig=(text, m), nontrivial=("\\" in text or not text.isascii() or len(text) > 2000))
                if [v[0], v[1]] != [e[0], e[1]]:
                    ctx.fail("literal_value_mismatch", {"literal": text[:300], "macro": m, "module": name},
                             "%s len %d %s" % (v[0], len(v[1]), nums(v[1])[:200]), "%s len %d %s" % (e[0], len(e[1]), nums(e[1])[:200]))
        # the model's whole pipeline on the (short) literals of this module: run_module == py objects
        if name in ("c10_small",):
            pass
    lap("modules compared")

    # ============================================================ E. model pipeline vs spec on generated literal lists
    q, exp_q = [], []
    for _ in range(30 if quick else 300):
        ls = []
        while len(ls) < r.choice([1, 3, 10, 40]):
            pre, kind, raw, quote, body, tags = gen_literal(r, r.choice([0, 1, 3, 8, 40]), allow_bad=False)
            if "\\N{" in body or not body_ok_for_quote(body, quote):
                continue
            if FX_OCT != "1" and not raw and kind in "sbc" and has_big_octal(body):
                continue
            if py_eval(pre + '"""' + body.replace('"', "'") + ' """') is None:
                continue
            ls.append("%s:%d:%s" % (kind, raw, cps(body)))
        m = r.choice(["N", "0", "1", "2", "3", "90", "7", "91"])
        q.append("module %s 1 %d %d %s %s" % (FX_OCT, r.random() < 0.3, r.random() < 0.5, m, "/".join(ls)))
        q.append("pyobjs " + "/".join(ls))
    mres = model.batch(q)
    for i in range(0, len(q), 2):
        ctx.case("pipeline-model/run_module==py_object", q[i][:80], sig=q[i])
        if "X" in mres[i + 1].split("/"):
            continue
        if mres[i] != "M " + mres[i + 1]:
            with open(os.path.join(ctx.workdir, "pipeline_debug.json"), "a") as fdbg:
                fdbg.write(json.dumps([q[i], q[i + 1], mres[i], mres[i + 1]]) + "\n")
            ctx.corr_break("run_module vs py_object (pipeline theorem instance)", q[i][:300], mres[i + 1][:300], mres[i][:300])
    lap("pipeline model compared")
    if bt.ident is not None:
        bt.join()
        big.account(ctx, bigW, model, os.path.join(os.path.dirname(os.path.abspath(ctx.workdir)), "replays"))
    lap("done (large tables accounted)")


def replay(ctx, obj):
    run(ctx)
