"""C37 — prange gives sequential results and a safe exit on every schedule (DESIGN 7/C37)."""
import os, json, itertools
import cybuild

TITLE = "prange gives sequential results and a safe exit on every schedule"
EXTRACTS = ["Prange", "PrangeShare"]
RULE = ("(range triple, thread count, schedule, chunk) configurations; bodies with + * ^ | & reductions, lastprivate, "
        "raise / break / return in chosen iterations; OpenMP build run with 1..8 threads; distinct by configuration. "
        "Sharing part (props/C37_share.py): loop bodies generated as data in the modelled statement language "
        "(plain / in-place assignment with each of + * - & ^ | << >> //, if/else, nested range and prange loops, "
        "optional enclosing parallel block with block privates; C types long / int / unsigned int / unsigned long / "
        "double / float) - one fixed family covering every operator x every variable role and seeded random "
        "well-formed bodies - each run over thread counts 1,2,3,4,7(,5,8,16) x iteration counts 0,1,2,t-1,t,t+1,2t+1,23 x "
        "step signs x chunk sizes x schedules none/static/dynamic/guided x use_threads_if; distinct by (function, call)")
EXPLANATION = ("theorems: the generated nsteps/index computation enumerates exactly range(start,stop,step) (|step| within C int); "
               "lastprivate = last iteration; reductions over any commutative monoid are independent of partition/permutation/"
               "combination order (instantiated for + * & | ^), with wrap-around transfer lemmas for + and *; exception hand-off "
               "for every number of threads and interleaving: first fetched exception is re-raised, every raised exception is "
               "re-raised or released exactly once, errors win the exit dispatch. Sharing classification: a Gallina model of "
               "MarkParallelAssignments / the FlowControl reduction-read check / analyse_sharing_attributes / the nested-prange "
               "merge / generate_loop's clause choice (operator string +*-&^|) gives the clause of every name and the front-end "
               "errors; C37_sharing_any_schedule / C37_region_any_schedule: for every body that passes the executable "
               "well-formedness check under that classification, EVERY distribution of the iterations among threads, any order "
               "inside a thread and any combining order leaves in every reduction variable (all six operators, - combined with +, "
               "wrap-around w-bit signed or unsigned), every lastprivate assigned on every path and every clause-less variable "
               "the value of the sequential loop; C37_combiner_laws gives the monoid/action laws per operator. Ties: the "
               "operator string is read from Nodes.py, the clauses of every compiled loop are parsed from the #pragma omp lines "
               "of the generated C and compared with the model, the compiled result is compared with the extracted parallel "
               "semantics run on the thread partition observed through threadid(), and with a sequential Python interpretation. "
               "Four accepted body forms are classified unsoundly (C37_*_refuted, known findings, repairs proposed for three). "
               "partial: OpenMP's memory model (flushes, privatisation, data races) and libgomp are outside the model; they are "
               "exercised by the differential run only. Floating accumulators are outside the theorem (no associativity): the "
               "harness uses exactly representable values. C37_uniform_names_classified / C37_declared_region_wf: every name "
               "used in one role at any nesting depth gets the declared clause, so bodies well-formed for declared roles are "
               "well-formed for the computed classification; that such bodies raise no front-end error is evaluated by the "
               "extracted region_errors per generated body, not proved.")
TRUSTED = ["gcc -fopenmp / libgomp (clause semantics: reduction initialiser/combiner, lastprivate = sequentially last iteration, "
           "firstprivate) as transcribed in M_PrangeShare.v par_exec",
           "atomicity of fetch_parallel_exception under the GIL (modelled as one step)",
           "threads execute the iterations handed to them in increasing order (used to replay the observed partition)",
           "gcc -fwrapv for signed wrap-around in the generated accumulators"]
ASSUMPTIONS = ["|step| <= INT_MAX for the count theorem before the abs() repair", "integer index types do not overflow in stop-start+step",
               "all variables of a modelled body share one C integer type of width >= 2; initial values representable"]

SRC = r'''# cython: language_level=3
cimport cython
from cython.parallel import prange, parallel
import weakref

live = weakref.WeakSet()
class E(Exception):
    def __init__(self, k):
        Exception.__init__(self, k)
        live.add(self)

def run_count(long start, long stop, long step, int nthreads):
    cdef long i = -777
    cdef long n = 0, s = 0, x = 0, o = 0
    cdef unsigned long p = 1
    cdef long a = -1
    for i in prange(start, stop, step, nogil=True, num_threads=nthreads):
        n += 1
        s += i
        p *= <unsigned long>(2 * i + 1)
        x ^= (i * 40503)
        o |= (<long>1 << (i & 31))
        a &= ~(<long>1 << (i & 15))
    return (n, i, s, p, x, o, a)

def run_sched_static(long start, long stop, long step, int nthreads, int chunk):
    cdef long i = -777, n = 0, s = 0
    for i in prange(start, stop, step, nogil=True, num_threads=nthreads, schedule='static', chunksize=chunk):
        n += 1
        s += i * i
    return (n, i, s)

def run_sched_dynamic(long start, long stop, long step, int nthreads, int chunk):
    cdef long i = -777, n = 0, s = 0
    for i in prange(start, stop, step, nogil=True, num_threads=nthreads, schedule='dynamic', chunksize=chunk):
        n += 1
        s += i * i
    return (n, i, s)

def run_sched_guided(long start, long stop, long step, int nthreads, int chunk):
    cdef long i = -777, n = 0, s = 0
    for i in prange(start, stop, step, nogil=True, num_threads=nthreads, schedule='guided', chunksize=chunk):
        n += 1
        s += i * i
    return (n, i, s)

def run_int_index(int start, int stop, int step, int nthreads):
    cdef int i = -777
    cdef long n = 0, s = 0
    for i in prange(start, stop, step, nogil=True, num_threads=nthreads):
        n += 1
        s += i
    return (n, i, s)

def run_raise(long stop, int nthreads, long mask):
    """iterations whose bit is set in mask raise E(i)"""
    cdef long i
    cdef long n = 0
    try:
        for i in prange(stop, nogil=True, num_threads=nthreads, schedule='dynamic'):
            n += 1
            if (mask >> i) & 1:
                with gil:
                    raise E(i)
    except E as exc:
        r = ('E', exc.args[0])
        del exc
        return r
    return ('ok', n)

from posix.unistd cimport usleep

def run_raise_and_break(int nthreads, int raise_delay_us, int break_delay_us):
    """two iterations on two threads: iteration 0 raises E(0) after raise_delay_us, iteration 1 breaks after
    break_delay_us: the delays force the order in which the two exits reach the shared exit bookkeeping"""
    cdef long i
    try:
        for i in prange(2, nogil=True, num_threads=nthreads, schedule='static', chunksize=1):
            if i == 0:
                usleep(raise_delay_us)
                with gil:
                    raise E(i)
            else:
                usleep(break_delay_us)
                break
    except E as exc:
        r = ('E', exc.args[0])
        del exc
        return r
    return ('ok', -1)

def live_count():
    import gc
    gc.collect()
    return len(live)

def run_break(long stop, int nthreads, long k):
    cdef long i, found = -1
    for i in prange(stop, nogil=True, num_threads=nthreads):
        if i == k:
            found = i
            break
    return found

cdef long _ret(long stop, int nthreads, long k) noexcept nogil:
    cdef long i
    for i in prange(stop, num_threads=nthreads):
        if i == k:
            return i * 10
    return -5

def run_return(long stop, int nthreads, long k):
    return _ret(stop, nthreads, k)
'''


def py_count(start, stop, step):
    r = range(start, stop, step)
    n = len(r)
    i = r[-1] if n else -777
    s = sum(r)
    p = 1
    x = 0
    o = 0
    a = -1
    for v in r:
        p = (p * ((2 * v + 1) % 2 ** 64)) % 2 ** 64
        x ^= (v * 40503)
        o |= (1 << (v & 31))
        a &= ~(1 << (v & 15))
    def w64(z):
        z %= 2 ** 64
        return z - 2 ** 64 if z >= 2 ** 63 else z
    return (n, i, w64(s), p, w64(x), w64(o), w64(a))


def tup(r):
    if "e" in r:
        return ("exc", r["e"], r.get("m", "")[:80])
    if r["t"] == "tuple":
        return tuple((int(x["r"]) if x["t"] == "int" else x["r"].strip("'")) for x in r["r"])
    return int(r["r"]) if r["t"] == "int" else r["r"]


def run(ctx):
    quick = ctx.tier == "quick"
    from props import C37_share
    if os.environ.get("C37_NO_SHARE") == "1":           # timing hook only
        return run_old(ctx, quick)
    share = C37_share.Share(ctx)          # builds its modules in a background thread
    try:
        run_old(ctx, quick)
    finally:
        share.evaluate()


def run_old(ctx, quick):
    try:
        cybuild.build("c37_omp", SRC, ctx.workdir, cflags=["-O1", "-fopenmp"], ldflags=["-fopenmp"])
    except cybuild.BuildError as e:
        ctx.corr_break("build c37_omp", "c37_omp", str(e)[:1500], "module builds")
        return
    model = ctx.model("prange")
    triples = []
    vals = [-7, -3, -1, 0, 1, 2, 5, 10, 33]
    steps = [-5, -3, -2, -1, 1, 2, 3, 7]
    for a in vals:
        for b in vals:
            for s in steps:
                triples.append((a, b, s))
    triples += [(0, 1000, 1), (1000, 0, -7), (0, 100000, 17), (5, 5, 1), (-2 ** 40, -2 ** 40 + 50, 7), (2 ** 40, 2 ** 40 - 50, -7),
                (0, 2 ** 31 + 10, 2 ** 31 - 1), (0, 10, 2 ** 31 - 1), (10, 0, -(2 ** 31 - 1))]
    # steps that do not fit C int exercise the abs() handling
    big = [(0, 2 ** 32 + 2, 2 ** 32 + 1), (0, 3 * 2 ** 32, 2 ** 32), (0, 10, 2 ** 32), (0, 2 ** 33 + 5, 2 ** 32 + 1),
           (2 ** 33, 0, -(2 ** 32 + 1)), (0, 2 ** 40, 2 ** 36 + 3)]
    if not quick:
        for _ in range(300):
            a = ctx.rng.randrange(-50, 50); b = ctx.rng.randrange(-50, 50); s = ctx.rng.choice([-11, -4, -1, 1, 4, 11, 13])
            triples.append((a, b, s))
    threads = [1, 2, 3, 8] if quick else [1, 2, 3, 4, 5, 8, 16]
    cases = []
    for (a, b, s) in triples:
        nt = threads[(a * 7 + b * 3 + s) % len(threads)] if quick else None
        for t in ([nt] if quick else threads[:4]):
            cases.append(("run_count", [a, b, s, t], (a, b, s)))
    for (a, b, s) in big:
        cases.append(("run_count", [a, b, s, 2], (a, b, s)))
    for sched in ("static", "dynamic", "guided"):
        for (a, b, s) in [(0, 97, 1), (97, 0, -3), (-5, 40, 4), (3, 3, 1), (0, 1, 1)]:
            for t in (1, 3, 8):
                for chunk in (1, 2, 7, 100):
                    cases.append(("run_sched_" + sched, [a, b, s, t, chunk], (a, b, s)))
    for (a, b, s) in [(0, 50, 3), (50, 0, -3), (-2147483648, -2147483600, 7), (2147483600, 2147483647, 9), (5, 5, 1)]:
        for t in (1, 4):
            cases.append(("run_int_index", [a, b, s, t], (a, b, s)))
    res = cybuild.call_cases(ctx.workdir, [["c37_omp.%s" % f, args] for f, args, _ in cases], setup="import c37_omp", alarm=30, extra_env={"OMP_WAIT_POLICY": "passive", "GOMP_SPINCOUNT": "0"})
    mres = model.batch(["values %d %d %d" % tr for _, _, tr in cases])
    for (fn, args, tr), r, m in zip(cases, res, mres):
        inp = {"func": fn, "args": args}
        a, b, s = tr
        ctx.case("%s/threads=%s" % (fn, args[3]), inp, sig=(fn, tuple(args)))
        got = tup(r)
        rng = range(a, b, s)
        if fn == "run_count":
            exp = py_count(a, b, s) if len(rng) <= 200000 else None
        elif fn.startswith("run_sched"):
            exp = (len(rng), rng[-1] if len(rng) else -777, sum(v * v for v in rng))
        else:
            exp = (len(rng), rng[-1] if len(rng) else -777, sum(rng))
        # model tie: the model's value list is the iteration space
        if m == "NONE":
            mvals = None
        else:
            mvals = [int(x) for x in m.split(",")] if m != "-" else []
        if mvals is not None and isinstance(got, tuple) and got[0] != "exc":
            if got[0] != len(mvals) or (mvals and got[1] != mvals[-1]):
                ctx.corr_break("prange:values", inp, got[:2], (len(mvals), mvals[-1] if mvals else None))
        if mvals is None and not (isinstance(got, tuple) and got[0] == "exc"):
            ctx.corr_break("prange:nsteps-undefined", inp, got, "model: division by zero in nsteps")
        if exp is not None and got != exp:
            klass = "step_exceeds_int_abs_truncation" if abs(s) > 2 ** 31 - 1 else "prange_result_differs"
            ctx.fail(klass, inp, got, exp)
    # ---- exceptions / break / return
    ecases = []
    for t in ([1, 2, 4, 8] if quick else [1, 2, 3, 4, 8, 16]):
        for mask in [0, 1, 2, 0b1000, 0b1010, 0b111111, 1 << 19, (1 << 20) - 1, 0b1000000001]:
            ecases.append(("run_raise", [20, t, mask]))
        for k in (0, 7, 19, 25):
            ecases.append(("run_break", [20, t, k]))
            ecases.append(("run_return", [20, t, k]))
    for t in (2, 4):
        for rd, bd in ((0, 150000), (150000, 0), (0, 0), (20000, 20000)):
            ecases.append(("run_raise_and_break", [t, rd, bd]))
    ecall = []
    for f, a in ecases:
        ecall.append(["c37_omp.%s" % f, a])
        if f in ("run_raise", "run_raise_and_break"):
            ecall.append(["c37_omp.live_count", []])
    eres = cybuild.call_cases(ctx.workdir, ecall, setup="import c37_omp", alarm=30, extra_env={"OMP_WAIT_POLICY": "passive", "GOMP_SPINCOUNT": "0"})
    it = iter(eres)
    for f, a in ecases:
        r = next(it)
        inp = {"func": f, "args": a}
        ctx.case(f, inp, sig=(f, tuple(a)))
        got = tup(r)
        if f == "run_raise_and_break":
            lc = tup(next(it))
            # an error is preferred over break in every order (model: finish gives why = 4 whenever an exception
            # was saved), and the exception object is released afterwards
            order = ["E:0:0", "X:1:2"] if a[1] <= a[2] else ["X:1:2", "E:0:0"]
            mm = model.batch(["protocol " + " ".join(order)])[0].split()
            if mm[0] != "4":
                ctx.corr_break("prange:protocol", inp, got, mm)
            # only "raise first" forces the raising iteration to run: when the break comes first (or the two race) the
            # other thread may skip its iteration altogether (iterations are not started once an exit is flagged),
            # so completing without an exception is a legal outcome there
            legal = [("E", 0)] if a[1] + 100000 <= a[2] else [("E", 0), ("ok", -1)]
            if got not in legal:
                ctx.fail("prange_exception_lost_to_break", inp, got, legal)
            if lc != 0:
                ctx.fail("prange_exception_leak", inp, {"live exception objects after the call": lc}, 0)
            continue
        if f == "run_raise":
            lc = tup(next(it))
            mask = a[2]
            raisers = [i for i in range(20) if (mask >> i) & 1]
            if not raisers:
                if got != ("ok", 20):
                    ctx.fail("prange_no_raise_result", inp, got, ("ok", 20))
            else:
                if not (isinstance(got, tuple) and got[0] == "E" and got[1] in raisers):
                    ctx.fail("prange_exception_not_one_of_raised", inp, got, {"one of": raisers})
                # model: any interleaving re-raises one of the raised exceptions
                evs = " ".join("E:%d:%d" % (i % max(1, a[1]), i) for i in raisers)
                mm = model.batch(["protocol " + evs])[0].split()
                if mm[0] != "4":
                    ctx.corr_break("prange:protocol", inp, got, mm)
            if lc != 0:
                ctx.fail("prange_exception_leak", inp, {"live exception objects after the call": lc}, 0)
        elif f == "run_break":
            # the value of a private variable after 'break' is not specified by the documented
            # best-effort rules: only termination and a value some thread could have left
            exp = {-1, a[2]} if a[2] < 20 else {-1}
            if got not in exp:
                ctx.fail("prange_break_result", inp, got, sorted(exp))
        else:
            exp = a[2] * 10 if a[2] < 20 else -5
            if got != exp:
                ctx.fail("prange_return_result", inp, got, exp)
