"""C28 — extension-type operators dispatch like Python classes (DESIGN 7/C28)."""
import os, json, itertools
import cybuild, framework

TITLE = "Extension-type operators dispatch like Python classes"
EXTRACTS = ["BinopSlot"]
RULE = ("generated cdef class hierarchies B <- T <- {cdef subclass CS, Python subclass PS} plus unrelated U (cdef, Python, int), "
        "every class defining a subset of {__op__, __rop__, __iop__} (comparison: subsets of the six methods, with/without "
        "total_ordering), methods returning NotImplemented or a tagged value per a behaviour table; operand pairs over the five "
        "roles, plain and in-place; distinct by (operator, method subsets, behaviours, operand pair); non-trivial = at least one "
        "special method is reachable from an operand type")
EXPLANATION = ("theorems (finite domain, exhaustive evaluation): binary_op1+SLOT1BINFULL (Python classes) and binary_op1+BinopSlot "
               "(extension types) produce the same call log and result for every method subset/behaviour/operand pair outside three "
               "explicitly characterised classes (same-type operands reaching __rop__ - repaired by the proposed template fix -, "
               "related operand types carrying two slot functions, in-place add on a Python subclass), each class refuted with a "
               "witness; rich comparison synthesis incl. total_ordering likewise (RichCmp part). Correspondence: compiled classes vs "
               "extracted model (b) vs equivalent Python classes, model (a) vs the Python classes. partial: method bodies are "
               "deterministic and return NotImplemented/tagged values (bools for comparisons); c_api_binop_methods=True is compared "
               "with a small legacy model only (no Python oracle: the mode is documented as non-Python).")
TRUSTED = ["transcription of CPython 3.12 binary_op1/binary_iop1/SLOT1BINFULL/update_one_slot/do_richcompare/slot_tp_richcompare/"
           "object_richcompare and functools.total_ordering into Gallina (cross-checked on every run against real Python classes)",
           "gcc as a conforming C compiler for the generated module"]
ASSUMPTIONS = ["CPython 3.12, CYTHON_USE_TYPE_SLOTS=1, CYTHON_USE_TYPE_SPECS=0", "special methods are deterministic"]

KINDS = ("op", "rop", "iop")
OPS = {
    "add": ("__add__", "__radd__", "__iadd__", "+"), "sub": ("__sub__", "__rsub__", "__isub__", "-"),
    "mul": ("__mul__", "__rmul__", "__imul__", "*"), "matmul": ("__matmul__", "__rmatmul__", "__imatmul__", "@"),
    "truediv": ("__truediv__", "__rtruediv__", "__itruediv__", "/"),
    "floordiv": ("__floordiv__", "__rfloordiv__", "__ifloordiv__", "//"), "mod": ("__mod__", "__rmod__", "__imod__", "%"),
    "lshift": ("__lshift__", "__rlshift__", "__ilshift__", "<<"), "rshift": ("__rshift__", "__rrshift__", "__irshift__", ">>"),
    "and": ("__and__", "__rand__", "__iand__", "&"), "or": ("__or__", "__ror__", "__ior__", "|"),
    "xor": ("__xor__", "__rxor__", "__ixor__", "^"),
}
ROLES = ["B", "T", "CS", "PS", "U"]
FIX_MARKER = "__pyx_binop_same_type"      # identifier introduced by proposed_fixes/C28-same_type_reflected.diff


def fix_applied(repo):
    try:
        return FIX_MARKER in open(os.path.join(repo, "Cython", "Utility", "ExtensionTypes.c")).read()
    except OSError:
        return False


def bits(d):
    return [k for i, k in enumerate(KINDS) if d >> i & 1]


def cls_src(opname, cname, base, role, d):
    L = ["cdef class %s%s:" % (cname, "(%s)" % base if base else "")]
    body = []
    for k in bits(d):
        body += ["    def %s(self, other):" % OPS[opname][KINDS.index(k)], "        return H(%r, self, other)" % (role + "." + k)]
    return L + (body or ["    pass"]) + [""]


def binop_module(opname, b, tdefs, cdefs, capi=False):
    """base B (defs b), T<t>(B), C<t>_<c>(T<t>), unrelated U<u>; every method calls the hook H"""
    L = ["# cython: language_level=3" + (", c_api_binop_methods=True" if capi else ""), "cdef object H = None",
         "def set_hook(h):", "    global H", "    H = h", ""]
    L += cls_src(opname, "B", None, "B", b)
    for t in tdefs:
        L += cls_src(opname, "T%d" % t, "B", "T", t)
        for c in cdefs:
            L += cls_src(opname, "C%d_%d" % (t, c), "T%d" % t, "CS", c)
    for u in range(8):
        L += cls_src(opname, "U%d" % u, None, "U", u)
    return "\n".join(L) + "\n"


DRIVER = r'''
import sys, json, importlib
spec = json.load(sys.stdin)
NAMES = spec["names"]
KINDS = ("op", "rop", "iop")
LOG = []; BEH = {}
LEFT = RIGHT = None
def H(mid, self, other):
    if self is LEFT and other is RIGHT: o = "l"
    elif self is RIGHT and other is LEFT: o = "r"
    else: o = "?"
    LOG.append(mid + ":" + o)
    return ("V", mid) if BEH.get(mid) else NotImplemented
def mk(mid):
    def m(self, other): return H(mid, self, other)
    return m
def pyclass(name, bases, role, d):
    ns = {}
    for i, k in enumerate(KINDS):
        if d >> i & 1: ns[NAMES[i]] = mk(role + "." + k)
    return type(name, bases, ns)
env = {}
exec("def f_bin(a, b): return a %s b" % NAMES[3], env)
exec("def f_inp(a, b):\n    a %s= b\n    return a" % NAMES[3], env)
mods = {}
def getmod(name):
    if name not in mods:
        m = importlib.import_module(name); m.set_hook(H); mods[name] = m
    return mods[name]
cache = {}
def classes(world, modname, b, t, c, p, u, upy):
    key = (world, modname, b, t, c, p, u, upy)
    r = cache.get(key)
    if r is None:
        if len(cache) > 20000: cache.clear()
        if world == "py":
            B = pyclass("B", (object,), "B", b); T = pyclass("T", (B,), "T", t)
            r = {"B": B, "T": T, "CS": pyclass("CS", (T,), "CS", c), "PS": pyclass("PS", (T,), "PS", p),
                 "U": int if upy == 2 else pyclass("U", (object,), "U", u)}
        else:
            m = getmod(modname)
            T = getattr(m, "T%d" % t)
            r = {"B": m.B, "T": T, "CS": getattr(m, "C%d_%d" % (t, c)),
                 "PS": None if spec.get("capi") else pyclass("PS", (T,), "PS", p),
                 "U": int if upy == 2 else (pyclass("U", (object,), "U", u) if upy else getattr(m, "U%d" % u))}
        cache[key] = r
    return r
def run(world, case):
    global LEFT, RIGHT
    modname, b, t, c, p, u, upy, L, R, inp, beh = case
    cl = classes(world, modname, b, t, c, p, u, upy)
    LEFT = 1000001 if (upy == 2 and L == "U") else cl[L]()
    RIGHT = 1000002 if (upy == 2 and R == "U") else cl[R]()
    BEH.clear()
    for mid in beh: BEH[mid] = True
    del LOG[:]
    try:
        r = (env["f_inp"] if inp else env["f_bin"])(LEFT, RIGHT)
        if isinstance(r, tuple): res = "V:" + r[1]
        elif r is NotImplemented: res = "NotImplementedObject"
        else: res = "?" + repr(r)[:40]
    except TypeError:
        res = "TypeError"
    except Exception as e:
        res = "EXC:" + type(e).__name__
    return ",".join(LOG) + "|" + res
out = []
for case in spec["cases"]:
    out.append([run("cy", case), None if spec.get("capi") else run("py", case)])
print(json.dumps(out))
'''

# ---------------------------------------------------------------- rich comparison
CMP = ["lt", "le", "eq", "ne", "gt", "ge"]       # CPython op numbering


def rc_cls_src(cname, base, role, d, to):
    L = (["@cython.total_ordering"] if to else []) + ["cdef class %s%s:" % (cname, "(%s)" % base if base else "")]
    body = []
    for i, n in enumerate(CMP):
        if d >> i & 1:
            body += ["    def __%s__(self, other):" % n, "        return H(%r, self, other)" % (role + "." + n)]
    return L + (body or ["    pass"]) + [""]


def richcmp_module(tlist, cs_of):
    L = ["# cython: language_level=3", "cimport cython", "cdef object H = None", "def set_hook(h):",
         "    global H", "    H = h", ""]
    for (t, to) in tlist:
        tn = "T%d_%d" % (t, to)
        L += rc_cls_src(tn, None, "T", t, to)
        for c in cs_of.get((t, to), []):
            L += rc_cls_src("C%d_%d_%d" % (t, to, c), tn, "X", c, 0)
    return "\n".join(L) + "\n"


RC_DRIVER = r'''
import sys, json, importlib, operator, functools
spec = json.load(sys.stdin)
CMP = ["lt", "le", "eq", "ne", "gt", "ge"]
OPF = [operator.lt, operator.le, operator.eq, operator.ne, operator.gt, operator.ge]
LOG = []; BEH = {}
LEFT = RIGHT = None
def side(self, other):
    if self is LEFT and other is RIGHT: return "l"
    if self is RIGHT and other is LEFT: return "r"
    return "?"
def H(mid, self, other):
    LOG.append(mid + ":" + side(self, other))
    return BEH.get(mid, NotImplemented)
def mk(mid):
    def m(self, other): return H(mid, self, other)
    return m
def pyclass(name, bases, role, d):
    ns = {"__hash__": object.__hash__}
    for i, n in enumerate(CMP):
        if d >> i & 1: ns["__%s__" % n] = mk(role + "." + n)
    return type(name, bases, ns)
UB = [NotImplemented, NotImplemented]
class U(object):
    __hash__ = object.__hash__
def mku(n):
    def m(self, other):
        LOG.append("U." + n + ":" + side(self, other))
        return UB[1 if n in ("eq", "ne") else 0]
    return m
for n in CMP: setattr(U, "__%s__" % n, mku(n))
mods = {}
def getmod(name):
    if name not in mods:
        m = importlib.import_module(name); m.set_hook(H); mods[name] = m
    return mods[name]
cache = {}
VAL = {"n": NotImplemented, "t": True, "f": False}
def classes(world, case):
    modname, t, to, xkind, x = case[:5]
    key = (world, modname, t, to, xkind, x)
    r = cache.get(key)
    if r is None:
        if len(cache) > 20000: cache.clear()
        if world == "py":
            T = pyclass("T", (object,), "T", t)
            if to: T = functools.total_ordering(T)
            r = {"T": T, "X": pyclass("X", (T,), "X", x), "U": U}
        else:
            m = getmod(modname)
            T = getattr(m, "T%d_%d" % (t, to))
            X = pyclass("X", (T,), "X", x) if xkind == "py" else getattr(m, "C%d_%d_%d" % (t, to, x))
            r = {"T": T, "X": X, "U": U}
        cache[key] = r
    return r
def run(world, case):
    global LEFT, RIGHT
    modname, t, to, xkind, x, L, R, op, beh, ub = case
    cl = classes(world, case)
    LEFT = cl[L](); RIGHT = cl[R]()
    BEH.clear()
    for mid, v in beh.items(): BEH[mid] = VAL[v]
    UB[0] = VAL[ub[0]]; UB[1] = VAL[ub[1]]
    del LOG[:]
    try:
        r = OPF[op](LEFT, RIGHT)
        res = str(r) if (r is True or r is False) else "?" + repr(r)[:30]
    except TypeError:
        res = "TypeError"
    except Exception as e:
        res = "EXC:" + type(e).__name__
    return ",".join(LOG) + "|" + res
out = []
for case in spec["cases"]:
    out.append([run("cy", case), run("py", case)])
print(json.dumps(out))
'''


def states15(b, t, c, p, u, upy, beh):
    s = ""
    for role, d in zip(ROLES, (b, t, c, p, u)):
        for i, k in enumerate(KINDS):
            if (upy == 2 and role == "U") or not (d >> i & 1):
                s += "u"
            else:
                s += "v" if (role + "." + k) in beh else "n"
    return s


def binop_cases(ctx, opname, modname, b, tdefs, cdefs, nsamples, full_beh_limit=0):
    rng = ctx.rng
    cases = []
    for t in tdefs:
        for _ in range(nsamples):
            c, p, u, upy = rng.choice(list(cdefs)), rng.randrange(8), rng.randrange(8), rng.randrange(3)
            mids = [r + "." + k for r, d in zip(ROLES, (b, t, c, p, u)) for k in bits(d)]
            for L in ROLES:
                for R in ROLES:
                    if upy == 2 and L == "U" and R == "U":
                        continue
                    for inp in (0, 1):
                        behs = [[], [m for m in mids if rng.random() < 0.35]]
                        if full_beh_limit and len(mids) <= full_beh_limit and _ == 0:
                            behs = [[m for i, m in enumerate(mids) if k >> i & 1] for k in range(2 ** len(mids))]
                        for beh in behs:
                            cases.append([modname, b, t, c, p, u, upy, L, R, inp, beh])
    return cases


def run_binop(ctx, model, opname, mods, fx, nsamples, full_beh_limit=0):
    """mods: [(modname, b, tdefs, cdefs)] already built"""
    cases = []
    for modname, b, tdefs, cdefs in mods:
        cases += binop_cases(ctx, opname, modname, b, tdefs, cdefs, nsamples, full_beh_limit)
    r = cybuild.run_script(DRIVER, ctx.workdir, {"names": OPS[opname], "cases": cases}, name="drv_%s.py" % opname)
    if r["json"] is None:
        ctx.corr_break("binop driver " + opname, opname, (r["err"] or r["out"])[-1500:], "driver runs")
        return
    isadd = 1 if opname == "add" else 0
    qa, qb, qe = [], [], []
    for case in cases:
        modname, b, t, c, p, u, upy, L, R, inp, beh = case
        s = states15(b, t, c, p, u, upy, beh)
        tail = "%d %d %s %d %s %s" % (isadd, inp, s, 1 if upy else 0, L, R)
        qa.append("run a %d %s" % (fx, tail)); qb.append("run b %d %s" % (fx, tail)); qe.append("exc %d %s" % (fx, tail))
    ma, mb, me = model.batch(qa), model.batch(qb), model.batch(qe)
    for case, (cy, py), a, bb, e in zip(cases, r["json"], ma, mb, me):
        modname, b, t, c, p, u, upy, L, R, inp, beh = case
        inp_d = {"part": "binop", "op": opname, "B": bits(b), "T": bits(t), "CS": bits(c), "PS": bits(p), "U": bits(u),
                 "U_kind": ["cdef", "python", "int"][upy], "left": L, "right": R, "inplace": bool(inp), "returns_value": beh,
                 "case": case}
        ctx.case("binop/%s/%s/%s" % (opname, "inplace" if inp else "plain", e), inp_d,
                 sig=(opname, b, t, c, p, u, upy, L, R, inp, tuple(beh)))
        if cy != bb:
            ctx.corr_break("binopslot:run(b) vs compiled", inp_d, cy, bb)
        if py != a:
            ctx.corr_break("binopslot:run(a) vs CPython classes (spec transcription)", inp_d, py, a)
        if cy != py:
            ctx.fail(e if e != "none" else "unclassified_binop_dispatch", inp_d, cy, py, note="model (a) %s / (b) %s" % (a, bb))


def rc_class(t, to, xkind, x, L, R, op, beh):
    """finding class of a rich-comparison case, from the input only"""
    haseq, hasne = bool(t & 4), bool(t & 8)
    xin = "X" in (L, R)
    if not to:
        if xkind == "py" and op == 3 and t and not hasne and (x & 4) and not (x & 8) and xin:
            return "ne_ignores_python_subclass_eq"
        return "unclassified_richcmp"
    if not haseq and not hasne:
        return "total_ordering_without_eq_disabled"
    if hasne:
        return "total_ordering_ne_defined"
    if beh.get("T.eq") == "n":
        return "total_ordering_eq_notimplemented"
    if xin:
        return "total_ordering_subclass_operand"
    return "unclassified_total_ordering"


def run_richcmp(ctx, model, nmods, tl, ncs, nbeh):
    rng = ctx.rng
    cs_of = {k: sorted(set(rng.randrange(64) for _ in range(ncs))) for k in tl}
    groups = [tl[i::nmods] for i in range(nmods)]
    modof = {}
    specs = []
    for i, g in enumerate(groups):
        for k in g:
            modof[k] = "c28_rc_%d" % i
        specs.append(dict(name="c28_rc_%d" % i, source=richcmp_module(g, cs_of), workdir=ctx.workdir))
    return specs, (tl, cs_of, modof, nbeh)


def richcmp_eval(ctx, model, plan):
    tl, cs_of, modof, nbeh = plan
    rng = ctx.rng
    cases = []
    for (t, to) in tl:
        if to and not (t & 0b110011):
            continue      # functools.total_ordering raises ValueError without an ordering method: no Python equivalent
        for xkind in ("py", "cy"):
            xs = cs_of[(t, to)] if xkind == "cy" else [0, rng.randrange(64)]
            for x in xs:
                mids = ["T." + CMP[i] for i in range(6) if t >> i & 1] + ["X." + CMP[i] for i in range(6) if x >> i & 1]
                for L, R in itertools.product("TXU", repeat=2):
                    if L == R == "U":
                        continue
                    for op in range(6):
                        for j in range(nbeh):
                            beh = {m: (rng.choice("ntf") if j else "n") for m in mids}
                            ub = [rng.choice("ntf"), rng.choice("ntf")] if j else ["n", "n"]
                            cases.append([modof[(t, to)], t, to, xkind, x, L, R, op, beh, ub])
    r = cybuild.run_script(RC_DRIVER, ctx.workdir, {"cases": cases}, name="drv_rc.py")
    if r["json"] is None:
        ctx.corr_break("richcmp driver", "rc", (r["err"] or r["out"])[-1500:], "driver runs")
        return
    qa, qb = [], []
    for case in cases:
        modname, t, to, xkind, x, L, R, op, beh, ub = case
        ts = "".join(beh.get("T." + CMP[i], "u") for i in range(6))
        xs = "".join(beh.get("X." + CMP[i], "u") for i in range(6))
        tail = "%d %s %s %s %s %s %s %d" % (to, xkind, ts, xs, "".join(ub), L, R, op)
        qa.append("rc a " + tail); qb.append("rc b " + tail)
    have_model = model is not None
    ma = model.batch(qa) if have_model else [None] * len(cases)
    mb = model.batch(qb) if have_model else [None] * len(cases)
    for case, (cy, py), a, bb in zip(cases, r["json"], ma, mb):
        modname, t, to, xkind, x, L, R, op, beh, ub = case
        inp_d = {"part": "richcmp", "T": [CMP[i] for i in range(6) if t >> i & 1], "total_ordering": bool(to),
                 "X_kind": xkind, "X": [CMP[i] for i in range(6) if x >> i & 1], "left": L, "right": R, "op": CMP[op],
                 "behaviour": beh, "U_behaviour": ub, "case": case}
        klass = rc_class(t, to, xkind, x, L, R, op, beh)
        ctx.case("richcmp/%s/%s" % ("total_ordering" if to else "plain", CMP[op]), inp_d,
                 sig=("rc", t, to, xkind, x, L, R, op, tuple(sorted(beh.items())), tuple(ub)))
        if have_model:
            if cy != bb:
                ctx.corr_break("richcmp:run(b) vs compiled", inp_d, cy, bb)
            if py != a:
                ctx.corr_break("richcmp:run(a) vs CPython classes (spec transcription)", inp_d, py, a)
        if cy != py:
            ctx.fail(klass, inp_d, cy, py, note="model (a) %s / (b) %s" % (a, bb))


def run_capi(ctx, model, modname, b, tdefs, cdefs):
    rng = ctx.rng
    cases = []
    for t in tdefs:
        for c in cdefs:
            u = rng.randrange(8)
            mids = [r + "." + k for r, d in zip(ROLES, (b, t, c, 0, u)) for k in bits(d)]
            for L in ("B", "T", "CS", "U"):
                for R in ("B", "T", "CS", "U"):
                    for beh in ([], [m for m in mids if rng.random() < 0.4]):
                        cases.append([modname, b, t, c, 0, u, 0, L, R, 0, beh])
    r = cybuild.run_script(DRIVER, ctx.workdir, {"names": OPS["add"], "cases": cases, "capi": 1}, name="drv_capi.py")
    if r["json"] is None:
        ctx.corr_break("capi driver", "capi", (r["err"] or r["out"])[-1500:], "driver runs")
        return
    q = ["capi %s %s %s" % (states15(c[1], c[2], c[3], 0, c[5], 0, c[10]), c[7], c[8]) for c in cases]
    for case, (cy, _), m in zip(cases, r["json"], model.batch(q)):
        ctx.case("binop/add/c_api_binop_methods", {"case": case}, sig=("capi",) + tuple(map(str, case)))
        if cy != m:
            ctx.corr_break("binopslot:run_capi vs compiled (c_api_binop_methods=True)", {"case": case}, cy, m)


def run(ctx):
    quick = ctx.tier == "quick"
    fx = 1 if fix_applied(ctx.repo) else 0
    ctx.note("BinopSlot template variant under test: %s" % ("repaired (same-type operands never reflected)" if fx else "current"))
    model = ctx.model("binopslot")
    specs, plans = [], []
    if quick:
        oplist = [("add", [(0, [0, 1, 2, 3]), (0, [4, 5, 6, 7]), (3, [0, 1, 2, 3]), (3, [4, 5, 6, 7])], [0, 2, 3], 3)]
    else:
        allt = [[0, 1, 2, 3], [4, 5, 6, 7]]
        oplist = [("add", [(b, g) for b in range(8) for g in allt], list(range(8)), 8),
                  ("sub", [(b, g) for b in (0, 3, 6) for g in allt], [0, 1, 2, 3], 5),
                  ("matmul", [(b, g) for b in (1, 2) for g in allt], [0, 1, 2, 3], 5),
                  ("or", [(b, g) for b in (3, 7) for g in allt], [0, 2, 5], 5),
                  ("floordiv", [(b, g) for b in (0, 5) for g in allt], [0, 1, 2, 3], 5)]
    for opname, bgs, cdefs, ns in oplist:
        mods = []
        for b, tdefs in bgs:
            name = "c28_%s_%d_%d" % (opname, b, tdefs[0])
            specs.append(dict(name=name, source=binop_module(opname, b, tdefs, cdefs), workdir=ctx.workdir))
            mods.append((name, b, tdefs, cdefs))
        plans.append((opname, mods, ns))
    if quick:
        tl = [(t, to) for t in (0, 1, 4, 5, 6, 9, 13, 20, 21, 36, 37, 63) for to in (0, 1)]
        rc_specs, rc_plan = run_richcmp(ctx, model, 4, tl, 1, 3)
    else:
        tl = [(t, to) for t in range(64) for to in (0, 1)]
        rc_specs, rc_plan = run_richcmp(ctx, model, 16, tl, 3, 4)
    specs += rc_specs
    if not quick:
        specs.append(dict(name="c28_capi_add_3", source=binop_module("add", 3, range(4), [0, 1, 2, 3], capi=True), workdir=ctx.workdir))
    built = cybuild.build_many(specs, jobs=8 if quick else 12)
    for (so, err), sp in zip(built, specs):
        if err is not None:
            ctx.corr_break("build " + sp["name"], sp["name"], str(err)[-700:], "module builds")
            return
    for opname, mods, ns in plans:
        run_binop(ctx, model, opname, mods, fx, ns, full_beh_limit=0 if quick else 7)
    richcmp_eval(ctx, model if RC_MODEL else None, rc_plan)
    if not quick:
        run_capi(ctx, model, "c28_capi_add_3", 3, range(4), [0, 1, 2, 3])
    ctx.extra["exhaustive_domains"] = [
        "Coq: all 3^10 x 2 (method state x U kind) configurations x 25 operand pairs x both template variants (normalised to the operands' MROs)",
        "harness: every subset of {__op__,__rop__,__iop__} for T x the listed B/CS subsets x all 25 role pairs x plain/in-place"]


RC_MODEL = True


def replay(ctx, obj):
    inp = obj["input"]
    print("replay input:", json.dumps(inp)[:2000])
    print("re-run `./check C28` (the generated modules are deterministic for the seed); part=%s" % inp.get("part"))
