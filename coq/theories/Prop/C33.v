(* C33 -- Python <-> C/C++ value conversions round-trip or raise.
   Only statements; proofs live in Proof/P_Convert.v (model: Model/M_Convert.v).

   res A = Ok a | Err e.  pyval / cval: Python and C values.  The container loops of
   Cython/Utility/CppConvert.pyx and CConvert.pyx are generic in their element converters
   fromX : pyval -> res X (Python -> C) and toX : X -> res pyval (C -> Python); the element law is
   "toX x = Ok v -> fromX v = Ok x" for the elements at hand.  C sets / maps are duplicate-free
   insertion ordered lists (an order-free representation: NoDup is the only invariant).
   first_err f l e : l = pre ++ x :: post, f succeeds on all of pre and f x = Err e. *)
From Coq Require Import ZArith NArith List Bool.
From CyVerif Require Import Lib.CInt Model.M_Convert Proof.P_Convert Proof.P_ConvertStr.
Import ListNotations.

(* vector / std::list: C -> Python -> C is the identity, order preserved, for all element
   converters obeying the element law *)
Theorem C33_seq_roundtrip : forall (X : Type) (fromX : pyval -> res X) (toX : X -> res pyval)
    (l : list X) (vs : list pyval),
  (forall x v, In x l -> toX x = Ok v -> fromX v = Ok x) ->
  mapM toX l = Ok vs -> seq_from_py fromX (PList vs) = Ok l.
Proof. exact @seq_roundtrip. Qed.
Print Assumptions C33_seq_roundtrip.

(* an element error at ANY position propagates as that error (the first one in iteration order),
   and it is the only way, besides a non-iterable argument, to fail: no partial vector escapes *)
Theorem C33_seq_error_position : forall (X : Type) (fromX : pyval -> res X) (v : pyval) (e : exc),
  seq_from_py fromX v = Err e <->
  iter_items v = Err e \/ (exists items, iter_items v = Ok items /\ first_err fromX items e).
Proof. exact @seq_error_position. Qed.
Print Assumptions C33_seq_error_position.

(* set / unordered_set *)
Theorem C33_set_roundtrip : forall (X : Type) (fromX : pyval -> res X) (toX : X -> res pyval)
    (eqb : X -> X -> bool),
  (forall a b, eqb a b = true -> a = b) ->
  forall (l : list X) (vs : list pyval),
  NoDup l -> (forall x v, In x l -> toX x = Ok v -> fromX v = Ok x) ->
  pyset_loop toX l [] = Ok vs -> set_from_py fromX eqb (PSet vs) = Ok l.
Proof. exact @set_roundtrip. Qed.
Print Assumptions C33_set_roundtrip.

Theorem C33_set_error_position : forall (X : Type) (fromX : pyval -> res X) (eqb : X -> X -> bool)
    (items : list pyval) (acc : list X) (e : exc),
  set_loop fromX eqb items acc = Err e <-> first_err fromX items e.
Proof.
  intros. rewrite <- mapM_err_first. exact (@set_loop_err X X fromX fromX eqb items acc e).
Qed.
Print Assumptions C33_set_error_position.

(* duplicates collapse: a successful set conversion holds only converted items *)
Theorem C33_set_members : forall (X : Type) (fromX : pyval -> res X) (eqb : X -> X -> bool)
    (items : list pyval) (r : list X),
  set_loop fromX eqb items [] = Ok r ->
  exists xs, mapM fromX items = Ok xs /\ (forall a, In a r -> In a xs).
Proof. exact @set_members. Qed.
Print Assumptions C33_set_members.

(* map / unordered_map *)
Theorem C33_map_roundtrip : forall (X Y : Type) (fromX : pyval -> res X) (toX : X -> res pyval)
    (fromY : pyval -> res Y) (toY : Y -> res pyval) (eqb : X -> X -> bool),
  (forall a b, eqb a b = true -> a = b) ->
  forall (kv : list (X * Y)) (d : list (pyval * pyval)),
  NoDup (map fst kv) ->
  (forall k v, In k (map fst kv) -> toX k = Ok v -> fromX v = Ok k) ->
  (forall y v, In y (map snd kv) -> toY y = Ok v -> fromY v = Ok y) ->
  pydict_loop toX toY kv [] = Ok d -> map_from_py fromX fromY eqb (PDict d) = Ok kv.
Proof. exact @map_roundtrip. Qed.
Print Assumptions C33_map_roundtrip.

(* entries in dict order, key before value: the first failing conversion decides *)
Theorem C33_map_error_position : forall (X Y : Type) (fromX : pyval -> res X) (fromY : pyval -> res Y)
    (eqb : X -> X -> bool) (kvs : list (pyval * pyval)) (acc : list (X * Y)) (e : exc),
  map_loop fromX fromY eqb kvs acc = Err e <-> first_err (conv_kv fromX fromY) kvs e.
Proof.
  intros. rewrite <- mapM_err_first.
  exact (@map_loop_err X Y fromX (fun _ => Err TypeError) fromY eqb kvs acc e).
Qed.
Print Assumptions C33_map_error_position.

(* pair *)
Theorem C33_pair_roundtrip : forall (X Y : Type) (fromX : pyval -> res X) (fromY : pyval -> res Y)
    (x : X) (y : Y) (px py : pyval),
  fromX px = Ok x -> fromY py = Ok y ->
  pair_from_py fromX fromY (PTuple [px; py]) = Ok (x, y).
Proof. exact @pair_roundtrip. Qed.
Print Assumptions C33_pair_roundtrip.

Theorem C33_pair_error_order : forall (X Y : Type) (fromX : pyval -> res X) (fromY : pyval -> res Y)
    (v a b : pyval) (e : exc),
  unpack2 v = Ok (a, b) ->
  (pair_from_py fromX fromY v = Err e <->
   fromX a = Err e \/ (exists x, fromX a = Ok x) /\ fromY b = Err e).
Proof. exact @pair_error_order. Qed.
Print Assumptions C33_pair_error_order.

(* C array from an iterable: a value is produced only from exactly n items, all converted *)
Theorem C33_array_exact_length : forall (X : Type) (fromX : pyval -> res X) (n : nat) (v : pyval)
    (xs : list X),
  arr_from_py fromX n v = Ok xs ->
  exists items, iter_items v = Ok items /\ length items = n /\ mapM fromX items = Ok xs.
Proof. exact @arr_exact. Qed.
Print Assumptions C33_array_exact_length.

Theorem C33_array_wrong_length_raises : forall (X : Type) (fromX : pyval -> res X) (n : nat)
    (v : pyval) (items : list pyval),
  iter_items v = Ok items -> length items <> n -> exists e, arr_from_py fromX n v = Err e.
Proof. exact @arr_wrong_length_raises. Qed.
Print Assumptions C33_array_wrong_length_raises.

Theorem C33_array_roundtrip : forall (X : Type) (fromX : pyval -> res X) (toX : X -> res pyval)
    (n : nat) (l : list X) (vs : list pyval),
  length l = n -> (forall x v, In x l -> toX x = Ok v -> fromX v = Ok x) ->
  mapM toX l = Ok vs -> arr_from_py fromX n (PList vs) = Ok l.
Proof. exact @arr_roundtrip. Qed.
Print Assumptions C33_array_roundtrip.

(* std::string: length based, NUL safe; the text codec law (hypothesis here) is proved below for
   both encodings under which str objects are accepted: C33_ascii_codec_law, C33_utf8_codec_law *)
Theorem C33_string_to_from : forall sc b v,
  (sc_type sc = SUnicode -> codec_law (sc_enc sc)) ->
  string_to_py sc (CBytes b) = Ok v -> string_from_py sc v = Ok (CBytes b).
Proof. exact string_to_from. Qed.
Print Assumptions C33_string_to_from.

Theorem C33_string_bytes_roundtrip : forall sc b,
  sc_type sc = SBytes -> string_roundtrip sc (PBytes b) = Ok (PBytes b).
Proof. exact string_bytes_roundtrip. Qed.
Print Assumptions C33_string_bytes_roundtrip.

Theorem C33_ascii_codec_law : codec_law EAscii.
Proof. exact ascii_codec_law. Qed.
Print Assumptions C33_ascii_codec_law.

Theorem C33_string_latin1_raises : forall sc b v,
  sc_type sc = SUnicode -> sc_enc sc = ELatin1 ->
  string_to_py sc (CBytes b) = Ok v -> string_from_py sc v = Err TypeError.
Proof. exact string_latin1_raises. Qed.
Print Assumptions C33_string_latin1_raises.

(* char*: full statement `forall b, charp_roundtrip sc (PBytes b) = Ok (PBytes b)` is FALSE *)
Theorem C33_charp_roundtrip_refuted :
  exists sc b r, charp_roundtrip sc (PBytes b) = Ok (PBytes r) /\ r <> b.
Proof. exact charp_roundtrip_refuted. Qed.
Print Assumptions C33_charp_roundtrip_refuted.

Theorem C33_charp_roundtrip_partial : forall sc b,
  sc_type sc = SBytes -> ~ In 0%N b -> charp_roundtrip sc (PBytes b) = Ok (PBytes b).
Proof. exact charp_nul_free_roundtrip. Qed.
Print Assumptions C33_charp_roundtrip_partial.

Theorem C33_charp_truncates : forall sc b1 b2,
  sc_type sc = SBytes -> ~ In 0%N b1 ->
  charp_roundtrip sc (PBytes (b1 ++ 0%N :: b2)) = Ok (PBytes b1).
Proof. exact charp_truncates. Qed.
Print Assumptions C33_charp_truncates.

(* struct from dict *)
Theorem C33_struct_missing_key_raises : forall sc fs d n,
  In n (field_names fs) -> dict_get n d = None ->
  from_py sc (TStruct fs) (PDict d) = Err ValueError.
Proof. exact struct_missing_key_raises. Qed.
Print Assumptions C33_struct_missing_key_raises.

Theorem C33_struct_keys_present : forall sc fs d,
  (forall n, In n (field_names fs) -> dict_get n d <> None) ->
  exists vals, lookup_all (field_names fs) (PDict d) = Ok vals /\
               from_py sc (TStruct fs) (PDict d) = from_py sc fs (PTuple vals).
Proof. exact struct_keys_present. Qed.
Print Assumptions C33_struct_keys_present.

Theorem C33_struct_only_member_keys : forall sc fs d1 d2,
  (forall n, In n (field_names fs) -> dict_get n d1 = dict_get n d2) ->
  from_py sc (TStruct fs) (PDict d1) = from_py sc (TStruct fs) (PDict d2).
Proof. exact struct_only_member_keys. Qed.
Print Assumptions C33_struct_only_member_keys.

(* "wrong keys raise" is FALSE for extra keys *)
Theorem C33_struct_extra_key_refuted :
  exists sc fs d extra, dict_get extra d <> None /\ ~ In extra (field_names fs) /\
                        exists c, from_py sc (TStruct fs) (PDict d) = Ok c.
Proof. exact struct_extra_key_refuted. Qed.
Print Assumptions C33_struct_extra_key_refuted.

(* "wrong types raise TypeError/ValueError/OverflowError" is FALSE for maps *)
Theorem C33_map_nonmapping_refuted : exists sc t v, from_py sc t v = Err AttributeError.
Proof. exact map_nonmapping_refuted. Qed.
Print Assumptions C33_map_nonmapping_refuted.

(* nested containers, by induction on the type structure: for every type of the grammar (scalars,
   std::string, vector, std::list, set, unordered_set, map, unordered_map, pair, C array, struct,
   ctuple, arbitrarily nested) and every well-formed C value (wf: ints in range, distinct set
   elements / map keys, array extents, distinct member names), whatever to_py produces is
   converted back by from_py to exactly that C value.  Unions are excluded (wf is False). *)
Theorem C33_nested_roundtrip : forall sc,
  (sc_type sc = SUnicode -> codec_law (sc_enc sc)) ->
  forall t c v, wf sc t c -> to_py sc t c = Ok v -> from_py sc t v = Ok c.
Proof. exact to_from. Qed.
Print Assumptions C33_nested_roundtrip.

(* ---------- text: str <-> char* / unsigned char* / std::string under c_string_encoding ----------
   PStr s: s is the list of code points of a CPython str object (PEP 393: kind_of / is_ascii are
   functions of the largest code point).  unicode_asas lim E s models
   __Pyx_PyUnicode_AsStringAndSize (lim: the Limited-API variant): Ok (buffer, *length) or the
   exception raised.  encode_with E s is the specification, CPython's s.encode(E):
   ascii = the code points themselves if all are below 128, utf8 = the RFC 3629 table (the C18
   reference encoder) unless a surrogate occurs, UnicodeEncodeError otherwise. *)

(* api: Full | Limited checked -- the full C-API text of the helper, and its Limited-API text
   with (checked = true, proposed fix) or without (false, the code as it is) a NULL check after
   PyUnicode_AsUTF8AndSize.  api_exact a e s := a = Limited false -> e = EAscii ->
   exists b, utf8_encode s = Ok b (the unchecked text is only exact where that call succeeds). *)

(* the helper IS s.encode(E) and *length is the number of BYTES -- all strings, both encodings under
   which str is accepted *)
Theorem C33_text_helper_is_encode : forall a e s, str_accepts_unicode e = true -> api_exact a e s ->
  unicode_asas a e s = rmap (fun b => (b, length b)) (encode_with e s).
Proof. exact asas_spec. Qed.
Print Assumptions C33_text_helper_is_encode.

(* full statement (no api_exact) is FALSE for the Limited-API text as it is: a lone surrogate under
   ascii gives SystemError, not the codec's UnicodeEncodeError (finding limited_api_ascii_surrogate) *)
Theorem C33_text_limited_unchecked_refuted :
  exists s, unicode_asas (Limited false) EAscii s = Err SystemError /\
            encode_with EAscii s = Err UnicodeEncodeError.
Proof. exact asas_limited_refuted. Qed.
Print Assumptions C33_text_limited_unchecked_refuted.

Theorem C33_text_api_exact : forall a e s,
  (a <> Limited false \/ forallb encodable s = true) -> api_exact a e s.
Proof. intros a e s [H|H]; [apply api_sound_exact; exact H|apply api_exact_encodable; exact H]. Qed.
Print Assumptions C33_text_api_exact.

(* ascii decision: accepted iff every code point is below 128; then bytes = code points and
   length = len(s); every other string raises UnicodeEncodeError (Latin-1 text included: a 1-byte
   kind string need not be ASCII, C33_text_kind1_not_ascii) *)
Theorem C33_text_ascii_decision : forall a s, api_exact a EAscii s ->
  unicode_asas a EAscii s = if all_ascii s then Ok (s, length s) else Err UnicodeEncodeError.
Proof. exact ascii_decision. Qed.
Print Assumptions C33_text_ascii_decision.

Theorem C33_text_ascii_flag : forall s, is_ascii s = all_ascii s.
Proof. exact is_ascii_all. Qed.
Print Assumptions C33_text_ascii_flag.

Theorem C33_text_kind1_not_ascii : exists s, kind_of s = K1BYTE /\ is_ascii s = false.
Proof. exact kind1_not_ascii. Qed.
Print Assumptions C33_text_kind1_not_ascii.

(* utf8 decision: accepted iff no lone surrogate; length = number of bytes; the bytes decode back
   to the text (strict decoder); rejection is UnicodeEncodeError; every api variant *)
Theorem C33_text_utf8_decision : forall a s,
  (forall b n, unicode_asas a EUtf8 s = Ok (b, n) ->
     n = length b /\ utf8_decode b = Ok s /\ forallb encodable s = true) /\
  (forall x, unicode_asas a EUtf8 s = Err x ->
     x = UnicodeEncodeError /\ exists c, In c s /\ encodable c = false).
Proof. exact utf8_decision. Qed.
Print Assumptions C33_text_utf8_decision.

(* decode (encode s) = s for every string the codec accepts, and rejection exactly on surrogates *)
Theorem C33_utf8_decode_encode : forall s b, utf8_encode s = Ok b -> utf8_decode b = Ok s.
Proof. exact utf8_decode_encode. Qed.
Print Assumptions C33_utf8_decode_encode.

Theorem C33_utf8_encode_rejects : forall s e,
  utf8_encode s = Err e <-> e = UnicodeEncodeError /\ exists c, In c s /\ encodable c = false.
Proof. exact utf8_encode_rejects. Qed.
Print Assumptions C33_utf8_encode_rejects.

(* encode (decode b) = b for every byte string the strict decoder accepts: the codec law of
   C33_string_to_from / C33_nested_roundtrip for utf8 *)
Theorem C33_utf8_codec_law : codec_law EUtf8.
Proof. exact utf8_codec_law. Qed.
Print Assumptions C33_utf8_codec_law.

(* def f(string x): return x on a str argument, c_string_type=str: the text itself (embedded NULs
   kept) or UnicodeEncodeError, nothing else *)
Theorem C33_string_str_roundtrip : forall a sc s, api_exact a (sc_enc sc) s ->
  sc_type sc = SUnicode -> str_accepts_unicode (sc_enc sc) = true ->
  string_roundtrip_l a sc (PStr s) =
    match encode_with (sc_enc sc) s with Ok _ => Ok (PStr s) | Err _ => Err UnicodeEncodeError end.
Proof. exact string_str_roundtrip. Qed.
Print Assumptions C33_string_str_roundtrip.

(* every c_string_type: the result is from_string_and_size (s.encode(E)) *)
Theorem C33_string_of_str : forall a sc s, api_exact a (sc_enc sc) s ->
  string_roundtrip_l a sc (PStr s) = bind (encode_with (sc_enc sc) s) (from_string_and_size sc).
Proof. exact string_bytes_of_str. Qed.
Print Assumptions C33_string_of_str.

(* char* / unsigned char*: the same bytes cut at the first NUL; exact on NUL-free text *)
Theorem C33_charp_of_str : forall a sc s, api_exact a (sc_enc sc) s ->
  charp_roundtrip_l a sc (PStr s) =
    bind (encode_with (sc_enc sc) s) (fun b => from_string_and_size sc (until_nul b)).
Proof. exact charp_of_str. Qed.
Print Assumptions C33_charp_of_str.

Theorem C33_charp_str_roundtrip : forall a sc s, api_exact a (sc_enc sc) s ->
  sc_type sc = SUnicode -> str_accepts_unicode (sc_enc sc) = true -> ~ In 0%N s ->
  charp_roundtrip_l a sc (PStr s) =
    match encode_with (sc_enc sc) s with Ok _ => Ok (PStr s) | Err _ => Err UnicodeEncodeError end.
Proof. exact charp_str_roundtrip. Qed.
Print Assumptions C33_charp_str_roundtrip.

(* the Limited-API text of the helper (post-check of the two lengths) is observably the same *)
Theorem C33_limited_api_agrees : forall a sc v,
  (forall s, v = PStr s -> api_exact a (sc_enc sc) s) ->
  as_string_and_size_l a sc v = as_string_and_size_l Full sc v /\
  charp_from_py_l a sc v = charp_from_py_l Full sc v.
Proof. exact limited_api_agrees. Qed.
Print Assumptions C33_limited_api_agrees.

(* nested types (char* members included, on NUL-free buffers) with the codec hypothesis discharged:
   every configuration the compiler accepts except c_string_type=str with a third encoding *)
Theorem C33_nested_roundtrip_closed : forall sc,
  (sc_type sc = SUnicode -> str_accepts_unicode (sc_enc sc) = true) ->
  forall t c v, wf sc t c -> to_py sc t c = Ok v -> from_py sc t v = Ok c.
Proof. exact to_from_closed. Qed.
Print Assumptions C33_nested_roundtrip_closed.

(* non-vacuity of the text theorems: a Latin-1 string (1-byte kind, not ASCII) is refused under
   ascii and converted under utf8 with length 3 for 2 characters; an astral one round-trips *)
Example C33_text_nonvacuous :
  kind_of [104; 233]%N = K1BYTE /\
  unicode_asas Full EAscii [104; 233]%N = Err UnicodeEncodeError /\
  unicode_asas Full EUtf8 [104; 233]%N = Ok ([104; 195; 169]%N, 3%nat) /\
  string_roundtrip {| sc_type := SUnicode; sc_enc := EUtf8 |} (PStr [0; 128512; 8364]%N)
    = Ok (PStr [0; 128512; 8364]%N) /\
  unicode_asas (Limited true) EAscii [97; 55296]%N = Err UnicodeEncodeError.
Proof. repeat split; vm_compute; reflexivity. Qed.

(* non-vacuity: the element law holds for a concrete nested type and value *)
Example C33_nonvacuous :
  let sc := {| sc_type := SBytes; sc_enc := ENone |} in
  let t := TMap (TLeaf LString) (TVector (TPair (TLeaf (LInt 32 true)) (TLeaf LDouble))) in
  let c := CMap [(CBytes [97; 0; 255]%N, CSeq [CSeq [CInt (-5); CDouble 7]]); (CBytes [], CSeq [])] in
  wf sc t c /\ exists v, to_py sc t c = Ok v /\ from_py sc t v = Ok c.
Proof.
  split.
  - cbn. split; [reflexivity|]. eexists. split; [reflexivity|]. split.
    + repeat constructor; cbn; intuition discriminate.
    + split; repeat constructor; cbn; eauto.
      eexists. split; [reflexivity|]. repeat constructor. cbn.
      eexists _, _. split; [reflexivity|]. split; [|eauto]. eexists. split; [reflexivity|].
      unfold in_range, min_int, max_int. cbn. split; discriminate.
  - eexists. split; [vm_compute; reflexivity|]. vm_compute. reflexivity.
Qed.
