(* C33 -- Python <-> C/C++ value conversions round-trip or raise.
   Only statements; proofs live in Proof/P_Convert.v (model: Model/M_Convert.v).

   res A = Ok a | Err e.  pyval / cval: Python and C values.  The container loops of
   Cython/Utility/CppConvert.pyx and CConvert.pyx are generic in their element converters
   fromX : pyval -> res X (Python -> C) and toX : X -> res pyval (C -> Python); the element law is
   "toX x = Ok v -> fromX v = Ok x" for the elements at hand.  C sets / maps are duplicate-free
   insertion ordered lists (an order-free representation: NoDup is the only invariant).
   first_err f l e : l = pre ++ x :: post, f succeeds on all of pre and f x = Err e. *)
From Coq Require Import ZArith NArith List Bool.
From CyVerif Require Import Lib.CInt Model.M_Convert Proof.P_Convert.
Import ListNotations.

(* vector / std::list: C -> Python -> C is the identity, order preserved, for all element
   converters obeying the element law *)
Theorem C33_seq_roundtrip : forall (X : Type) (fromX : pyval -> res X) (toX : X -> res pyval)
    (l : list X) (vs : list pyval),
  (forall x v, In x l -> toX x = Ok v -> fromX v = Ok x) ->
  mapM toX l = Ok vs -> seq_from_py fromX (PList vs) = Ok l.
Proof. exact @seq_roundtrip. Qed.
Print Assumptions C33_seq_roundtrip.

(* an element error at ANY position propagates as that error (the first one in iteration order),
   and it is the only way, besides a non-iterable argument, to fail: no partial vector escapes *)
Theorem C33_seq_error_position : forall (X : Type) (fromX : pyval -> res X) (v : pyval) (e : exc),
  seq_from_py fromX v = Err e <->
  iter_items v = Err e \/ (exists items, iter_items v = Ok items /\ first_err fromX items e).
Proof. exact @seq_error_position. Qed.
Print Assumptions C33_seq_error_position.

(* set / unordered_set *)
Theorem C33_set_roundtrip : forall (X : Type) (fromX : pyval -> res X) (toX : X -> res pyval)
    (eqb : X -> X -> bool),
  (forall a b, eqb a b = true -> a = b) ->
  forall (l : list X) (vs : list pyval),
  NoDup l -> (forall x v, In x l -> toX x = Ok v -> fromX v = Ok x) ->
  pyset_loop toX l [] = Ok vs -> set_from_py fromX eqb (PSet vs) = Ok l.
Proof. exact @set_roundtrip. Qed.
Print Assumptions C33_set_roundtrip.

Theorem C33_set_error_position : forall (X : Type) (fromX : pyval -> res X) (eqb : X -> X -> bool)
    (items : list pyval) (acc : list X) (e : exc),
  set_loop fromX eqb items acc = Err e <-> first_err fromX items e.
Proof.
  intros. rewrite <- mapM_err_first. exact (@set_loop_err X X fromX fromX eqb items acc e).
Qed.
Print Assumptions C33_set_error_position.

(* duplicates collapse: a successful set conversion holds only converted items *)
Theorem C33_set_members : forall (X : Type) (fromX : pyval -> res X) (eqb : X -> X -> bool)
    (items : list pyval) (r : list X),
  set_loop fromX eqb items [] = Ok r ->
  exists xs, mapM fromX items = Ok xs /\ (forall a, In a r -> In a xs).
Proof. exact @set_members. Qed.
Print Assumptions C33_set_members.

(* map / unordered_map *)
Theorem C33_map_roundtrip : forall (X Y : Type) (fromX : pyval -> res X) (toX : X -> res pyval)
    (fromY : pyval -> res Y) (toY : Y -> res pyval) (eqb : X -> X -> bool),
  (forall a b, eqb a b = true -> a = b) ->
  forall (kv : list (X * Y)) (d : list (pyval * pyval)),
  NoDup (map fst kv) ->
  (forall k v, In k (map fst kv) -> toX k = Ok v -> fromX v = Ok k) ->
  (forall y v, In y (map snd kv) -> toY y = Ok v -> fromY v = Ok y) ->
  pydict_loop toX toY kv [] = Ok d -> map_from_py fromX fromY eqb (PDict d) = Ok kv.
Proof. exact @map_roundtrip. Qed.
Print Assumptions C33_map_roundtrip.

(* entries in dict order, key before value: the first failing conversion decides *)
Theorem C33_map_error_position : forall (X Y : Type) (fromX : pyval -> res X) (fromY : pyval -> res Y)
    (eqb : X -> X -> bool) (kvs : list (pyval * pyval)) (acc : list (X * Y)) (e : exc),
  map_loop fromX fromY eqb kvs acc = Err e <-> first_err (conv_kv fromX fromY) kvs e.
Proof.
  intros. rewrite <- mapM_err_first.
  exact (@map_loop_err X Y fromX (fun _ => Err TypeError) fromY eqb kvs acc e).
Qed.
Print Assumptions C33_map_error_position.

(* pair *)
Theorem C33_pair_roundtrip : forall (X Y : Type) (fromX : pyval -> res X) (fromY : pyval -> res Y)
    (x : X) (y : Y) (px py : pyval),
  fromX px = Ok x -> fromY py = Ok y ->
  pair_from_py fromX fromY (PTuple [px; py]) = Ok (x, y).
Proof. exact @pair_roundtrip. Qed.
Print Assumptions C33_pair_roundtrip.

Theorem C33_pair_error_order : forall (X Y : Type) (fromX : pyval -> res X) (fromY : pyval -> res Y)
    (v a b : pyval) (e : exc),
  unpack2 v = Ok (a, b) ->
  (pair_from_py fromX fromY v = Err e <->
   fromX a = Err e \/ (exists x, fromX a = Ok x) /\ fromY b = Err e).
Proof. exact @pair_error_order. Qed.
Print Assumptions C33_pair_error_order.

(* C array from an iterable: a value is produced only from exactly n items, all converted *)
Theorem C33_array_exact_length : forall (X : Type) (fromX : pyval -> res X) (n : nat) (v : pyval)
    (xs : list X),
  arr_from_py fromX n v = Ok xs ->
  exists items, iter_items v = Ok items /\ length items = n /\ mapM fromX items = Ok xs.
Proof. exact @arr_exact. Qed.
Print Assumptions C33_array_exact_length.

Theorem C33_array_wrong_length_raises : forall (X : Type) (fromX : pyval -> res X) (n : nat)
    (v : pyval) (items : list pyval),
  iter_items v = Ok items -> length items <> n -> exists e, arr_from_py fromX n v = Err e.
Proof. exact @arr_wrong_length_raises. Qed.
Print Assumptions C33_array_wrong_length_raises.

Theorem C33_array_roundtrip : forall (X : Type) (fromX : pyval -> res X) (toX : X -> res pyval)
    (n : nat) (l : list X) (vs : list pyval),
  length l = n -> (forall x v, In x l -> toX x = Ok v -> fromX v = Ok x) ->
  mapM toX l = Ok vs -> arr_from_py fromX n (PList vs) = Ok l.
Proof. exact @arr_roundtrip. Qed.
Print Assumptions C33_array_roundtrip.

(* std::string: length based, NUL safe; the text codec law is a hypothesis (proved for ASCII) *)
Theorem C33_string_to_from : forall sc b v,
  (sc_type sc = SUnicode -> codec_law (sc_enc sc)) ->
  string_to_py sc (CBytes b) = Ok v -> string_from_py sc v = Ok (CBytes b).
Proof. exact string_to_from. Qed.
Print Assumptions C33_string_to_from.

Theorem C33_string_bytes_roundtrip : forall sc b,
  sc_type sc = SBytes -> string_roundtrip sc (PBytes b) = Ok (PBytes b).
Proof. exact string_bytes_roundtrip. Qed.
Print Assumptions C33_string_bytes_roundtrip.

Theorem C33_ascii_codec_law : codec_law EAscii.
Proof. exact ascii_codec_law. Qed.
Print Assumptions C33_ascii_codec_law.

Theorem C33_string_latin1_raises : forall sc b v,
  sc_type sc = SUnicode -> sc_enc sc = ELatin1 ->
  string_to_py sc (CBytes b) = Ok v -> string_from_py sc v = Err TypeError.
Proof. exact string_latin1_raises. Qed.
Print Assumptions C33_string_latin1_raises.

(* char*: full statement `forall b, charp_roundtrip sc (PBytes b) = Ok (PBytes b)` is FALSE *)
Theorem C33_charp_roundtrip_refuted :
  exists sc b r, charp_roundtrip sc (PBytes b) = Ok (PBytes r) /\ r <> b.
Proof. exact charp_roundtrip_refuted. Qed.
Print Assumptions C33_charp_roundtrip_refuted.

Theorem C33_charp_roundtrip_partial : forall sc b,
  sc_type sc = SBytes -> ~ In 0%N b -> charp_roundtrip sc (PBytes b) = Ok (PBytes b).
Proof. exact charp_nul_free_roundtrip. Qed.
Print Assumptions C33_charp_roundtrip_partial.

Theorem C33_charp_truncates : forall sc b1 b2,
  sc_type sc = SBytes -> ~ In 0%N b1 ->
  charp_roundtrip sc (PBytes (b1 ++ 0%N :: b2)) = Ok (PBytes b1).
Proof. exact charp_truncates. Qed.
Print Assumptions C33_charp_truncates.

(* struct from dict *)
Theorem C33_struct_missing_key_raises : forall sc fs d n,
  In n (field_names fs) -> dict_get n d = None ->
  from_py sc (TStruct fs) (PDict d) = Err ValueError.
Proof. exact struct_missing_key_raises. Qed.
Print Assumptions C33_struct_missing_key_raises.

Theorem C33_struct_keys_present : forall sc fs d,
  (forall n, In n (field_names fs) -> dict_get n d <> None) ->
  exists vals, lookup_all (field_names fs) (PDict d) = Ok vals /\
               from_py sc (TStruct fs) (PDict d) = from_py sc fs (PTuple vals).
Proof. exact struct_keys_present. Qed.
Print Assumptions C33_struct_keys_present.

Theorem C33_struct_only_member_keys : forall sc fs d1 d2,
  (forall n, In n (field_names fs) -> dict_get n d1 = dict_get n d2) ->
  from_py sc (TStruct fs) (PDict d1) = from_py sc (TStruct fs) (PDict d2).
Proof. exact struct_only_member_keys. Qed.
Print Assumptions C33_struct_only_member_keys.

(* "wrong keys raise" is FALSE for extra keys *)
Theorem C33_struct_extra_key_refuted :
  exists sc fs d extra, dict_get extra d <> None /\ ~ In extra (field_names fs) /\
                        exists c, from_py sc (TStruct fs) (PDict d) = Ok c.
Proof. exact struct_extra_key_refuted. Qed.
Print Assumptions C33_struct_extra_key_refuted.

(* "wrong types raise TypeError/ValueError/OverflowError" is FALSE for maps *)
Theorem C33_map_nonmapping_refuted : exists sc t v, from_py sc t v = Err AttributeError.
Proof. exact map_nonmapping_refuted. Qed.
Print Assumptions C33_map_nonmapping_refuted.

(* nested containers, by induction on the type structure: for every type of the grammar (scalars,
   std::string, vector, std::list, set, unordered_set, map, unordered_map, pair, C array, struct,
   ctuple, arbitrarily nested) and every well-formed C value (wf: ints in range, distinct set
   elements / map keys, array extents, distinct member names), whatever to_py produces is
   converted back by from_py to exactly that C value.  Unions are excluded (wf is False). *)
Theorem C33_nested_roundtrip : forall sc,
  (sc_type sc = SUnicode -> codec_law (sc_enc sc)) ->
  forall t c v, wf sc t c -> to_py sc t c = Ok v -> from_py sc t v = Ok c.
Proof. exact to_from. Qed.
Print Assumptions C33_nested_roundtrip.

(* non-vacuity: the element law holds for a concrete nested type and value *)
Example C33_nonvacuous :
  let sc := {| sc_type := SBytes; sc_enc := ENone |} in
  let t := TMap (TLeaf LString) (TVector (TPair (TLeaf (LInt 32 true)) (TLeaf LDouble))) in
  let c := CMap [(CBytes [97; 0; 255]%N, CSeq [CSeq [CInt (-5); CDouble 7]]); (CBytes [], CSeq [])] in
  wf sc t c /\ exists v, to_py sc t c = Ok v /\ from_py sc t v = Ok c.
Proof.
  split.
  - cbn. split; [reflexivity|]. eexists. split; [reflexivity|]. split.
    + repeat constructor; cbn; intuition discriminate.
    + split; repeat constructor; cbn; eauto.
      eexists. split; [reflexivity|]. repeat constructor. cbn.
      eexists _, _. split; [reflexivity|]. split; [|eauto]. eexists. split; [reflexivity|].
      unfold in_range, min_int, max_int. cbn. split; discriminate.
  - eexists. split; [vm_compute; reflexivity|]. vm_compute. reflexivity.
Qed.
