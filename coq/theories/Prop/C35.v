(* C35 - Reference counts stay balanced on every path, including errors.

   Level: partial.  The theorems are about the model of the code generator's ownership discipline
   (Model/M_Refs.v: temp machine + refnanny ledger + gen for strict operations, tuple/list displays, calls,
   local assignment, attribute/item stores, if, for-in with break/continue/return, return).  They hold for ALL
   trees of that fragment, ALL fault oracles (any set of failing calls/allocations: in particular "the k-th
   call raises" for every k, and no fault), all iteration counts and all aliasing choices of results.
   The __exit__ call of the with statement (WithExitCallNode, its unmanaged result temp and the truth test of the
   result) is modelled on its own (exit_call / with_stat) and proved balanced on every outcome for every oracle;
   the with statement as a whole is executable in the model but NOT yet part of the gen_stmt induction (the
   except label needs a frame property of bodies on their error exit that the statement lemmas do not carry).
   Not covered by a theorem (tested only by props/C35.py): try/except/finally, with bodies, unpacking,
   comprehensions, augmented assignment, method/keyword/star calls, C utility code.  The full property over
   all of Cython is FALSE on the current tree: the return value stashed by TryFinallyStatNode (also used by
   "with") lives in an unmanaged temp and leaks when the finally clause / __exit__ raises
   (finding finally_raises_after_return, replayed on the real code by props/C35.py). *)
From Coq Require Import List Bool Arith.
From CyVerif Require Import Model.M_Refs Proof.P_Refs.
Import ListNotations.

(* every path of every function of the fragment: the machine never over-releases, never passes NULL to a
   non-X macro, never reads a temp or local whose object it does not own, never overwrites a live slot
   (no FStuck); at exit no temp and no local holds a reference, the result reference has been handed to the
   caller, the ledger of every object is 0 (each acquired reference released exactly once) and the
   refnanny replay of the whole event trace reports no "too many decrefs". *)
Theorem C35_balanced_on_every_path :
  forall (body : stmt) (O : orc) (fuel nargs none : nat),
    jumps_ok false body = true ->
    match run_fun O fuel nargs (gen_fun none body) with
    | Done _ s => temps s = [] /\ locs s = [] /\ res s = None /\
                  (forall o, bal (tr s) o = 0) /\ nanny_errs (tr s) = 0
    | FStuck _ => False
    | FFuel => True
    end.
Proof. exact P_Refs.balanced_all. Qed.
Print Assumptions C35_balanced_on_every_path.

(* the instance used by the correspondence run: the k-th fallible call raises (k = None: no fault) *)
Theorem C35_balanced_for_every_fault_position :
  forall (body : stmt) (k : option nat) (decisions : list nat) (fuel nargs none : nat),
    jumps_ok false body = true ->
    match run_fun (orc_of k decisions) fuel nargs (gen_fun none body) with
    | Done _ s => temps s = [] /\ locs s = [] /\ res s = None /\
                  (forall o, bal (tr s) o = 0) /\ nanny_errs (tr s) = 0
    | FStuck _ => False
    | FFuel => True
    end.
Proof. intros. apply P_Refs.balanced_all; auto. Qed.
Print Assumptions C35_balanced_for_every_fault_position.

(* the invariant "sum of owned references = live temps + owned locals + result" (P_Refs.Inv) holds after the
   code of every expression, on the normal and on the error exit, from every state that satisfies it; on the
   normal exit exactly the result temp has become live, on the error exit the result slot is still empty *)
Theorem C35_ledger_equals_slots_invariant :
  forall (e : expr) (A : astate) (c : list instr) (r : rand) (A' : astate),
    gen_expr e A = (c, r, A') -> wfA A ->
    forall (O : orc) (L : nat -> Prop), (forall u, L u -> inuse A u) ->
    forall s, Inv s -> B L s ->
      match run O c s with
      | Norm s' => Inv s' /\ B (fun u => L u \/ r = RTmp u) s'
      | Err s' => Inv s' /\ res s' = None
      | _ => False
      end.
Proof.
  intros e A c r A' G W O L HL. destruct (proj1 P_Refs.gen_ok e A c r A' G W) as (_ & _ & _ & T).
  exact (T O L HL).
Qed.
Print Assumptions C35_ledger_equals_slots_invariant.

(* the allocator side of the discipline: after an expression exactly its result temp is in use in addition *)
Theorem C35_temps_released_exactly_once :
  forall (e : expr) (A : astate) (c : list instr) (r : rand) (A' : astate),
    gen_expr e A = (c, r, A') -> wfA A ->
    wfA A' /\ (forall u, inuse A' u <-> inuse A u \/ r = RTmp u) /\ (forall u, r = RTmp u -> ~ inuse A u).
Proof.
  intros e A c r A' G W. destruct (proj1 P_Refs.gen_ok e A c r A' G W) as (a & b & c0 & _). auto.
Qed.
Print Assumptions C35_temps_released_exactly_once.

(* statements leave the set of live temps unchanged, clear all of them before a return, and keep the
   invariant on every outcome *)
Theorem C35_statement_outcomes :
  forall (st : stmt) (A : astate) (c : code) (A' : astate) (inl : bool),
    gen_stmt st A = (c, A') -> wfA A -> jumps_ok inl st = true ->
    forall (O : orc) (fuel : nat) (s : state), Inv s -> B (inuse A) s ->
      match exec O fuel c s with
      | Norm s' => Inv s' /\ B (inuse A) s'
      | Brk s' | Cnt s' => inl = true /\ Inv s' /\ B (inuse A) s'
      | Err s' => Inv s' /\ res s' = None
      | Ret s' => Inv s' /\ BT (fun _ => False) s'
      | Stuck _ => False
      | Fuel => True
      end.
Proof.
  intros st A c A' inl G W J O fuel. destruct (P_Refs.gen_stmt_ok st A c A' inl G W J) as (_ & _ & S).
  exact (S O fuel).
Qed.
Print Assumptions C35_statement_outcomes.

(* WithExitCallNode as emitted (both uses: normal exit, test = false, args = []; except branch, test = true,
   args = [tuple temp]): for EVERY oracle (the call fails / the truth test of the returned object fails / it answers
   either way) and every state satisfying the ledger invariant in which exit_var and the args tuple are live,
   the code ends (normally or at the error label) with the invariant intact: exactly exit_var and the args tuple
   released, the unmanaged result reference released, result slot untouched; it is never stuck *)
Theorem C35_with_exit_call_balanced :
  forall (O : orc) (test : bool) (te : nat) (args : list nat) (s : state) (L : nat -> Prop),
    Inv s -> BT L s -> NoDup (te :: args) -> (forall t, In t (te :: args) -> L t) ->
    match exit_call O false test te args s with
    | Norm s' | Err s' => Inv s' /\ BT (fun u => L u /\ ~ In u (te :: args)) s' /\ res s' = res s
    | _ => False
    end.
Proof. exact P_Refs.exit_call_ok. Qed.
Print Assumptions C35_with_exit_call_balanced.

(* the emission order with the error test of the truth value in FRONT of DECREF(result_var) is refuted: from a
   state satisfying the invariant, with the truth test raising, the error label is reached with a reference
   (object 12) that no temp, local or result slot accounts for *)
Theorem C35_with_exit_late_decref_refuted :
  Inv wit_state /\
  exists s', exit_call wit_orc true true 0 [1] wit_state = Err s' /\
             temps s' = [] /\ locs s' = [] /\ res s' = None /\ bal (tr s') 12 = 1.
Proof. split; [exact P_Refs.wit_state_inv|exact P_Refs.exit_call_late_leaks]. Qed.
Print Assumptions C35_with_exit_late_decref_refuted.

(* ... and at statement level: "with a: <raise>" whose __exit__ result fails its truth test (call 2): the variant
   reaches the error label owning object 11 without a slot; the emitted order is balanced on the same input *)
Theorem C35_with_stat_late_decref_refuted :
  (exists s', (wit_with true = Err s') /\ (bal (tr s') 11 = 1) /\ (cnt 11 (temps s') = 0) /\
              (cnt 11 (locs s') = 0) /\ (res s' = None)) /\
  (exists s', (wit_with false = Err s') /\
              (forallb (fun o => Nat.eqb (bal (tr s') o) (cnt o (temps s'))) (seq 0 20) = true) /\
              (length (tr s') = 11)).
Proof. split; [exact P_Refs.with_late_leaks|exact P_Refs.with_asis_same_input]. Qed.
Print Assumptions C35_with_stat_late_decref_refuted.

(* non-vacuity: "for v0 in a + b: if v0: break; else: return (v0, c(v0))" with the 4th call failing runs to
   the error exit with a non-trivial trace; the fault-free run returns a value *)
Definition ex_body : stmt :=
  SFor 0 (EOp (ECons (EArg 0) (ECons (EArg 1) ENil)))
    (SIf (ELoc 0) SBreak
         (SReturn (ESeq (ECons (ELoc 0) (ECons (ECall (EArg 2) (ECons (ELoc 0) ENil)) ENil))))).
Example C35_nonvacuous :
  jumps_ok false ex_body = true /\
  (exists s, run_fun (orc_of (Some 4) [0; 0; 1; 2; 0]) 50 5 (gen_fun 4 ex_body) = Done false s /\ length (tr s) = 8) /\
  (exists s, run_fun (orc_of None [0; 0; 1; 2; 0]) 50 5 (gen_fun 4 ex_body) = Done true s /\ length (tr s) = 14).
Proof. split; [reflexivity|]. split; eexists; split; vm_compute; reflexivity. Qed.
