(* C15 — Indexing and slicing of builtin sequences match CPython.
   Only statements; proofs live in Proof/P_Index.v.  n is the container length, v the C value of
   an index expression of a C integer type (width tw, signedness ts), cn = "the index is a
   non-negative literal"; `run n access` is what the helper's action amounts to (element k /
   IndexError / out-of-bounds memory access), `py_index n v` is CPython's o[v].
   fx / fc / fl select the repaired (true) or current (false) variant of the three places where
   the current tree is refuted (see the _refuted theorems). *)
From Coq Require Import ZArith Bool.
From CyVerif Require Import Lib.CInt Model.M_Index Proof.P_Index.
Open Scope Z_scope.

(* o[i] under the default directives = CPython, for every static/run-time base type, every
   length, every integer type of the index and every value (PY_SSIZE_T_MIN, values that do not
   fit Py_ssize_t included): same element or IndexError, never an out-of-bounds access.
   (list/tuple subclasses through an object-typed variable: only with the repair fx.) *)
Theorem C15_getitem_eq : forall fx k tw ts cn n v,
  0 <= n <= SSZ_MAX -> idx_ok tw ts cn v -> (k = KObjSeqPy -> fx = true) ->
  run n (getitem_int fx k tw ts n v (wa_flag true ts cn) true) = py_index n v.
Proof. exact getitem_eq. Qed.
Print Assumptions C15_getitem_eq.

Theorem C15_setitem_eq : forall fx k tw ts cn n v,
  0 <= n <= SSZ_MAX -> idx_ok tw ts cn v -> (k = KObjSeqPy -> fx = true) ->
  run n (setitem_int fx k tw ts n v (wa_flag true ts cn) true) = py_index n v.
Proof. exact setitem_eq. Qed.
Print Assumptions C15_setitem_eq.

Theorem C15_delitem_eq : forall fx k tw ts cn n v,
  0 <= n <= SSZ_MAX -> idx_ok tw ts cn v -> (k = KObjSeqPy -> fx = true) ->
  run n (delitem_int fx k tw ts n v (wa_flag true ts cn)) = py_index n v.
Proof. exact delitem_eq. Qed.
Print Assumptions C15_delitem_eq.

(* every wraparound/boundscheck combination, on the indices the directives leave defined
   (boundscheck off: in-range index promised) and Pythonic (wraparound off: non-negative) *)
Theorem C15_getitem_directives : forall fx k tw ts n v wa bc,
  0 <= n <= SSZ_MAX -> 1 <= tw -> in_range tw ts v -> (k = KObjSeqPy -> fx = true) ->
  defined wa bc n v -> pythonic wa v ->
  run n (getitem_int fx k tw ts n v wa bc) = py_index n v.
Proof. intros. apply getitem_int_gen; assumption. Qed.
Print Assumptions C15_getitem_directives.

Theorem C15_setitem_directives : forall fx k tw ts n v wa bc,
  0 <= n <= SSZ_MAX -> 1 <= tw -> in_range tw ts v -> (k = KObjSeqPy -> fx = true) ->
  defined wa bc n v -> pythonic wa v ->
  run n (setitem_int fx k tw ts n v wa bc) = py_index n v.
Proof. intros. apply setitem_int_gen; assumption. Qed.
Print Assumptions C15_setitem_directives.

(* i + n of the negative-index wrap never overflows Py_ssize_t (the model wraps explicitly) *)
Theorem C15_index_add_no_overflow : forall n i,
  0 <= n <= SSZ_MAX -> in_ssz i -> i < 0 -> in_ssz (i + n) /\ ssz (i + n) = i + n.
Proof. exact index_add_no_overflow. Qed.
Print Assumptions C15_index_add_no_overflow.

(* fast_access_in_bounds (memory-safety share of C36): with boundscheck on, for any wraparound
   flag and any index value, an item read/written directly by the fast path is item 0 <= j < n;
   deletion has no direct-access path *)
Theorem C15_fast_access_in_bounds : forall fx k tw ts n v wa j,
  0 <= n <= SSZ_MAX -> 1 <= tw -> in_range tw ts v ->
  (fast_index (getitem_int fx k tw ts n v wa true) = Some j -> 0 <= j < n) /\
  (fast_index (setitem_int fx k tw ts n v wa true) = Some j -> 0 <= j < n) /\
  fast_index (delitem_int fx k tw ts n v wa) = None.
Proof.
  intros fx k tw ts n v wa j Hn Hw Hv. split; [|split].
  - exact (getitem_fast_in_bounds fx k tw ts n v Hn Hw Hv wa j).
  - exact (setitem_fast_in_bounds fx k tw ts n v Hn Hw Hv wa j).
  - apply delitem_no_fast.
Qed.
Print Assumptions C15_fast_access_in_bounds.

(* CPython's own subscript code (transcribed) is the mathematical py_index *)
Theorem C15_cpython_subscript_spec : forall n i,
  0 <= n <= SSZ_MAX -> cpython_subscript n i = py_index n i.
Proof. exact cpython_subscript_eq. Qed.
Print Assumptions C15_cpython_subscript_spec.

(* FINDING seq_subclass_double_wraparound: through the sq_item/sq_ass_item path a list/tuple
   subclass gets the length added twice: o[-2] on a 1-element LSub is element 0 *)
Theorem C15_seq_subclass_double_wrap_refuted :
  exists n v, 0 <= n <= SSZ_MAX /\ idx_ok 64 true false v /\
    run n (getitem_int false KObjSeqPy 64 true n v (wa_flag true true false) true) = Elem 0 /\
    run n (setitem_int false KObjSeqPy 64 true n v (wa_flag true true false) true) = Elem 0 /\
    run n (delitem_int false KObjSeqPy 64 true n v (wa_flag true true false)) = Elem 0 /\
    py_index n v = IndexError.
Proof. exact seq_subclass_double_wrap_refuted. Qed.
Print Assumptions C15_seq_subclass_double_wrap_refuted.

(* base[start:stop] = CPython's PySlice_Unpack + PySlice_AdjustIndices selection for every
   static base type, length and absent / C / None / int-object bounds -- with the repaired
   __Pyx_crop_slice (fc) for list/tuple and the clamping coercion (fl) for objects beyond
   Py_ssize_t.  The full statement for the current tree (fc = fl = false, no side conditions)
   is false: see the two _refuted theorems. *)
Theorem C15_slice_eq : forall fc fl k n bs be,
  0 <= n <= SSZ_MAX -> bound_ok bs -> bound_ok be ->
  (fl = true \/ (bound_fits bs /\ bound_fits be)) ->
  (fc = true \/ (k <> KList /\ k <> KTuple)) ->
  slice_node fc fl k n bs be = py_slice n bs be.
Proof. exact slice_node_eq. Qed.
Print Assumptions C15_slice_eq.

(* the tree as it is, outside the two finding classes *)
Theorem C15_slice_eq_current_partial : forall k n bs be,
  0 <= n <= SSZ_MAX -> bound_ok bs -> bound_ok be -> bound_fits bs -> bound_fits be ->
  ((k = KList \/ k = KTuple) -> ~ crop_overflows n (py_unpack_start bs) (py_unpack_stop be)) ->
  slice_node false false k n bs be = py_slice n bs be.
Proof. exact slice_node_current_partial. Qed.
Print Assumptions C15_slice_eq_current_partial.

(* __Pyx_PyUnicode_Substring alone: correct as it is for all C bounds *)
Theorem C15_unicode_substring_eq : forall n a b,
  0 <= n <= SSZ_MAX -> in_ssz a -> in_ssz b ->
  unicode_substring n a b = py_slice n (BCInt a) (BCInt b).
Proof. exact unicode_substring_eq. Qed.
Print Assumptions C15_unicode_substring_eq.

Theorem C15_setslice_eq : forall fl k n bs be,
  0 <= n <= SSZ_MAX -> bound_ok bs -> bound_ok be ->
  (fl = true \/ (bound_fits bs /\ bound_fits be)) ->
  setslice_node fl k n bs be = py_slice_pos n bs be.
Proof. exact setslice_node_eq. Qed.
Print Assumptions C15_setslice_eq.

(* slice memory safety for the repaired helper: copied items are items of the array *)
Theorem C15_slice_in_bounds : forall fl k n bs be f c,
  0 <= n <= SSZ_MAX -> bound_ok bs -> bound_ok be ->
  (fl = true \/ (bound_fits bs /\ bound_fits be)) ->
  slice_node true fl k n bs be = Sel f c -> 0 <= f /\ 0 <= c /\ f + c <= n.
Proof. exact slice_in_bounds. Qed.
Print Assumptions C15_slice_in_bounds.

(* FINDING crop_slice_length_overflow: t[PY_SSIZE_T_MAX:PY_SSIZE_T_MIN] on a typed list/tuple:
   `stop - start` overflows to n + 1 > 0 and n + 1 items are copied from ob_item + MAX *)
Theorem C15_crop_slice_refuted :
  exists n a b, 0 <= n <= SSZ_MAX /\ in_ssz a /\ in_ssz b /\
    listtuple_getslice false n a b = SliceOOB SSZ_MAX (n + 1) /\
    py_slice n (BCInt a) (BCInt b) = Sel 0 0.
Proof. exact crop_slice_refuted. Qed.
Print Assumptions C15_crop_slice_refuted.

(* ... and exactly on that class, for every length and bounds *)
Theorem C15_crop_slice_overflow_class : forall n a b,
  0 <= n <= SSZ_MAX -> in_ssz a -> in_ssz b -> crop_overflows n a b ->
  exists f c, listtuple_getslice false n a b = SliceOOB f c.
Proof. exact listtuple_getslice_current_overflow. Qed.
Print Assumptions C15_crop_slice_overflow_class.

(* FINDING typed_slice_object_bound_overflow: s[-2**63-1 : 2**63] on a typed str (list, tuple,
   bytes, bytearray; also slice assignment/deletion): OverflowError where CPython clamps *)
Theorem C15_typed_slice_bound_overflow_refuted :
  exists k n bs be, 0 <= n <= SSZ_MAX /\ bound_ok bs /\ bound_ok be /\
    slice_node true false k n bs be = OverflowError /\
    setslice_node false KList n bs be = OverflowError /\
    py_slice n bs be = Sel 0 n.
Proof. exact typed_slice_bound_overflow_refuted. Qed.
Print Assumptions C15_typed_slice_bound_overflow_refuted.

(* non-vacuity: ordinary operands satisfy the hypotheses and exercise wrap, bounds and clamping *)
Example C15_nonvacuous :
  0 <= 5 <= SSZ_MAX /\ idx_ok 64 true false (-2) /\ idx_ok 64 true false SSZ_MIN /\
  run 5 (getitem_int false KList 64 true 5 (-2) (wa_flag true true false) true) = Elem 3 /\
  run 5 (getitem_int false KList 64 true 5 SSZ_MIN (wa_flag true true false) true) = IndexError /\
  run 5 (setitem_int false KByteArray 32 false 5 4 (wa_flag true false false) true) = Elem 4 /\
  fast_index (getitem_int false KStr 64 true 5 (-5) true true) = Some 0 /\
  bound_ok (BCInt (-3)) /\ bound_fits (BPyInt 100) /\
  slice_node false false KList 5 (BCInt (-3)) (BPyInt 100) = Sel 2 3 /\
  slice_node false false KStr 5 BAbsent (BCInt (-1)) = Sel 0 4 /\
  ~ crop_overflows 5 (-3) 100.
Proof. unfold idx_ok, in_range, bound_ok, bound_fits, in_ssz, crop_overflows. vm_compute. intuition congruence. Qed.
