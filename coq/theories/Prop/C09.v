(* C09 — Compile-time constants keep their exact Python values.
   Only statements; proofs live in Proof/P_Consts.v, the model in Model/M_Consts.v. *)
From Coq Require Import ZArith List Bool.
From CyVerif Require Import Lib.CInt Model.M_Consts Proof.P_Consts.
Import ListNotations.
Open Scope Z_scope.

(* Utils.str_to_number, applied to what the scanner hands over (the token with its underscores
   removed, optionally signed by the compiler), returns the value CPython's integer-literal
   grammar assigns -- every base, every size CPython itself accepts *)
Theorem C09_str_to_number_value : forall s v,
  signed_literal s = Some v -> signed_within_limit s = true ->
  str_to_number (strip_us s) = Some v.
Proof. exact str_to_number_value. Qed.
Print Assumptions C09_str_to_number_value.

(* the legacy form 0NNN that the lexicon still admits (not Python 3 syntax) is read as octal *)
Theorem C09_str_to_number_legacy_octal : forall s,
  legacy_octal s = true -> str_to_number s = Some (eval_digits 8 s).
Proof. exact str_to_number_legacy_octal. Qed.
Print Assumptions C09_str_to_number_legacy_octal.

(* Full statement for the emission of Python int constants:
     forall v, int_emission false cur v = Some v            (code as it is)
   is FALSE (C09_int_emission_current_refuted).  Proved: for every integer with the repaired
   formatter choice, and above -10^4300 for the current one. *)
Theorem C09_int_emission_roundtrip : forall abs_threshold cur v,
  abs_threshold = true \/ - pow10_limit < v ->
  int_emission abs_threshold cur v = Some v.
Proof. exact int_emission_roundtrip. Qed.
Print Assumptions C09_int_emission_roundtrip.

Theorem C09_int_emission_current_refuted : exists v, int_emission false 1 v = None.
Proof. exact int_emission_current_refuted. Qed.
Print Assumptions C09_int_emission_current_refuted.

(* the base-32 text of large constants decodes to the constant, for all integers *)
Theorem C09_base32_roundtrip : forall n, py_int 32 (to_base32 n) = Some n.
Proof. exact to_base32_roundtrip. Qed.
Print Assumptions C09_base32_roundtrip.

(* equal pool keys of int constants (Code.get_int_const) mean equal values *)
Theorem C09_int_const_key_injective : forall a v1 l1 v2 l2 k,
  int_const_key a v1 l1 = Some k -> int_const_key a v2 l2 = Some k -> v1 = v2 /\ l1 = l2.
Proof. exact int_const_key_injective. Qed.
Print Assumptions C09_int_const_key_injective.

(* unop_node: "-literal" becomes a literal text with the negated value; with the code as it is
   only below 10^4300 (C09_negated_literal_current_refuted) *)
Theorem C09_negated_literal_roundtrip : forall repaired s v,
  str_to_number s = Some v -> repaired = true \/ Z.abs v < pow10_limit ->
  exists t, negated_literal_text repaired s = Some t /\ str_to_number t = Some (- v).
Proof. exact negated_literal_roundtrip. Qed.
Print Assumptions C09_negated_literal_roundtrip.

Theorem C09_negated_literal_current_refuted :
  exists s v, str_to_number s = Some v /\ negated_literal_text false s = None.
Proof. exact negated_literal_current_refuted. Qed.
Print Assumptions C09_negated_literal_current_refuted.

(* Pooled containers.  Full statement (all constant nodes, key function as it is):
     key_eq (top_key false false t1) (top_key false false t2) -> identical constants
   is FALSE (C09_dedup_unrepaired_refuted).  Proved for the repaired key function
   (float sign in the leaf key, ordered frozenset key): *)
Theorem C09_dedup_injective : forall t1 t2 k1 k2,
  wf_top t1 = true -> wf_top t2 = true ->
  top_key true true t1 = Some k1 -> top_key true true t2 = Some k2 ->
  key_eq k1 k2 = true ->
  exists c1 c2, denote_top t1 = Some c1 /\ denote_top t2 = Some c2 /\ identical_top c1 c2.
Proof. exact dedup_injective. Qed.
Print Assumptions C09_dedup_injective.

(* findings: with either repair missing two different constants share a key *)
Theorem C09_dedup_unrepaired_refuted : forall fx os, fx && os = false ->
  exists t1 t2 k1 k2 c1 c2,
    wf_top t1 = true /\ wf_top t2 = true /\
    top_key fx os t1 = Some k1 /\ top_key fx os t2 = Some k2 /\ key_eq k1 k2 = true /\
    denote_top t1 = Some c1 /\ denote_top t2 = Some c2 /\ ~ identical_top c1 c2.
Proof. exact dedup_unrepaired_refuted. Qed.
Print Assumptions C09_dedup_unrepaired_refuted.

(* constant folding of BoolNode/IntNode operands: a replaced node has Python's class and value,
   and every constant result of the fragment is replaced *)
Theorem C09_fold_binop_exact : forall op a b f x,
  fold_binop op a b = Some f ->
  exists r, py_binop op a b = Some r /\ folded_value x f = Some r.
Proof. exact fold_binop_exact. Qed.
Print Assumptions C09_fold_binop_exact.

Theorem C09_fold_binop_total : forall op a b r,
  py_binop op a b = Some r -> exists f, fold_binop op a b = Some f.
Proof. exact fold_binop_total. Qed.
Print Assumptions C09_fold_binop_total.

Theorem C09_fold_unop_exact : forall op a f,
  fold_unop op a = Some f -> folded_value a f = Some (py_unop op a).
Proof. exact fold_unop_exact. Qed.
Print Assumptions C09_fold_unop_exact.

(* non-vacuity: the hypotheses are met by ordinary inputs and the conclusions are not trivial *)
Example C09_nonvacuous :
  signed_literal [45; 48; 120; 95; 49; 70] = Some (-31) /\ signed_within_limit [45; 48; 120; 95; 49; 70] = true
  /\ str_to_number (strip_us [45; 48; 120; 95; 49; 70]) = Some (-31)
  /\ int_emission true 1 (- (2 ^ 70)) = Some (- (2 ^ 70))
  /\ (let t := TopSeq (NSeq TPyTuple true None [NLeaf TPyFloat (SFloat 0); NLeaf TPyInt (SInt 1)]) in
      wf_top t = true /\ match top_key true true t with Some k => key_eq k k | None => false end = true)
  /\ fold_binop OAdd (LBool true) (LInt 1) = Some (FInt [48; 120; 50])
  /\ fold_binop OAnd (LBool true) (LBool false) = Some (FBool false).
Proof. vm_compute. repeat split; reflexivity. Qed.
