(* C09 — Compile-time constants keep their exact Python values.
   Only statements; proofs live in Proof/P_Consts.v, the model in Model/M_Consts.v. *)
From Coq Require Import ZArith List Bool.
From CyVerif Require Import Lib.CInt Model.M_Consts Proof.P_Consts Proof.P_ConstsFrozen Model.M_ConstNames Proof.P_ConstNames.
From CyVerif Require Model.M_Fold Proof.P_Fold.
Import ListNotations.
Open Scope Z_scope.

(* Utils.str_to_number, applied to what the scanner hands over (the token with its underscores
   removed, optionally signed by the compiler), returns the value CPython's integer-literal
   grammar assigns -- every base, every size CPython itself accepts *)
Theorem C09_str_to_number_value : forall s v,
  signed_literal s = Some v -> signed_within_limit s = true ->
  str_to_number (strip_us s) = Some v.
Proof. exact str_to_number_value. Qed.
Print Assumptions C09_str_to_number_value.

(* the legacy form 0NNN that the lexicon still admits (not Python 3 syntax) is read as octal *)
Theorem C09_str_to_number_legacy_octal : forall s,
  legacy_octal s = true -> str_to_number s = Some (eval_digits 8 s).
Proof. exact str_to_number_legacy_octal. Qed.
Print Assumptions C09_str_to_number_legacy_octal.

(* Full statement for the emission of Python int constants:
     forall v, int_emission false cur v = Some v            (code as it is)
   is FALSE (C09_int_emission_current_refuted).  Proved: for every integer with the repaired
   formatter choice, and above -10^4300 for the current one. *)
Theorem C09_int_emission_roundtrip : forall abs_threshold cur v,
  abs_threshold = true \/ - pow10_limit < v ->
  int_emission abs_threshold cur v = Some v.
Proof. exact int_emission_roundtrip. Qed.
Print Assumptions C09_int_emission_roundtrip.

Theorem C09_int_emission_current_refuted : exists v, int_emission false 1 v = None.
Proof. exact int_emission_current_refuted. Qed.
Print Assumptions C09_int_emission_current_refuted.

(* the base-32 text of large constants decodes to the constant, for all integers *)
Theorem C09_base32_roundtrip : forall n, py_int 32 (to_base32 n) = Some n.
Proof. exact to_base32_roundtrip. Qed.
Print Assumptions C09_base32_roundtrip.

(* equal pool keys of int constants (Code.get_int_const) mean equal values *)
Theorem C09_int_const_key_injective : forall a v1 l1 v2 l2 k,
  int_const_key a v1 l1 = Some k -> int_const_key a v2 l2 = Some k -> v1 = v2 /\ l1 = l2.
Proof. exact int_const_key_injective. Qed.
Print Assumptions C09_int_const_key_injective.

(* unop_node: "-literal" becomes a literal text with the negated value; with the code as it is
   only below 10^4300 (C09_negated_literal_current_refuted) *)
Theorem C09_negated_literal_roundtrip : forall repaired s v,
  str_to_number s = Some v -> repaired = true \/ Z.abs v < pow10_limit ->
  exists t, negated_literal_text repaired s = Some t /\ str_to_number t = Some (- v).
Proof. exact negated_literal_roundtrip. Qed.
Print Assumptions C09_negated_literal_roundtrip.

Theorem C09_negated_literal_current_refuted :
  exists s v, str_to_number s = Some v /\ negated_literal_text false s = None.
Proof. exact negated_literal_current_refuted. Qed.
Print Assumptions C09_negated_literal_current_refuted.

(* Pooled containers (tuples, slices, frozensets, nested, with multipliers).  The key function of
   the tree: leaf keys carry the sign of a float (92db38a9b); a frozenset key keeps the first item
   key per Python value (a8197db74).  Full statement
     key_eq (top_key2 true false t1) (top_key2 true false t2) -> identical constants
   is FALSE (C09_dedup_unguarded_refuted: a multiplied tuple among the items of a frozenset).
   Proved: for the repaired key function (guard = true: such frozensets are not pooled) and, for
   the code as it is, whenever no frozenset item contains a multiplied tuple. *)
Theorem C09_dedup_injective : forall guard t1 t2 k1 k2,
  wf_top2 t1 = true -> wf_top2 t2 = true ->
  guard = true \/ (top_has_mult t1 = false /\ top_has_mult t2 = false) ->
  top_key2 true guard t1 = Some k1 -> top_key2 true guard t2 = Some k2 ->
  key_eq k1 k2 = true ->
  exists c1 c2, denote_top t1 = Some c1 /\ denote_top t2 = Some c2 /\ identical_top c1 c2.
Proof. exact dedup_first_injective. Qed.
Print Assumptions C09_dedup_injective.

(* finding frozenset_multiplied_tuple_merged: frozenset(((1,)*2, (1.0, 1.0))) and
   frozenset(((1.0, 1.0), (1,)*2)) share a key but are different constants *)
Theorem C09_dedup_unguarded_refuted :
  exists t1 t2 k1 k2 c1 c2,
    wf_top2 t1 = true /\ wf_top2 t2 = true /\
    top_key2 true false t1 = Some k1 /\ top_key2 true false t2 = Some k2 /\ key_eq k1 k2 = true /\
    denote_top t1 = Some c1 /\ denote_top t2 = Some c2 /\ ~ identical_top c1 c2.
Proof. exact dedup_first_unguarded_refuted. Qed.
Print Assumptions C09_dedup_unguarded_refuted.

(* the earlier key functions (top_key fx os: fx = float sign in the leaf key, os = frozenset items
   in an ordered tuple).  (true, true) = 92db38a9b was injective; each repair missing: refuted
   (the former findings float_zero_sign_merged / frozenset_order_merged) *)
Theorem C09_dedup_ordered_variant_injective : forall t1 t2 k1 k2,
  wf_top t1 = true -> wf_top t2 = true ->
  top_key true true t1 = Some k1 -> top_key true true t2 = Some k2 ->
  key_eq k1 k2 = true ->
  exists c1 c2, denote_top t1 = Some c1 /\ denote_top t2 = Some c2 /\ identical_top c1 c2.
Proof. exact dedup_injective. Qed.
Print Assumptions C09_dedup_ordered_variant_injective.

Theorem C09_dedup_unrepaired_refuted : forall fx os, fx && os = false ->
  exists t1 t2 k1 k2 c1 c2,
    wf_top t1 = true /\ wf_top t2 = true /\
    top_key fx os t1 = Some k1 /\ top_key fx os t2 = Some k2 /\ key_eq k1 k2 = true /\
    denote_top t1 = Some c1 /\ denote_top t2 = Some c2 /\ ~ identical_top c1 c2.
Proof. exact dedup_unrepaired_refuted. Qed.
Print Assumptions C09_dedup_unrepaired_refuted.

(* sharing (not part of the property, the reason for a8197db74): the item order of a frozenset
   literal no longer matters when no two items are == *)
Theorem C09_frozen_key_order_free :
  exists k1 k2,
    top_key2 true true (TopFrozen [NLeaf TPyInt (SInt 1); NLeaf TPyInt (SInt 2); NLeaf TPyInt (SInt 3)]) = Some k1 /\
    top_key2 true true (TopFrozen [NLeaf TPyInt (SInt 3); NLeaf TPyInt (SInt 1); NLeaf TPyInt (SInt 2)]) = Some k2 /\
    key_eq k1 k2 = true.
Proof. exact frozen_key_order_free. Qed.
Print Assumptions C09_frozen_key_order_free.

(* constant folding of BoolNode/IntNode operands: a replaced node has Python's class and value,
   and every constant result of the fragment is replaced *)
Theorem C09_fold_binop_exact : forall op a b f x,
  fold_binop op a b = Some f ->
  exists r, py_binop op a b = Some r /\ folded_value x f = Some r.
Proof. exact fold_binop_exact. Qed.
Print Assumptions C09_fold_binop_exact.

Theorem C09_fold_binop_total : forall op a b r,
  py_binop op a b = Some r -> exists f, fold_binop op a b = Some f.
Proof. exact fold_binop_total. Qed.
Print Assumptions C09_fold_binop_total.

Theorem C09_fold_unop_exact : forall op a f,
  fold_unop op a = Some f -> folded_value a f = Some (py_unop op a).
Proof. exact fold_unop_exact. Qed.
Print Assumptions C09_fold_unop_exact.

(* non-vacuity: the hypotheses are met by ordinary inputs and the conclusions are not trivial *)
Example C09_nonvacuous :
  signed_literal [45; 48; 120; 95; 49; 70] = Some (-31) /\ signed_within_limit [45; 48; 120; 95; 49; 70] = true
  /\ str_to_number (strip_us [45; 48; 120; 95; 49; 70]) = Some (-31)
  /\ int_emission true 1 (- (2 ^ 70)) = Some (- (2 ^ 70))
  /\ (let t := TopSeq (NSeq TPyTuple true None [NLeaf TPyFloat (SFloat 0); NLeaf TPyInt (SInt 1)]) in
      wf_top2 t = true /\ match top_key2 true true t with Some k => key_eq k k | None => false end = true)
  /\ (let t := TopFrozen [NLeaf TPyInt (SInt 1); NLeaf TPyFloat (SFloat 4607182418800017408); NLeaf TPyInt (SInt 2)] in
      wf_top2 t = true /\ top_has_mult t = false /\
      match top_key2 true false t with Some (KCont _ true [_; _]) => true | _ => false end = true)
  /\ fold_binop OAdd (LBool true) (LInt 1) = Some (FInt [48; 120; 50])
  /\ fold_binop OAnd (LBool true) (LBool false) = Some (FBool false).
Proof. vm_compute. repeat split; reflexivity. Qed.

(* ------------------------------------------------------------------------------------------ *)
(* From the pooled key to the C name, the number-table slot and the run-time object             *)
(* (Model/M_ConstNames.v, proofs in Proof/P_ConstNames.v)                                       *)
(* ------------------------------------------------------------------------------------------ *)

(* the character replacement of new_num_const_cname loses nothing on numeric spellings
   (no '_', 'g', 'l', 'L'; '+' only after e/E, '.' never after e/E) *)
Theorem C09_sanitize_injective : forall s1 s2,
  spell_ok s1 = true -> spell_ok s2 = true -> sanitize s1 = sanitize s2 -> s1 = s2.
Proof. exact sanitize_injective. Qed.
Print Assumptions C09_sanitize_injective.

(* unique_const_cname, for every format and every registry whose counters are >= 1 (they start
   at 1 and only grow): it returns -- no KeyError, the while loop ends within len(used)+1 rounds --
   a name that was not in use, registers it and forgets nothing *)
Theorem C09_unique_const_cname_fresh : forall f d,
  Forall (fun kv => 1 <= snd kv) d ->
  exists n d', unique_const_cname f d = UOk n d'
    /\ dmem n d = false /\ dmem n d' = true
    /\ (forall k, dmem k d = true -> dmem k d' = true)
    /\ Forall (fun kv => 1 <= snd kv) d'
    /\ (n = fmt_base f \/ exists c, 1 < c /\ n = fmt_at f c).
Proof. exact unique_const_cname_fresh. Qed.
Print Assumptions C09_unique_const_cname_fresh.

(* distinct (text, type) keys get distinct C names -- for every sequence of numeric-constant
   requests of any spelling length (both sides of the 42-character abbreviation threshold, int,
   'long' and float keys, negative values), interleaved in any way with the other users of
   unique_const_cname; and a repeated key gets its first name again *)
Theorem C09_num_const_names_injective : forall es,
  forallb event_okb es = true ->
  exists ns p, run_events es pool0 = Some (ns, p)
    /\ Forall2 (fun e n => match e with EReq k => index_find k (p_index p) = Some n | EUniq _ => True end) es ns
    /\ forall k1 k2 n1 n2, index_find k1 (p_index p) = Some n1 -> index_find k2 (p_index p) = Some n2 ->
         (n1 = n2 <-> k1 = k2).
Proof. exact num_const_names_injective. Qed.
Print Assumptions C09_num_const_names_injective.

(* the uniqueness counter is what the theorem rests on: without it 2**256 and 2**512 (as spelled
   by IntNode.generate_evaluation_code) get one and the same name *)
Theorem C09_names_need_counter :
  event_okb (EReq (hex_2_256, PInt)) = true /\ event_okb (EReq (hex_2_512, PInt)) = true /\
  exists n p, run_events_gen false [EReq (hex_2_256, PInt); EReq (hex_2_512, PInt)] pool0
              = Some ([n; n], p).
Proof. exact names_need_counter. Qed.
Print Assumptions C09_names_need_counter.

(* generate_num_constants: when the names are pairwise different, the (last) #define of every
   integer constant selects a slot whose initialiser decodes to the constant's own value *)
Theorem C09_layout_value : forall cs c v,
  NoDup (map nc_name cs) -> In c cs -> nc_type c <> PFloat ->
  str_to_number (nc_text c) = Some v ->
  exists i s, resolve (nc_name c) (layout cs) = Some i
    /\ nth_error (layout cs) (Z.to_nat i) = Some (nc_name c, s) /\ slot_value s = Some v.
Proof. exact layout_value. Qed.
Print Assumptions C09_layout_value.

(* end to end: a Python int constant of value v -- spelled by IntNode.generate_evaluation_code,
   pooled under that text, named, numbered, #defined and initialised -- evaluates to v at run
   time, whatever else the module pools before and after it *)
Theorem C09_int_constant_value : forall a es ns p code_of v t,
  forallb event_okb es = true -> run_events es pool0 = Some (ns, p) ->
  int_const_text a v = Some t -> In (EReq (t, PInt)) es ->
  const_value p code_of (t, PInt) = Some v.
Proof. exact int_constant_value. Qed.
Print Assumptions C09_int_constant_value.

(* the same for any pooled integer text of the spelling class (e.g. a 'long' key) *)
Theorem C09_pool_const_value : forall es ns p code_of k v,
  forallb event_okb es = true -> run_events es pool0 = Some (ns, p) ->
  In (EReq k) es -> snd k <> PFloat -> str_to_number (fst k) = Some v ->
  const_value p code_of k = Some v.
Proof. exact pool_const_value. Qed.
Print Assumptions C09_pool_const_value.

(* non-vacuity: three large constants sharing their first and last 18 characters, a short one and
   a float, with a foreign registry call in between: five different names, values preserved *)
Example C09_names_nonvacuous :
  let a := hex_2_256 in let b := hex_2_512 in let c := [45] ++ hex_2_256 in
  let es := [EReq (a, PInt); EUniq (large_fmt PInt (sanitize b)); EReq (b, PInt); EReq (c, PInt);
             EReq ([49; 50], PInt); EReq ([49; 46; 53; 101; 43; 51; 48], PFloat); EReq (a, PInt)] in
  forallb event_okb es = true /\
  match run_events es pool0 with
  | Some ([n1; _; n2; n3; n4; n5; n6], p) =>
      negb (zlist_eqb n1 n2) && negb (zlist_eqb n2 n3) && negb (zlist_eqb n1 n3) && zlist_eqb n1 n6
      && zlist_eqb n4 (pfx_int ++ [49; 50]) && zlist_eqb n5 (pfx_float ++ [49; 95; 53; 101; 95; 51; 48])
      && match const_value p (fun _ => []) (b, PInt), const_value p (fun _ => []) (c, PInt) with
         | Some x, Some y => (x =? 2 ^ 512) && (y =? - 2 ^ 256)
         | _, _ => false
         end
  | _ => false
  end = true.
Proof. vm_compute. split; reflexivity. Qed.


(* ------------------------------------------------------------------------------------------------
   ConstantFolding on sequence displays (Optimize.py: visit_SequenceNode, visit_MulNode,
   _calculate_constant_seq, visit_BinopNode for '*', and the consumers of constant results
   visit_PrimaryCmpNode '==', visit_BoolBinopNode 'or', visit_CondExprNode); model Model/M_Fold.v.
   fold fx guard:  fx = false the code as it is, fx = true with
   proposed_fixes/C09-multiplied_sequence_stale_constant.diff;  guard = true the code as it is
   (a starred literal with a mult_factor is not inlined), guard = false without that test.
   eval = CPython's value of the expression (None: CPython raises), fdenote = the value the folded
   tree computes (a sequence node denotes items * mult_factor), cres = node.constant_result.
   ------------------------------------------------------------------------------------------------ *)
Module FoldStatements.
Import M_Fold P_Fold.

(* Full statement:  forall env e v, eval env e = Some v -> fdenote env (fold false true e) = Some v
   is FALSE for the code as it is (C09_stale_constant_result_refuted: after a factor is attached the
   sequence node keeps the constant result of the sequence as written, and '==', 'or', the
   conditional expression decide on it).  Proved for the code as it is on every expression built
   from displays, starred items, repetition by any integer / bool / run-time factor and nesting
   (display_only), and for the repaired code on every expression of the model. *)
Theorem C09_fold_display_value_partial : forall env e v,
  display_only e = true -> eval env e = Some v -> fdenote env (fold false true e) = Some v.
Proof. exact fold_display_value. Qed.
Print Assumptions C09_fold_display_value_partial.

Theorem C09_fold_value_repaired : forall env e v,
  eval env e = Some v -> fdenote env (fold true true e) = Some v.
Proof. exact fold_value_repaired. Qed.
Print Assumptions C09_fold_value_repaired.

(* every constant result the (repaired) compiler stores on a folded node is the run-time value *)
Theorem C09_fold_constant_result_repaired : forall env e c v,
  cres (fold true true e) = Some c -> eval env e = Some v -> v = c.
Proof. exact fold_constant_result_repaired. Qed.
Print Assumptions C09_fold_constant_result_repaired.

(* code as it is: the stored int / bool / None constants of display expressions are right *)
Theorem C09_fold_constant_result_scalar : forall env e c v,
  display_only e = true -> nonseq c = true ->
  cres (fold false true e) = Some c -> eval env e = Some v -> v = c.
Proof. exact fold_constant_result_scalar. Qed.
Print Assumptions C09_fold_constant_result_scalar.

(* inlining a starred literal that carries a factor is wrong, whatever else is repaired *)
Theorem C09_unguarded_inlining_refuted : forall fx env, exists e v,
  display_only e = true /\ eval env e = Some v /\ fdenote env (fold fx false e) <> Some v.
Proof. exact unguarded_inlining_refuted. Qed.
Print Assumptions C09_unguarded_inlining_refuted.

Theorem C09_stale_constant_result_refuted : forall env, exists e c v,
  cres (fold false true e) = Some c /\ eval env e = Some v /\ v <> c /\
  exists e2 v2, eval env e2 = Some v2 /\ fdenote env (fold false true e2) <> Some v2.
Proof. exact stale_constant_result_refuted. Qed.
Print Assumptions C09_stale_constant_result_refuted.

Theorem C09_stale_constant_result_runtime_factor_refuted : exists env e v,
  eval env e = Some v /\ fdenote env (fold false true e) <> Some v.
Proof. exact stale_constant_result_runtime_factor_refuted. Qed.
Print Assumptions C09_stale_constant_result_runtime_factor_refuted.

(* non-vacuity: [0, *(1, 2) * n, *[7] * 3] * 2 with n = 2 at run time has a value, the folded tree
   keeps the starred repeated literals as items and computes the same 16 elements *)
Example C09_fold_nonvacuous :
  let env := fun _ : nat => VInt 2 in
  let e := EMul (EDisp KList [EInt 0; EStar (EMul (tup [1; 2]) (EVar 0));
                              EStar (EMul (EDisp KList [EInt 7]) (EInt 3))]) (EInt 2) in
  display_only e = true /\
  match eval env e, fdenote env (fold false true e) with
  | Some (VSeq KList l), Some (VSeq KList l') => (length l =? 16)%nat && (length l' =? 16)%nat
  | _, _ => false
  end = true.
Proof. vm_compute. split; reflexivity. Qed.
End FoldStatements.
