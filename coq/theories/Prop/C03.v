(* C03 — C-integer division and modulo follow Python semantics.
   Only statements; proofs live in Proof/P_CMath.v. *)
From Coq Require Import ZArith Bool.
From CyVerif Require Import Lib.CInt Model.M_CMath Proof.P_CMath Model.M_DivNode Proof.P_DivNode.
Open Scope Z_scope.

(* a // b through __Pyx_div_<T>: Python floor division, for every width and signedness,
   both helper variants, whenever the C text is free of UB *)
Theorem C03_div_floor : forall w s bconst a b,
  2 <= w -> in_range w s a -> in_range w s b -> div_ub w s a b = false ->
  div_int w s bconst a b = a / b.
Proof. exact div_int_floor. Qed.
Print Assumptions C03_div_floor.

Theorem C03_mod_sign : forall w s bconst a b,
  2 <= w -> in_range w s a -> in_range w s b -> b <> 0 ->
  mod_int w s bconst a b = a mod b.
Proof. exact mod_int_floor. Qed.
Print Assumptions C03_mod_sign.

(* no signed overflow in any intermediate C operation of the helpers (C36 share) *)
Theorem C03_div_no_overflow : forall w s bconst a b,
  2 <= w -> in_range w s a -> in_range w s b -> div_ub w s a b = false ->
  div_int_no_overflow w s bconst a b = true.
Proof. exact no_overflow_div. Qed.
Print Assumptions C03_div_no_overflow.

Theorem C03_mod_no_overflow : forall w s bconst a b,
  2 <= w -> in_range w s a -> in_range w s b -> b <> 0 ->
  (s && (b =? -1) = true) \/ (div_ub w s a b = false /\ mod_int_no_overflow w s bconst a b = true).
Proof. exact mod_int_no_ub. Qed.
Print Assumptions C03_mod_no_overflow.

(* the generated statement (zero test, MIN // -1 test, helper call) is Python's // exactly:
   ZeroDivisionError iff b = 0, OverflowError iff the quotient does not fit, never UB --
   for the guard emitted on every width ... *)
Theorem C03_div_node_python : forall w s bconst a b,
  2 <= w -> in_range w s a -> in_range w s b ->
  div_node true w s bconst a b = py_floordiv w s a b.
Proof. exact div_node_python. Qed.
Print Assumptions C03_div_node_python.

(* the guard as originally written (sizeof(T)==sizeof(long)) was right only at w = 64 *)
Theorem C03_div_node_sizeof_long_64 : forall s bconst a b,
  in_range 64 s a -> in_range 64 s b ->
  div_node false 64 s bconst a b = py_floordiv 64 s a b.
Proof. exact div_node_current_64. Qed.
Print Assumptions C03_div_node_sizeof_long_64.

(* finding F9 (repaired): with the sizeof(long) condition, INT_MIN // -1 reached the C division *)
Theorem C03_div_node_sizeof_long_refuted :
  exists w s bconst a b, 2 <= w /\ in_range w s a /\ in_range w s b /\
    div_node false w s bconst a b = UB.
Proof. exact div_node_current_refuted. Qed.
Print Assumptions C03_div_node_sizeof_long_refuted.

(* a % b as generated now: Python's % on every in-range pair, ZeroDivisionError iff b = 0, never UB *)
Theorem C03_mod_node_python : forall w s bconst a b,
  2 <= w -> in_range w s a -> in_range w s b ->
  mod_node w s bconst a b = py_mod a b.
Proof. exact mod_node_python. Qed.
Print Assumptions C03_mod_node_python.

(* finding F9b (repaired): the helper without the b == -1 shortcut evaluated MIN % -1 *)
Theorem C03_mod_node_old_min_refuted :
  exists w s bconst a b, in_range w s a /\ in_range w s b /\ mod_node_old w s bconst a b = UB.
Proof. exact mod_node_old_min_refuted. Qed.
Print Assumptions C03_mod_node_old_min_refuted.

Theorem C03_cdivision_is_trunc : forall w s a b,
  2 <= w -> in_range w s a -> in_range w s b -> div_ub w s a b = false ->
  cdiv_c w s a b = Z.quot a b /\ cmod_c w s a b = Z.rem a b.
Proof. exact cdivision_is_trunc. Qed.
Print Assumptions C03_cdivision_is_trunc.

(* ---- the decision table of DivNode / ModNode code generation (M_DivNode) ----------------
   divisor kinds: DRun (not a compile-time constant), DNum c (numeric constant_result: literal,
   DEF, folded expression, negated literal), DOpaque (constant_result is not a number: a type
   cast of a constant).  variant: zc = the clause `or operand2.constant_result == 0` is present
   (true in the code as it is), oq = non-numeric constants are treated as unknown (false in the
   code as it is, true in the proposed repair).

   With cdivision off the emitted statement (zero test if zerodivision_check, MIN test if
   min_division_check, then helper call or C operator) is Python's // and % for every width,
   signedness, divisor kind and operand pair: FULL statement, holds for the repaired variant
   on all kinds and for the code as it is on every kind but DOpaque. *)
Theorem C03_stmt_python : forall v w s d a b,
  zc v = true -> (d = DOpaque -> oq v = true) ->
  2 <= w -> in_range w s a -> in_range w s b -> divisor_value d b ->
  div_stmt v py_cfg w s d a b = py_floordiv w s a b /\
  mod_stmt v py_cfg w s d a b = py_mod a b.
Proof. intros; split; [apply div_stmt_python | apply mod_stmt_python]; assumption. Qed.
Print Assumptions C03_stmt_python.

(* ... hence never a C division by zero, and ZeroDivisionError exactly when the divisor is 0 *)
Theorem C03_stmt_safe : forall v w s d a b,
  zc v = true -> (d = DOpaque -> oq v = true) ->
  2 <= w -> in_range w s a -> in_range w s b -> divisor_value d b ->
  (div_stmt v py_cfg w s d a b <> UB /\ (div_stmt v py_cfg w s d a b = ZeroDivisionError <-> b = 0)) /\
  (mod_stmt v py_cfg w s d a b <> UB /\ (mod_stmt v py_cfg w s d a b = ZeroDivisionError <-> b = 0)).
Proof. intros; split; [apply div_stmt_safe | apply mod_stmt_safe]; assumption. Qed.
Print Assumptions C03_stmt_safe.

(* the code as it is: everything but type-cast constant divisors *)
Theorem C03_stmt_as_is_partial : forall w s d a b,
  d <> DOpaque ->
  2 <= w -> in_range w s a -> in_range w s b -> divisor_value d b ->
  div_stmt as_is py_cfg w s d a b = py_floordiv w s a b /\
  mod_stmt as_is py_cfg w s d a b = py_mod a b.
Proof. intros w s d a b Hd; intros; apply C03_stmt_python; try assumption; [reflexivity | intro; contradiction]. Qed.
Print Assumptions C03_stmt_as_is_partial.

(* the zero test is left out only for a numeric constant divisor different from 0 *)
Theorem C03_zero_test_omitted_only_nonzero_const : forall v d,
  zc v = true -> oq v = true -> zerodivision_check v py_cfg d = false ->
  exists c, d = DNum c /\ c <> 0.
Proof. exact zero_test_omitted_only_nonzero_const. Qed.
Print Assumptions C03_zero_test_omitted_only_nonzero_const.

(* without the clause `or operand2.constant_result == 0` every constant zero divisor reaches the
   C division: all widths, both signednesses, every dividend, // and % *)
Theorem C03_zero_const_clause_needed : forall o w s a,
  div_stmt {| zc := false; oq := o |} py_cfg w s (DNum 0) a 0 = UB /\
  mod_stmt {| zc := false; oq := o |} py_cfg w s (DNum 0) a 0 = UB.
Proof. exact zero_const_clause_needed. Qed.
Print Assumptions C03_zero_const_clause_needed.

(* finding typecast_constant_divisor_unguarded (code as it is): `a // <T>0`, `a % <T>0` and
   `MIN // <T>-1` execute the C division *)
Theorem C03_typecast_const_divisor_refuted : forall w s a,
  div_stmt as_is py_cfg w s DOpaque a 0 = UB /\ mod_stmt as_is py_cfg w s DOpaque a 0 = UB /\
  div_stmt as_is py_cfg w true DOpaque (min_int w true) (-1) = UB.
Proof.
  intros w s a. destruct (opaque_const_zero_refuted w s a) as [H1 H2].
  repeat split; try assumption. apply opaque_const_min_refuted.
Qed.
Print Assumptions C03_typecast_const_divisor_refuted.

(* cdivision (directive, decorator, cython.cdiv / cython.cmod): no test, the C operators, C
   truncation semantics wherever C defines the result *)
Theorem C03_stmt_cdivision : forall v c is_mod w s d a b,
  (cdir c || cforced c) = true ->
  (exists k, decisions v c is_mod s d = (false, false, true, k)) /\
  (2 <= w -> in_range w s a -> in_range w s b -> div_ub w s a b = false ->
   div_stmt v c w s d a b = Value (Z.quot a b) /\ mod_stmt v c w s d a b = Value (Z.rem a b)).
Proof. intros; split; [now apply decisions_cdivision | now apply stmt_cdivision]. Qed.
Print Assumptions C03_stmt_cdivision.

(* divmod(a, b) on two C integers (__Pyx_divmod_int_T): floor quotient and remainder with the
   sign of the divisor whenever C defines the division; ZeroDivisionError for b = 0 *)
Theorem C03_divmod_python : forall g w s a b,
  2 <= w -> in_range w s a -> in_range w s b ->
  (b = 0 -> divmod_q g w s a b = ZeroDivisionError /\ divmod_r g w s a b = ZeroDivisionError) /\
  (b <> 0 -> div_ub w s a b = false ->
   divmod_q g w s a b = Value (a / b) /\ divmod_r g w s a b = Value (a mod b)).
Proof.
  intros g w s a b Hw Ha Hb. split.
  - intros ->. apply divmod_zero.
  - intros; now apply divmod_python.
Qed.
Print Assumptions C03_divmod_python.

(* finding divmod_min_minus1_unguarded: the divmod helper as it is has no MIN / -1 test; with the
   test (proposed repair) the quotient is Python's // as an outcome and nothing is undefined *)
Theorem C03_divmod_min_refuted_and_repaired :
  (exists w s a b, 2 <= w /\ in_range w s a /\ in_range w s b /\ divmod_q false w s a b = UB) /\
  (forall w s a b, 2 <= w -> in_range w s a -> in_range w s b ->
     divmod_q true w s a b = py_floordiv w s a b /\
     (divmod_q true w s a b = OverflowError \/ divmod_r true w s a b = py_mod a b)).
Proof. split; [exact divmod_min_refuted | exact divmod_guarded_python]. Qed.
Print Assumptions C03_divmod_min_refuted_and_repaired.

(* non-vacuity: the hypotheses are met by ordinary operands *)
Example C03_nonvacuous :
  2 <= 32 /\ in_range 32 true (-7) /\ in_range 32 true 2 /\ div_ub 32 true (-7) 2 = false
  /\ div_int 32 true false (-7) 2 = -4 /\ mod_int 32 true false (-7) 2 = 1.
Proof. unfold in_range. vm_compute. intuition congruence. Qed.
