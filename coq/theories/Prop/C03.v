(* C03 — C-integer division and modulo follow Python semantics.
   Only statements; proofs live in Proof/P_CMath.v. *)
From Coq Require Import ZArith Bool.
From CyVerif Require Import Lib.CInt Model.M_CMath Proof.P_CMath.
Open Scope Z_scope.

(* a // b through __Pyx_div_<T>: Python floor division, for every width and signedness,
   both helper variants, whenever the C text is free of UB *)
Theorem C03_div_floor : forall w s bconst a b,
  2 <= w -> in_range w s a -> in_range w s b -> div_ub w s a b = false ->
  div_int w s bconst a b = a / b.
Proof. exact div_int_floor. Qed.
Print Assumptions C03_div_floor.

Theorem C03_mod_sign : forall w s bconst a b,
  2 <= w -> in_range w s a -> in_range w s b -> b <> 0 ->
  mod_int w s bconst a b = a mod b.
Proof. exact mod_int_floor. Qed.
Print Assumptions C03_mod_sign.

(* no signed overflow in any intermediate C operation of the helpers (C36 share) *)
Theorem C03_div_no_overflow : forall w s bconst a b,
  2 <= w -> in_range w s a -> in_range w s b -> div_ub w s a b = false ->
  div_int_no_overflow w s bconst a b = true.
Proof. exact no_overflow_div. Qed.
Print Assumptions C03_div_no_overflow.

Theorem C03_mod_no_overflow : forall w s bconst a b,
  2 <= w -> in_range w s a -> in_range w s b -> b <> 0 ->
  (s && (b =? -1) = true) \/ (div_ub w s a b = false /\ mod_int_no_overflow w s bconst a b = true).
Proof. exact mod_int_no_ub. Qed.
Print Assumptions C03_mod_no_overflow.

(* the generated statement (zero test, MIN // -1 test, helper call) is Python's // exactly:
   ZeroDivisionError iff b = 0, OverflowError iff the quotient does not fit, never UB --
   for the guard emitted on every width ... *)
Theorem C03_div_node_python : forall w s bconst a b,
  2 <= w -> in_range w s a -> in_range w s b ->
  div_node true w s bconst a b = py_floordiv w s a b.
Proof. exact div_node_python. Qed.
Print Assumptions C03_div_node_python.

(* the guard as originally written (sizeof(T)==sizeof(long)) was right only at w = 64 *)
Theorem C03_div_node_sizeof_long_64 : forall s bconst a b,
  in_range 64 s a -> in_range 64 s b ->
  div_node false 64 s bconst a b = py_floordiv 64 s a b.
Proof. exact div_node_current_64. Qed.
Print Assumptions C03_div_node_sizeof_long_64.

(* finding F9 (repaired): with the sizeof(long) condition, INT_MIN // -1 reached the C division *)
Theorem C03_div_node_sizeof_long_refuted :
  exists w s bconst a b, 2 <= w /\ in_range w s a /\ in_range w s b /\
    div_node false w s bconst a b = UB.
Proof. exact div_node_current_refuted. Qed.
Print Assumptions C03_div_node_sizeof_long_refuted.

(* a % b as generated now: Python's % on every in-range pair, ZeroDivisionError iff b = 0, never UB *)
Theorem C03_mod_node_python : forall w s bconst a b,
  2 <= w -> in_range w s a -> in_range w s b ->
  mod_node w s bconst a b = py_mod a b.
Proof. exact mod_node_python. Qed.
Print Assumptions C03_mod_node_python.

(* finding F9b (repaired): the helper without the b == -1 shortcut evaluated MIN % -1 *)
Theorem C03_mod_node_old_min_refuted :
  exists w s bconst a b, in_range w s a /\ in_range w s b /\ mod_node_old w s bconst a b = UB.
Proof. exact mod_node_old_min_refuted. Qed.
Print Assumptions C03_mod_node_old_min_refuted.

Theorem C03_cdivision_is_trunc : forall w s a b,
  2 <= w -> in_range w s a -> in_range w s b -> div_ub w s a b = false ->
  cdiv_c w s a b = Z.quot a b /\ cmod_c w s a b = Z.rem a b.
Proof. exact cdivision_is_trunc. Qed.
Print Assumptions C03_cdivision_is_trunc.

(* non-vacuity: the hypotheses are met by ordinary operands *)
Example C03_nonvacuous :
  2 <= 32 /\ in_range 32 true (-7) /\ in_range 32 true 2 /\ div_ub 32 true (-7) 2 = false
  /\ div_int 32 true false (-7) 2 = -4 /\ mod_int 32 true false (-7) 2 = 1.
Proof. unfold in_range. vm_compute. intuition congruence. Qed.
