(* C07 — power operator. Statements only; proofs in Proof/P_IntPow.v. *)
From Coq Require Import ZArith List Bool.
Import ListNotations.
From CyVerif Require Import Lib.CInt Model.M_IntPow Model.M_PowDoc Proof.P_IntPow Proof.P_IntPowCk Proof.P_PowDoc Gen.Gen_Pow.
Open Scope Z_scope.

(* __Pyx_pow_<T>(b, e) for every width, signedness, base and non-negative exponent:
   b^e reduced to the C type (so exact whenever it fits) *)
Theorem C07_int_pow_wrap : forall w s b e,
  2 <= w -> in_range w s b -> in_range w s e -> 0 <= e ->
  int_pow w s b e = Some (wrap w s (b ^ e)).
Proof. exact int_pow_wrap. Qed.
Print Assumptions C07_int_pow_wrap.

Theorem C07_int_pow_exact : forall w s b e,
  2 <= w -> in_range w s b -> in_range w s e -> 0 <= e -> in_range w s (b ^ e) ->
  int_pow w s b e = Some (b ^ e).
Proof. exact int_pow_exact. Qed.
Print Assumptions C07_int_pow_exact.

Theorem C07_int_pow_neg : forall w b e, e < 0 -> int_pow w true b e = Some 0.
Proof. exact int_pow_neg. Qed.
Print Assumptions C07_int_pow_neg.

(* the square-and-multiply loop terminates within w iterations (never out of fuel) *)
Theorem C07_int_pow_terminates : forall w s b e,
  2 <= w -> in_range w s b -> in_range w s e -> int_pow w s b e <> None.
Proof. exact int_pow_terminates. Qed.
Print Assumptions C07_int_pow_terminates.

(* no signed overflow inside the helper: for every signed width, whenever |b^e| <= MAX the current
   text computes b^e exactly and none of its own multiplications overflows (PUB = undefined
   behaviour); the result MIN itself is outside this statement and covered by the run only *)
Theorem C07_int_pow_no_overflow : forall w b e,
  2 <= w -> in_range w true b -> in_range w true e -> 0 <= e -> Z.abs (b ^ e) <= max_int w true ->
  int_pow_ck true w true b e = PVal (b ^ e).
Proof. exact int_pow_ck_no_overflow. Qed.
Print Assumptions C07_int_pow_no_overflow.

(* finding (repaired): the helper squared the base once more than needed; 200 ** 4 fits C int but
   the following b *= b overflowed *)
Theorem C07_int_pow_needless_square_refuted :
  exists w b e, in_range w true b /\ in_range w true e /\ 0 <= e /\ Z.abs (b ^ e) <= max_int w true /\
                int_pow_ck false w true b e = PUB.
Proof. exact int_pow_ck_old_needless_square_refuted. Qed.
Print Assumptions C07_int_pow_needless_square_refuted.

(* 2 ** n object fast path: the value is 2^n for every n >= 0, and each C shift is defined *)
Theorem C07_pow2_correct : forall n, 0 <= n -> pow2_value n = Some (2 ^ n).
Proof. exact pow2_correct. Qed.
Print Assumptions C07_pow2_correct.

Theorem C07_pow2_shift_defined : forall n,
  match pow2 n with
  | P2Long _ => 0 <= n <= 62 | P2ULL _ => n = 63 | P2Lshift k => k = n /\ 63 < n | _ => True
  end.
Proof. exact pow2_shift_defined. Qed.
Print Assumptions C07_pow2_shift_defined.

(* result types chosen by the running compiler (Gen_Pow.pow_rows, dumped on every run from
   cython.typeof(a ** b) over the operand matrix) all lie in the documented table -- finite,
   by computation; fails to compile exactly when a row leaves the table *)
Theorem C07_pow_table_matches_doc : forallb row_ok pow_rows = true.
Proof. vm_compute. reflexivity. Qed.
Print Assumptions C07_pow_table_matches_doc.

Theorem C07_pow_table_rows : forall row, In row pow_rows -> row_ok row = true.
Proof. apply forallb_forall. exact C07_pow_table_matches_doc. Qed.
Print Assumptions C07_pow_table_rows.


(* ---- destination rule (PowNode.compute_c_result_type + PowNode.coerce_to) --------------------
   every domain below is a finite product of enumerations (3 cpow states x 7 operand classes x
   10 exponent kinds x 9 destinations); the statements are universally quantified over it *)

(* the deterministic type function lies inside the documented cpow table *)
Theorem C07_pow_type_in_doc : forall cpow a b, doc_allows cpow a b (pow_type cpow (OC a) (EC b)) = true.
Proof. exact pow_type_in_doc. Qed.
Print Assumptions C07_pow_type_in_doc.

(* the model of the code (fallback test written as the code does) = the rule read from the
   documentation side, for every setting, operand class, exponent kind and destination *)
Theorem C07_coerced_eq_doc : forall c a b d, pow_coerced c a b d = doc_coerced c a b d.
Proof. exact pow_coerced_eq_doc. Qed.
Print Assumptions C07_coerced_eq_doc.

(* an explicit cpow=True / cpow=False is final: the destination never changes the type of the
   power and no fallback warning is issued *)
Theorem C07_explicit_dest_independent : forall c a b d,
  c <> CUnset ->
  o_type (pow_coerced c a b d) = pow_type (eff_cpow c) a b /\ o_warned (pow_coerced c a b d) = false.
Proof. exact explicit_dest_independent. Qed.
Print Assumptions C07_explicit_dest_independent.

(* unset = cpow False, except the warned fallback: direct C int / C float destination, C real
   operands, and then exactly the cpow=True column *)
Theorem C07_unset_is_false_or_fallback : forall a b d,
  (o_warned (pow_coerced CUnset a b d) = false /\ pow_coerced CUnset a b d = pow_coerced CFalse a b d) \/
  (o_warned (pow_coerced CUnset a b d) = true /\ is_direct_c_real d = true /\
   o_is_c_real a = true /\ e_is_c_real b = true /\
   o_type (pow_coerced CUnset a b d) = pow_type true a b /\ pow_type true a b <> pow_type false a b).
Proof. exact unset_is_false_or_fallback. Qed.
Print Assumptions C07_unset_is_false_or_fallback.

(* explicit cpow=False: C semantics reach a destination only where they coincide with Python's
   (C pow() for provably real results, the integer helper for exponents known >= 0) *)
Theorem C07_explicit_false_c_semantics_safe : forall a b d real,
  match deliver (o_type (pow_coerced CFalse a b d)) d real with
  | VFloat => provably_real a b = true
  | VInt => exponent_nonneg b = true
  | _ => True
  end.
Proof. exact explicit_false_c_semantics_safe. Qed.
Print Assumptions C07_explicit_false_c_semantics_safe.

(* explicit cpow=False, soft complex: a non-real value raises TypeError on its way to a C double,
   is rejected at compile time for a C integer, and stays complex for Python destinations *)
Theorem C07_explicit_false_nonreal_raises : forall a b,
  pow_type false a b = RSoftComplex ->
  deliver (o_type (pow_coerced CFalse a b DCFloat)) DCFloat false = VTypeError /\
  o_rejected (pow_coerced CFalse a b DCInt) = true /\
  deliver (o_type (pow_coerced CFalse a b DPyObj)) DPyObj false = VPyComplex /\
  deliver (o_type (pow_coerced CFalse a b DNone)) DNone false = VPyComplex.
Proof. exact explicit_false_nonreal_raises. Qed.
Print Assumptions C07_explicit_false_nonreal_raises.

Theorem C07_explicit_true_no_softcomplex : forall a b d real,
  o_type (pow_coerced CTrue a b d) <> RSoftComplex /\
  (deliver (o_type (pow_coerced CTrue a b d)) d real = VTypeError -> o_type (pow_coerced CTrue a b d) = RObj).
Proof. exact explicit_true_no_softcomplex. Qed.
Print Assumptions C07_explicit_true_no_softcomplex.

(* the analysed tree of the running compiler (Gen_Pow.pow_crows, dumped on every run: type of the
   power node, compile error, fallback warning for every generated function) equals the documented
   function on all entries -- finite, by computation; fails to compile when a row deviates *)
Theorem C07_coerced_table_matches_doc : forallb crow_ok pow_crows = true.
Proof. vm_compute. reflexivity. Qed.
Print Assumptions C07_coerced_table_matches_doc.

Theorem C07_coerced_table_rows : forall row, In row pow_crows -> crow_ok row = true /\ crow_model_ok row = true.
Proof.
  intros row H. assert (K : crow_ok row = true) by (revert row H; apply forallb_forall; exact C07_coerced_table_matches_doc).
  split; [exact K | rewrite <- crow_ok_model; exact K].
Qed.
Print Assumptions C07_coerced_table_rows.

Example C07_nonvacuous :
  int_pow 32 true 3 5 = Some 243 /\ int_pow 32 true (-2) 31 = Some (-2147483648) /\
  int_pow 8 false 3 7 = Some 139 /\ in_range 32 true (3 ^ 5) /\ pow_rows <> [] /\ pow_crows <> [] /\
  pow_coerced CUnset (OC AFloat) (EC BRuntimeFloat) DCFloat = mk_outcome RFloat false true /\
  pow_coerced CFalse (OC AFloat) (EC BRuntimeFloat) DCFloat = mk_outcome RSoftComplex false false.
Proof. unfold in_range. vm_compute. intuition congruence. Qed.
