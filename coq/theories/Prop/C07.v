(* C07 — power operator. Statements only; proofs in Proof/P_IntPow.v. *)
From Coq Require Import ZArith List Bool.
Import ListNotations.
From CyVerif Require Import Lib.CInt Model.M_IntPow Model.M_PowDoc Proof.P_IntPow Proof.P_IntPowCk Gen.Gen_Pow.
Open Scope Z_scope.

(* __Pyx_pow_<T>(b, e) for every width, signedness, base and non-negative exponent:
   b^e reduced to the C type (so exact whenever it fits) *)
Theorem C07_int_pow_wrap : forall w s b e,
  2 <= w -> in_range w s b -> in_range w s e -> 0 <= e ->
  int_pow w s b e = Some (wrap w s (b ^ e)).
Proof. exact int_pow_wrap. Qed.
Print Assumptions C07_int_pow_wrap.

Theorem C07_int_pow_exact : forall w s b e,
  2 <= w -> in_range w s b -> in_range w s e -> 0 <= e -> in_range w s (b ^ e) ->
  int_pow w s b e = Some (b ^ e).
Proof. exact int_pow_exact. Qed.
Print Assumptions C07_int_pow_exact.

Theorem C07_int_pow_neg : forall w b e, e < 0 -> int_pow w true b e = Some 0.
Proof. exact int_pow_neg. Qed.
Print Assumptions C07_int_pow_neg.

(* the square-and-multiply loop terminates within w iterations (never out of fuel) *)
Theorem C07_int_pow_terminates : forall w s b e,
  2 <= w -> in_range w s b -> in_range w s e -> int_pow w s b e <> None.
Proof. exact int_pow_terminates. Qed.
Print Assumptions C07_int_pow_terminates.

(* no signed overflow inside the helper: for every signed width, whenever |b^e| <= MAX the current
   text computes b^e exactly and none of its own multiplications overflows (PUB = undefined
   behaviour); the result MIN itself is outside this statement and covered by the run only *)
Theorem C07_int_pow_no_overflow : forall w b e,
  2 <= w -> in_range w true b -> in_range w true e -> 0 <= e -> Z.abs (b ^ e) <= max_int w true ->
  int_pow_ck true w true b e = PVal (b ^ e).
Proof. exact int_pow_ck_no_overflow. Qed.
Print Assumptions C07_int_pow_no_overflow.

(* finding (repaired): the helper squared the base once more than needed; 200 ** 4 fits C int but
   the following b *= b overflowed *)
Theorem C07_int_pow_needless_square_refuted :
  exists w b e, in_range w true b /\ in_range w true e /\ 0 <= e /\ Z.abs (b ^ e) <= max_int w true /\
                int_pow_ck false w true b e = PUB.
Proof. exact int_pow_ck_old_needless_square_refuted. Qed.
Print Assumptions C07_int_pow_needless_square_refuted.

(* 2 ** n object fast path: the value is 2^n for every n >= 0, and each C shift is defined *)
Theorem C07_pow2_correct : forall n, 0 <= n -> pow2_value n = Some (2 ^ n).
Proof. exact pow2_correct. Qed.
Print Assumptions C07_pow2_correct.

Theorem C07_pow2_shift_defined : forall n,
  match pow2 n with
  | P2Long _ => 0 <= n <= 62 | P2ULL _ => n = 63 | P2Lshift k => k = n /\ 63 < n | _ => True
  end.
Proof. exact pow2_shift_defined. Qed.
Print Assumptions C07_pow2_shift_defined.

(* result types chosen by the running compiler (Gen_Pow.pow_rows, dumped on every run from
   cython.typeof(a ** b) over the operand matrix) all lie in the documented table -- finite,
   by computation; fails to compile exactly when a row leaves the table *)
Theorem C07_pow_table_matches_doc : forallb row_ok pow_rows = true.
Proof. vm_compute. reflexivity. Qed.
Print Assumptions C07_pow_table_matches_doc.

Theorem C07_pow_table_rows : forall row, In row pow_rows -> row_ok row = true.
Proof. apply forallb_forall. exact C07_pow_table_matches_doc. Qed.
Print Assumptions C07_pow_table_rows.

Example C07_nonvacuous :
  int_pow 32 true 3 5 = Some 243 /\ int_pow 32 true (-2) 31 = Some (-2147483648) /\
  int_pow 8 false 3 7 = Some 139 /\ in_range 32 true (3 ^ 5) /\ pow_rows <> [].
Proof. unfold in_range. vm_compute. intuition congruence. Qed.
