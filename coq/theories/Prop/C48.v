(* C48 — Compilation caches never return stale results.
   Only statements; proofs live in Proof/P_CacheKey.v.  The tables [cythonize_table] and
   [inline_table] are regenerated from the running code on every check (Gen/Gen_Fingerprint.v);
   [effective t] = t with the repairs that the tree does not contain yet modelled by
   M_CacheKey.repaired (flags f8_fixed / modopts_fixed written by props/C48.py). *)
From Coq Require Import List NArith String Bool.
From CyVerif Require Import Model.M_CacheKey Gen.Gen_Fingerprint Proof.P_CacheKey.
Import ListNotations.
Local Open Scope list_scope.

(* the model's key serialisation (length-prefixed concatenation) is injective *)
Theorem C48_serialise_injective : forall l1 l2 : list value, serialise l1 = serialise l2 -> l1 = l2.
Proof. exact serialise_injective. Qed.
Print Assumptions C48_serialise_injective.

(* equal keys = equal values of every key component (hash collision-freedom is the hypothesis) *)
Theorem C48_key_injective_on_components :
  forall (comp Req K : Type) (get : Req -> comp -> value) (hash : list N -> K) (ks : list comp),
  (forall a b, hash a = hash b -> a = b) ->
  forall r1 r2, key comp Req get K hash ks r1 = key comp Req get K hash ks r2 ->
  forall c, In c ks -> get r1 c = get r2 c.
Proof. intros comp Req K get hash ks Hh. exact (key_injective_on_components comp Req K get hash ks Hh). Qed.
Print Assumptions C48_key_injective_on_components.

(* ALL histories: if the key components include the output-affecting inputs, every request - hit,
   miss or bypass - yields exactly what a fresh compilation of that request yields (failed
   compilations, [ok o = false], are returned but not stored) *)
Theorem C48_cache_hit_is_fresh :
  forall (comp Req K Out : Type) (get : Req -> comp -> value) (hash : list N -> K)
         (keqb : K -> K -> bool) (compile : Req -> Out) (ok : Out -> bool) (bypass : Req -> bool) (ks aff : list comp),
  (forall a b, hash a = hash b -> a = b) ->
  (forall a b, keqb a b = true <-> a = b) ->
  (forall r1 r2, (forall c, In c aff -> get r1 c = get r2 c) -> compile r1 = compile r2) ->
  incl aff ks ->
  forall h : list Req,
    map snd (run comp Req get K hash keqb Out compile ok bypass ks h) = map compile h.
Proof.
  intros comp Req K Out get hash keqb compile ok bypass ks aff Hh Hk Hd Hi h.
  exact (cache_hit_is_fresh comp Req K Out get hash keqb compile ok bypass ks aff Hh Hk Hd h Hi).
Qed.
Print Assumptions C48_cache_hit_is_fresh.

(* ALL histories: a request that differs from every earlier request in some key component is
   not answered from the cache ("any change ... causes a cache miss") *)
Theorem C48_change_causes_miss :
  forall (comp Req K Out : Type) (get : Req -> comp -> value) (hash : list N -> K)
         (keqb : K -> K -> bool) (compile : Req -> Out) (ok : Out -> bool) (bypass : Req -> bool) (ks : list comp),
  (forall a b, hash a = hash b -> a = b) ->
  (forall a b, keqb a b = true <-> a = b) ->
  forall (h : list Req) (r : Req),
    (forall r', In r' h -> exists c, In c ks /\ get r c <> get r' c) ->
    fst (snd (step comp Req get K hash keqb Out compile ok bypass ks
                (fst (exec comp Req get K hash keqb Out compile ok bypass ks [] h)) r)) <> Hit.
Proof.
  intros comp Req K Out get hash keqb compile ok bypass ks Hh Hk h r.
  exact (change_causes_miss comp Req K Out get hash keqb compile ok bypass ks Hh Hk h r).
Qed.
Print Assumptions C48_change_causes_miss.

(* finite, by computation over the generated tables: every output-affecting input (every
   directive, every entry of required_cythonize / required_inline) is a key component *)
Theorem C48_fingerprint_complete :
  fingerprint_complete required_cythonize (effective cythonize_table) = true /\
  fingerprint_complete required_inline (effective inline_table) = true.
Proof. split; [exact cythonize_complete | exact inline_complete]. Qed.
Print Assumptions C48_fingerprint_complete.

(* The statement for the tree AS FOUND is false (finding F8 and the module-level options):
     fingerprint_complete required_cythonize cythonize_table = true   -- refuted below
   witnesses: the directive boundscheck (cythonize/compile key), the directive cdivision
   (inline key), the module-level option docstrings. *)
Theorem C48_fingerprint_directives_refuted :
  f8_fixed = false ->
  In "dir:boundscheck"%string (missing required_cythonize cythonize_table) /\
  In "inl:dir:cdivision"%string (missing required_inline inline_table).
Proof. intro H. split; [exact (cythonize_directives_refuted H) | exact (inline_directives_refuted H)]. Qed.
Print Assumptions C48_fingerprint_directives_refuted.

Theorem C48_fingerprint_module_options_refuted :
  modopts_fixed = false ->
  In "glob:docstrings"%string (missing required_cythonize cythonize_table).
Proof. exact module_options_refuted. Qed.
Print Assumptions C48_fingerprint_module_options_refuted.

(* whatever the state of the tree: a key that leaves the directives out is incomplete *)
Theorem C48_key_without_directives_refuted :
  fingerprint_complete required_cythonize (without_directives (effective cythonize_table)) = false /\
  fingerprint_complete required_inline (without_directives (effective inline_table)) = false.
Proof. exact without_directives_refuted. Qed.
Print Assumptions C48_key_without_directives_refuted.

(* the cache theorem for the key components of the (repaired) tables: cythonize()/compile() ... *)
Theorem C48_cythonize_cache_never_stale :
  forall (Req K Out : Type) (get : Req -> string -> value) (hash : list N -> K)
         (keqb : K -> K -> bool) (compile : Req -> Out) (ok : Out -> bool) (bypass : Req -> bool),
  (forall a b, hash a = hash b -> a = b) ->
  (forall a b, keqb a b = true <-> a = b) ->
  (forall r1 r2, (forall c, In c (required_of required_cythonize (effective cythonize_table)) ->
                            get r1 c = get r2 c) -> compile r1 = compile r2) ->
  forall h, map snd (run string Req get K hash keqb Out compile ok bypass
                        (key_of (effective cythonize_table)) h) = map compile h.
Proof. exact cythonize_never_stale. Qed.
Print Assumptions C48_cythonize_cache_never_stale.

(* ... and cython_inline's module cache *)
Theorem C48_inline_cache_never_stale :
  forall (Req K Out : Type) (get : Req -> string -> value) (hash : list N -> K)
         (keqb : K -> K -> bool) (compile : Req -> Out) (ok : Out -> bool) (bypass : Req -> bool),
  (forall a b, hash a = hash b -> a = b) ->
  (forall a b, keqb a b = true <-> a = b) ->
  (forall r1 r2, (forall c, In c (required_of required_inline (effective inline_table)) ->
                            get r1 c = get r2 c) -> compile r1 = compile r2) ->
  forall h, map snd (run string Req get K hash keqb Out compile ok bypass
                        (key_of (effective inline_table)) h) = map compile h.
Proof. exact inline_never_stale. Qed.
Print Assumptions C48_inline_cache_never_stale.

(* non-vacuity: with the identity as "hash" and a compiler that returns the values of the two
   output-affecting inputs, a three-request history hits on the repeated request and returns the
   fresh results; the same history with a key that omits input 1 returns a stale result *)
Example C48_nonvacuous :
  let h := [((false, false), [1; 1]); ((false, false), [1; 2]); ((false, false), [1; 1])]%N in
  run_concrete [0; 1]%N [0; 1]%N h = [(Miss, false); (Miss, false); (Hit, false)] /\
  run_concrete [0]%N [0; 1]%N h = [(Miss, false); (Hit, true); (Hit, false)] /\
  incl (required_of required_cythonize (effective cythonize_table)) (key_of (effective cythonize_table)) /\
  In "dir:boundscheck"%string (key_of (effective cythonize_table)).
Proof.
  split; [vm_compute; reflexivity|]. split; [vm_compute; reflexivity|].
  split; [apply fingerprint_complete_incl; exact cythonize_complete|].
  apply mem_In. vm_compute. reflexivity.
Qed.
