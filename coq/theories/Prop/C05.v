(* C05 -- Python int <-> C integer conversion is exact or raises.
   Only statements; proofs live in Proof/P_CIntConv.v (model: Model/M_CIntConv.v, Lib/PyLong.v).

   c : build configuration (PyLong_SHIFT, sizeof of int/long/long long/Py_ssize_t, PyLong
   internals on/off, Limited-API chunk loop or _PyLong_AsByteArray, PyLong_AsInt, type slots);
   cfg_ok c : 1 <= SHIFT < bits of the compact type, 2 <= int <= long <= long long, 32 <= long.
   (w, s) : width in bits and signedness of the C integer type T; x : a CPython int object
   (sign + base-2^SHIFT digits), wf = CPython's representation invariant.
   observe w s r : what the generated caller sees of the C result r (`v == (T)-1 && PyErr_Occurred()`):
   Ok v | Err kind | Lost (error set but value not (T)-1) | Undefined (UB in the C text) | Stuck.
   overflow_kind e : e is one of the OverflowError kinds (Cython's "value too large" / "can't
   convert negative value", CPython's "Python int too large to convert to C long" / "int too big
   to convert"); TypeErr, OtherErr and CPyNegOverflow are not.
   same_verdict o1 o2 : both Ok with the same value, or both Err with an OverflowError kind.
   ssize_spec zw v : Ok v when v fits the signed zw-bit type, else Err CPyOverflow. *)
From Coq Require Import ZArith Bool.
From CyVerif Require Import Lib.CInt Lib.PyLong Model.M_CIntConv Proof.P_CIntConv.
Open Scope Z_scope.

(* every int that fits is converted to exactly its value: all digit counts, all signs, all widths,
   both signednesses, every configuration (so: no UB, no lost error on this path either) *)
Theorem C05_from_py_exact : forall c w s x,
  cfg_ok c -> 1 <= w -> wf (c_sh c) x -> in_range w s (value (c_sh c) x) ->
  observe w s (from_py c w s x) = Ok (value (c_sh c) x).
Proof. exact from_py_exact_all. Qed.
Print Assumptions C05_from_py_exact.

(* every int that does not fit raises OverflowError, signalled as (T)-1 + error indicator; a
   negative value for an unsigned type always gets the "can't convert negative value" kind *)
Theorem C05_from_py_overflow : forall c w s x,
  cfg_ok c -> 1 <= w -> wf (c_sh c) x -> ~ in_range w s (value (c_sh c) x) ->
  exists e, observe w s (from_py c w s x) = Err e /\ overflow_kind e = true /\
            (s = false -> value (c_sh c) x < 0 -> e = NegOverflow).
Proof. exact from_py_overflow_all. Qed.
Print Assumptions C05_from_py_overflow.

(* C -> Python yields the same integer *)
Theorem C05_to_py_exact : forall c w s v,
  cfg_ok c -> 1 <= w -> in_range w s v -> to_py c w s v = v.
Proof. exact to_py_exact. Qed.
Print Assumptions C05_to_py_exact.

(* C -> Python -> C is the identity on the type's range *)
Theorem C05_to_from : forall c w s v,
  cfg_ok c -> 1 <= w -> in_range w s v ->
  observe w s (from_py c w s (of_Z (c_sh c) (to_py c w s v))) = Ok v.
Proof. exact to_from_all. Qed.
Print Assumptions C05_to_from.

(* Python -> C -> Python (`def f(T x): return x`) is the identity on ints that fit *)
Theorem C05_roundtrip : forall c w s x,
  cfg_ok c -> 1 <= w -> wf (c_sh c) x -> in_range w s (value (c_sh c) x) ->
  roundtrip c w s x = Ok (value (c_sh c) x).
Proof. exact roundtrip_all. Qed.
Print Assumptions C05_roundtrip.

(* with and without PyLong internals (and any two admissible configurations with the same digit
   size): same value, or OverflowError in both *)
Theorem C05_variants_agree : forall c1 c2 w s x,
  cfg_ok c1 -> cfg_ok c2 -> c_sh c1 = c_sh c2 -> 1 <= w -> wf (c_sh c1) x ->
  same_verdict (observe w s (from_py c1 w s x)) (observe w s (from_py c2 w s x)).
Proof. exact variants_agree_all. Qed.
Print Assumptions C05_variants_agree.

(* the three configurations that are run are admissible *)
Theorem C05_configs_admissible : cfg_ok lp64_internals /\ cfg_ok lp64_nointernals /\ cfg_ok lp64_limited.
Proof. exact cfg_ok_lp64. Qed.
Print Assumptions C05_configs_admissible.

(* Py_ssize_t (__Pyx_PyLong_AsSsize_t): exact, or CPython's own OverflowError *)
Theorem C05_ssize_exact : forall c x, cfg_ok c -> wf (c_sh c) x ->
  observe (c_ssize c) true (pylong_as_ssize_t c x) = ssize_spec (c_ssize c) (value (c_sh c) x).
Proof. exact ssize_exact. Qed.
Print Assumptions C05_ssize_exact.

(* Py_ssize_t from an arbitrary object follows the __index__ rule *)
Theorem C05_ssize_obj_index_rule : forall c k, cfg_ok c ->
  observe (c_ssize c) true (pyindex_as_ssize_t c (PObj k)) =
  match pynumber_index k with
  | inl x => observe (c_ssize c) true (pylong_as_ssize_t c x)
  | inr e => Err e
  end.
Proof. exact ssize_obj_index_rule. Qed.
Print Assumptions C05_ssize_obj_index_rule.

(* the representation used by the model: of_Z builds a well-formed int of the given value *)
Theorem C05_of_Z_sound : forall sh v, 1 <= sh -> wf sh (of_Z sh v) /\ value sh (of_Z sh v) = v.
Proof. intros sh v H. split; [apply wf_of_Z | apply value_of_Z]; exact H. Qed.
Print Assumptions C05_of_Z_sound.

(* Non-int objects.  Full statement required by the property (FALSE on this tree, finding F24):
     forall c w s k, observe w s (from_py_obj c w s (PObj k)) = index_rule_outcome c w s k
   i.e. "an object is an integer exactly when it has __index__; anything else is a TypeError".
   The converter asks nb_int instead: *)
Theorem C05_nonint_dispatch_refuted :
  exists k, observe 32 true (from_py_obj lp64_internals 32 true (PObj k)) = Ok 1 /\
            index_rule_outcome lp64_internals 32 true k = Err TypeErr.
Proof. exact nonint_dispatch_refuted. Qed.
Print Assumptions C05_nonint_dispatch_refuted.

(* what holds for every object kind (complement of the finding class: no nb_int slot, or
   nb_int and nb_index agree) *)
Theorem C05_nonint_dispatch_partial : forall c w s k,
  (nb_int k = None -> c_slots c = true ->
     observe w s (from_py_obj c w s (PObj k)) = Err TypeErr) /\
  (nb_int k = nb_index k ->
     observe w s (from_py_obj c w s (PObj k)) = index_rule_outcome c w s k).
Proof. exact nonint_dispatch_partial. Qed.
Print Assumptions C05_nonint_dispatch_partial.

(* non-vacuity: a three-digit negative int, a 64-bit signed type, the running configuration *)
Example C05_nonvacuous :
  let x := PyLong true (5 :: 0 :: 7 :: nil) in
  cfg_ok lp64_internals /\ wf 30 x /\ value 30 x = - (5 + 7 * 2 ^ 60) /\
  in_range 64 true (value 30 x) /\ ~ in_range 32 true (value 30 x) /\
  observe 64 true (from_py lp64_internals 64 true x) = Ok (value 30 x) /\
  observe 32 true (from_py lp64_internals 32 true x) = Err Overflow /\
  observe 64 false (from_py lp64_internals 64 false x) = Err NegOverflow.
Proof.
  cbv zeta. split; [exact (proj1 cfg_ok_lp64)|]. split; [apply wfb_spec; vm_compute; reflexivity|].
  unfold in_range. vm_compute. intuition congruence.
Qed.
