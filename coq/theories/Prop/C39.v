(* C39 — behaviour is identical across build configurations: wherever two preprocessor /
   feature-macro variants of a helper are both modelled, they are proved to agree.  Each theorem
   has exactly the statement of the proof-level lemma it names (readable statements: Prop/C04.v,
   C05.v, C12.v, C19.v, C26.v).  Everything else is covered only by the configuration-matrix run. *)
From Coq Require Import ZArith List Bool.
From CyVerif Require Proof.P_Overflow Proof.P_CIntConv Proof.P_GlobalCache Proof.P_LZSS Proof.P_CMath Proof.P_CmpFloat Proof.P_Freelist.
From CyVerif Require Import Model.M_Freelist.
Import ListNotations.

(* Overflow.c: the __builtin_*_overflow branch and the portable arithmetic branch of every
   checking helper return the same value and the same overflow bit *)
Theorem C39_overflow_portable_eq_builtin : ltac:(let t := type of @P_Overflow.portable_eq_builtin in exact t).
Proof. exact @P_Overflow.portable_eq_builtin. Qed.
Print Assumptions C39_overflow_portable_eq_builtin.

(* TypeConversion.c: CYTHON_USE_PYLONG_INTERNALS on/off and the Limited-API chunk loop convert
   every Python int to the same C value or the same OverflowError *)
Theorem C39_cint_from_py_variants_agree : ltac:(let t := type of @P_CIntConv.variants_agree_all in exact t).
Proof. exact @P_CIntConv.variants_agree_all. Qed.
Print Assumptions C39_cint_from_py_variants_agree.

(* ObjectHandling.c: the CYTHON_USE_DICT_VERSIONS cache returns what the plain lookup returns,
   on every history *)
Theorem C39_global_lookup_cached_eq_uncached : ltac:(let t := type of @P_GlobalCache.cached_eq_uncached in exact t).
Proof. exact @P_GlobalCache.cached_eq_uncached. Qed.
Print Assumptions C39_global_lookup_cached_eq_uncached.

(* CMath.c: the b_is_constant and variable-divisor variants of the division helpers agree
   (both equal floor division) *)
Theorem C39_div_helper_variants : ltac:(let t := type of @P_CMath.div_int_floor in exact t).
Proof. exact @P_CMath.div_int_floor. Qed.
Print Assumptions C39_div_helper_variants.

(* Optimize.c, PyObjectCompare: with CYTHON_USE_PYLONG_INTERNALS on (digits and lv_tag / ob_size read
   directly) or off (PyLong_AsLong[Long]AndOverflow + rich comparison) the comparison helpers return the
   same answer, for all six operators: float-int and int-float for every double (nan, infinities, every
   finite dyadic rational) and every well-formed int; int-int for every pair of well-formed ints *)
Theorem C39_pyobject_compare_float_int_variants_agree : ltac:(let t := type of @P_CmpFloat.floatint_variants_agree in exact t).
Proof. exact @P_CmpFloat.floatint_variants_agree. Qed.
Print Assumptions C39_pyobject_compare_float_int_variants_agree.

Theorem C39_pyobject_compare_int_float_variants_agree : ltac:(let t := type of @P_CmpFloat.intfloat_variants_agree in exact t).
Proof. exact @P_CmpFloat.intfloat_variants_agree. Qed.
Print Assumptions C39_pyobject_compare_int_float_variants_agree.

Theorem C39_pyobject_compare_int_int_variants_agree : ltac:(let t := type of @P_CmpFloat.intint_variants_agree in exact t).
Proof. exact @P_CmpFloat.intint_variants_agree. Qed.
Print Assumptions C39_pyobject_compare_int_int_variants_agree.

(* the two configurations that are run (default, -DCYTHON_USE_PYLONG_INTERNALS=0) satisfy the hypotheses *)
Theorem C39_pyobject_compare_configs :
  P_CmpFloat.fcfg_ok M_CmpFloat.f_lp64_312 /\ P_CmpFloat.fcfg_ok M_CmpFloat.f_lp64_noint /\
  M_CmpInt.i_sh (M_CmpFloat.f_i M_CmpFloat.f_lp64_312) = M_CmpInt.i_sh (M_CmpFloat.f_i M_CmpFloat.f_lp64_noint).
Proof. exact (conj P_CmpFloat.fcfg_ok_lp64_312 (conj P_CmpFloat.fcfg_ok_lp64_noint eq_refl)). Qed.
Print Assumptions C39_pyobject_compare_configs.

(* string-table compression on (lzss) or off: the module sees the same bytes *)
Theorem C39_lzss_compression_neutral : ltac:(let t := type of @P_LZSS.roundtrip in exact t).
Proof. exact @P_LZSS.roundtrip. Qed.
Print Assumptions C39_lzss_compression_neutral.

(* ModuleNode.py tp_new / tp_dealloc of a @cython.freelist(N) extension type (Model/M_Freelist.v):
   CYTHON_USE_FREELISTS on or off, CYTHON_USE_TYPE_SPECS on or off (exact-type vs basicsize check), any
   freelist size, any freelist contents (stale bytes of freed instances), any program of create / set
   attribute / release / observe steps over any number of variables and instance types: the observations
   are those of the specification in which every new object has zero C attributes and None object
   attributes - provided the freelist path zeroes the struct (c_memset, the code as it is) *)
Theorem C39_freelist_alloc_eq_fresh_alloc : forall (c : cfg) (fl : list blk) (s : store) (p : list op),
  c_memset c = true -> trace c fl s p = trace_ref (c_nc c) (c_no c) s p.
Proof. exact P_Freelist.memset_trace_eq_ref. Qed.
Print Assumptions C39_freelist_alloc_eq_fresh_alloc.

Theorem C39_freelist_config_independent : forall (c1 c2 : cfg) (fl1 fl2 : list blk) (s : store) (p : list op),
  c_memset c1 = true -> c_memset c2 = true -> c_nc c1 = c_nc c2 -> c_no c1 = c_no c2 ->
  trace c1 fl1 s p = trace c2 fl2 s p.
Proof. exact P_Freelist.memset_config_independent. Qed.
Print Assumptions C39_freelist_config_independent.

(* the variant whose freelist path does not zero the struct is refuted: create, set a C attribute, release,
   create again, observe - freelists on shows the old value, freelists off shows 0 *)
Theorem C39_freelist_without_memset_refuted :
  exists p, trace (mk_cfg true false false 4 1 0) [] [] p <> trace (mk_cfg false false false 4 1 0) [] [] p.
Proof. exact P_Freelist.nomemset_config_dependent_refuted. Qed.
Print Assumptions C39_freelist_without_memset_refuted.

(* in either variant the object attributes of every observation are the specified ones (the tp_new
   initialisation function sets them): only C-typed attributes can expose a recycled block *)
Theorem C39_freelist_object_attributes_any_variant : forall (c : cfg) (fl : list blk) (s : store) (p : list op),
  obj_part (trace c fl s p) = obj_part (trace_ref (c_nc c) (c_no c) s p).
Proof. exact P_Freelist.any_variant_object_attributes_default. Qed.
Print Assumptions C39_freelist_object_attributes_any_variant.

(* freecount never leaves [0, N]: the freelist array is not indexed out of bounds *)
Theorem C39_freelist_count_bounded : forall (c : cfg) (fl : list blk) (s : store) (p : list op),
  (length fl <= c_cap c)%nat -> (length (final_freelist c fl s p) <= c_cap c)%nat.
Proof. exact P_Freelist.freecount_bounded. Qed.
Print Assumptions C39_freelist_count_bounded.

Example C39_nonvacuous : M_CMath.div_int 32 true true (-7) 2 = M_CMath.div_int 32 true false (-7) 2.
Proof. vm_compute. reflexivity. Qed.

(* -1.5 < -(2**40): the two variants take different routes (same-sign shortcut / comparison as doubles)
   and agree *)
Example C39_pyobject_compare_nonvacuous :
  let b := PyLong.of_Z 30 (- 2 ^ 40) in let f := M_CmpFloat.DFin (-3) 1 in
  M_CmpFloat.cmp_floatint M_CmpFloat.f_lp64_312 M_CmpFloat.fop M_CmpInt.OpLt f b = Some false /\
  M_CmpFloat.cmp_floatint M_CmpFloat.f_lp64_noint M_CmpFloat.fop M_CmpInt.OpLt f b = Some false /\
  M_CmpFloat.fbranch M_CmpFloat.f_lp64_312 false f b = 4%Z /\ M_CmpFloat.fbranch M_CmpFloat.f_lp64_noint false f b = 7%Z.
Proof. vm_compute. repeat split. Qed.

(* a recycled block with stale contents 7, 9 / stale references: the new object is still 0, 0 / None *)
Example C39_freelist_nonvacuous :
  trace (mk_cfg true false true 2 2 1) [{| b_c := [7; 9]%Z; b_o := [0]%Z |}] [] [ONew 0 TExact; OGet 0; OSetC 0 1 4%Z; OFree 0; ONew 1 TSameSize; OGet 1]
  = [Some {| b_c := [0; 0]%Z; b_o := [1]%Z |}; Some {| b_c := [0; 0]%Z; b_o := [1]%Z |}] /\
  length (final_freelist (mk_cfg true false true 2 2 1) [] [] [ONew 0 TExact; ONew 1 TExact; ONew 2 TExact; OFree 0; OFree 1; OFree 2]) = 2%nat.
Proof. vm_compute. split; reflexivity. Qed.
