(* C39 — behaviour is identical across build configurations: wherever two preprocessor /
   feature-macro variants of a helper are both modelled, they are proved to agree.  Each theorem
   has exactly the statement of the proof-level lemma it names (readable statements: Prop/C04.v,
   C05.v, C12.v, C19.v, C26.v).  Everything else is covered only by the configuration-matrix run. *)
From Coq Require Import ZArith List Bool.
From CyVerif Require Proof.P_Overflow Proof.P_CIntConv Proof.P_GlobalCache Proof.P_LZSS Proof.P_CMath Proof.P_CmpFloat.

(* Overflow.c: the __builtin_*_overflow branch and the portable arithmetic branch of every
   checking helper return the same value and the same overflow bit *)
Theorem C39_overflow_portable_eq_builtin : ltac:(let t := type of @P_Overflow.portable_eq_builtin in exact t).
Proof. exact @P_Overflow.portable_eq_builtin. Qed.
Print Assumptions C39_overflow_portable_eq_builtin.

(* TypeConversion.c: CYTHON_USE_PYLONG_INTERNALS on/off and the Limited-API chunk loop convert
   every Python int to the same C value or the same OverflowError *)
Theorem C39_cint_from_py_variants_agree : ltac:(let t := type of @P_CIntConv.variants_agree_all in exact t).
Proof. exact @P_CIntConv.variants_agree_all. Qed.
Print Assumptions C39_cint_from_py_variants_agree.

(* ObjectHandling.c: the CYTHON_USE_DICT_VERSIONS cache returns what the plain lookup returns,
   on every history *)
Theorem C39_global_lookup_cached_eq_uncached : ltac:(let t := type of @P_GlobalCache.cached_eq_uncached in exact t).
Proof. exact @P_GlobalCache.cached_eq_uncached. Qed.
Print Assumptions C39_global_lookup_cached_eq_uncached.

(* CMath.c: the b_is_constant and variable-divisor variants of the division helpers agree
   (both equal floor division) *)
Theorem C39_div_helper_variants : ltac:(let t := type of @P_CMath.div_int_floor in exact t).
Proof. exact @P_CMath.div_int_floor. Qed.
Print Assumptions C39_div_helper_variants.

(* Optimize.c, PyObjectCompare: with CYTHON_USE_PYLONG_INTERNALS on (digits and lv_tag / ob_size read
   directly) or off (PyLong_AsLong[Long]AndOverflow + rich comparison) the comparison helpers return the
   same answer, for all six operators: float-int and int-float for every double (nan, infinities, every
   finite dyadic rational) and every well-formed int; int-int for every pair of well-formed ints *)
Theorem C39_pyobject_compare_float_int_variants_agree : ltac:(let t := type of @P_CmpFloat.floatint_variants_agree in exact t).
Proof. exact @P_CmpFloat.floatint_variants_agree. Qed.
Print Assumptions C39_pyobject_compare_float_int_variants_agree.

Theorem C39_pyobject_compare_int_float_variants_agree : ltac:(let t := type of @P_CmpFloat.intfloat_variants_agree in exact t).
Proof. exact @P_CmpFloat.intfloat_variants_agree. Qed.
Print Assumptions C39_pyobject_compare_int_float_variants_agree.

Theorem C39_pyobject_compare_int_int_variants_agree : ltac:(let t := type of @P_CmpFloat.intint_variants_agree in exact t).
Proof. exact @P_CmpFloat.intint_variants_agree. Qed.
Print Assumptions C39_pyobject_compare_int_int_variants_agree.

(* the two configurations that are run (default, -DCYTHON_USE_PYLONG_INTERNALS=0) satisfy the hypotheses *)
Theorem C39_pyobject_compare_configs :
  P_CmpFloat.fcfg_ok M_CmpFloat.f_lp64_312 /\ P_CmpFloat.fcfg_ok M_CmpFloat.f_lp64_noint /\
  M_CmpInt.i_sh (M_CmpFloat.f_i M_CmpFloat.f_lp64_312) = M_CmpInt.i_sh (M_CmpFloat.f_i M_CmpFloat.f_lp64_noint).
Proof. exact (conj P_CmpFloat.fcfg_ok_lp64_312 (conj P_CmpFloat.fcfg_ok_lp64_noint eq_refl)). Qed.
Print Assumptions C39_pyobject_compare_configs.

(* string-table compression on (lzss) or off: the module sees the same bytes *)
Theorem C39_lzss_compression_neutral : ltac:(let t := type of @P_LZSS.roundtrip in exact t).
Proof. exact @P_LZSS.roundtrip. Qed.
Print Assumptions C39_lzss_compression_neutral.

Example C39_nonvacuous : M_CMath.div_int 32 true true (-7) 2 = M_CMath.div_int 32 true false (-7) 2.
Proof. vm_compute. reflexivity. Qed.

(* -1.5 < -(2**40): the two variants take different routes (same-sign shortcut / comparison as doubles)
   and agree *)
Example C39_pyobject_compare_nonvacuous :
  let b := PyLong.of_Z 30 (- 2 ^ 40) in let f := M_CmpFloat.DFin (-3) 1 in
  M_CmpFloat.cmp_floatint M_CmpFloat.f_lp64_312 M_CmpFloat.fop M_CmpInt.OpLt f b = Some false /\
  M_CmpFloat.cmp_floatint M_CmpFloat.f_lp64_noint M_CmpFloat.fop M_CmpInt.OpLt f b = Some false /\
  M_CmpFloat.fbranch M_CmpFloat.f_lp64_312 false f b = 4%Z /\ M_CmpFloat.fbranch M_CmpFloat.f_lp64_noint false f b = 7%Z.
Proof. vm_compute. repeat split. Qed.
