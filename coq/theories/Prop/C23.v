(* C23 -- Generators and coroutines follow CPython's protocol on every history.
   Only statements; proofs live in Proof/P_Gen.v.  cy_op = Cython/Utility/Coroutine.c
   (+ the generated body prologue/epilogue), py_op = CPython 3.12 genobject.c / SEND /
   CLEANUP_THROW.  The body is ANY function step over ANY type L of suspension points;
   sub-iterators are arbitrary objects (coinductive records of method behaviours).
   fx_all = the tree with the four repairs, fx_none = the tree as it is. *)
From Coq Require Import ZArith List Bool.
From CyVerif Require Import Lib.CInt Model.M_Gen Proof.P_Gen.
Import ListNotations.
Open Scope Z_scope.

(* every body, every well-formed state between operations, every history: same
   per-operation results, same resumptions of user code, corresponding final state *)
Theorem C23_gen_bisim : forall (L : Type) (start : L) (step : L -> input -> outcome L) (coro : bool)
    (h : list op) (s : cstate L), cwf L s ->
  run_py L start step coro (abs L s) h =
  (fst (run_cy L start step coro fx_all s h), option_map (abs L) (snd (run_cy L start step coro fx_all s h))).
Proof. exact gen_bisim. Qed.
Print Assumptions C23_gen_bisim.

Theorem C23_gen_bisim_from_creation : forall (L : Type) (start : L) (step : L -> input -> outcome L)
    (coro : bool) (h : list op),
  run_py L start step coro (p_init L) h =
  (fst (run_cy L start step coro fx_all (c_init L) h),
   option_map (abs L) (snd (run_cy L start step coro fx_all (c_init L) h))).
Proof. exact gen_bisim_init. Qed.
Print Assumptions C23_gen_bisim_from_creation.

(* the tree as it is: the full statement (forall h, run_py = run_cy fx_none) is FALSE (four
   refutations below); proved on histories along which none of the four situations
   hit_first_send / hit_throw_si_fresh / hit_close_ret / hit_si_at_yf arises *)
Theorem C23_gen_bisim_current_partial : forall (L : Type) (start : L) (step : L -> input -> outcome L)
    (coro : bool) (h : list op) (s : cstate L), cwf L s -> avoids L start step coro s h = true ->
  run_py L start step coro (abs L s) h =
  (fst (run_cy L start step coro fx_none s h), option_map (abs L) (snd (run_cy L start step coro fx_none s h))).
Proof. exact gen_bisim_current_partial. Qed.
Print Assumptions C23_gen_bisim_current_partial.

Theorem C23_first_send_refuted :
  results (run_cy Z 0 w_step false fx_none (c_init Z) [Send (VInt 7); Next])
  <> results (run_py Z 0 w_step false (p_init Z) [Send (VInt 7); Next]).
Proof. exact first_send_refuted. Qed.
Print Assumptions C23_first_send_refuted.

Theorem C23_throw_stopiteration_fresh_refuted :
  results (run_cy Z 0 w_step false fx_none (c_init Z) [Throw (EStopIter (VInt 5))])
  <> results (run_py Z 0 w_step false (p_init Z) [Throw (EStopIter (VInt 5))]).
Proof. exact throw_si_fresh_refuted. Qed.
Print Assumptions C23_throw_stopiteration_fresh_refuted.

Theorem C23_close_return_value_refuted :
  results (run_cy Z 0 w_step false fx_none (c_init Z) [Next; Close])
  <> results (run_py Z 0 w_step false (p_init Z) [Next; Close]).
Proof. exact close_ret_refuted. Qed.
Print Assumptions C23_close_return_value_refuted.

Theorem C23_stopiteration_at_yield_from_refuted :
  results (run_cy Z 0 w_step_yf false fx_none (c_init Z) [Next; Throw (EStopIter (VInt 5))])
  <> results (run_py Z 0 w_step_yf false (p_init Z) [Next; Throw (EStopIter (VInt 5))]).
Proof. exact si_at_yf_refuted. Qed.
Print Assumptions C23_stopiteration_at_yield_from_refuted.

(* resuming a running object: ValueError, nothing changes, in both machines and every variant *)
Theorem C23_running_rejects : forall (L : Type) (start : L) (step : L -> input -> outcome L) (coro : bool)
    (fx : fixes) (s : cstate L) (o : op), c_running s = true -> o <> Del ->
  cy_op L start step coro fx s o = (RRaise (EValue 0), s, [])
  /\ py_op L start step coro PExecuting o = (RRaise (EValue 0), PExecuting, []).
Proof. exact running_rejects. Qed.
Print Assumptions C23_running_rejects.

(* a close() that succeeded is idempotent (both variants of the code) *)
Theorem C23_close_idempotent : forall (L : Type) (start : L) (step : L -> input -> outcome L) (coro : bool)
    (fx : fixes) (s : cstate L), cwf L s ->
  fst (fst (cy_op L start step coro fx s Close)) = RNone ->
  cy_op L start step coro fx (snd (fst (cy_op L start step coro fx s Close))) Close
  = (RNone, snd (fst (cy_op L start step coro fx s Close)), []).
Proof. exact close_idempotent. Qed.
Print Assumptions C23_close_idempotent.

(* abandonment: a suspended body is resumed exactly once (with GeneratorExit unless it
   delegates); a fresh or finished one is not run ... *)
Theorem C23_cleanup_exactly_once : forall (L : Type) (start : L) (step : L -> input -> outcome L)
    (coro : bool) (fx : fixes) (s : cstate L), cwf L s ->
  match c_label s with
  | RAt k => exists i, snd (cy_op L start step coro fx s Del) = [(k, i)]
                       /\ (c_yf s = None -> i = IThrow EGenExit)
  | _ => snd (cy_op L start step coro fx s Del) = []
  end.
Proof. exact cleanup_exactly_once. Qed.
Print Assumptions C23_cleanup_exactly_once.

(* ... and a finished object is never resumed again, by any operation *)
Theorem C23_finished_never_resumed : forall (L : Type) (start : L) (step : L -> input -> outcome L)
    (coro : bool) (fx : fixes) (s : cstate L) (o : op), cwf L s -> c_label s = RDone ->
  snd (cy_op L start step coro fx s o) = [] /\ snd (fst (cy_op L start step coro fx s o)) = s.
Proof. exact finished_never_resumed. Qed.
Print Assumptions C23_finished_never_resumed.

Theorem C23_del_finishes : forall (L : Type) (start : L) (step : L -> input -> outcome L)
    (coro : bool) (fx : fixes) (s : cstate L), cwf L s ->
  (exists e, fst (fst (cy_op L start step coro fx s Del)) = RUnraisable e) \/ c_label s = RFresh
  \/ c_label (snd (fst (cy_op L start step coro fx s Del))) = RDone.
Proof. exact del_finishes. Qed.
Print Assumptions C23_del_finishes.

Example C23_nonvacuous :
  avoids Z 0 w_step_yf false (c_init Z) [Next; Send (VInt 3); Close; Close; Next] = true
  /\ cwf Z (c_init Z).
Proof. exact avoids_nonvacuous. Qed.
