(* C23 -- Generators and coroutines follow CPython's protocol on every history.
   Only statements; proofs live in Proof/P_Gen.v.  cy_op = Cython/Utility/Coroutine.c
   (+ the generated body prologue/epilogue), py_op = CPython 3.12 genobject.c / SEND /
   CLEANUP_THROW.  The body is ANY function step over ANY type L of suspension points;
   sub-iterators are arbitrary objects (coinductive records of method behaviours).
   fx_all = the tree with the repairs, fx_none = the tree as it is.  agen = true: the object is an
   async generator (StopAsyncIteration for a finished object, PEP 479 for StopAsyncIteration, the
   never-awaited warning); ThrowNC = throw with close_on_genexit = 0 as used by the async layer.
   The async generator layer (AsyncGen.c: awaitables, ag_closed, ag_running_async, hooks) follows
   at the end (M_AsyncGen / P_AsyncGen). *)
From Coq Require Import ZArith List Bool.
From CyVerif Require Import Lib.CInt Model.M_Gen Proof.P_Gen Model.M_AsyncGen Proof.P_AsyncGen Proof.P_AsyncGenRun.
Import ListNotations.
Open Scope Z_scope.

(* every body, every well-formed state between operations, every history: same
   per-operation results, same resumptions of user code, corresponding final state *)
Theorem C23_gen_bisim : forall (L : Type) (start : L) (step : L -> input -> outcome L) (coro agen : bool)
    (h : list op) (s : cstate L), cwf L s ->
  run_py L start step coro agen (abs L s) h =
  (fst (run_cy L start step coro agen fx_all s h), option_map (abs L) (snd (run_cy L start step coro agen fx_all s h))).
Proof. exact gen_bisim. Qed.
Print Assumptions C23_gen_bisim.

Theorem C23_gen_bisim_from_creation : forall (L : Type) (start : L) (step : L -> input -> outcome L)
    (coro agen : bool) (h : list op),
  run_py L start step coro agen (p_init L) h =
  (fst (run_cy L start step coro agen fx_all (c_init L) h),
   option_map (abs L) (snd (run_cy L start step coro agen fx_all (c_init L) h))).
Proof. exact gen_bisim_init. Qed.
Print Assumptions C23_gen_bisim_from_creation.

(* the tree as it is: the full statement (forall h, run_py = run_cy fx_none) is FALSE (four
   refutations below); proved on histories along which none of the four situations
   hit_first_send / hit_throw_si_fresh / hit_close_ret / hit_si_at_yf / hit_ag_fresh_del arises *)
Theorem C23_gen_bisim_current_partial : forall (L : Type) (start : L) (step : L -> input -> outcome L)
    (coro agen : bool) (h : list op) (s : cstate L), cwf L s -> avoids L start step coro agen s h = true ->
  run_py L start step coro agen (abs L s) h =
  (fst (run_cy L start step coro agen fx_none s h), option_map (abs L) (snd (run_cy L start step coro agen fx_none s h))).
Proof. exact gen_bisim_current_partial. Qed.
Print Assumptions C23_gen_bisim_current_partial.

Theorem C23_first_send_refuted :
  results (run_cy Z 0 w_step false false fx_none (c_init Z) [Send (VInt 7); Next])
  <> results (run_py Z 0 w_step false false (p_init Z) [Send (VInt 7); Next]).
Proof. exact first_send_refuted. Qed.
Print Assumptions C23_first_send_refuted.

Theorem C23_throw_stopiteration_fresh_refuted :
  results (run_cy Z 0 w_step false false fx_none (c_init Z) [Throw (EStopIter (VInt 5))])
  <> results (run_py Z 0 w_step false false (p_init Z) [Throw (EStopIter (VInt 5))]).
Proof. exact throw_si_fresh_refuted. Qed.
Print Assumptions C23_throw_stopiteration_fresh_refuted.

Theorem C23_close_return_value_refuted :
  results (run_cy Z 0 w_step false false fx_none (c_init Z) [Next; Close])
  <> results (run_py Z 0 w_step false false (p_init Z) [Next; Close]).
Proof. exact close_ret_refuted. Qed.
Print Assumptions C23_close_return_value_refuted.

Theorem C23_stopiteration_at_yield_from_refuted :
  results (run_cy Z 0 w_step_yf false false fx_none (c_init Z) [Next; Throw (EStopIter (VInt 5))])
  <> results (run_py Z 0 w_step_yf false false (p_init Z) [Next; Throw (EStopIter (VInt 5))]).
Proof. exact si_at_yf_refuted. Qed.
Print Assumptions C23_stopiteration_at_yield_from_refuted.

(* resuming a running object: ValueError, nothing changes, in both machines and every variant *)
Theorem C23_running_rejects : forall (L : Type) (start : L) (step : L -> input -> outcome L) (coro agen : bool)
    (fx : fixes) (s : cstate L) (o : op), c_running s = true -> o <> Del ->
  cy_op L start step coro agen fx s o = (RRaise (EValue 0), s, [])
  /\ py_op L start step coro agen PExecuting o = (RRaise (EValue 0), PExecuting, []).
Proof. exact running_rejects. Qed.
Print Assumptions C23_running_rejects.

(* a close() that succeeded is idempotent (both variants of the code) *)
Theorem C23_close_idempotent : forall (L : Type) (start : L) (step : L -> input -> outcome L) (coro agen : bool)
    (fx : fixes) (s : cstate L), cwf L s ->
  fst (fst (cy_op L start step coro agen fx s Close)) = RNone ->
  cy_op L start step coro agen fx (snd (fst (cy_op L start step coro agen fx s Close))) Close
  = (RNone, snd (fst (cy_op L start step coro agen fx s Close)), []).
Proof. exact close_idempotent. Qed.
Print Assumptions C23_close_idempotent.

(* abandonment: a suspended body is resumed exactly once (with GeneratorExit unless it
   delegates); a fresh or finished one is not run ... *)
Theorem C23_cleanup_exactly_once : forall (L : Type) (start : L) (step : L -> input -> outcome L)
    (coro agen : bool) (fx : fixes) (s : cstate L), cwf L s ->
  match c_label s with
  | RAt k => exists i, snd (cy_op L start step coro agen fx s Del) = [(k, i)]
                       /\ (c_yf s = None -> i = IThrow EGenExit)
  | _ => snd (cy_op L start step coro agen fx s Del) = []
  end.
Proof. exact cleanup_exactly_once. Qed.
Print Assumptions C23_cleanup_exactly_once.

(* ... and a finished object is never resumed again, by any operation *)
Theorem C23_finished_never_resumed : forall (L : Type) (start : L) (step : L -> input -> outcome L)
    (coro agen : bool) (fx : fixes) (s : cstate L) (o : op), cwf L s -> c_label s = RDone ->
  snd (cy_op L start step coro agen fx s o) = [] /\ snd (fst (cy_op L start step coro agen fx s o)) = s.
Proof. exact finished_never_resumed. Qed.
Print Assumptions C23_finished_never_resumed.

Theorem C23_del_finishes : forall (L : Type) (start : L) (step : L -> input -> outcome L)
    (coro agen : bool) (fx : fixes) (s : cstate L), cwf L s ->
  (exists e, fst (fst (cy_op L start step coro agen fx s Del)) = RUnraisable e) \/ c_label s = RFresh
  \/ c_label (snd (fst (cy_op L start step coro agen fx s Del))) = RDone.
Proof. exact del_finishes. Qed.
Print Assumptions C23_del_finishes.

Example C23_nonvacuous :
  avoids Z 0 w_step_yf false false (c_init Z) [Next; Send (VInt 3); Close; Close; Next] = true
  /\ cwf Z (c_init Z).
Proof. exact avoids_nonvacuous. Qed.


(* ======================= the async generator layer (AsyncGen.c) =======================
   run_cy_ag = the layer of M_AsyncGen over Coroutine.c's machine, run_py_ag = the same layer over CPython's;
   av = variant of the layer (av_cy: AsyncGen.c as it is, av_py: CPython 3.12.1).  A history creates
   awaitables (__anext__/asend/athrow/aclose) in slots and steps them (send/throw/close/drive), or drops
   the object.  Observation per operation: result, ag_running, resumptions of the body, values passed
   through from awaits, hook events. *)
Theorem C23_agen_bisim : forall (L : Type) (start : L) (step : L -> input -> outcome L) (av : avar)
    (hooks : bool) (h : list aop) (w1 : world (cstate L)) (w2 : world (pstate L)),
  Rworld L w1 w2 ->
  run_cy_ag L start step fx_all av hooks w1 h = run_py_ag L start step av hooks w2 h.
Proof. exact agen_bisim. Qed.
Print Assumptions C23_agen_bisim.

(* the worlds at creation are related, so the theorem applies to every history from creation *)
Example C23_agen_init_related : forall (L : Type),
  Rworld L (world_init (cstate L) (c_init L)) (world_init (pstate L) (p_init L)).
Proof. intro L. split; [|reflexivity]. cbn. repeat split; auto. Qed.

(* aclose(): after the first step of the awaitable the generator is marked closed whatever the body does with
   GeneratorExit (any underlying generator object gop) *)
Theorem C23_aclose_marks_closed : forall (G L : Type) (gop : G -> op -> result * G * list (L * input))
    (gdone gwr : G -> bool) (av : avar) (a : ag G) (arg : val),
  av_closed_first av = true -> ag_running_async G a = false -> gdone (ag_gen G a) = false -> is_none arg = true ->
  ag_closed G (snd (fst (fst (athrow_send G L gop gdone gwr av a KClose AInit arg)))) = true.
Proof. exact aclose_marks_closed. Qed.
Print Assumptions C23_aclose_marks_closed.

(* a closed generator answers every new aclose()/athrow() awaitable with StopAsyncIteration; the body is not
   resumed and nothing changes *)
Theorem C23_closed_gen_answers_stopasync : forall (G L : Type) (gop : G -> op -> result * G * list (L * input))
    (gdone gwr : G -> bool) (av : avar) (a : ag G) (k : akind) (arg : val), (forall v, k <> KSend v) ->
  ag_closed G a = true -> ag_running_async G a = false -> gdone (ag_gen G a) = false ->
  athrow_send G L gop gdone gwr av a k AInit arg = (RRaise EStopAsync, a, AClosed, []).
Proof. exact closed_gen_answers_stopasync. Qed.
Print Assumptions C23_closed_gen_answers_stopasync.

(* a finished awaitable never touches the generator again *)
Theorem C23_finished_awaitable_inert : forall (G L : Type) (gop : G -> op -> result * G * list (L * input))
    (gdone gwr : G -> bool) (av : avar) (a : ag G) (k : akind) (s : astep),
  exists r, aw_step G L gop gdone gwr av a (Awt k AClosed) s = (r, a, Awt k AClosed, [])
            /\ (r = RNone \/ exists m, r = RRaise (ERuntime m)).
Proof. exact finished_awaitable_inert. Qed.
Print Assumptions C23_finished_awaitable_inert.

(* the variant with ag_closed set after the "ignored GeneratorExit" test violates the property *)
Theorem C23_agen_closed_late_refuted :
  ares_of (run_cy_ag Z 0 ag_w_step fx_all (av_with false false false false) false wc h_seeded)
  <> ares_of (run_py_ag Z 0 ag_w_step av_py false wp h_seeded).
Proof. exact closed_late_refuted. Qed.
Print Assumptions C23_agen_closed_late_refuted.

(* AsyncGen.c as it is vs CPython 3.12.1: the full statement (forall h, run_cy_ag fx_none av_cy = run_py_ag av_py)
   is FALSE; one refutation per variant flag *)
Theorem C23_agen_nullexc_refuted :
  ares_of (run_cy_ag Z 0 ag_w_step fx_all (av_with false false true true) false wc h_nullexc)
  <> ares_of (run_py_ag Z 0 ag_w_step av_py false wp h_nullexc).
Proof. exact nullexc_refuted. Qed.
Print Assumptions C23_agen_nullexc_refuted.

Theorem C23_agen_t313_refuted :
  ares_of (run_cy_ag Z 0 ag_w_step fx_all (av_with true false true false) false wc h_t313)
  <> ares_of (run_py_ag Z 0 ag_w_step av_py false wp h_t313).
Proof. exact t313_refuted. Qed.
Print Assumptions C23_agen_t313_refuted.

Theorem C23_agen_pad_refuted :
  ares_of (run_cy_ag Z 0 ag_w_step fx_all (av_with false true true false) false wc h_running)
  <> ares_of (run_py_ag Z 0 ag_w_step av_py false wp h_running).
Proof. exact pad_refuted. Qed.
Print Assumptions C23_agen_pad_refuted.

Theorem C23_agen_fresh_del_refuted :
  ares_of (run_cy_ag Z 0 ag_w_step fx_none av_py false wc [ADel])
  <> ares_of (run_py_ag Z 0 ag_w_step av_py false wp [ADel]).
Proof. exact ag_fresh_del_refuted. Qed.
Print Assumptions C23_agen_fresh_del_refuted.

Example C23_agen_nonvacuous :
  ares_of (run_py_ag Z 0 ag_w_step av_py false wp h_seeded)
  = [ANewOk; AR (RRaise (EStopIter (VInt 1))); ANewOk; AR (RRaise (ERuntime M_IGNORED)); ANewOk; AR (RRaise EStopAsync)].
Proof. exact agen_nonvacuous. Qed.
