(* C24 — Argument binding matches CPython for every signature and call.
   Only statements; proofs live in Proof/P_ArgBind.v.

   bind_cy  = the generated wrapper (Nodes.py DefNodeWrapper) + FunctionArguments.c ParseKeywords*,
   bind_py  = CPython's initialize_locals; call_cy/call_py add what CPython's caller does before a
   vectorcall callee is entered (non-str keys never reach a kwnames tuple).
   erase    = what the property observes: the bound values per parameter (declaration order), the
   *args tuple, the **kwargs content in order (not observable when the body never reads it), or the
   exception class TypeError.

   Full statement (all four calling conventions):
     forall V vc pth s (c : call V), wf_sig s = true -> wf_path pth s = true -> wf_entry vc pth = true ->
       keys_nodup (c_kws c) = true -> erase s (call_cy vc pth s c) = erase s (call_py s c).
   Proved in full as C24_bind_eq (last theorem).  The route: (a) every convention except a wrapper with
   named parameters entered with a kwds *dict* (C24_bind_eq_partial), (b) the remaining case reduced to
   one obligation on the two dict loops (C24_bind_eq_given_dict_loops), (c) that obligation discharged:
   C24_dict_to_dict_loop (__Pyx_ParseKeywordDictToDict) and C24_dict_loop (__Pyx_ParseKeywordDict, whose
   counting early exit needs a pigeonhole argument), in Proof/P_ArgBindDict.v. *)
From Coq Require Import List Bool Arith.
From CyVerif Require Import Model.M_ArgBind Proof.P_ArgBind Proof.P_ArgBindDict.
Import ListNotations.

Theorem C24_bind_eq_partial : forall V vc pth s (c : call V),
  wf_sig s = true -> wf_path pth s = true -> wf_entry vc pth = true -> keys_nodup (c_kws c) = true ->
  (pth <> PDict \/ length (all_args s) = 0) ->
  erase s (call_cy vc pth s c) = erase s (call_py s c).
Proof. exact call_eq_partial. Qed.
Print Assumptions C24_bind_eq_partial.

Theorem C24_bind_eq_given_dict_loops : forall V vc pth s (c : call V),
  wf_sig s = true -> wf_path pth s = true -> wf_entry vc pth = true -> keys_nodup (c_kws c) = true ->
  (length (all_args s) <> 0 -> parser_ok pth) ->
  erase s (call_cy vc pth s c) = erase s (call_py s c).
Proof. exact call_eq_param. Qed.
Print Assumptions C24_bind_eq_given_dict_loops.

(* the kwnames-tuple loop is, for str keys, exactly the reference loop (same error kind) ... *)
Theorem C24_tuple_loop : forall V (kws : list (key * V)) names first off ignore values kwds2,
  NoDup names -> all_str kws ->
  parse_tuple kws names first off ignore values kwds2 = parse_ref kws names first off ignore values kwds2.
Proof. exact parse_tuple_ref. Qed.
Print Assumptions C24_tuple_loop.

(* ... and so is CPython's keyword loop, started from the positionally filled slots *)
Theorem C24_cpython_loop : forall V (kws : list (key * V)) names npo nfill slots d,
  NoDup (skipn npo names) -> all_str kws -> keys_nodup kws = true ->
  py_inv kws (skipn npo names) npo nfill slots ->
  py_kw kws names npo slots d = parse_ref kws (skipn npo names) nfill npo false slots d.
Proof. exact py_kw_ref. Qed.
Print Assumptions C24_cpython_loop.

(* the distinct-keys hypothesis is necessary: a kwnames tuple with a repeated name (which PEP 590
   forbids and no Python-level call produces) is bound silently by the generated loop, CPython raises *)
Theorem C24_duplicate_kwnames_refuted : exists s (c : call nat),
  wf_sig s = true /\ keys_nodup (c_kws c) = false /\
  erase s (call_cy true PTuple s c) <> erase s (call_py s c).
Proof.
  exists (mkSig [] [mkParam 1 false] false [] false false).
  exists (mkCall [] [(mkKey 1 KInterned, 7); (mkKey 1 KInterned, 8)]).
  repeat split. vm_compute. discriminate.
Qed.
Print Assumptions C24_duplicate_kwnames_refuted.

(* error side of the two dict loops (the halves of parser_ok PDict that need no counting argument):
   the duplicate test of __Pyx_ValidateDuplicatePosArgs is exact, and __Pyx_RejectUnknownKeyword
   never falls through without an exception when a keyword is bad *)
Theorem C24_dict_validate_dup_exact : forall V (kws : list (key * V)) names first,
  NoDup names ->
  validate_dup kws names first = existsb (fun kv => kw_dup names first (fst kv)) kws.
Proof. exact validate_dup_exact. Qed.
Print Assumptions C24_dict_validate_dup_exact.

Theorem C24_dict_reject_unknown_blames : forall V (kws : list (key * V)) names first,
  NoDup names -> all_str kws ->
  existsb (fun kv => kw_bad names first true (fst kv)) kws = true ->
  reject_unknown kws names first <> EImpossible.
Proof. exact reject_unknown_blames. Qed.
Print Assumptions C24_dict_reject_unknown_blames.

(* the pop loop of __Pyx_ParseKeywordDictToDict, characterised: every name equal to some key gets that
   key's value; exactly those keys leave the dict and the order of the rest is kept *)
Theorem C24_dict_pop_loop : forall V ns idx off (values : list (option V)) d,
  NoDup ns -> keys_nodup d = true ->
  let '(values', d') := dict_pop_all ns idx off values d in
  length values' = length values /\
  (forall a, nth a values' None =
     if (off + idx <=? a) && (a <? off + idx + length ns) && (a <? length values)
     then match dict_get (nth (a - off - idx) ns 0) d with Some v => Some v | None => nth a values None end
     else nth a values None) /\
  d' = filter (fun kv => negb (existsb (key_eq (fst kv)) ns)) d.
Proof. exact dict_pop_all_spec. Qed.
Print Assumptions C24_dict_pop_loop.

(* __Pyx_ParseKeywordDictToDict (kwds dict convention, wrapper with **kwargs) agrees with the reference loop *)
Theorem C24_dict_to_dict_loop : forall V (kws : list (key * V)) names first off ignore values,
  NoDup names -> all_str kws -> keys_nodup kws = true -> first <= length names ->
  sim (parse_keywords PDict kws names first off ignore values (Some []))
      (parse_ref kws names first off ignore values (Some [])).
Proof. exact parser_ok_dict2dict. Qed.
Print Assumptions C24_dict_to_dict_loop.

(* hence the FULL statement, with no obligation left, for every signature whose body uses its **kwargs:
   all four calling conventions including a kwds dict.  What remains conditional (parser_ok) is only
   __Pyx_ParseKeywordDict, the kwds-dict loop of wrappers WITHOUT a used **kwargs. *)
Theorem C24_bind_eq_starstar : forall V vc pth s (c : call V),
  wf_sig s = true -> wf_path pth s = true -> wf_entry vc pth = true -> keys_nodup (c_kws c) = true ->
  s_starstar s && s_kwused s = true ->
  erase s (call_cy vc pth s c) = erase s (call_py s c).
Proof. exact call_eq_starstar. Qed.
Print Assumptions C24_bind_eq_starstar.

Example C24_starstar_nonvacuous :
  let s := mkSig [] [mkParam 1 false; mkParam 2 true] false [mkParam 3 true] true true in
  let c := mkCall [10] [(mkKey 3 KEqual, 20); (mkKey 9 KSub, 21); (mkKey 2 KInterned, 22)] in
  wf_sig s = true /\ wf_path PDict s = true /\ wf_entry false PDict = true /\ keys_nodup (c_kws c) = true /\
  s_starstar s && s_kwused s = true /\
  call_cy false PDict s c = Bound [(1, Given 10); (2, Given 22); (3, Given 20)] None (Some [(mkKey 9 KSub, 21)]).
Proof. vm_compute. repeat split. Qed.

(* __Pyx_ParseKeywordDict (kwds dict, no **kwargs to fill): its counting early exit `extracted < nkw`
   is sound by a pigeonhole argument (distinct names hit by keys are at most as many as the keys, and as
   many exactly when every key matches a name at or after [first]) *)
Theorem C24_dict_loop : forall V (kws : list (key * V)) names first off ignore values,
  NoDup names -> all_str kws -> keys_nodup kws = true -> first <= length names ->
  sim (parse_keywords PDict kws names first off ignore values None)
      (parse_ref kws names first off ignore values None).
Proof. exact parser_ok_dict_none. Qed.
Print Assumptions C24_dict_loop.

(* THE FULL STATEMENT: every well-formed signature, every calling convention (kwnames tuple, kwds dict,
   METH_NOARGS, METH_O), every call with pairwise distinct keys - no obligation left *)
Theorem C24_bind_eq : forall V vc pth s (c : call V),
  wf_sig s = true -> wf_path pth s = true -> wf_entry vc pth = true -> keys_nodup (c_kws c) = true ->
  erase s (call_cy vc pth s c) = erase s (call_py s c).
Proof. exact call_eq_full. Qed.
Print Assumptions C24_bind_eq.

Example C24_nonvacuous :
  let s := mkSig [mkParam 1 false] [mkParam 2 false; mkParam 3 true] true [mkParam 4 true; mkParam 5 false] true true in
  let c := mkCall [10; 11] [(mkKey 5 KSub, 20); (mkKey 9 KEqual, 21); (mkKey 3 KInterned, 22)] in
  wf_sig s = true /\ wf_path PTuple s = true /\ wf_entry true PTuple = true /\ keys_nodup (c_kws c) = true /\
  call_cy true PTuple s c =
    Bound [(1, Given 10); (2, Given 11); (3, Given 22); (4, Default); (5, Given 20)] (Some [])
          (Some [(mkKey 9 KEqual, 21)]).
Proof. vm_compute. repeat split. Qed.
