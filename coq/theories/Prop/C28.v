(* C28 — Extension-type operators dispatch like Python classes.
   Only statements; models in Model/M_BinopSlot.v, proofs in Proof/P_BinopSlot.v, Proof/P_RichCmp.v.

   The unrestricted statement
       forall fx bc L R, run_bin WPy fx bc L R = run_bin WCy fx bc L R      (and likewise for rich comparison)
   is FALSE for the template as it is and for the repaired one (theorems *_refuted below); it is proved
   on the explicit complement of the exception predicates exc_bin / exc_inplace / exc_ne. *)
From Coq Require Import List Bool.
From CyVerif Require Import Model.M_BinopSlot Proof.P_BinopSlot Proof.P_RichCmp.
Import ListNotations.

(* binary operator: for every method state of B, T, CS, PS, U (undefined / NotImplemented / value), every kind of U,
   every operand pair and both template variants, call log and result of CPython's protocol on Python classes equal
   those of BinopSlot on extension types, outside the two exception classes; the dispatch needs no more than FUEL steps *)
Theorem C28_binop_eq_partial : forall fx bc L R,
  exc_bin fx bc L R = false ->
  run_bin WPy fx bc L R = run_bin WCy fx bc L R /\ snd (run_bin WCy fx bc L R) <> Fuel.
Proof. exact binop_eq_partial. Qed.
Print Assumptions C28_binop_eq_partial.

(* one operand of an unrelated type (extension type, Python class or builtin): always identical *)
Theorem C28_binop_unrelated_eq : forall fx bc L R,
  related L R = false -> run_bin WPy fx bc L R = run_bin WCy fx bc L R.
Proof. exact binop_unrelated_eq. Qed.
Print Assumptions C28_binop_unrelated_eq.

(* repaired template (proposed_fixes/C28-same_type_reflected): same-type operands always identical *)
Theorem C28_binop_same_type_fixed_eq : forall bc L,
  run_bin WPy true bc L L = run_bin WCy true bc L L.
Proof. exact binop_same_type_fixed_eq. Qed.
Print Assumptions C28_binop_same_type_fixed_eq.

(* finding (F26, class same_type_reflected): T defines only __rop__; T() op T() runs __rop__, Python raises TypeError *)
Theorem C28_binop_same_type_refuted :
  exists bc L, run_bin WPy false bc L L <> run_bin WCy false bc L L
            /\ finish (run_bin WPy false bc L L) = ([], FTypeError)
            /\ finish (run_bin WCy false bc L L) = ([(cT, kRop, false)], FVal cT kRop).
Proof. exact binop_same_type_refuted. Qed.
Print Assumptions C28_binop_same_type_refuted.

(* finding (F26, class related_types_two_slot_functions): T() op PS(), PS a plain Python subclass: __rop__ first *)
Theorem C28_binop_related_refuted : forall fx,
  exists bc L R, finish (run_bin WPy fx bc L R) = ([(cT, kOp, true)], FVal cT kOp)
              /\ finish (run_bin WCy fx bc L R) = ([(cT, kRop, false)], FVal cT kRop).
Proof. exact binop_related_refuted. Qed.
Print Assumptions C28_binop_related_refuted.

(* in-place operator: __iop__ of the left type first, then the binary protocol *)
Theorem C28_inplace_eq_partial : forall fx isadd bc ic L R,
  exc_inplace fx isadd bc ic L R = false ->
  run WPy fx isadd true bc ic L R = run WCy fx isadd true bc ic L R.
Proof. exact inplace_eq_partial. Qed.
Print Assumptions C28_inplace_eq_partial.

(* finding (F26, class inplace_add_pysubclass_sq_inplace_concat) *)
Theorem C28_inplace_add_refuted :
  exists bc ic L R, run WPy true true true bc ic L R = ([(cT, kIop, true)], FTypeError)
                 /\ run WCy true true true bc ic L R = ([(cT, kIop, true); (cT, kIop, true)], FNotImplementedObject).
Proof. exact inplace_add_refuted. Qed.
Print Assumptions C28_inplace_add_refuted.

(* rich comparison without total_ordering: for every operator, every state of the methods the operator can reach in
   T and X (plus "T defines some other comparison"), X a Python or cdef subclass, every operand pair: identical,
   except `!=` with a Python subclass that overrides __eq__ only *)
Theorem C28_richcmp_eq_partial : forall op tv xv xpy ub L R,
  In xv all_xview -> In (L, R, ub) pair_dom -> exc_ne op tv xv xpy L R = false ->
  rc_plain WPy false op tv xv xpy ub L R = rc_plain WCy false op tv xv xpy ub L R
  /\ snd (rc_plain WCy false op tv xv xpy ub L R) <> RFuel.
Proof. exact richcmp_eq_partial. Qed.
Print Assumptions C28_richcmp_eq_partial.

Theorem C28_richcmp_ne_refuted :
  exists tv xv, rc_plain WPy false NE tv xv true CN rX rU = ([(rX, EQ, true)], RB true)
             /\ rc_plain WCy false NE tv xv true CN rX rU = ([(rT, EQ, true)], RB false).
Proof. exact richcmp_ne_refuted. Qed.
Print Assumptions C28_richcmp_ne_refuted.

(* total_ordering: every subset/behaviour of the four ordering methods (at least one defined), __eq__ defined and
   answering True/False, no __ne__, X a plain subclass, every operand pair but (T, X) / (X, T) - i.e. (T,T), (X,X) and
   everything against the unrelated U -, every operator *)
Theorem C28_richcmp_total_ordering_partial : forall o (eb xpy : bool) ub L R op,
  In (L, R, ub) tot_dom -> has_ord o = true ->
  let e := if eb then CTr else CFa in
  rc_tot WPy o e CU xpy ub ub L R op = rc_tot WCy o e CU xpy ub ub L R op
  /\ snd (rc_tot WCy o e CU xpy ub ub L R op) <> RFuel.
Proof. exact richcmp_total_ordering_partial. Qed.
Print Assumptions C28_richcmp_total_ordering_partial.

(* F23 and its siblings: the hypotheses above are needed *)
Theorem C28_richcmp_total_ordering_eq_ni_refuted :
  rc_tot WPy (ord_lt CFa) CN CU true CN CTr rT rU LE = ([(rT, LT, true); (rT, EQ, true); (rU, EQ, false)], RB true)
  /\ rc_tot WCy (ord_lt CFa) CN CU true CN CTr rT rU LE = ([(rT, LT, true); (rT, EQ, true); (rU, GE, false)], RTypeErr).
Proof. exact richcmp_total_ordering_eq_ni_refuted. Qed.
Print Assumptions C28_richcmp_total_ordering_eq_ni_refuted.

Theorem C28_richcmp_total_ordering_ne_refuted :
  rc_tot WPy (ord_lt CFa) CTr CTr true CN CN rT rT GT = ([(rT, LT, true); (rT, NE, true)], RB true)
  /\ rc_tot WCy (ord_lt CFa) CTr CTr true CN CN rT rT GT = ([(rT, LT, true); (rT, EQ, true)], RB false).
Proof. exact richcmp_total_ordering_ne_refuted. Qed.
Print Assumptions C28_richcmp_total_ordering_ne_refuted.

Theorem C28_richcmp_total_ordering_no_eq_refuted :
  rc_tot WPy (ord_lt CFa) CU CU true CN CN rT rT GT = ([(rT, LT, true)], RB true)
  /\ rc_tot WCy (ord_lt CFa) CU CU true CN CN rT rT GT = ([(rT, LT, false)], RB false).
Proof. exact richcmp_total_ordering_no_eq_refuted. Qed.
Print Assumptions C28_richcmp_total_ordering_no_eq_refuted.

Theorem C28_richcmp_total_ordering_subclass_refuted :
  exists o, rc_tot WPy o CTr CU true CN CN rT rX LT <> rc_tot WCy o CTr CU true CN CN rT rX LT.
Proof. exact richcmp_total_ordering_subclass_refuted. Qed.
Print Assumptions C28_richcmp_total_ordering_subclass_refuted.

(* non-vacuity: an ordinary mixed case outside every exception class with a non-trivial dispatch *)
Example C28_nonvacuous :
  let bc := ((Undef, Undef), (RetNI, RetVal), (Undef, Undef), (Undef, Undef), (RetNI, RetVal), false) in
  exc_bin false bc cT cU = false
  /\ finish (run_bin WCy false bc cT cU) = ([(cT, kOp, true); (cU, kRop, false)], FVal cU kRop)
  /\ exc_bin false bc cU cT = false
  /\ In (rT, rU, CTr) tot_dom /\ has_ord (ord_lt CN) = true.
Proof. vm_compute. intuition. Qed.
