(* C36 — generated code is free of memory errors and undefined behaviour: the UB-freedom /
   in-bounds theorems proved for the individual helpers, collected.  Each theorem below has
   exactly the statement of the proof-level lemma it names (the statement is taken from the
   lemma's type, so it cannot drift from it); the readable statements are in Prop/C02.v,
   C03.v, C04.v, C05.v, C06.v, C07.v, C12.v, C15.v, C16.v next to their explanations. *)
From Coq Require Import ZArith List Bool.
From CyVerif Require Lib.CInt.
From CyVerif Require Proof.P_CMath Proof.P_IntPow Proof.P_IntPowCk Proof.P_Overflow Proof.P_PyLongBinop Proof.P_CIntConv
                     Proof.P_AsDouble Proof.P_LZSS Proof.P_MemSlice Proof.P_Index.

(* Optimize.c PyLongBinop fast paths: no signed overflow, shift counts in [0,64), no zero divisor,
   no LONG_MIN / -1, no out-of-bounds digit read, for every int operand and accepted constant *)
Theorem C36_pylong_binop_ub_free : ltac:(let t := type of @P_PyLongBinop.fast_path_ub_free in exact t).
Proof. exact @P_PyLongBinop.fast_path_ub_free. Qed.
Print Assumptions C36_pylong_binop_ub_free.

(* CMath.c DivInt / ModInt: every intermediate C value representable, for every width *)
Theorem C36_div_int_no_overflow : ltac:(let t := type of @P_CMath.no_overflow_div in exact t).
Proof. exact @P_CMath.no_overflow_div. Qed.
Print Assumptions C36_div_int_no_overflow.

Theorem C36_mod_int_no_ub : ltac:(let t := type of @P_CMath.mod_int_no_ub in exact t).
Proof. exact @P_CMath.mod_int_no_ub. Qed.
Print Assumptions C36_mod_int_no_ub.

(* the generated // statement never reaches the trapping division (guards on every width) *)
Theorem C36_div_node_never_ub : ltac:(let t := type of @P_CMath.div_node_python in exact t).
Proof. exact @P_CMath.div_node_python. Qed.
Print Assumptions C36_div_node_never_ub.

(* CMath.c IntPow: the loop terminates; Optimize.c 2**n: every shift count is in range *)
Theorem C36_int_pow_terminates : ltac:(let t := type of @P_IntPow.int_pow_terminates in exact t).
Proof. exact @P_IntPow.int_pow_terminates. Qed.
Print Assumptions C36_int_pow_terminates.

(* ... and commits no signed overflow of its own whenever the power fits *)
Theorem C36_int_pow_no_overflow : ltac:(let t := type of @P_IntPowCk.int_pow_ck_no_overflow in exact t).
Proof. exact @P_IntPowCk.int_pow_ck_no_overflow. Qed.
Print Assumptions C36_int_pow_no_overflow.

Theorem C36_pow2_shift_defined : ltac:(let t := type of @P_IntPow.pow2_shift_defined in exact t).
Proof. exact @P_IntPow.pow2_shift_defined. Qed.
Print Assumptions C36_pow2_shift_defined.

(* Overflow.c: the checking helpers themselves commit no signed overflow / bad shift *)
Theorem C36_overflow_helpers_ub_free : ltac:(let t := type of @P_Overflow.helpers_ub_free in exact t).
Proof. exact @P_Overflow.helpers_ub_free. Qed.
Print Assumptions C36_overflow_helpers_ub_free.

(* TypeConversion.c CIntFromPy: an int that fits converts exactly (no UB shift/join, no stuck loop) *)
Theorem C36_cint_from_py_exact : ltac:(let t := type of @P_CIntConv.from_py_exact in exact t).
Proof. exact @P_CIntConv.from_py_exact. Qed.
Print Assumptions C36_cint_from_py_exact.

(* Optimize.c float(str/bytes) pre-scanner: never reads or writes outside its buffers *)
Theorem C36_asdouble_bytes_no_oob : ltac:(let t := type of @P_AsDouble.scan_bytes_no_oob in exact t).
Proof. exact @P_AsDouble.scan_bytes_no_oob. Qed.
Print Assumptions C36_asdouble_bytes_no_oob.

Theorem C36_asdouble_str_no_oob : ltac:(let t := type of @P_AsDouble.scan_str_no_oob in exact t).
Proof. exact @P_AsDouble.scan_str_no_oob. Qed.
Print Assumptions C36_asdouble_str_no_oob.

(* StringTools.c LZSS decompressor: on every compressor output, no out-of-bounds src/dst access *)
Theorem C36_lzss_roundtrip_no_oob : ltac:(let t := type of @P_LZSS.roundtrip in exact t).
Proof. exact @P_LZSS.roundtrip. Qed.
Print Assumptions C36_lzss_roundtrip_no_oob.

(* MemoryView_C.c slicing: every element offset of a slice lies inside the base dimension *)
Theorem C36_memslice_offsets_in_bounds : ltac:(let t := type of @P_MemSlice.offsets_in_bounds in exact t).
Proof. exact @P_MemSlice.offsets_in_bounds. Qed.
Print Assumptions C36_memslice_offsets_in_bounds.

(* ObjectHandling.c GetItemInt/SetItemInt fast paths: a directly accessed item index j has 0 <= j < n *)
Theorem C36_getitem_fast_access_in_bounds : ltac:(let t := type of @P_Index.getitem_fast_in_bounds in exact t).
Proof. exact @P_Index.getitem_fast_in_bounds. Qed.
Print Assumptions C36_getitem_fast_access_in_bounds.

Theorem C36_setitem_fast_access_in_bounds : ltac:(let t := type of @P_Index.setitem_fast_in_bounds in exact t).
Proof. exact @P_Index.setitem_fast_in_bounds. Qed.
Print Assumptions C36_setitem_fast_access_in_bounds.

(* the negative-index wrap i + n never overflows Py_ssize_t *)
Theorem C36_index_add_no_overflow : ltac:(let t := type of @P_Index.index_add_no_overflow in exact t).
Proof. exact @P_Index.index_add_no_overflow. Qed.
Print Assumptions C36_index_add_no_overflow.

Example C36_nonvacuous :
  M_CMath.div_node true 32 true false (-2147483648) (-1) = M_CMath.OverflowError /\
  M_IntPow.int_pow 32 true 3 5 = Some 243%Z.
Proof. vm_compute. split; reflexivity. Qed.
