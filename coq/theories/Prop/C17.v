(* C17 -- Buffer acquisition accepts exactly the matching buffers.
   Only statements; proofs live in Proof/P_BufFmt.v.  Model: Model/M_BufFmt.v
   (check fx s ti itemsize: fx = fx_none is Buffer.c as it is, fx_all the proposed repairs).

   FULL STATEMENT:
     forall fx f ti isz, in_fragment f -> flat ti ->
       check fx (render f) ti isz = Ok tt <-> spec_accept f ti isz = true
   where in_fragment = every repeat count between 1 and INT_MAX, names without colon.
   Proved below: for every PLAIN token list (FPlain: byte-order switches, whitespace, :names:, pads and
   items with ARBITRARY counts written with any digits) = C17_accept_iff_layout_counts, together with
   the number parser on every decimal numeral (C17_parse_number_decimal); the safety theorems for ALL
   byte strings.  Still only tested (extracted [spec_accept] vs implementation vs struct oracle):
   formats wrapped in one T{} record (FRec), sub-array members / s, p / (N,M) shapes. *)
From Coq Require Import ZArith List Bool Lia.
From CyVerif Require Import Lib.CInt Model.M_BufFmt Proof.P_BufFmt Proof.P_BufFmtCount.
Import ListNotations.
Open Scope Z_scope.

(* partial: a format consisting of one type code (all 18 codes, incl. Zf/Zd/Zg) against every
   scalar C type info: accepted iff the struct-module layout [(kind,size,0)] matches and the item
   size agrees -- for the code as it is and for every repaired variant *)
Theorem C17_accept_iff_layout_single_item_partial : forall fx t g sz isz,
  In g [72; 73; 85; 82; 67] -> In sz [1; 2; 4; 8; 16; 32] -> (g = 82 \/ g = 67 -> 4 <= sz) -> (g = 72 -> sz = 1) ->
  check fx (render (FPlain [TItem [] t])) (scalar_ti g sz) isz = Ok tt <->
  spec_accept (FPlain [TItem [] t]) (scalar_ti g sz) isz = true.
Proof. exact accept_iff_layout_single_item_partial. Qed.
Print Assumptions C17_accept_iff_layout_single_item_partial.

(* ALL byte strings, ALL flat type infos: the repaired parser returns a verdict (or meets the
   separately characterised C int overflow of a count >= 2^31); it never reads past the NUL,
   never dereferences ctx->head == NULL and never runs out of fuel (fuel = length + 1) *)
Theorem C17_repaired_parser_terminates_in_bounds : forall s ti isz,
  check fx_all s ti isz = Ok tt \/ check fx_all s ti isz = Err \/ check fx_all s ti isz = IntOvf.
Proof. exact repaired_parser_terminates_in_bounds. Qed.
Print Assumptions C17_repaired_parser_terminates_in_bounds.

(* F19: for the code as it is, reads_within_string is false *)
Theorem C17_reads_within_string_refuted : exists s ti isz, check fx_none s ti isz = OOB.
Proof. exists [105; 58; 97; 98; 99], ti_int, 4. exact name_oob_witness. Qed.
Print Assumptions C17_reads_within_string_refuted.

(* F20: for the code as it is, parser_terminates is false: no fuel suffices on "( 2)i" *)
Theorem C17_parser_terminates_refuted :
  exists s ti isz, forall fuel, check_fuel fx_none fuel s ti isz = OutOfFuel.
Proof. exists [40; 32; 50; 41; 105], ti_int, 4. exact hang_witness. Qed.
Print Assumptions C17_parser_terminates_refuted.

(* new finding: more items than members ("idi", numpy "T{i:a:=d:b:}" on int) dereferences NULL *)
Theorem C17_no_null_deref_refuted :
  check fx_none [105; 100; 105] ti_int 4 = NullDeref /\
  check fx_none [84; 123; 105; 58; 97; 58; 61; 100; 58; 98; 58; 125] ti_int 4 = NullDeref /\
  check fx_none [105; 40; 50; 41; 105] ti_int 4 = NullDeref.
Proof. exact (conj null_witness (conj null_witness_numpy null_witness_array)). Qed.
Print Assumptions C17_no_null_deref_refuted.

(* the same inputs are rejected with ValueError by the repaired parser *)
Theorem C17_repairs_reject_witnesses :
  check fx_all [105; 58; 97; 98; 99] ti_int 4 = Err /\ check fx_all [40; 32; 50; 41; 105] ti_int 4 = Err /\
  check fx_all [105; 100; 105] ti_int 4 = Err.
Proof. exact (conj name_fixed_witness (conj hang_fixed_witness (proj1 null_fixed_witness))). Qed.
Print Assumptions C17_repairs_reject_witnesses.

(* repeat counts: __Pyx_BufFmt_ParseNumber returns the decimal value exactly when it fits a C int
   and overflows the int (undefined behaviour) exactly when it does not *)
Theorem C17_count_no_overflow : forall d ds rest,
  digits (d :: ds) -> no_digit_head rest ->
  (dval 0 (d :: ds) <= INT_MAX -> parse_number (d :: ds ++ rest) = Ok (Some (dval 0 (d :: ds), rest))) /\
  (INT_MAX < dval 0 (d :: ds) -> parse_number (d :: ds ++ rest) = IntOvf).
Proof. exact count_no_overflow. Qed.
Print Assumptions C17_count_no_overflow.

(* the number parser on EVERY decimal numeral: for every n that fits a C int (any number of digits,
   every digit in every position), written canonically with k >= 0 leading zeros and followed by
   anything that does not start with a digit, __Pyx_BufFmt_ParseNumber returns exactly n and leaves
   exactly the rest; beyond INT_MAX it overflows *)
Theorem C17_parse_number_decimal : forall n k rest,
  0 <= n <= INT_MAX -> no_digit_head rest ->
  parse_number (repeat 48 k ++ decimal n ++ rest) = Ok (Some (n, rest)).
Proof. exact parse_number_decimal. Qed.
Print Assumptions C17_parse_number_decimal.

Theorem C17_parse_number_decimal_overflow : forall n k rest,
  INT_MAX < n -> no_digit_head rest -> parse_number (repeat 48 k ++ decimal n ++ rest) = IntOvf.
Proof. exact parse_number_decimal_overflow. Qed.
Print Assumptions C17_parse_number_decimal_overflow.

(* decimal numerals are counts of the fragment below and denote n in the spec *)
Theorem C17_decimal_counts_in_fragment : forall n k t,
  (1 <= n <= INT_MAX -> tok_ok (TItem (repeat 48 k ++ decimal n) t)) /\
  (0 <= n <= INT_MAX -> tok_ok (TPad (repeat 48 k ++ decimal n))) /\
  (0 <= n -> count_of (repeat 48 k ++ decimal n) = n).
Proof.
  intros n k t. split; [apply decimal_item_ok|]. split; [apply decimal_pad_ok|].
  intros H. exact (proj1 (proj2 (proj2 (decimal_count n k H)))).
Qed.
Print Assumptions C17_decimal_counts_in_fragment.

(* accept <-> layout for ALL plain token lists: items of all 18 codes with any repeat count
   1..INT_MAX, pads with any count 0..INT_MAX (counts written with any digit string, leading zeros
   included), byte-order/size switches (big-endian ones included: rejected), whitespace, :names:,
   against EVERY flat type info (any number of members, any offsets) -- for the code as it is and
   every repaired variant.  The checker (character-level __Pyx_BufFmt_CheckString with its pooling
   of equal codes, lazy chunk processing and per-member loop) accepts exactly when the
   struct-module layout of the tokens equals the declared members and the item size agrees *)
Theorem C17_accept_iff_layout_counts : forall fx toks ti isz,
  Forall tok_ok toks -> flat_wf (ti_fields ti) ->
  (check fx (render (FPlain toks)) ti isz = Ok tt <-> spec_accept (FPlain toks) ti isz = true).
Proof. exact accept_iff_layout_counts. Qed.
Print Assumptions C17_accept_iff_layout_counts.

Example C17_counts_nonvacuous :
  decimal 19 = [49; 57] /\ decimal 109 = [49; 48; 57] /\ decimal 2147483647 = [50; 49; 52; 55; 52; 56; 51; 54; 52; 55] /\
  parse_number (decimal 19 ++ [115]) = Ok (Some (19, [115])) /\
  Forall tok_ok [TItem (decimal 19) Cb; TPad (decimal 9); TItem [] Ci] /\
  flat_wf (ti_fields (run_ti 73 1 199)) /\
  check fx_none (render (FPlain [TItem (decimal 19) Cb; TItem (decimal 180) Cb])) (run_ti 73 1 199) 199 = Ok tt /\
  check fx_none (render (FPlain [TItem (decimal 9) Cb; TItem (decimal 180) Cb])) (run_ti 73 1 199) 199 = Err.
Proof.
  split; [vm_compute; reflexivity|]. split; [vm_compute; reflexivity|]. split; [vm_compute; reflexivity|].
  split; [vm_compute; reflexivity|].
  split.
  { constructor; [exact (decimal_item_ok 19 0 Cb ltac:(unfold INT_MAX; lia))|].
    constructor; [exact (decimal_pad_ok 9 0 ltac:(unfold INT_MAX; lia))|].
    constructor; [|constructor]. split; [constructor|left; reflexivity]. }
  split.
  { apply run_ti_wf; cbn [In]; auto; try lia; try discriminate; intros [H|H]; discriminate. }
  split; vm_compute; reflexivity.
Qed.

Example C17_nonvacuous :
  digits [50; 49] /\ no_digit_head [105] /\ parse_number [50; 49; 105] = Ok (Some (21, [105])) /\
  check fx_none [84; 123; 105; 58; 97; 58; 100; 58; 98; 58; 125] ti_id 16 = Ok tt /\
  spec_accept (FRec [] [TItem [] Ci; TName [97]; TItem [] Cd; TName [98]] []) ti_id 16 = true /\
  check fx_all [50; 49; 52; 55; 52; 56; 51; 54; 52; 56; 105] ti_int 4 = IntOvf.
Proof. repeat split; try (repeat constructor); vm_compute; reflexivity. Qed.
