(* C17 -- Buffer acquisition accepts exactly the matching buffers.
   Only statements; proofs live in Proof/P_BufFmt.v.  Model: Model/M_BufFmt.v
   (check fx s ti itemsize: fx = fx_none is Buffer.c as it is, fx_all the proposed repairs).

   FULL STATEMENT:
     forall fx f ti isz, in_fragment f -> flat ti ->
       check fx (render f) ti isz = Ok tt <-> spec_accept f ti isz = true
   where in_fragment = every repeat count between 1 and INT_MAX, names without colon.
   Proved below: for every PLAIN token list (FPlain: byte-order switches, whitespace, :names:, pads and
   items with ARBITRARY counts written with any digits) = C17_accept_iff_layout_counts, together with
   the number parser on every decimal numeral (C17_parse_number_decimal); the safety theorems for ALL
   byte strings.  Still only tested (extracted [spec_accept] vs implementation vs struct oracle):
   formats wrapped in T{} records (FRec, nested records), sub-array members / s, p / (N,M) shapes.
   NESTED STRUCT DTYPES (type info = tree of __Pyx_TypeInfo / __Pyx_StructField, checker state = the
   ctx->head stack of (field, parent_offset) frames): C17_struct_stack_walks_flattened and
   C17_accept_iff_layout_nested for trees of ANY depth; the code as it is only under the complement of
   finding nonfirst_substruct_begins_with_struct (C17_accept_iff_layout_nested_as_is_refuted). *)
From Coq Require Import ZArith List Bool Lia.
From CyVerif Require Import Lib.CInt Model.M_BufFmt Proof.P_BufFmt Proof.P_BufFmtCount Proof.P_BufFmtTree Proof.P_BufFmtCmp Model.M_MemviewAxes Proof.P_MemviewAxes.
Import ListNotations.
Open Scope Z_scope.

(* partial: a format consisting of one type code (all 18 codes, incl. Zf/Zd/Zg) against every
   scalar C type info: accepted iff the struct-module layout [(kind,size,0)] matches and the item
   size agrees -- for the code as it is and for every repaired variant *)
Theorem C17_accept_iff_layout_single_item_partial : forall fx t g sz isz,
  In g [72; 73; 85; 82; 67] -> In sz [1; 2; 4; 8; 16; 32] -> (g = 82 \/ g = 67 -> 4 <= sz) -> (g = 72 -> sz = 1) ->
  check fx (render (FPlain [TItem [] t])) (scalar_ti g sz) isz = Ok tt <->
  spec_accept (FPlain [TItem [] t]) (scalar_ti g sz) isz = true.
Proof. exact accept_iff_layout_single_item_partial. Qed.
Print Assumptions C17_accept_iff_layout_single_item_partial.

(* ALL byte strings, ALL flat type infos: the repaired parser returns a verdict (or meets the
   separately characterised C int overflow of a count >= 2^31); it never reads past the NUL,
   never dereferences ctx->head == NULL and never runs out of fuel (fuel = length + 1) *)
Theorem C17_repaired_parser_terminates_in_bounds : forall s ti isz,
  check fx_all s ti isz = Ok tt \/ check fx_all s ti isz = Err \/ check fx_all s ti isz = IntOvf.
Proof. exact repaired_parser_terminates_in_bounds. Qed.
Print Assumptions C17_repaired_parser_terminates_in_bounds.

(* F19: for the code as it is, reads_within_string is false *)
Theorem C17_reads_within_string_refuted : exists s ti isz, check fx_none s ti isz = OOB.
Proof. exists [105; 58; 97; 98; 99], ti_int, 4. exact name_oob_witness. Qed.
Print Assumptions C17_reads_within_string_refuted.

(* F20: for the code as it is, parser_terminates is false: no fuel suffices on "( 2)i" *)
Theorem C17_parser_terminates_refuted :
  exists s ti isz, forall fuel, check_fuel fx_none fuel s ti isz = OutOfFuel.
Proof. exists [40; 32; 50; 41; 105], ti_int, 4. exact hang_witness. Qed.
Print Assumptions C17_parser_terminates_refuted.

(* new finding: more items than members ("idi", numpy "T{i:a:=d:b:}" on int) dereferences NULL *)
Theorem C17_no_null_deref_refuted :
  check fx_none [105; 100; 105] ti_int 4 = NullDeref /\
  check fx_none [84; 123; 105; 58; 97; 58; 61; 100; 58; 98; 58; 125] ti_int 4 = NullDeref /\
  check fx_none [105; 40; 50; 41; 105] ti_int 4 = NullDeref.
Proof. exact (conj null_witness (conj null_witness_numpy null_witness_array)). Qed.
Print Assumptions C17_no_null_deref_refuted.

(* the same inputs are rejected with ValueError by the repaired parser *)
Theorem C17_repairs_reject_witnesses :
  check fx_all [105; 58; 97; 98; 99] ti_int 4 = Err /\ check fx_all [40; 32; 50; 41; 105] ti_int 4 = Err /\
  check fx_all [105; 100; 105] ti_int 4 = Err.
Proof. exact (conj name_fixed_witness (conj hang_fixed_witness (proj1 null_fixed_witness))). Qed.
Print Assumptions C17_repairs_reject_witnesses.

(* repeat counts: __Pyx_BufFmt_ParseNumber returns the decimal value exactly when it fits a C int
   and overflows the int (undefined behaviour) exactly when it does not *)
Theorem C17_count_no_overflow : forall d ds rest,
  digits (d :: ds) -> no_digit_head rest ->
  (dval 0 (d :: ds) <= INT_MAX -> parse_number (d :: ds ++ rest) = Ok (Some (dval 0 (d :: ds), rest))) /\
  (INT_MAX < dval 0 (d :: ds) -> parse_number (d :: ds ++ rest) = IntOvf).
Proof. exact count_no_overflow. Qed.
Print Assumptions C17_count_no_overflow.

(* the number parser on EVERY decimal numeral: for every n that fits a C int (any number of digits,
   every digit in every position), written canonically with k >= 0 leading zeros and followed by
   anything that does not start with a digit, __Pyx_BufFmt_ParseNumber returns exactly n and leaves
   exactly the rest; beyond INT_MAX it overflows *)
Theorem C17_parse_number_decimal : forall n k rest,
  0 <= n <= INT_MAX -> no_digit_head rest ->
  parse_number (repeat 48 k ++ decimal n ++ rest) = Ok (Some (n, rest)).
Proof. exact parse_number_decimal. Qed.
Print Assumptions C17_parse_number_decimal.

Theorem C17_parse_number_decimal_overflow : forall n k rest,
  INT_MAX < n -> no_digit_head rest -> parse_number (repeat 48 k ++ decimal n ++ rest) = IntOvf.
Proof. exact parse_number_decimal_overflow. Qed.
Print Assumptions C17_parse_number_decimal_overflow.

(* decimal numerals are counts of the fragment below and denote n in the spec *)
Theorem C17_decimal_counts_in_fragment : forall n k t,
  (1 <= n <= INT_MAX -> tok_ok (TItem (repeat 48 k ++ decimal n) t)) /\
  (0 <= n <= INT_MAX -> tok_ok (TPad (repeat 48 k ++ decimal n))) /\
  (0 <= n -> count_of (repeat 48 k ++ decimal n) = n).
Proof.
  intros n k t. split; [apply decimal_item_ok|]. split; [apply decimal_pad_ok|].
  intros H. exact (proj1 (proj2 (proj2 (decimal_count n k H)))).
Qed.
Print Assumptions C17_decimal_counts_in_fragment.

(* accept <-> layout for ALL plain token lists: items of all 18 codes with any repeat count
   1..INT_MAX, pads with any count 0..INT_MAX (counts written with any digit string, leading zeros
   included), byte-order/size switches (big-endian ones included: rejected), whitespace, :names:,
   against EVERY flat type info (any number of members, any offsets) -- for the code as it is and
   every repaired variant.  The checker (character-level __Pyx_BufFmt_CheckString with its pooling
   of equal codes, lazy chunk processing and per-member loop) accepts exactly when the
   struct-module layout of the tokens equals the declared members and the item size agrees *)
Theorem C17_accept_iff_layout_counts : forall fx toks ti isz,
  Forall tok_ok toks -> flat_wf (ti_fields ti) ->
  (check fx (render (FPlain toks)) ti isz = Ok tt <-> spec_accept (FPlain toks) ti isz = true).
Proof. exact accept_iff_layout_counts. Qed.
Print Assumptions C17_accept_iff_layout_counts.

(* ---------------- nested struct dtypes (tree-shaped type infos, any depth) ---------------- *)
(* the struct stack of the checker -- __Pyx_BufFmt_Init's descent, the per-member offset
   ctx->head->parent_offset + field->offset, and the push / pop loop after each member -- visits
   exactly the scalar members of the declared struct tree, in order, each at its absolute C offset
   (sum of the offsetof()s on the path).  deep = true: with the proposed repair, ALL trees Buffer.py
   can emit (non-empty structs, first member at offset 0, any depth, any other offsets);
   deep = false: the code as it is, trees in which every struct member that is not the first member
   of its parent begins with a scalar.  Proof: induction on the tree; invariant: the parent_offset of
   every frame is the absolute offset of the struct the frame walks *)
Theorem C17_struct_stack_walks_flattened : forall deep t,
  twf deep t -> walk deep false t = Ok (flatten t 0).
Proof. exact walk_flatten. Qed.
Print Assumptions C17_struct_stack_walks_flattened.

(* for ALL byte strings (T{} records, arrays, malformed input included) the verdict on a nested
   dtype is the verdict on its flattened member list *)
Theorem C17_nested_check_is_flat_check : forall fx deep s t isz, twf deep t ->
  check_tree fx deep false s t isz = check fx s (flat_ti t) isz.
Proof. exact check_tree_flat. Qed.
Print Assumptions C17_nested_check_is_flat_check.

(* accept <-> layout for nested struct dtypes of any depth x all plain token lists *)
Theorem C17_accept_iff_layout_nested : forall fx deep toks t isz,
  Forall tok_ok toks -> twf deep t ->
  (check_tree fx deep false (render (FPlain toks)) t isz = Ok tt <->
   spec_accept (FPlain toks) (flat_ti t) isz = true).
Proof. exact accept_iff_layout_tree. Qed.
Print Assumptions C17_accept_iff_layout_nested.

Theorem C17_nested_repaired_parser_terminates_in_bounds : forall deep s t isz, twf deep t ->
  check_tree fx_all deep false s t isz = Ok tt \/ check_tree fx_all deep false s t isz = Err \/
  check_tree fx_all deep false s t isz = IntOvf.
Proof. exact tree_repaired_parser_terminates_in_bounds. Qed.
Print Assumptions C17_nested_repaired_parser_terminates_in_bounds.

(* the full statement (deep = false, all of twf true) is FALSE for the code as it is: the advance
   loop pushes one frame and breaks, so OuterA {int a; MidF {Inner inn; int b} m} rejects "4i"
   (finding nonfirst_substruct_begins_with_struct); the repaired loop accepts it *)
Theorem C17_accept_iff_layout_nested_as_is_refuted : exists toks t isz,
  Forall tok_ok toks /\ twf true t /\ spec_accept (FPlain toks) (flat_ti t) isz = true /\
  check_tree fx_all false false (render (FPlain toks)) t isz = Err /\
  check_tree fx_all true false (render (FPlain toks)) t isz = Ok tt.
Proof.
  exists toks_4i, t_outerA, 16. split; [exact toks_4i_ok|]. split; [exact t_outerA_wf|]. exact no_descent_witness.
Qed.
Print Assumptions C17_accept_iff_layout_nested_as_is_refuted.

(* the invariant matters: a checker that takes the sub-struct offset from the grandparent frame
   ((ctx->head - 1)->parent_offset) rejects the matching buffer of Outer {int a; Mid {int b; Inner inn} m}
   -- three levels, the middle struct at offset 4 -- which the code accepts *)
Theorem C17_grandparent_offset_refuted : exists toks t isz,
  Forall tok_ok toks /\ twf false t /\ spec_accept (FPlain toks) (flat_ti t) isz = true /\
  check_tree fx_all false true (render (FPlain toks)) t isz = Err /\
  check_tree fx_all false false (render (FPlain toks)) t isz = Ok tt.
Proof.
  exists toks_4i, t_outer, 16. split; [exact toks_4i_ok|]. split; [exact t_outer_wf|]. exact grandparent_witness.
Qed.
Print Assumptions C17_grandparent_offset_refuted.

Example C17_nested_nonvacuous :
  twf false t_outer /\ walk false false t_outer =
    Ok [(mkleaf 73 4 [], 0); (mkleaf 73 4 [], 4); (mkleaf 73 4 [], 8); (mkleaf 73 4 [], 12)] /\
  (* depth 4, sub-structs first / middle / last, padding before and after *)
  walk true false (TStruct 48 [(TStruct 16 [(t_outerA, 0)], 0); (TLeaf (mkleaf 72 1 []), 16);
                               (TStruct 24 [(TLeaf (mkleaf 82 8 []), 0); (t_inner, 8); (TLeaf (mkleaf 73 2 []), 16)], 24)]) =
    Ok [(mkleaf 73 4 [], 0); (mkleaf 73 4 [], 4); (mkleaf 73 4 [], 8); (mkleaf 73 4 [], 12); (mkleaf 72 1 [], 16);
        (mkleaf 82 8 [], 24); (mkleaf 73 4 [], 32); (mkleaf 73 4 [], 36); (mkleaf 73 2 [], 40)].
Proof. split; [exact t_outer_wf|]. split; vm_compute; reflexivity. Qed.

(* ---------------- __pyx_typeinfo_cmp: Cython memoryview -> typed memoryview ---------------- *)
(* when the exporter is a Cython memoryview and __pyx_typeinfo_cmp(declared, exporter's) holds, the
   format string is not parsed.  Repaired comparison (fixh = true), ALL type-info trees (any depth,
   arrays, packed flags): "equal" implies that the scalar members correspond one to one with the same
   size, array dimensions and absolute offset, and the same typegroup and signedness except that C char
   matches any one-byte integer -- i.e. the shortcut never accepts what the format check would reject as a
   different layout.  (Completeness is not needed: on "not equal" the format string is checked.) *)
Theorem C17_typeinfo_cmp_sound : forall a b,
  ticmp true a b = true -> cinfo_compat a b = true.
Proof. exact ticmp_sound0. Qed.
Print Assumptions C17_typeinfo_cmp_sound.

(* the code as it is (fixh = false): the "special case for chars" returns a->size == b->size and skips
   the array dimensions: {int i; char s[3]} and {int i; signed char s} compare equal in both directions
   (finding memview_typeinfo_cmp_char_skips_array_dims); the repair tells them apart *)
Theorem C17_typeinfo_cmp_sound_as_is_refuted : exists a b,
  ticmp false a b = true /\ ticmp false b a = true /\ cinfo_compat a b = false /\
  ticmp true a b = false /\ ticmp true b a = false.
Proof.
  exists ci_B, ci_A. pose proof ticmp_char_array_witness as H. tauto.
Qed.
Print Assumptions C17_typeinfo_cmp_sound_as_is_refuted.

(* ---------------- ndim / strides / contiguity (MemviewSliceValidateAndInit) ---------------- *)
(* model Model/M_MemviewAxes.v: __pyx_check_strides per axis, __pyx_verify_contig, the ndim test, the
   len == 0 shortcut.  For EVERY ndim, item size, shape and stride vector: a declared C-contiguous type
   T[:, ..., ::1] accepts exactly the buffers with that many dimensions that are empty or C-contiguous
   (every dimension with more than one element has stride itemsize * product of the later extents);
   likewise T[::1, :, ...] and Fortran order; a strided type T[:, ...] tests ndim only *)
Theorem C17_c_contiguous_type_accepts_iff : forall n isz shape strides,
  0 < isz -> Forall (fun s => 0 <= s) shape -> length strides = length shape ->
  (validate_axes (c_axes n) FC isz shape strides = true <->
   length shape = n /\ (prodz shape = 0 \/ c_contiguous isz shape strides)).
Proof. exact validate_c_contig_iff. Qed.
Print Assumptions C17_c_contiguous_type_accepts_iff.

Theorem C17_f_contiguous_type_accepts_iff : forall n isz shape strides,
  0 < isz -> Forall (fun s => 0 <= s) shape -> length strides = length shape ->
  (validate_axes (f_axes n) FF isz shape strides = true <->
   length shape = n /\ (prodz shape = 0 \/ f_contiguous isz shape strides)).
Proof. exact validate_f_contig_iff. Qed.
Print Assumptions C17_f_contiguous_type_accepts_iff.

Theorem C17_strided_type_accepts_iff : forall n isz shape strides,
  validate_axes (repeat AStrided n) FNone isz shape strides = true <-> length shape = n.
Proof. exact validate_strided_iff. Qed.
Print Assumptions C17_strided_type_accepts_iff.

Example C17_axes_nonvacuous :
  validate_axes (c_axes 3) FC 4 [2; 1; 3] [12; 999; 4] = true /\      (* the stride of a length-1 axis is irrelevant *)
  validate_axes (c_axes 3) FC 4 [2; 2; 3] [24; 12; 4] = true /\
  validate_axes (c_axes 3) FC 4 [2; 2; 3] [48; 12; 4] = false /\
  validate_axes (c_axes 2) FC 4 [2; 3] [4; 8] = false /\ validate_axes (f_axes 2) FF 4 [2; 3] [4; 8] = true /\
  validate_axes (c_axes 2) FC 4 [0; 3] [7; 7] = true /\ validate_axes (c_axes 2) FC 4 [3] [4] = false.
Proof. repeat split; vm_compute; reflexivity. Qed.

Example C17_counts_nonvacuous :
  decimal 19 = [49; 57] /\ decimal 109 = [49; 48; 57] /\ decimal 2147483647 = [50; 49; 52; 55; 52; 56; 51; 54; 52; 55] /\
  parse_number (decimal 19 ++ [115]) = Ok (Some (19, [115])) /\
  Forall tok_ok [TItem (decimal 19) Cb; TPad (decimal 9); TItem [] Ci] /\
  flat_wf (ti_fields (run_ti 73 1 199)) /\
  check fx_none (render (FPlain [TItem (decimal 19) Cb; TItem (decimal 180) Cb])) (run_ti 73 1 199) 199 = Ok tt /\
  check fx_none (render (FPlain [TItem (decimal 9) Cb; TItem (decimal 180) Cb])) (run_ti 73 1 199) 199 = Err.
Proof.
  split; [vm_compute; reflexivity|]. split; [vm_compute; reflexivity|]. split; [vm_compute; reflexivity|].
  split; [vm_compute; reflexivity|].
  split.
  { constructor; [exact (decimal_item_ok 19 0 Cb ltac:(unfold INT_MAX; lia))|].
    constructor; [exact (decimal_pad_ok 9 0 ltac:(unfold INT_MAX; lia))|].
    constructor; [|constructor]. split; [constructor|left; reflexivity]. }
  split.
  { apply run_ti_wf; cbn [In]; auto; try lia; try discriminate; intros [H|H]; discriminate. }
  split; vm_compute; reflexivity.
Qed.

Example C17_nonvacuous :
  digits [50; 49] /\ no_digit_head [105] /\ parse_number [50; 49; 105] = Ok (Some (21, [105])) /\
  check fx_none [84; 123; 105; 58; 97; 58; 100; 58; 98; 58; 125] ti_id 16 = Ok tt /\
  spec_accept (FRec [] [TItem [] Ci; TName [97]; TItem [] Cd; TName [98]] []) ti_id 16 = true /\
  check fx_all [50; 49; 52; 55; 52; 56; 51; 54; 52; 56; 105] ti_int 4 = IntOvf.
Proof. repeat split; try (repeat constructor); vm_compute; reflexivity. Qed.
