From Coq Require Import ZArith List Bool.
From CyVerif Require Import Lib.CInt Model.M_BufFmt Proof.P_BufFmt.
Theorem C17_stub : True. Proof. exact stub_true. Qed.
Print Assumptions C17_stub.
