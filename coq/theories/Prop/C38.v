(* C38 — pure-Python mode: Shadow.cdiv / Shadow.cmod are C truncating division / remainder. *)
From Coq Require Import ZArith Bool List.
From CyVerif Require Import Lib.CInt Model.M_Shadow Model.M_CMath Proof.P_Shadow Proof.P_CMath.
From CyVerif Require Import Model.M_ShadowCast Proof.P_ShadowCast.
Import ListNotations.
Open Scope Z_scope.

Theorem C38_cdiv_is_trunc : forall a b, b <> 0 -> sh_cdiv a b = Z.quot a b.
Proof. exact cdiv_is_trunc. Qed.
Print Assumptions C38_cdiv_is_trunc.

Theorem C38_cmod_is_rem : forall a b, b <> 0 -> sh_cmod a b = Z.rem a b.
Proof. exact cmod_is_rem. Qed.
Print Assumptions C38_cmod_is_rem.

(* interpreted (Shadow) = compiled (C operators under cdivision) on every C integer type *)
Theorem C38_interpreted_eq_compiled : forall w s a b,
  2 <= w -> in_range w s a -> in_range w s b -> div_ub w s a b = false ->
  sh_cdiv a b = cdiv_c w s a b /\ sh_cmod a b = cmod_c w s a b.
Proof.
  intros w s a b Hw Ha Hb Hub.
  destruct (cdivision_is_trunc w s a b Hw Ha Hb Hub) as [E1 E2].
  assert (b <> 0) by (unfold div_ub in Hub; destruct (Z.eqb_spec b 0); [discriminate|assumption]).
  rewrite E1, E2. split; [apply cdiv_is_trunc | apply cmod_is_rem]; assumption.
Qed.
Print Assumptions C38_interpreted_eq_compiled.

Example C38_nonvacuous : sh_cdiv (-7) 2 = -3 /\ sh_cmod (-7) 2 = -1 /\ sh_cdiv 7 (-2) = -3 /\ sh_cmod 7 (-2) = 1.
Proof. vm_compute. intuition congruence. Qed.

(* ---- cast() / declare() / typedef types (Model/M_ShadowCast.v) ---- *)

(* any depth of typedef / const / volatile / restrict layers is transparent to cast() *)
Theorem C38_cast_typedef_transparent : forall n t args, cast (wrapn n t) args = cast t args.
Proof. exact cast_wrapn. Qed.
Print Assumptions C38_cast_typedef_transparent.

(* cast to any C integer typedef of an integer within the declared range is the C value (no wrap) *)
Theorem C38_cast_int_in_range : forall t w s z, base t = Some KInt -> 1 <= w -> in_range w s z ->
  cast t [VInt z] = RVal (VInt (wrap w s z)).
Proof. exact cast_int_in_range. Qed.
Print Assumptions C38_cast_int_in_range.

(* cast to a C integer typedef of a finite float (-1)^s * m * 2^e = C's double -> integer conversion *)
Theorem C38_cast_float_to_int_trunc : forall t s m e, base t = Some KInt -> 0 <= m ->
  cast t [VFloat s m e] = RVal (VInt (c_trunc s m e)).
Proof. exact cast_float_to_int. Qed.
Print Assumptions C38_cast_float_to_int_trunc.

(* ... which rounds toward zero *)
Theorem C38_trunc_toward_zero : forall s m e, 0 <= m ->
  (e < 0 -> Z.abs (c_trunc s m e) = m / 2 ^ (- e)) /\
  (s = true -> c_trunc s m e <= 0) /\ (s = false -> 0 <= c_trunc s m e).
Proof. intros s m e Hm. split; [intros He; apply c_trunc_abs; assumption | apply c_trunc_sign; assumption]. Qed.
Print Assumptions C38_trunc_toward_zero.

(* cast of an integer to a C floating typedef: exact below 2^53, correctly rounded
   (within half a unit in the last place of a 53-bit significand) in general *)
Theorem C38_cast_int_to_float_exact : forall t z, base t = Some KFloat -> Z.abs z < 2 ^ 53 ->
  cast t [VInt z] = RVal (VFloat (z <? 0) (Z.abs z) 0).
Proof. exact cast_int_to_float_exact. Qed.
Print Assumptions C38_cast_int_to_float_exact.

Theorem C38_cast_int_to_float_rounded : forall t z s m e, base t = Some KFloat ->
  cast t [VInt z] = RVal (VFloat s m e) ->
  s = (z <? 0) /\ 0 <= e /\ 0 <= m <= 2 ^ 53 /\ 2 * Z.abs (Z.abs z - m * 2 ^ e) <= 2 ^ e.
Proof.
  intros t z s m e H. rewrite (cast_base _ _ _ H). cbn [cast is_none isinstance orb construct].
  apply round_half_ulp.
Qed.
Print Assumptions C38_cast_int_to_float_rounded.

(* values that already have the target class, and None, pass through unchanged *)
Theorem C38_cast_passthrough : forall t c v, base t = Some c ->
  (isinstance v c = true -> cast t [v] = RVal v) /\ cast t [VNone] = RVal VNone.
Proof. intros t c v H. split; [apply cast_same_class; assumption | apply (cast_none t c H)]. Qed.
Print Assumptions C38_cast_passthrough.

(* declare(t, v) is cast(t, v); declare(t) of a non-struct type is None *)
Theorem C38_declare : forall t v, declare t (Some v) = cast t [v] /\ declare t None = RVal VNone.
Proof. intros. split; reflexivity. Qed.
Print Assumptions C38_declare.

Example C38_cast_nonvacuous :
  cast (wrapn 3 (TClass KInt)) [VFloat true 15 (-1)] = RVal (VInt (-7)) /\
  cast (wrapn 2 (TClass KFloat)) [VInt (2 ^ 53 + 1)] = RVal (VFloat false (2 ^ 52) 1) /\
  cast (wrapn 2 (TClass KFloat)) [VInt (- (2 ^ 53 + 3))] = RVal (VFloat true (2 ^ 52 + 2) 1) /\
  cast (TClass KInt) [VInf false] = RErr OverflowError /\
  cast TNon [VInt 3; VInt 4] = RVal (VInt 3) /\
  cast (TClass KInt) [VNone; VInt 37] = RErr ValueError.
Proof. vm_compute. repeat split. Qed.
