(* C38 — pure-Python mode: Shadow.cdiv / Shadow.cmod are C truncating division / remainder. *)
From Coq Require Import ZArith Bool.
From CyVerif Require Import Lib.CInt Model.M_Shadow Model.M_CMath Proof.P_Shadow Proof.P_CMath.
Open Scope Z_scope.

Theorem C38_cdiv_is_trunc : forall a b, b <> 0 -> sh_cdiv a b = Z.quot a b.
Proof. exact cdiv_is_trunc. Qed.
Print Assumptions C38_cdiv_is_trunc.

Theorem C38_cmod_is_rem : forall a b, b <> 0 -> sh_cmod a b = Z.rem a b.
Proof. exact cmod_is_rem. Qed.
Print Assumptions C38_cmod_is_rem.

(* interpreted (Shadow) = compiled (C operators under cdivision) on every C integer type *)
Theorem C38_interpreted_eq_compiled : forall w s a b,
  2 <= w -> in_range w s a -> in_range w s b -> div_ub w s a b = false ->
  sh_cdiv a b = cdiv_c w s a b /\ sh_cmod a b = cmod_c w s a b.
Proof.
  intros w s a b Hw Ha Hb Hub.
  destruct (cdivision_is_trunc w s a b Hw Ha Hb Hub) as [E1 E2].
  assert (b <> 0) by (unfold div_ub in Hub; destruct (Z.eqb_spec b 0); [discriminate|assumption]).
  rewrite E1, E2. split; [apply cdiv_is_trunc | apply cmod_is_rem]; assumption.
Qed.
Print Assumptions C38_interpreted_eq_compiled.

Example C38_nonvacuous : sh_cdiv (-7) 2 = -3 /\ sh_cmod (-7) 2 = -1 /\ sh_cdiv 7 (-2) = -3 /\ sh_cmod 7 (-2) = 1.
Proof. vm_compute. intuition congruence. Qed.
