(* C45 - Profiling and tracing events are balanced and well-nested.
   Only statements; proofs live in Proof/P_Trace.v, the model in Model/M_Trace.v.

   [ev_cy t fx lt n] = events the generated code emits for call tree n under tool t
   (Legacy = c_profilefunc/c_tracefunc, Monitoring = sys.monitoring C-API); fx=false is the code
   as it is, fx=true the repaired placement of the return event; lt = line events on.
   [parse evs [] [] = Some forest] = evs is a Dyck word with matching function ids, every
   line/raise event names the innermost open activation, and forest is its nesting.

   FULL STATEMENT (false for the code as it is, see C45_early_return_refuted):
     forall t lt n, parse (ev_cy t false lt n) [] [] = Some [shape_of n].
   It holds for every call tree in which no `return` statement executes inside an open
   try/finally ([clean]), and for every call tree under the repaired placement. *)
From Coq Require Import List Bool Arith.
From CyVerif Require Import Model.M_Trace Proof.P_Trace Model.M_TraceGen Proof.P_TraceGen.
Import ListNotations.

(* balanced + matching ids + nesting = the call tree; code as it is, outside the finding class *)
Theorem C45_events_well_nested_partial : forall t lt n,
  clean n = true -> parse (ev_cy t false lt n) [] [] = Some [shape_of n].
Proof. intros t lt n H. apply events_well_nested. intros _. exact H. Qed.
Print Assumptions C45_events_well_nested_partial.

(* the same for ALL call trees with the repaired return-event placement *)
Theorem C45_events_well_nested_repaired : forall t lt n,
  parse (ev_cy t true lt n) [] [] = Some [shape_of n].
Proof. intros t lt n. apply events_well_nested. intros H; discriminate. Qed.
Print Assumptions C45_events_well_nested_repaired.

(* exactly one start and one end event per activation / generator resume segment *)
Theorem C45_one_start_one_end_partial : forall t lt n,
  clean n = true ->
  count_class CStart (ev_cy t false lt n) = size n /\ count_class CEnd (ev_cy t false lt n) = size n.
Proof. intros t lt n H. apply one_start_one_end_per_activation. intros _. exact H. Qed.
Print Assumptions C45_one_start_one_end_partial.

Theorem C45_one_start_one_end_repaired : forall t lt n,
  count_class CStart (ev_cy t true lt n) = size n /\ count_class CEnd (ev_cy t true lt n) = size n.
Proof. intros t lt n. apply one_start_one_end_per_activation. intros H; discriminate. Qed.
Print Assumptions C45_one_start_one_end_repaired.

(* sys.monitoring: the RAISE event of a raising activation comes after everything it did
   (all callee events) and immediately before its PY_UNWIND *)
Theorem C45_raise_event_placement : forall fx lt f s b,
  ev_cy Monitoring fx lt (Node f s b ERaise)
  = start_cy Monitoring s f ++ evs_cy Monitoring fx lt f b ++ [(KRaise, f); (KUnwind, f)].
Proof. exact raise_event_placement. Qed.
Print Assumptions C45_raise_event_placement.

(* legacy tool: no exception event is ever sent, and nothing but call/return without linetrace *)
Theorem C45_legacy_no_exception_event : forall fx lt n,
  count_class COther (ev_cy Legacy fx false n) = 0 /\
  (forall f, ~ In (KRaise, f) (ev_cy Legacy fx lt n)).
Proof. exact legacy_no_exception_event. Qed.
Print Assumptions C45_legacy_no_exception_event.

(* same (kind, function) sequence as CPython for the same call tree; documented differences:
   close() of a never-started generator ([started] excludes it, see C45_unstarted_close_differs),
   sys.monitoring reports throw()/close() as PY_RESUME instead of PY_THROW *)
Theorem C45_equal_cpython_legacy_partial : forall lt n,
  clean n = true -> started n = true -> ev_cy Legacy false lt n = ev_py Legacy lt n.
Proof. intros lt n H S. apply events_equal_cpython_legacy; [intros _; exact H|exact S]. Qed.
Print Assumptions C45_equal_cpython_legacy_partial.

Theorem C45_equal_cpython_legacy_repaired : forall lt n,
  started n = true -> ev_cy Legacy true lt n = ev_py Legacy lt n.
Proof. intros lt n S. apply events_equal_cpython_legacy; [intros H; discriminate|exact S]. Qed.
Print Assumptions C45_equal_cpython_legacy_repaired.

Theorem C45_equal_cpython_monitoring_partial : forall lt n,
  clean n = true -> started n = true ->
  ev_cy Monitoring false lt n = map throw_as_resume (ev_py Monitoring lt n).
Proof. intros lt n H S. apply events_equal_cpython_monitoring; [intros _; exact H|exact S]. Qed.
Print Assumptions C45_equal_cpython_monitoring_partial.

Theorem C45_cpython_events_well_nested : forall lt n,
  started n = true -> parse (ev_py Legacy lt n) [] [] = Some [shape_of n].
Proof. exact cpython_events_well_nested. Qed.
Print Assumptions C45_cpython_events_well_nested.

(* the finding: `return` inside try/finally.  Witnesses replayed on the real code by props/C45.py
   (early_programs): two end events; callee of the finally body outside the activation; a line
   event after the return event; none of it with the repaired placement. *)
Theorem C45_early_return_refuted :
  parse (ev_cy Legacy false false w_double) [] [] = None /\
  count_class CEnd (ev_cy Legacy false false w_double) = 2 /\
  (exists sh, parse (ev_cy Legacy false false w_misnest) [] [] = Some sh /\ sh <> [shape_of w_misnest]) /\
  parse (ev_cy Legacy false true w_line) [] [] = None /\
  parse (ev_cy Legacy true false w_double) [] [] = Some [shape_of w_double] /\
  parse (ev_cy Legacy true false w_misnest) [] [] = Some [shape_of w_misnest] /\
  parse (ev_cy Legacy true true w_line) [] [] = Some [shape_of w_line].
Proof. exact early_return_refuted. Qed.
Print Assumptions C45_early_return_refuted.

Theorem C45_unstarted_close_differs :
  ev_cy Legacy false false w_unstarted = [(KCall, 0); (KCall, 1); (KRet, 1); (KRet, 0)] /\
  ev_py Legacy false w_unstarted = [(KCall, 0); (KRet, 0)].
Proof. exact unstarted_close_differs. Qed.
Print Assumptions C45_unstarted_close_differs.

(* ---------------------------------------------------------------------------------------------
   Code-generation level (Model/M_TraceGen.v).  A program is a list of functions (kind, body,
   tflag); kinds: KFunc (def / cdef / cpdef / lambda / method: FuncDefNode) and KGen inlined comp
   (generator, coroutine, async generator, generator expression - real, or inlined into
   any/all/sorted/list/set/dict/str.join: GeneratorBodyDefNode).  [run g fx fn fuel o] = tokens of
   the trace macros the generated C executes for the oracle o (what every call, condition,
   iterator and resume did); g = the guard of the fall-off-the-end return event, all_true for the
   code as it is.  An execution of a program = a tree [xt] of C-level activations (segments);
   [word] = the events it emits.  [complete] only asks that every node names a function and a
   segment that ran to its C return (decided from the outcome, not from the tokens).
   [cvar] = which variant of the generated code (as_is; wrap_fixed; g_not_inlined = the seeded
   guard). *)

(* THE BALANCE THEOREM for programs: every execution of every program emits a Dyck word with
   matching ids, line events inside their activation, empty stack at the end; the nesting is the
   execution tree; exactly one start and one end event per activation / generator segment.
   For every code variant g whose fall-off guard holds for every kind; prog_ok g fx asks
   (a) tflag -> end of body unreachable, (b) fx or no return inside try/finally (finding
   return_inside_try_finally), (c) no cpdef function entered through its Python wrapper unless the
   wrapper's second unwind event is gone (finding cpdef_wrapper_raise_double_return). *)
Theorem C45_program_events_balanced : forall g fx prog x t lt,
  (forall k, cv_fall g k = true) -> prog_ok g fx prog = true -> complete g fx prog x = true ->
  exists n, to_node g fx prog x = Some n /\
            word g fx t lt prog x = ev_cy t fx lt n /\
            parse (word g fx t lt prog x) [] [] = Some [shape_of n] /\
            count_class CStart (word g fx t lt prog x) = size n /\
            count_class CEnd (word g fx t lt prog x) = size n.
Proof. exact program_events_balanced. Qed.
Print Assumptions C45_program_events_balanced.

(* the code as it is, outside the two finding classes *)
Theorem C45_program_events_balanced_partial : forall prog x t lt,
  prog_ok as_is false prog = true -> complete as_is false prog x = true ->
  exists n, to_node as_is false prog x = Some n /\
            parse (word as_is false t lt prog x) [] [] = Some [shape_of n].
Proof.
  intros prog x t lt Hp Hc.
  destruct (program_events_balanced as_is false prog x t lt (fun _ => eq_refl) Hp Hc)
    as (n & A & _ & B & _).
  exists n. split; assumption.
Qed.
Print Assumptions C45_program_events_balanced_partial.

(* each segment reads as a clean M_Trace node *)
Theorem C45_program_node : forall g fx prog,
  (forall k, cv_fall g k = true) -> prog_ok g fx prog = true ->
  forall x, complete g fx prog x = true ->
    exists n, to_node g fx prog x = Some n /\ clean n = true /\
              forall t lt, word g fx t lt prog x = ev_cy t fx lt n.
Proof. intros g fx prog Hg Hp. exact (proj1 (program_node g fx prog Hg Hp)). Qed.
Print Assumptions C45_program_node.

(* the fall-off event is needed for EVERY kind: a guard that is false for one kind leaves the
   start event of a one-statement function of that kind unmatched *)
Theorem C45_falloff_guard_necessary : forall g k,
  cv_fall g k = false -> cv_wrap2 g = false ->
  prog_ok g false (w_prog k) = true /\ complete g false (w_prog k) w_tree = true /\
  word g false Legacy false (w_prog k) w_tree = [(KCall, 0)] /\
  well_nested (word g false Legacy false (w_prog k) w_tree) = false.
Proof. exact falloff_guard_necessary. Qed.
Print Assumptions C45_falloff_guard_necessary.

(* "if tracing and not self.is_inlined and not self.body.is_terminator" on list(genexpr) *)
Theorem C45_not_inlined_guard_refuted :
  prog_ok g_not_inlined false s_prog = true /\
  complete g_not_inlined false s_prog s_tree = true /\
  word g_not_inlined false Legacy false s_prog s_tree = [(KCall, 0); (KCall, 1); (KRet, 0)] /\
  parse (word g_not_inlined false Legacy false s_prog s_tree) [] [] = None /\
  word as_is false Legacy false s_prog s_tree = [(KCall, 0); (KCall, 1); (KRet, 1); (KRet, 0)] /\
  parse (word as_is false Legacy false s_prog s_tree) [] [] = Some [Sh 0 [Sh 1 []]].
Proof. exact seeded_guard_refuted. Qed.
Print Assumptions C45_not_inlined_guard_refuted.

(* finding: a cpdef function that raises, called through its Python wrapper: call, return, return *)
Theorem C45_cpdef_wrapper_double_unwind_refuted :
  complete as_is false c_prog c_tree = true /\
  word as_is false Legacy false c_prog c_tree = [(KCall, 0); (KRet, 0); (KRet, 0)] /\
  parse (word as_is false Legacy false c_prog c_tree) [] [] = None /\
  prog_ok as_is false c_prog = false /\
  prog_ok wrap_fixed false c_prog = true /\
  word wrap_fixed false Legacy false c_prog c_tree = [(KCall, 0); (KRet, 0)] /\
  parse (word wrap_fixed false Legacy false c_prog c_tree) [] [] = Some [Sh 0 []].
Proof. exact cpdef_wrapper_double_unwind_refuted. Qed.
Print Assumptions C45_cpdef_wrapper_double_unwind_refuted.

(* the compiler's is_terminator flag is sound: such a body never completes normally, so the
   guarded fall-off code is never needed when it is omitted *)
Theorem C45_terminator_sound : forall fx gen n d b o,
  is_term b = true -> snd (fst (exec_b fx gen n d b o)) <> ONormal.
Proof. intros fx gen n d b o. exact (proj1 (proj2 (term_sound fx gen n)) d b o). Qed.
Print Assumptions C45_terminator_sound.

(* an inlined generator expression is ONE C-level activation *)
Theorem C45_inlined_single_segment : forall g fx fn n o c,
  f_kind fn = KGen true c -> count_yield (fst (run g fx fn n o)) = 0.
Proof. exact inlined_single_segment. Qed.
Print Assumptions C45_inlined_single_segment.

(* the fall-off macro is present in the generated text iff guard and not is_terminator (static tie) *)
Theorem C45_epilogue_fall_iff : forall g k tf,
  In EFall (epilogue g k tf) <-> (cv_fall g k = true /\ tf = false).
Proof. exact epilogue_fall_iff. Qed.
Print Assumptions C45_epilogue_fall_iff.

(* f0 calls a generator segment that yields, then f1 which raises into f0's handler, returns *)
Example C45_nonvacuous :
  let n := Node 0 SCall
             (ILine 3 (ICall (Node 2 SGenStart (ICall (Node 1 SCall INil EReturn) INil) EYield)
               (ICall (Node 1 SCall INil ERaise) (ICall (Node 2 SThrow INil ERaise) INil)))) EReturn in
  clean n = true /\ started n = true /\ size n = 5 /\
  ev_cy Legacy false true n =
    [(KCall, 0); (KLine 3, 0); (KCall, 2); (KCall, 1); (KRet, 1); (KRet, 2); (KCall, 1); (KRet, 1);
     (KCall, 2); (KRet, 2); (KRet, 0)] /\
  parse (ev_cy Monitoring false true n) [] [] = Some [shape_of n].
Proof. repeat split; reflexivity. Qed.
