(* C45 - Profiling and tracing events are balanced and well-nested.
   Only statements; proofs live in Proof/P_Trace.v, the model in Model/M_Trace.v.

   [ev_cy t fx lt n] = events the generated code emits for call tree n under tool t
   (Legacy = c_profilefunc/c_tracefunc, Monitoring = sys.monitoring C-API); fx=false is the code
   as it is, fx=true the repaired placement of the return event; lt = line events on.
   [parse evs [] [] = Some forest] = evs is a Dyck word with matching function ids, every
   line/raise event names the innermost open activation, and forest is its nesting.

   FULL STATEMENT (false for the code as it is, see C45_early_return_refuted):
     forall t lt n, parse (ev_cy t false lt n) [] [] = Some [shape_of n].
   It holds for every call tree in which no `return` statement executes inside an open
   try/finally ([clean]), and for every call tree under the repaired placement. *)
From Coq Require Import List Bool Arith.
From CyVerif Require Import Model.M_Trace Proof.P_Trace.
Import ListNotations.

(* balanced + matching ids + nesting = the call tree; code as it is, outside the finding class *)
Theorem C45_events_well_nested_partial : forall t lt n,
  clean n = true -> parse (ev_cy t false lt n) [] [] = Some [shape_of n].
Proof. intros t lt n H. apply events_well_nested. intros _. exact H. Qed.
Print Assumptions C45_events_well_nested_partial.

(* the same for ALL call trees with the repaired return-event placement *)
Theorem C45_events_well_nested_repaired : forall t lt n,
  parse (ev_cy t true lt n) [] [] = Some [shape_of n].
Proof. intros t lt n. apply events_well_nested. intros H; discriminate. Qed.
Print Assumptions C45_events_well_nested_repaired.

(* exactly one start and one end event per activation / generator resume segment *)
Theorem C45_one_start_one_end_partial : forall t lt n,
  clean n = true ->
  count_class CStart (ev_cy t false lt n) = size n /\ count_class CEnd (ev_cy t false lt n) = size n.
Proof. intros t lt n H. apply one_start_one_end_per_activation. intros _. exact H. Qed.
Print Assumptions C45_one_start_one_end_partial.

Theorem C45_one_start_one_end_repaired : forall t lt n,
  count_class CStart (ev_cy t true lt n) = size n /\ count_class CEnd (ev_cy t true lt n) = size n.
Proof. intros t lt n. apply one_start_one_end_per_activation. intros H; discriminate. Qed.
Print Assumptions C45_one_start_one_end_repaired.

(* sys.monitoring: the RAISE event of a raising activation comes after everything it did
   (all callee events) and immediately before its PY_UNWIND *)
Theorem C45_raise_event_placement : forall fx lt f s b,
  ev_cy Monitoring fx lt (Node f s b ERaise)
  = start_cy Monitoring s f ++ evs_cy Monitoring fx lt f b ++ [(KRaise, f); (KUnwind, f)].
Proof. exact raise_event_placement. Qed.
Print Assumptions C45_raise_event_placement.

(* legacy tool: no exception event is ever sent, and nothing but call/return without linetrace *)
Theorem C45_legacy_no_exception_event : forall fx lt n,
  count_class COther (ev_cy Legacy fx false n) = 0 /\
  (forall f, ~ In (KRaise, f) (ev_cy Legacy fx lt n)).
Proof. exact legacy_no_exception_event. Qed.
Print Assumptions C45_legacy_no_exception_event.

(* same (kind, function) sequence as CPython for the same call tree; documented differences:
   close() of a never-started generator ([started] excludes it, see C45_unstarted_close_differs),
   sys.monitoring reports throw()/close() as PY_RESUME instead of PY_THROW *)
Theorem C45_equal_cpython_legacy_partial : forall lt n,
  clean n = true -> started n = true -> ev_cy Legacy false lt n = ev_py Legacy lt n.
Proof. intros lt n H S. apply events_equal_cpython_legacy; [intros _; exact H|exact S]. Qed.
Print Assumptions C45_equal_cpython_legacy_partial.

Theorem C45_equal_cpython_legacy_repaired : forall lt n,
  started n = true -> ev_cy Legacy true lt n = ev_py Legacy lt n.
Proof. intros lt n S. apply events_equal_cpython_legacy; [intros H; discriminate|exact S]. Qed.
Print Assumptions C45_equal_cpython_legacy_repaired.

Theorem C45_equal_cpython_monitoring_partial : forall lt n,
  clean n = true -> started n = true ->
  ev_cy Monitoring false lt n = map throw_as_resume (ev_py Monitoring lt n).
Proof. intros lt n H S. apply events_equal_cpython_monitoring; [intros _; exact H|exact S]. Qed.
Print Assumptions C45_equal_cpython_monitoring_partial.

Theorem C45_cpython_events_well_nested : forall lt n,
  started n = true -> parse (ev_py Legacy lt n) [] [] = Some [shape_of n].
Proof. exact cpython_events_well_nested. Qed.
Print Assumptions C45_cpython_events_well_nested.

(* the finding: `return` inside try/finally.  Witnesses replayed on the real code by props/C45.py
   (early_programs): two end events; callee of the finally body outside the activation; a line
   event after the return event; none of it with the repaired placement. *)
Theorem C45_early_return_refuted :
  parse (ev_cy Legacy false false w_double) [] [] = None /\
  count_class CEnd (ev_cy Legacy false false w_double) = 2 /\
  (exists sh, parse (ev_cy Legacy false false w_misnest) [] [] = Some sh /\ sh <> [shape_of w_misnest]) /\
  parse (ev_cy Legacy false true w_line) [] [] = None /\
  parse (ev_cy Legacy true false w_double) [] [] = Some [shape_of w_double] /\
  parse (ev_cy Legacy true false w_misnest) [] [] = Some [shape_of w_misnest] /\
  parse (ev_cy Legacy true true w_line) [] [] = Some [shape_of w_line].
Proof. exact early_return_refuted. Qed.
Print Assumptions C45_early_return_refuted.

Theorem C45_unstarted_close_differs :
  ev_cy Legacy false false w_unstarted = [(KCall, 0); (KCall, 1); (KRet, 1); (KRet, 0)] /\
  ev_py Legacy false w_unstarted = [(KCall, 0); (KRet, 0)].
Proof. exact unstarted_close_differs. Qed.
Print Assumptions C45_unstarted_close_differs.

(* f0 calls a generator segment that yields, then f1 which raises into f0's handler, returns *)
Example C45_nonvacuous :
  let n := Node 0 SCall
             (ILine 3 (ICall (Node 2 SGenStart (ICall (Node 1 SCall INil EReturn) INil) EYield)
               (ICall (Node 1 SCall INil ERaise) (ICall (Node 2 SThrow INil ERaise) INil)))) EReturn in
  clean n = true /\ started n = true /\ size n = 5 /\
  ev_cy Legacy false true n =
    [(KCall, 0); (KLine 3, 0); (KCall, 2); (KCall, 1); (KRet, 1); (KRet, 2); (KCall, 1); (KRet, 1);
     (KCall, 2); (KRet, 2); (KRet, 0)] /\
  parse (ev_cy Monitoring false true n) [] [] = Some [shape_of n].
Proof. repeat split; reflexivity. Qed.
