(* C32 -- C function exception declarations propagate errors faithfully.
   Only statements; definitions in Model/M_ExcSpec.v, proofs in Proof/P_ExcSpec.v.
   observe sp k fl cn b st  = epilogue of a function declared with spec sp (return kind k, flavour
   fl: plain / nogil / with gil) whose body ends as b, followed by the call-site check emitted in a
   caller that does (cn = false) or does not (cn = true) hold the GIL; st carries the thread's
   pending exception, the unraisable-hook log, GIL ownership and a counter of thread-state
   accesses made without the GIL.  documented = the user guide's meaning of the declaration. *)
From Coq Require Import ZArith List Bool.
From CyVerif Require Import Lib.CInt Model.M_ExcSpec Proof.P_ExcSpec Gen.Gen_ExcSpec.
Import ListNotations.
Open Scope Z_scope.

(* Every specification (noexcept, except v, except? v, except * -- any sentinel incl. NaN, opaque
   constants, (unsigned)-1), every return kind, function flavour, caller context, body outcome and
   return value: the caller observes Raise e iff the body raised and the spec propagates; otherwise
   Return r with nothing pending; a noexcept function hands e to the unraisable hook once and
   returns the default; the GIL is held at every thread-state access and restored.  The user
   contract of plain "except v" (the body never returns v) is the explicit hypothesis contract_okb. *)
Theorem C32_spec_faithful : forall sp k fl cn b st,
  wf_specb sp k = true -> chk_plus (ec sp) = false ->
  cython_body b = true -> body_val_okb k b = true ->
  ctx_okb fl cn = true -> clean cn st ->
  contract_okb sp k b = true ->
  observe sp k fl cn b st = documented sp k b st.
Proof. exact spec_faithful. Qed.
Print Assumptions C32_spec_faithful.

(* except? v returning v legitimately is not reported as an error *)
Theorem C32_sentinel_legit_ok : forall s k fl cn r st,
  wf_specb {| ev := Some s; ec := ChkYes |} k = true ->
  val_okb k r = true -> c_test k s r = true ->
  ctx_okb fl cn = true -> clean cn st ->
  observe {| ev := Some s; ec := ChkYes |} k fl cn (Return r) st = {| o_err := false; o_val := r; o_st := st |}.
Proof. exact sentinel_legit_ok. Qed.
Print Assumptions C32_sentinel_legit_ok.

(* noexcept: reported exactly once to the unraisable hook, cleared, default value returned *)
Theorem C32_noexcept_reports : forall sp k fl cn e st,
  wf_specb sp k = true -> propagates sp k = false ->
  ctx_okb fl cn = true -> clean cn st ->
  let o := observe sp k fl cn (Raise e) st in
  o_err o = false /\ o_val o = noexcept_value k /\
  pending (o_st o) = None /\ unraisable (o_st o) = unraisable st ++ [e] /\
  gil (o_st o) = gil st /\ viol (o_st o) = viol st.
Proof. exact noexcept_reports. Qed.
Print Assumptions C32_noexcept_reports.

(* propagating specs deliver exactly the raised exception and report nothing *)
Theorem C32_raise_propagates : forall sp k fl cn e st,
  wf_specb sp k = true -> chk_plus (ec sp) = false -> propagates sp k = true ->
  ctx_okb fl cn = true -> clean cn st ->
  let o := observe sp k fl cn (Raise e) st in
  o_err o = true /\ pending (o_st o) = Some e /\ unraisable (o_st o) = unraisable st /\
  gil (o_st o) = gil st /\ viol (o_st o) = viol st.
Proof. exact raise_propagates. Qed.
Print Assumptions C32_raise_propagates.

(* the error value stored by the epilogue always satisfies the caller's test (NaN included) *)
Theorem C32_sentinel_test_self : forall k s, sent_okb k s = true -> c_test k s (sent_val s) = true.
Proof. exact c_test_self. Qed.
Print Assumptions C32_sentinel_test_self.

(* without the contract the statement is false: except -1 returning -1 takes the error path with
   no exception set (documented misuse, not a defect) *)
Theorem C32_except_v_needs_contract :
  exists sp k fl cn r st,
    wf_specb sp k = true /\ chk_plus (ec sp) = false /\ val_okb k r = true /\ ctx_okb fl cn = true /\ clean cn st /\
    contract_okb sp k (Return r) = false /\
    o_err (observe sp k fl cn (Return r) st) = true /\ pending (o_st (observe sp k fl cn (Return r) st)) = None.
Proof. exact except_v_sentinel_return_is_error. Qed.
Print Assumptions C32_except_v_needs_contract.

(* an exception already pending at the call (stale): reported by exactly the calls whose emitted
   condition holds, left pending by the others *)
Theorem C32_stale_characterised : forall sp k fl cn r e0 st,
  wf_specb sp k = true -> chk_plus (ec sp) = false -> val_okb k r = true ->
  ctx_okb fl cn = true -> pending st = Some e0 -> gil st = negb cn ->
  observe sp k fl cn (Return r) st = {| o_err := check_fires sp k r; o_val := r; o_st := st |}.
Proof. exact stale_characterised. Qed.
Print Assumptions C32_stale_characterised.

(* declaration normalisation: whatever is accepted is well-formed (in the domain of the theorems) *)
Theorem C32_normalise_wf : forall f k c sp,
  kind_okb k = true -> normalise f k c = Some sp -> wf_specb sp k = true.
Proof. exact normalise_wf. Qed.
Print Assumptions C32_normalise_wf.

(* the default: except? -1 / except? -1.0 / except? NULL / except * / (objects) NULL ... *)
Theorem C32_default_spec_chosen : forall k,
  kind_okb k = true -> normalise plain_flags k CNone = Some (default_spec k).
Proof. exact default_spec_chosen. Qed.
Print Assumptions C32_default_spec_chosen.

(* ... which propagates, needs no user contract and falls in the proved cases *)
Theorem C32_default_spec_in_domain : forall k b,
  kind_okb k = true ->
  wf_specb (default_spec k) k = true /\ chk_plus (ec (default_spec k)) = false /\
  propagates (default_spec k) k = true /\ contract_okb (default_spec k) k b = true.
Proof. exact default_spec_in_domain. Qed.
Print Assumptions C32_default_spec_in_domain.

(* legacy_implicit_noexcept / cdef extern: no clause = noexcept for non-object returns *)
Theorem C32_implicit_noexcept : forall f k,
  (legacy f = true \/ extern f = true) -> is_obj k = false ->
  normalise f k CNone = Some {| ev := None; ec := ChkNo |}.
Proof. exact implicit_noexcept. Qed.
Print Assumptions C32_implicit_noexcept.

(* a function assigned to a pointer / declaration of another, compatible specification
   (CFuncType._is_exception_compatible_with) still behaves as its own declaration documents *)
Theorem C32_compat_sound : forall fsp psp k fl cn b st,
  wf_specb fsp k = true -> wf_specb psp k = true ->
  chk_plus (ec fsp) = false -> chk_plus (ec psp) = false ->
  exc_compatible fsp psp = true ->
  cython_body b = true -> body_val_okb k b = true ->
  ctx_okb fl cn = true -> clean cn st ->
  contract_okb fsp k b = true ->
  observe_via psp fsp k fl cn b st = documented fsp k b st.
Proof. exact compat_sound. Qed.
Print Assumptions C32_compat_sound.

(* C++ "except +" / "+*" / "+PyExc", reduced to the catch-order table of __Pyx_CppExn2PyErr *)
Theorem C32_cpp_faithful_reduced_partial : forall h k cn b st,
  kind_okb k = true -> cpp_body_okb h b = true -> body_val_okb k b = true -> clean cn st ->
  observe {| ev := None; ec := ChkPlus h |} k FPlain cn b st
  = documented {| ev := None; ec := ChkPlus h |} k b st.
Proof. exact cpp_faithful_reduced. Qed.
Print Assumptions C32_cpp_faithful_reduced_partial.

(* the compiler's own table (Gen_ExcSpec.decl_rows: exception_value/exception_check of every
   clause x return kind x declaration context, dumped on every run; None = rejected) equals
   normalise -- finite, by computation; fails to compile exactly when a row differs *)
Theorem C32_decl_table_matches : forallb decl_row_ok decl_rows = true.
Proof. vm_compute. reflexivity. Qed.
Print Assumptions C32_decl_table_matches.

Theorem C32_decl_table_rows : forall f k c res,
  In (f, k, c, res) decl_rows -> ofspec_eqb (normalise f k c) res = true.
Proof.
  intros f k c res H.
  exact (proj1 (forallb_forall decl_row_ok decl_rows) C32_decl_table_matches (f, k, c, res) H).
Qed.
Print Assumptions C32_decl_table_rows.

Example C32_nonvacuous :
  let sp := {| ev := Some (Sent (VDbl DNaN) true); ec := ChkYes |} in
  let st := {| pending := None; unraisable := []; gil := false; viol := O |} in
  wf_specb sp KFloat = true /\ ctx_okb FNogil true = true /\ clean true st /\
  contract_okb sp KFloat (Return (VDbl DNaN)) = true /\ c_test KFloat (Sent (VDbl DNaN) true) (VDbl DNaN) = true /\
  o_err (observe sp KFloat FNogil true (Return (VDbl DNaN)) st) = false /\
  o_err (observe sp KFloat FNogil true (Raise 7) st) = true /\
  unraisable (o_st (observe {| ev := None; ec := ChkNo |} KStruct FNogil true (Raise 7) st)) = [7] /\
  decl_rows <> [].
Proof. unfold clean. vm_compute. intuition congruence. Qed.
