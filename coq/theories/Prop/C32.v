(* C32 -- C function exception declarations propagate errors faithfully.
   Only statements; definitions in Model/M_ExcSpec.v, proofs in Proof/P_ExcSpec.v.
   observe sp k fl cn b st  = epilogue of a function declared with spec sp (return kind k, flavour
   fl: plain / nogil / with gil) whose body ends as b, followed by the call-site check emitted in a
   caller that does (cn = false) or does not (cn = true) hold the GIL; st carries the thread's
   pending exception, the unraisable-hook log, GIL ownership and a counter of thread-state
   accesses made without the GIL.  documented = the user guide's meaning of the declaration. *)
From Coq Require Import ZArith List Bool.
From CyVerif Require Import Lib.CInt Model.M_ExcSpec Model.M_ExcTest Proof.P_ExcSpec Proof.P_ExcTest Gen.Gen_ExcSpec.
Import ListNotations.
Open Scope Z_scope.

(* Every specification (noexcept, except v, except? v, except * -- any sentinel incl. NaN, opaque
   constants, (unsigned)-1), every return kind, function flavour, caller context, body outcome and
   return value: the caller observes Raise e iff the body raised and the spec propagates; otherwise
   Return r with nothing pending; a noexcept function hands e to the unraisable hook once and
   returns the default; the GIL is held at every thread-state access and restored.  The user
   contract of plain "except v" (the body never returns v) is the explicit hypothesis contract_okb. *)
Theorem C32_spec_faithful : forall sp k fl cn b st,
  wf_specb sp k = true -> chk_plus (ec sp) = false ->
  cython_body b = true -> body_val_okb k b = true ->
  ctx_okb fl cn = true -> clean cn st ->
  contract_okb sp k b = true ->
  observe sp k fl cn b st = documented sp k b st.
Proof. exact spec_faithful. Qed.
Print Assumptions C32_spec_faithful.

(* except? v returning v legitimately is not reported as an error *)
Theorem C32_sentinel_legit_ok : forall s k fl cn r st,
  wf_specb {| ev := Some s; ec := ChkYes |} k = true ->
  val_okb k r = true -> c_test k s r = true ->
  ctx_okb fl cn = true -> clean cn st ->
  observe {| ev := Some s; ec := ChkYes |} k fl cn (Return r) st = {| o_err := false; o_val := r; o_st := st |}.
Proof. exact sentinel_legit_ok. Qed.
Print Assumptions C32_sentinel_legit_ok.

(* noexcept: reported exactly once to the unraisable hook, cleared, default value returned *)
Theorem C32_noexcept_reports : forall sp k fl cn e st,
  wf_specb sp k = true -> propagates sp k = false ->
  ctx_okb fl cn = true -> clean cn st ->
  let o := observe sp k fl cn (Raise e) st in
  o_err o = false /\ o_val o = noexcept_value k /\
  pending (o_st o) = None /\ unraisable (o_st o) = unraisable st ++ [e] /\
  gil (o_st o) = gil st /\ viol (o_st o) = viol st.
Proof. exact noexcept_reports. Qed.
Print Assumptions C32_noexcept_reports.

(* propagating specs deliver exactly the raised exception and report nothing *)
Theorem C32_raise_propagates : forall sp k fl cn e st,
  wf_specb sp k = true -> chk_plus (ec sp) = false -> propagates sp k = true ->
  ctx_okb fl cn = true -> clean cn st ->
  let o := observe sp k fl cn (Raise e) st in
  o_err o = true /\ pending (o_st o) = Some e /\ unraisable (o_st o) = unraisable st /\
  gil (o_st o) = gil st /\ viol (o_st o) = viol st.
Proof. exact raise_propagates. Qed.
Print Assumptions C32_raise_propagates.

(* the error value stored by the epilogue always satisfies the caller's test (NaN included) *)
Theorem C32_sentinel_test_self : forall k s, sent_okb k s = true -> c_test k s (sent_val s) = true.
Proof. exact c_test_self. Qed.
Print Assumptions C32_sentinel_test_self.

(* without the contract the statement is false: except -1 returning -1 takes the error path with
   no exception set (documented misuse, not a defect) *)
Theorem C32_except_v_needs_contract :
  exists sp k fl cn r st,
    wf_specb sp k = true /\ chk_plus (ec sp) = false /\ val_okb k r = true /\ ctx_okb fl cn = true /\ clean cn st /\
    contract_okb sp k (Return r) = false /\
    o_err (observe sp k fl cn (Return r) st) = true /\ pending (o_st (observe sp k fl cn (Return r) st)) = None.
Proof. exact except_v_sentinel_return_is_error. Qed.
Print Assumptions C32_except_v_needs_contract.

(* an exception already pending at the call (stale): reported by exactly the calls whose emitted
   condition holds, left pending by the others *)
Theorem C32_stale_characterised : forall sp k fl cn r e0 st,
  wf_specb sp k = true -> chk_plus (ec sp) = false -> val_okb k r = true ->
  ctx_okb fl cn = true -> pending st = Some e0 -> gil st = negb cn ->
  observe sp k fl cn (Return r) st = {| o_err := check_fires sp k r; o_val := r; o_st := st |}.
Proof. exact stale_characterised. Qed.
Print Assumptions C32_stale_characterised.

(* declaration normalisation: whatever is accepted is well-formed (in the domain of the theorems) *)
Theorem C32_normalise_wf : forall f k c sp,
  kind_okb k = true -> normalise f k c = Some sp -> wf_specb sp k = true.
Proof. exact normalise_wf. Qed.
Print Assumptions C32_normalise_wf.

(* the default: except? -1 / except? -1.0 / except? NULL / except * / (objects) NULL ... *)
Theorem C32_default_spec_chosen : forall k,
  kind_okb k = true -> normalise plain_flags k CNone = Some (default_spec k).
Proof. exact default_spec_chosen. Qed.
Print Assumptions C32_default_spec_chosen.

(* ... which propagates, needs no user contract and falls in the proved cases *)
Theorem C32_default_spec_in_domain : forall k b,
  kind_okb k = true ->
  wf_specb (default_spec k) k = true /\ chk_plus (ec (default_spec k)) = false /\
  propagates (default_spec k) k = true /\ contract_okb (default_spec k) k b = true.
Proof. exact default_spec_in_domain. Qed.
Print Assumptions C32_default_spec_in_domain.

(* legacy_implicit_noexcept / cdef extern: no clause = noexcept for non-object returns *)
Theorem C32_implicit_noexcept : forall f k,
  (legacy f = true \/ extern f = true) -> is_obj k = false ->
  normalise f k CNone = Some {| ev := None; ec := ChkNo |}.
Proof. exact implicit_noexcept. Qed.
Print Assumptions C32_implicit_noexcept.

(* a function assigned to a pointer / declaration of another, compatible specification
   (CFuncType._is_exception_compatible_with) still behaves as its own declaration documents *)
Theorem C32_compat_sound : forall fsp psp k fl cn b st,
  wf_specb fsp k = true -> wf_specb psp k = true ->
  chk_plus (ec fsp) = false -> chk_plus (ec psp) = false ->
  exc_compatible fsp psp = true ->
  cython_body b = true -> body_val_okb k b = true ->
  ctx_okb fl cn = true -> clean cn st ->
  contract_okb fsp k b = true ->
  observe_via psp fsp k fl cn b st = documented fsp k b st.
Proof. exact compat_sound. Qed.
Print Assumptions C32_compat_sound.

(* C++ "except +" / "+*" / "+PyExc", reduced to the catch-order table of __Pyx_CppExn2PyErr *)
Theorem C32_cpp_faithful_reduced_partial : forall h k cn b st,
  kind_okb k = true -> cpp_body_okb h b = true -> body_val_okb k b = true -> clean cn st ->
  observe {| ev := None; ec := ChkPlus h |} k FPlain cn b st
  = documented {| ev := None; ec := ChkPlus h |} k b st.
Proof. exact cpp_faithful_reduced. Qed.
Print Assumptions C32_cpp_faithful_reduced_partial.

(* the compiler's own table (Gen_ExcSpec.decl_rows: exception_value/exception_check of every
   clause x return kind x declaration context, dumped on every run; None = rejected) equals
   normalise -- finite, by computation; fails to compile exactly when a row differs *)
Theorem C32_decl_table_matches : forallb decl_row_ok decl_rows = true.
Proof. vm_compute. reflexivity. Qed.
Print Assumptions C32_decl_table_matches.

Theorem C32_decl_table_rows : forall f k c res,
  In (f, k, c, res) decl_rows -> ofspec_eqb (normalise f k c) res = true.
Proof.
  intros f k c res H.
  exact (proj1 (forallb_forall decl_row_ok decl_rows) C32_decl_table_matches (f, k, c, res) H).
Qed.
Print Assumptions C32_decl_table_rows.

(* ---- value level (Model/M_ExcTest.v): the emitted C text  result == ((T)constant)  evaluated with C's
   typing of constants, integer promotion, usual arithmetic conversions and casts.  rt = return type,
   tc = type the constant is cast to, e = the constant expression (ceval e = its C type and value),
   stored rt e = what the callee's error path leaves in the result (constant converted to rt). *)

(* every integer return type (any width >= 1, either signedness), every constant expression, every cast type
   that does not change the stored value (in particular tc = rt), every returned value r of the return type:
   the emitted test is true exactly when r is the stored sentinel *)
Theorem C32_value_cast_exact : forall rt tc e te v r,
  1 <= iw rt -> 1 <= iw tc -> in_ty rt r = true -> ceval e = Some (te, v) ->
  conv tc v = conv rt v ->
  eq_test rt r (emitted (Some tc) e) = Some (r =? conv rt v).
Proof. exact cast_exact. Qed.
Print Assumptions C32_value_cast_exact.

Theorem C32_value_cast_ret_matches_stored : forall rt e te v r,
  1 <= iw rt -> in_ty rt r = true -> ceval e = Some (te, v) ->
  (fires (Some rt) rt e r = true <-> stored rt e = Some r).
Proof. exact cast_ret_matches_stored. Qed.
Print Assumptions C32_value_cast_ret_matches_stored.

(* the value of a constant expression lies in its C type (no hidden totalisation in ceval) *)
Theorem C32_value_const_in_range : forall e t v, ceval e = Some (t, v) -> 1 <= iw t /\ in_ty t v = true.
Proof. exact ceval_in_range. Qed.
Print Assumptions C32_value_const_in_range.

(* the cast is needed: without it, for EVERY unsigned return type narrower than int and EVERY negative
   constant of a signed type, the test is false for every returned value *)
Theorem C32_value_nocast_never_fires : forall rt e te v r,
  1 <= iw rt -> iw rt < 32 -> isg rt = false -> in_ty rt r = true ->
  ceval e = Some (te, v) -> isg te = true -> v < 0 ->
  eq_test rt r (emitted None e) = Some false.
Proof. exact nocast_never_fires. Qed.
Print Assumptions C32_value_nocast_never_fires.

(* a cast to a type in which the constant is not a value of the return type, compared in a signed type *)
Theorem C32_value_out_of_range_never_fires : forall rt tc e te v r,
  1 <= iw rt -> 1 <= iw tc -> in_ty rt r = true -> ceval e = Some (te, v) ->
  isg (uac (promote rt) (promote tc)) = true -> in_ty rt (conv tc v) = false ->
  eq_test rt r (emitted (Some tc) e) = Some false.
Proof. exact out_of_range_never_fires. Qed.
Print Assumptions C32_value_out_of_range_never_fires.

(* witnesses: unsigned char, -1, returned 255 (uncast text); unsigned char, (long)(-(1 + 1)), 254 (the
   code as it is for constant EXPRESSIONS, which the compiler types long -- finding
   sentinel_cast_to_constant_type) *)
Theorem C32_value_nocast_refuted :
  exists rt e r, in_ty rt r = true /\ stored rt e = Some r /\ fires None rt e r = false.
Proof. exact nocast_refuted. Qed.
Print Assumptions C32_value_nocast_refuted.

Theorem C32_value_cast_const_refuted :
  exists rt tc e r, in_ty rt r = true /\ stored rt e = Some r /\ fires (Some tc) rt e r = false.
Proof. exact cast_const_refuted. Qed.
Print Assumptions C32_value_cast_const_refuted.

(* the abstract sentinel test of the decision-level model IS the emitted C test *)
Theorem C32_value_test_is_model_test : forall rt tc e te v r,
  1 <= iw rt -> 1 <= iw tc -> in_ty rt r = true -> ceval e = Some (te, v) -> conv tc v = conv rt v ->
  c_test (kind_of rt) (Sent (VInt (conv rt v)) false) (VInt r) = fires (Some tc) rt e r.
Proof. exact c_test_is_emitted_test. Qed.
Print Assumptions C32_value_test_is_model_test.

(* composition: callee epilogue + the emitted text at the call site = the documented outcome, for every
   integer return type, constant, except v / except? v, flavour, caller context, body and value *)
Theorem C32_value_faithful : forall rt tc e te v ck fl cn b st,
  1 <= iw rt -> 1 <= iw tc -> ceval e = Some (te, v) -> conv tc v = conv rt v ->
  chk_plus ck = false ->
  let fsp := {| ev := Some (Sent (VInt (conv rt v)) false); ec := ck |} in
  cython_body b = true -> body_val_okb (kind_of rt) b = true ->
  ctx_okb fl cn = true -> clean cn st -> contract_okb fsp (kind_of rt) b = true ->
  observe_value (Some tc) rt e ck fl cn b st = Some (documented fsp (kind_of rt) b st).
Proof. exact value_faithful. Qed.
Print Assumptions C32_value_faithful.

(* without the hypothesis conv tc v = conv rt v the statement is false: a raised exception is hidden *)
Theorem C32_value_cast_const_hides_exception_refuted :
  exists rt tc e ck fl cn ex st o,
    clean cn st /\ ctx_okb fl cn = true /\
    observe_value (Some tc) rt e ck fl cn (Raise ex) st = Some o /\
    o_err o = false /\ pending (o_st o) = Some ex.
Proof. exact cast_const_hides_exception. Qed.
Print Assumptions C32_value_cast_const_hides_exception_refuted.

Theorem C32_value_nocast_hides_exception_refuted :
  exists rt e ck fl cn ex st o,
    clean cn st /\ ctx_okb fl cn = true /\
    observe_value None rt e ck fl cn (Raise ex) st = Some o /\
    o_err o = false /\ pending (o_st o) = Some ex.
Proof. exact nocast_hides_exception. Qed.
Print Assumptions C32_value_nocast_hides_exception_refuted.

(* floating return types; V = C doubles, feq = C ==, to_f32 = rounding to float (any functions): with the
   cast to the return type the stored error value always satisfies the test (NaN included); with the cast
   to double (the code as it is for a float function and a non-NaN constant) iff rounding keeps the constant *)
Theorem C32_float_cast_ret_self : forall (V : Type) (feq : V -> V -> bool) (to_f32 : V -> V) rt c,
  float_test V feq to_f32 true (Some rt) c (float_stored V to_f32 rt c) = true.
Proof. exact float_cast_ret_self. Qed.
Print Assumptions C32_float_cast_ret_self.

Theorem C32_float_cast_const_self : forall (V : Type) (feq : V -> V -> bool) (to_f32 : V -> V) m c,
  feq c c = true ->
  float_test V feq to_f32 m (Some F64) c (float_stored V to_f32 F32 c) = feq (to_f32 c) c.
Proof. exact float_cast_const_self. Qed.
Print Assumptions C32_float_cast_const_self.

Example C32_nonvacuous :
  let sp := {| ev := Some (Sent (VDbl DNaN) true); ec := ChkYes |} in
  let st := {| pending := None; unraisable := []; gil := false; viol := O |} in
  wf_specb sp KFloat = true /\ ctx_okb FNogil true = true /\ clean true st /\
  contract_okb sp KFloat (Return (VDbl DNaN)) = true /\ c_test KFloat (Sent (VDbl DNaN) true) (VDbl DNaN) = true /\
  o_err (observe sp KFloat FNogil true (Return (VDbl DNaN)) st) = false /\
  o_err (observe sp KFloat FNogil true (Raise 7) st) = true /\
  unraisable (o_st (observe {| ev := None; ec := ChkNo |} KStruct FNogil true (Raise 7) st)) = [7] /\
  decl_rows <> [].
Proof. unfold clean. vm_compute. intuition congruence. Qed.
