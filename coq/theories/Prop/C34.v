(* C34 - fused functions dispatch to the matching specialisation.
   Only statements; proofs live in Proof/P_Fused.v.  Model: Model/M_Fused.v. *)
From Coq Require Import ZArith List Bool Permutation.
From CyVerif Require Import Model.M_Fused Proof.P_Fused.
Import ListNotations.
Open Scope Z_scope.

(* the member order used by the dispatcher (list.sort with the partial __lt__ of PyrexTypes)
   is a rearrangement of the declared members, for any comparison function *)
Theorem C34_sort_permutation : forall (lt : ctype -> ctype -> bool) ms, Permutation (pysort lt ms) ms.
Proof. exact (@pysort_perm ctype). Qed.
Print Assumptions C34_sort_permutation.

(* the binary search of the sort model never runs out of fuel *)
Theorem C34_sort_fuel : forall (lt : ctype -> ctype -> bool) x a f1 f2 l r,
  (r - l < f1)%nat -> (r - l < f2)%nat -> bsearch lt f1 x a l r = bsearch lt f2 x a l r.
Proof. exact (@bsearch_fuel ctype). Qed.
Print Assumptions C34_sort_fuel.

(* the generated type mapper, for every member list, argument tag, id order and both fast
   path variants: first member in the preference order (duplicates of a py_type_name and
   object skipped) that the argument is an instance of; else the buffer tests over the
   memoryview members; else the object fallback; else None *)
Theorem C34_mapper_decision : forall fx idlt ms a,
  map_fused fx idlt ms a = map_spec fx (pysort (ty_lt idlt) ms) a.
Proof. exact map_fused_spec. Qed.
Print Assumptions C34_mapper_decision.

(* a selected member belongs to the fused type and its C type takes the argument (by type
   tag), provided the numpy fast path is repaired or cannot select a member that the full
   buffer check rejects *)
Theorem C34_selected_member_compatible : forall fx idlt ms a t,
  map_fused fx idlt ms a = Some t -> (fx = true \/ contig_safe ms a) -> In t ms /\ conv t a = COk.
Proof. exact map_fused_sound. Qed.
Print Assumptions C34_selected_member_compatible.

(* all declarations, all argument tuples: a returned signature is a signature of the function;
   for every fused type whose examined argument was mapped, the signature holds exactly that
   member and the member accepts the argument *)
Theorem C34_dispatch_sound : forall fx idlt d args sig,
  dispatch_cy fx idlt d args = Spec sig ->
  (fx = true \/ forall ft a, In ft (ftypes d) -> nth_error args (fpos ft) = Some a -> contig_safe (members ft) a) ->
  Forall2 (fun ft t => In t (members ft) /\
             exists a, nth_error args (fpos ft) = Some a /\
               (map_fused fx idlt (members ft) a = Some t /\ conv t a = COk \/
                map_fused fx idlt (members ft) a = None)) (ftypes d) sig.
Proof. exact dispatch_sound. Qed.
Print Assumptions C34_dispatch_sound.

(* parameters sharing a fused type always get the same member *)
Theorem C34_same_fused_type_same_member : forall sig d i j,
  nth_error (params d) i = nth_error (params d) j -> param_type sig d i = param_type sig d j.
Proof. exact same_fused_same_member. Qed.
Print Assumptions C34_same_fused_type_same_member.

(* FULL STATEMENT (false on the tree, see the refuted lemmas below):
     forall idlt ms a, doc_ok ms a (map_fused false idlt ms a).
   Proved part: it holds whenever the preference list keeps each py_type_name group in rank
   order, has no exact match behind a base-class match, and the numpy fast path cannot pick
   a member the full check rejects (three decidable conditions).  Missing: a
   characterisation of the declarations for which list.sort with the partial __lt__ yields
   such a list (numeric lists mixing complex or unsigned types do not). *)
Theorem C34_dispatch_documented_partial : forall fx idlt ms a,
  group_sortedb (pysort (ty_lt idlt) ms) = true ->
  exact_firstb (pysort (ty_lt idlt) ms) a = true ->
  fx || contig_safeb ms a = true ->
  doc_ok ms a (map_fused fx idlt ms a).
Proof. exact map_fused_documented_b. Qed.
Print Assumptions C34_dispatch_documented_partial.

(* member lists without numeric types (and not mixing memoryviews with others) keep their
   declared order, so the conditions above speak about the declaration itself *)
Theorem C34_unordered_members_keep_order : forall idlt ms,
  (forall t, In t ms -> match t with TNum _ => False | _ => True end) ->
  (forall t, In t ms -> is_mem t = true -> forall u, In u ms -> is_mem u = true) ->
  pysort (ty_lt idlt) ms = ms.
Proof. exact ty_lt_unordered. Qed.
Print Assumptions C34_unordered_members_keep_order.

(* explicit indexing: func[idx] is a signature whose key is exactly the index, KeyError
   exactly when there is none *)
Theorem C34_index_exact : forall (K : Type) (keq : K -> K -> bool) (name : ctype -> K) sigs idx,
  (forall x y, keq x y = true <-> x = y) ->
  match getitem keq name sigs idx with
  | IFound s => In s sigs /\ map name s = idx
  | IKeyError => forall s, In s sigs -> map name s <> idx
  end.
Proof. exact (@getitem_exact). Qed.
Print Assumptions C34_index_exact.

(* findings: the unchanged dispatcher against the documented rules *)
Theorem C34_biggest_int_refuted :
  exists ms a t, map_fused false idlt0 ms a = Some t /\ ~ doc_ok ms a (Some t).
Proof.
  exists [t_short; t_dcomplex; t_long], AInt, t_short.
  destruct refuted_numeric_order as [H1 [_ H3]]. now split.
Qed.
Print Assumptions C34_biggest_int_refuted.

Theorem C34_unsigned_refuted : map_fused false idlt0 [t_short; t_ulong] AInt = Some t_short /\
                               doc_choice [t_short; t_ulong] AInt = Some t_ulong.
Proof. exact refuted_unsigned. Qed.
Print Assumptions C34_unsigned_refuted.

Theorem C34_bool_exact_match_refuted : map_fused false idlt0 [t_bint; t_long] ABool = Some t_long /\
                                       doc_choice [t_bint; t_long] ABool = Some t_bint.
Proof. exact refuted_bool. Qed.
Print Assumptions C34_bool_exact_match_refuted.

Theorem C34_subclass_exact_match_refuted :
  map_fused false idlt0 [TExt 0; TExt 1] (AInst [1; 0]%nat) = Some (TExt 0) /\
  doc_choice [TExt 0; TExt 1] (AInst [1; 0]%nat) = Some (TExt 1).
Proof. exact refuted_ext. Qed.
Print Assumptions C34_subclass_exact_match_refuted.

Theorem C34_fastpath_contiguity_refuted :
  call_cy false idlt0 d_mem [a_strided] = ValueErr /\
  doc_call d_mem [a_strided] = Ran [TMem (NInt 6 1) 1 MStrided] /\
  call_cy true idlt0 d_mem [a_strided] = Ran [TMem (NInt 6 1) 1 MStrided].
Proof. exact refuted_fastpath. Qed.
Print Assumptions C34_fastpath_contiguity_refuted.

Theorem C34_single_member_wildcard_refuted :
  map_fused false idlt0 [t_double] AInt = None /\
  dispatch_cy false idlt0 d_single [AInt; AFloat] = Spec [t_double; t_double] /\
  doc_call d_single [AInt; AFloat] = TypeErr.
Proof. exact refuted_wildcard. Qed.
Print Assumptions C34_single_member_wildcard_refuted.

(* non-vacuity: cython.numeric meets the three conditions for a bool argument and the
   documented choice (long, the biggest int type) comes out *)
Example C34_nonvacuous :
  let ms := [t_short; t_int; t_long; TNum (NFloat 10); t_double; TNum (NComplex 10); t_dcomplex] in
  group_sortedb (pysort (ty_lt idlt0) ms) = true /\ exact_firstb (pysort (ty_lt idlt0) ms) ABool = true /\
  false || contig_safeb ms ABool = true /\ map_fused false idlt0 ms ABool = Some t_long /\
  dispatch_cy false idlt0 {| ftypes := [{| members := ms; fpos := 0 |}]; params := [0%nat; 0%nat] |} [ABool; AFloat]
    = Spec [t_long].
Proof. vm_compute. repeat split; reflexivity. Qed.
