(* C34 - fused functions dispatch to the matching specialisation.
   Only statements; proofs live in Proof/P_Fused.v.  Model: Model/M_Fused.v. *)
From Coq Require Import ZArith List Bool Permutation.
From CyVerif Require Import Model.M_Fused Proof.P_Fused Model.M_FusedArgs Proof.P_FusedArgs.
Import ListNotations.
Open Scope Z_scope.

(* the member order used by the dispatcher (list.sort with the partial __lt__ of PyrexTypes)
   is a rearrangement of the declared members, for any comparison function *)
Theorem C34_sort_permutation : forall (lt : ctype -> ctype -> bool) ms, Permutation (pysort lt ms) ms.
Proof. exact (@pysort_perm ctype). Qed.
Print Assumptions C34_sort_permutation.

(* the binary search of the sort model never runs out of fuel *)
Theorem C34_sort_fuel : forall (lt : ctype -> ctype -> bool) x a f1 f2 l r,
  (r - l < f1)%nat -> (r - l < f2)%nat -> bsearch lt f1 x a l r = bsearch lt f2 x a l r.
Proof. exact (@bsearch_fuel ctype). Qed.
Print Assumptions C34_sort_fuel.

(* the generated type mapper, for every member list, argument tag, id order and both fast
   path variants: first member in the preference order (duplicates of a py_type_name and
   object skipped) that the argument is an instance of; else the buffer tests over the
   memoryview members; else the object fallback; else None *)
Theorem C34_mapper_decision : forall fx idlt ms a,
  map_fused fx idlt ms a = map_spec fx (pysort (ty_lt idlt) ms) a.
Proof. exact map_fused_spec. Qed.
Print Assumptions C34_mapper_decision.

(* a selected member belongs to the fused type and its C type takes the argument (by type
   tag), provided the numpy fast path is repaired or cannot select a member that the full
   buffer check rejects *)
Theorem C34_selected_member_compatible : forall fx idlt ms a t,
  map_fused fx idlt ms a = Some t -> (fx = true \/ contig_safe ms a) -> In t ms /\ conv t a = COk.
Proof. exact map_fused_sound. Qed.
Print Assumptions C34_selected_member_compatible.

(* all declarations, all argument tuples: a returned signature is a signature of the function;
   for every fused type whose examined argument was mapped, the signature holds exactly that
   member and the member accepts the argument *)
Theorem C34_dispatch_sound : forall fx idlt d args sig,
  dispatch_cy fx idlt d args = Spec sig ->
  (fx = true \/ forall ft a, In ft (ftypes d) -> nth_error args (fpos ft) = Some a -> contig_safe (members ft) a) ->
  Forall2 (fun ft t => In t (members ft) /\
             exists a, nth_error args (fpos ft) = Some a /\
               (map_fused fx idlt (members ft) a = Some t /\ conv t a = COk \/
                map_fused fx idlt (members ft) a = None)) (ftypes d) sig.
Proof. exact dispatch_sound. Qed.
Print Assumptions C34_dispatch_sound.

(* parameters sharing a fused type always get the same member *)
Theorem C34_same_fused_type_same_member : forall sig d i j,
  nth_error (params d) i = nth_error (params d) j -> param_type sig d i = param_type sig d j.
Proof. exact same_fused_same_member. Qed.
Print Assumptions C34_same_fused_type_same_member.

(* FULL STATEMENT (false on the tree, see the refuted lemmas below):
     forall idlt ms a, doc_ok ms a (map_fused false idlt ms a).
   Proved part: it holds whenever the preference list keeps each py_type_name group in rank
   order, has no exact match behind a base-class match, and the numpy fast path cannot pick
   a member the full check rejects (three decidable conditions).  Missing: a
   characterisation of the declarations for which list.sort with the partial __lt__ yields
   such a list (numeric lists mixing complex or unsigned types do not). *)
Theorem C34_dispatch_documented_partial : forall fx idlt ms a,
  group_sortedb (pysort (ty_lt idlt) ms) = true ->
  exact_firstb (pysort (ty_lt idlt) ms) a = true ->
  fx || contig_safeb ms a = true ->
  doc_ok ms a (map_fused fx idlt ms a).
Proof. exact map_fused_documented_b. Qed.
Print Assumptions C34_dispatch_documented_partial.

(* member lists without numeric types (and not mixing memoryviews with others) keep their
   declared order, so the conditions above speak about the declaration itself *)
Theorem C34_unordered_members_keep_order : forall idlt ms,
  (forall t, In t ms -> match t with TNum _ => False | _ => True end) ->
  (forall t, In t ms -> is_mem t = true -> forall u, In u ms -> is_mem u = true) ->
  pysort (ty_lt idlt) ms = ms.
Proof. exact ty_lt_unordered. Qed.
Print Assumptions C34_unordered_members_keep_order.

(* explicit indexing: func[idx] is a signature whose key is exactly the index, KeyError
   exactly when there is none *)
Theorem C34_index_exact : forall (K : Type) (keq : K -> K -> bool) (name : ctype -> K) sigs idx,
  (forall x y, keq x y = true <-> x = y) ->
  match getitem keq name sigs idx with
  | IFound s => In s sigs /\ map name s = idx
  | IKeyError => forall s, In s sigs -> map name s <> idx
  end.
Proof. exact (@getitem_exact). Qed.
Print Assumptions C34_index_exact.

(* findings: the unchanged dispatcher against the documented rules *)
Theorem C34_biggest_int_refuted :
  exists ms a t, map_fused false idlt0 ms a = Some t /\ ~ doc_ok ms a (Some t).
Proof.
  exists [t_short; t_dcomplex; t_long], AInt, t_short.
  destruct refuted_numeric_order as [H1 [_ H3]]. now split.
Qed.
Print Assumptions C34_biggest_int_refuted.

Theorem C34_unsigned_refuted : map_fused false idlt0 [t_short; t_ulong] AInt = Some t_short /\
                               doc_choice [t_short; t_ulong] AInt = Some t_ulong.
Proof. exact refuted_unsigned. Qed.
Print Assumptions C34_unsigned_refuted.

Theorem C34_bool_exact_match_refuted : map_fused false idlt0 [t_bint; t_long] ABool = Some t_long /\
                                       doc_choice [t_bint; t_long] ABool = Some t_bint.
Proof. exact refuted_bool. Qed.
Print Assumptions C34_bool_exact_match_refuted.

Theorem C34_subclass_exact_match_refuted :
  map_fused false idlt0 [TExt 0; TExt 1] (AInst [1; 0]%nat) = Some (TExt 0) /\
  doc_choice [TExt 0; TExt 1] (AInst [1; 0]%nat) = Some (TExt 1).
Proof. exact refuted_ext. Qed.
Print Assumptions C34_subclass_exact_match_refuted.

Theorem C34_fastpath_contiguity_refuted :
  call_cy false idlt0 d_mem [a_strided] = ValueErr /\
  doc_call d_mem [a_strided] = Ran [TMem (NInt 6 1) 1 MStrided] /\
  call_cy true idlt0 d_mem [a_strided] = Ran [TMem (NInt 6 1) 1 MStrided].
Proof. exact refuted_fastpath. Qed.
Print Assumptions C34_fastpath_contiguity_refuted.

Theorem C34_single_member_wildcard_refuted :
  map_fused false idlt0 [t_double] AInt = None /\
  dispatch_cy false idlt0 d_single [AInt; AFloat] = Spec [t_double; t_double] /\
  doc_call d_single [AInt; AFloat] = TypeErr.
Proof. exact refuted_wildcard. Qed.
Print Assumptions C34_single_member_wildcard_refuted.

(* ---------- how the dispatcher obtains the dispatched-on value (make_fused_cpdef loop +
   _unpack_argument; Model/M_FusedArgs.v).  Signatures: any list of parameters (fused or not,
   positional-only / positional-or-keyword / keyword-only, with or without default, any number of
   fused types used any number of times) + *args / **kwargs; calls: any positional list and
   keyword dict.  [wf_sig]: keyword-only parameters last, distinct names (the grammar). ---------- *)

(* each generated block reads the first parameter of its fused type, under its own index and
   name, and the defaults-tuple slot "number of earlier parameters with a default" *)
Theorem C34_unpack_blocks : forall (V : Type) (s : fsig V) pl,
  In pl (plans true s) ->
  exists p, nth_error (s_params s) (pl_idx pl) = Some p /\ pl_name pl = p_name p /\ pl_kind pl = p_kind p /\
            p_fused p = Some (pl_ft pl) /\
            pl_def pl = (if has_default p
                         then Some (length (defaults_tuple (firstn (pl_idx pl) (s_params s)))) else None).
Proof. exact plans_spec. Qed.
Print Assumptions C34_unpack_blocks.

(* FULL STATEMENT (false on the tree for kinds_fix = false, see the two refuted lemmas below):
     forall s args kwargs vals pl, wf_sig s -> bind_py s args kwargs = Some vals -> In pl (plans true s) ->
       run_plan false pl ... = FVal (the value CPython binds to parameter pl_idx).
   Proved: it holds for the repaired block (kinds_fix = true) on every signature and call, and for
   the block as it is on every call outside the two finding classes ([hazard_free]: a
   keyword-only dispatched parameter while surplus positionals reach its index; a
   positional-only one whose name is a **kwargs key). *)
Theorem C34_fetched_value_is_bound_value : forall (V : Type) kinds_fix (s : fsig V) args kwargs vals pl,
  wf_sig s = true ->
  bind_py s args kwargs = Some vals ->
  In pl (plans true s) ->
  kinds_fix = true \/ hazard_free pl args kwargs = true ->
  exists v, nth_error vals (pl_idx pl) = Some v /\
            run_plan kinds_fix pl args kwargs (defaults_tuple (s_params s)) = FVal v.
Proof. exact fetch_bound. Qed.
Print Assumptions C34_fetched_value_is_bound_value.

(* consequently the whole call (fetch, type mapping, signature matching, call of the selected
   specialisation) is the all-positional dispatcher of the theorems above applied to the values
   CPython binds to the fused parameters ... *)
Theorem C34_call_reduces_to_bound_values :
  forall (V : Type) (tag_of : V -> atag) kinds_fix fastfix idlt mss (s : fsig V) args kwargs vals,
  wf_sig s = true ->
  bind_py s args kwargs = Some vals ->
  kinds_fix = true \/ forallb (fun pl => hazard_free pl args kwargs) (plans true s) = true ->
  call2_cy tag_of true kinds_fix fastfix idlt mss s args kwargs =
  call_cy fastfix idlt (decl_of mss s) (fused_vals tag_of (s_params s) vals).
Proof. exact call2_reduces. Qed.
Print Assumptions C34_call_reduces_to_bound_values.

(* ... and a call that CPython's binding rejects never runs a specialisation *)
Theorem C34_unbindable_call_raises :
  forall (V : Type) (tag_of : V -> atag) ca kinds_fix fastfix idlt mss (s : fsig V) args kwargs sg,
  bind_py s args kwargs = None -> call2_cy tag_of ca kinds_fix fastfix idlt mss s args kwargs <> Ran sg.
Proof. exact call2_bind_error. Qed.
Print Assumptions C34_unbindable_call_raises.

(* the loop variant that counts only the defaults of dispatch-relevant parameters is wrong:
   f(tag = 7, num_t x = 3) called as f() hands the dispatcher tag's default *)
Theorem C34_count_relevant_defaults_only_refuted :
  wf_sig s_seed = true /\ bind_py s_seed [] [] = Some [7; 3]%nat /\
  (exists pl, plans false s_seed = [pl] /\ hazard_free pl (@nil nat) [] = true /\
              run_plan true pl [] [] (defaults_tuple (s_params s_seed)) = FVal 7%nat) /\
  (exists pl, plans true s_seed = [pl] /\ run_plan true pl [] [] (defaults_tuple (s_params s_seed)) = FVal 3%nat).
Proof. exact count_relevant_only_refuted. Qed.
Print Assumptions C34_count_relevant_defaults_only_refuted.

(* findings: f( *args, num_t x = 3) called as f(5) dispatches on 5; f(num_t x = 3, /, **kw) called
   as f(x = 5) dispatches on 5; the bound value is 3 in both; the repaired block fetches 3 *)
Theorem C34_kwonly_read_from_star_args_refuted :
  wf_sig s_kwonly = true /\ bind_py s_kwonly [5]%nat [] = Some [3]%nat /\
  exists pl, plans true s_kwonly = [pl] /\
             run_plan false pl [5]%nat [] (defaults_tuple (s_params s_kwonly)) = FVal 5%nat /\
             run_plan true pl [5]%nat [] (defaults_tuple (s_params s_kwonly)) = FVal 3%nat.
Proof. exact kwonly_from_star_args_refuted. Qed.
Print Assumptions C34_kwonly_read_from_star_args_refuted.

Theorem C34_posonly_read_from_kwargs_refuted :
  wf_sig s_posonly = true /\ bind_py s_posonly [] [(0, 5)]%nat = Some [3]%nat /\
  exists pl, plans true s_posonly = [pl] /\
             run_plan false pl [] [(0, 5)]%nat (defaults_tuple (s_params s_posonly)) = FVal 5%nat /\
             run_plan true pl [] [(0, 5)]%nat (defaults_tuple (s_params s_posonly)) = FVal 3%nat.
Proof. exact posonly_from_kwargs_refuted. Qed.
Print Assumptions C34_posonly_read_from_kwargs_refuted.

(* non-vacuity of the fetch theorem: def f(a, b = 8, *args, num_t x = 3, **kw) called as f(1, x = 4)
   binds (1, 8, 4); the only block fetches 4 from the keyword dict *)
Example C34_fetch_nonvacuous :
  let s := mkSig [mkParam 0 KPosKw None None; mkParam 1 KPosKw None (Some 8); mkParam 2 KKwOnly (Some 0) (Some 3)]%nat true true in
  wf_sig s = true /\ bind_py s [1]%nat [(2, 4)]%nat = Some [1; 8; 4]%nat /\
  exists pl, plans true s = [pl] /\ hazard_free pl [1]%nat [(2, 4)]%nat = true /\
             run_plan false pl [1]%nat [(2, 4)]%nat (defaults_tuple (s_params s)) = FVal 4%nat.
Proof. vm_compute. repeat split. eexists. repeat split. Qed.

(* non-vacuity: cython.numeric meets the three conditions for a bool argument and the
   documented choice (long, the biggest int type) comes out *)
Example C34_nonvacuous :
  let ms := [t_short; t_int; t_long; TNum (NFloat 10); t_double; TNum (NComplex 10); t_dcomplex] in
  group_sortedb (pysort (ty_lt idlt0) ms) = true /\ exact_firstb (pysort (ty_lt idlt0) ms) ABool = true /\
  false || contig_safeb ms ABool = true /\ map_fused false idlt0 ms ABool = Some t_long /\
  dispatch_cy false idlt0 {| ftypes := [{| members := ms; fpos := 0 |}]; params := [0%nat; 0%nat] |} [ABool; AFloat]
    = Spec [t_long].
Proof. vm_compute. repeat split; reflexivity. Qed.
