(* C25 -- compiled functions report faithful names and signatures: the expression printer
   behind embedded signatures and the qualified-name transform.
   Second part (below): the code object behind inspect.signature() - the module-wide bit-field
   struct of code-object descriptions and inspect._signature_from_function.
   Third part (end): the layout of the embedded parameter list (EmbedSignature._fmt_arglist).
   Only statements; proofs live in Proof/P_ExprPrint.v, Proof/P_ExprPrint_Read.v, Proof/P_CodeDescr.v,
   Proof/P_ArgList.v. *)
From Coq Require Import List NArith ZArith Bool Arith.
From CyVerif Require Import Lib.CInt Model.M_ExprPrint Proof.P_ExprPrint Proof.P_ExprPrint_Read.
From CyVerif Require Import Model.M_CodeDescr Proof.P_CodeDescr.
Import ListNotations.
Open Scope nat_scope.

(* FULL STATEMENT (DESIGN: print_unambiguous), false for the printer as it is:
     forall e, wf e = true -> exists fuel0, forall fuel, fuel0 <= fuel ->
       reparse fuel (print false e) = RExpr e.
   Proved for the repaired printer (proposed_fixes/C25-expression_writer_parenthesisation.diff):
   every well-formed default-value tree is read back from its printed token list by the
   grammar reader, with any sufficient fuel (out-of-fuel is the explicit result ROutOfFuel). *)
Theorem C25_print_unambiguous_fixed : forall e, wf e = true ->
  exists fuel0, forall fuel, fuel0 <= fuel -> reparse fuel (print true e) = RExpr e.
Proof. exact print_unambiguous_fixed. Qed.
Print Assumptions C25_print_unambiguous_fixed.

(* ... also as an operand at any grammar level L, followed by anything that cannot continue it *)
Theorem C25_print_unambiguous_fixed_ctx : forall e L rest, wf e = true -> L <= 13 -> stops L rest ->
  exists fuel0, forall fuel, fuel0 <= fuel -> parse fuel L (pr_new L e ++ rest) = Ok e rest.
Proof. exact print_unambiguous_fixed_ctx. Qed.
Print Assumptions C25_print_unambiguous_fixed_ctx.

(* finding F22: the printer as it is changes or destroys the expression; one computed witness
   per class: a - (b - c), (a ** b) ** c, a / (b * c), (a if b else c) + 1, a < b < c,
   (a < b) < c, lambda q: q, (a,), (a + b).c, (-1) ** a, [a] * b (printed [a, b]) *)
Theorem C25_print_unambiguous_refuted :
  bad w_sub /\ bad w_pow /\ bad w_divmul /\ bad w_cond /\ bad w_casc /\ bad w_cmpcmp /\
  bad w_lam /\ bad w_tup /\ bad w_attr /\ bad w_negpow /\ bad w_seqmul.
Proof. exact old_refuted. Qed.
Print Assumptions C25_print_unambiguous_refuted.

Theorem C25_old_condexpr_text_does_not_parse :
  reparse 1000 (print false (ECond na (ECond nb nc na) nb)) = RError.
Proof. exact old_cond_syntax_error. Qed.
Print Assumptions C25_old_condexpr_text_does_not_parse.

(* the table dumped from the running code (Gen/Gen_Prec.v) is Python's documented precedence *)
Theorem C25_prec_table_is_pythons :
  (forall o, prec_bin o = py_level_bin o) /\ (forall o, prec_cmp o = 4) /\ (forall o, prec_un o = 11) /\
  prec_bool LOr = 1 /\ prec_bool LAnd = 2 /\ prec_not = 3.
Proof. exact prec_table_is_pythons. Qed.
Print Assumptions C25_prec_table_is_pythons.

(* qualified names: the repaired transform assigns to every def / class / lambda of every
   scope forest exactly the name of the language rule (CPython compiler_set_qualname) *)
Theorem C25_qualname_eq_fixed : forall l, swfs false l = true -> cy_module true l = rule_module l.
Proof. exact qualname_eq_fixed. Qed.
Print Assumptions C25_qualname_eq_fixed.

(* the transform as it is: right on every forest without a def under a global declaration ... *)
Theorem C25_qualname_eq_partial : forall l, swfs false l = true -> no_glob_defs l = true ->
  cy_module false l = rule_module l.
Proof. exact qualname_eq_old_partial. Qed.
Print Assumptions C25_qualname_eq_partial.

(* ... and wrong on  def o(): global g; def g(): def h(): ...  *)
Theorem C25_qualname_eq_refuted : swfs false w_scopes = true /\ cy_module false w_scopes <> rule_module w_scopes.
Proof. exact qualname_old_refuted. Qed.
Print Assumptions C25_qualname_eq_refuted.

(* non-vacuity: a well-formed tree with every kind of node that needed care, read back *)
Example C25_nonvacuous :
  let e := ECond (EBin BSub na (EBin BSub nb (ENum KInt true [49%N])))
                 (ECmp na CLt nb (CCons CIsNot (ENot nc) CNil))
                 (ELambda [[113%N]] (ETuple (ECons (EAttr (EBin BPow (EUn UNeg na) nb) [99%N]) ENil))) in
  wf e = true /\ reparse 400 (print true e) = RExpr e /\
  swfs false w_scopes = true /\ cy_module true w_scopes = rule_module w_scopes.
Proof. vm_compute. repeat split; reflexivity. Qed.

(* ------------------------------------------------------------------------------------------ *)
(* the code object: Code.py generate_codeobject_constants / ExprNodes.py CodeObjectNode /       *)
(* ModuleSetupCode.c __Pyx_PyCode_New / inspect._signature_from_function (Model/M_CodeDescr.v)  *)
(* ------------------------------------------------------------------------------------------ *)
Open Scope Z_scope.

(* for every module (list of functions of every kind that gets a code object: def, generator,
   coroutine, async generator, generator expression) and every function in it, the six numbers
   written into the description initialiser are unchanged by the module's bit-field struct, whose
   widths are the bit lengths of the module-wide maxima (generator expressions left out of the
   three argument maxima only) *)
Theorem C25_descr_survives : forall fs f, In f fs -> wf_src f = true ->
  store (widths skip_genexpr fs) (emitted f) = emitted f.
Proof. exact descr_survives. Qed.
Print Assumptions C25_descr_survives.

(* ... for every choice of what is left out, as long as only generator expressions are *)
Theorem C25_descr_survives_any_skip : forall skip fs f, (forall k, skip k = true -> k = KGenExpr) ->
  In f fs -> wf_src f = true -> store (widths skip fs) (emitted f) = emitted f.
Proof. exact descr_survives_gen. Qed.
Print Assumptions C25_descr_survives_any_skip.

(* bit-fields laid out one after the other: reading them back gives each value mod 2^width,
   for all widths and values *)
Theorem C25_pack_unpack : forall ws vs, length ws = length vs -> Forall (fun w => 0 <= w) ws ->
  unpack ws (pack ws vs) = map (fun wv => store_field (fst wv) (snd wv)) (combine ws vs).
Proof. exact pack_unpack. Qed.
Print Assumptions C25_pack_unpack.

Theorem C25_packed_descr_survives : forall fs f, In f fs -> wf_src f = true ->
  unpack (fields (widths skip_genexpr fs)) (pack (fields (widths skip_genexpr fs)) (fields (emitted f)))
  = fields (emitted f).
Proof. exact packed_descr_survives. Qed.
Print Assumptions C25_packed_descr_survives.

(* the struct is not wider than needed: a w-bit argcount field (w > 1) holds a w-bit value *)
Theorem C25_widths_tight_argcount : forall fs, 1 < d_argcount (widths skip_genexpr fs) ->
  exists f, In f fs /\ 2 ^ (d_argcount (widths skip_genexpr fs) - 1) <= d_argcount (emitted f).
Proof. exact widths_tight_argcount. Qed.
Print Assumptions C25_widths_tight_argcount.

(* the code object of every function carries the declared counts, flags, line and names *)
Theorem C25_code_counts_faithful : forall fs f, In f fs -> wf_src f = true -> s_kind f <> KGenExpr ->
  let c := code_of skip_genexpr fs f in
  co_argcount c = zlen (s_po f) + zlen (s_pk f) /\ co_posonlyargcount c = zlen (s_po f) /\
  co_kwonlyargcount c = zlen (s_ko f) /\ co_flags c = flags_of f /\ co_firstlineno c = s_line f /\
  co_varnames c = varnames f.
Proof. exact code_counts_faithful. Qed.
Print Assumptions C25_code_counts_faithful.

(* THE PROPERTY for this region: inspect.signature() (as computed by _signature_from_function from
   __code__, __defaults__, __kwdefaults__) of every function of every module lists exactly the
   declared parameters - names, kinds and default values - whatever else the module contains.
   wf_src = what the parser accepts: defaults on a suffix of the positional parameters, distinct
   keyword-only names; SigError (an IndexError inside inspect) is an explicit result. *)
Theorem C25_signature_faithful : forall fs f, In f fs -> wf_src f = true -> s_kind f <> KGenExpr ->
  compiled_sig skip_genexpr fs f = SigOk (source_sig f).
Proof. exact signature_faithful. Qed.
Print Assumptions C25_signature_faithful.

(* the variant "if not def_node.is_generator" (generators, coroutines and async generators left
   out of the maxima) loses parameters:  def plain(a, b=1)  next to
   def gen(a, b, c=3, d=4, *, key=5, flag=6, **kw): yield *)
Theorem C25_skip_generators_refuted :
  In w_gen w_module /\ wf_src w_gen = true /\ wf_src w_plain = true /\
  survives skip_generators w_module w_gen = false /\
  compiled_sig skip_generators w_module w_gen <> SigOk (source_sig w_gen) /\
  compiled_sig skip_genexpr w_module w_gen = SigOk (source_sig w_gen).
Proof. exact skip_generators_refuted. Qed.
Print Assumptions C25_skip_generators_refuted.

Example C25_codedescr_nonvacuous :
  wf_src w_gen = true /\ s_kind w_gen <> KGenExpr /\ In w_gen w_module /\
  fields (widths skip_genexpr w_module) = [3; 1; 2; 3; 10; 3] /\
  fields (emitted w_gen) = [4; 0; 2; 7; 43; 6] /\
  compiled_sig skip_genexpr w_module w_gen =
    SigOk [(1%N, PosOrKw, None); (2%N, PosOrKw, None); (3%N, PosOrKw, Some 3%N); (4%N, PosOrKw, Some 4%N);
           (5%N, KwOnly, Some 5%N); (6%N, KwOnly, Some 6%N); (7%N, VarKw, None)].
Proof. vm_compute. repeat split; try reflexivity. discriminate. right; left; reflexivity. Qed.

(* ======================================================================================
   Third part: the LAYOUT of the embedded parameter list (AutoDocTransforms.py,
   EmbedSignature._fmt_arglist): which formatted argument goes where, and where the markers
   '/', '*', '*args', '**kwargs' are inserted.  Model/M_ArgList.v, Proof/P_ArgList.v.
   The formatted text of one argument (A) is abstract: its default-value part is the subject
   of the first part. *)
From CyVerif Require Import Model.M_ArgList Proof.P_ArgList.
Open Scope nat_scope.

(* THE PROPERTY for this region: for EVERY source signature (any number of positional-only,
   positional-or-keyword and keyword-only parameters, with or without *args / **kwargs) the list
   _fmt_arglist returns is the canonical rendering - '/' right after the last positional-only
   parameter, '*args' or (with keyword-only parameters and no *args) a bare '*' right in front of
   the keyword-only ones, '**kwargs' last - whenever no argument is hidden: def functions, methods,
   classmethods, staticmethods, cpdef functions, every embedsignature.format. *)
Theorem C25_arglist_canonical : forall (A : Type) (fx hs : bool) (s : sigsrc A),
  fmt_of StarThenSlash fx s hs = canon s.
Proof. exact arglist_canonical. Qed.
Print Assumptions C25_arglist_canonical.

(* methods: a listed self / cls argument is an ordinary first parameter *)
Theorem C25_arglist_visible_self_canonical : forall (A : Type) (fx : bool) (self : A) (s : sigsrc A),
  fmt_of_self StarThenSlash fx self true s false
    = canon {| s_po := self :: s_po s; s_pk := s_pk s; s_va := s_va s; s_ko := s_ko s; s_kw := s_kw s |}
  /\ (s_po s = [] ->
      fmt_of_self StarThenSlash fx self false s false
      = canon {| s_po := []; s_pk := self :: s_pk s; s_va := s_va s; s_ko := s_ko s; s_kw := s_kw s |}).
Proof. exact arglist_visible_self_canonical. Qed.
Print Assumptions C25_arglist_visible_self_canonical.

(* the canonical rendering is read back by the Python parameter-list grammar (one '/', not first,
   before any star; a bare '*' needs a parameter after it; '**' last; None = SyntaxError) as exactly
   the source parameters: names in order, kinds, *args and **kwargs *)
Theorem C25_canon_reads_back : forall (A : Type) (s : sigsrc A), read_sig (canon s) = Some s.
Proof. exact canon_reads_back. Qed.
Print Assumptions C25_canon_reads_back.

(* "the embedded signature text parses to the same parameter list", at the token level *)
Theorem C25_arglist_reads_back : forall (A : Type) (fx hs : bool) (s : sigsrc A),
  read_sig (fmt_of StarThenSlash fx s hs) = Some s.
Proof. exact arglist_reads_back. Qed.
Print Assumptions C25_arglist_reads_back.

(* FULL STATEMENT for a hidden self (format c shows __init__ of a class K as the constructor K(args)
   in the class docstring, hide_self=True), false for the code as it is:
     forall self self_po s, (self_po = false -> s_po s = []) ->
       fmt_of_self StarThenSlash false self self_po s true = canon s.
   Refuted (C25_hidden_self_asis_refuted: the hidden self still counts for the marker indices);
   proved for the repaired variant
   (proposed_fixes/C25-c_format_init_hidden_self_shifts_markers.diff) ... *)
Theorem C25_arglist_hidden_self_fixed : forall (A : Type) (self : A) (self_po : bool) (s : sigsrc A),
  (self_po = false -> s_po s = []) ->
  fmt_of_self StarThenSlash true self self_po s true = canon s /\
  read_sig (fmt_of_self StarThenSlash true self self_po s true) = Some s.
Proof.
  intros A self self_po s H. split.
  - exact (@arglist_hidden_self_fixed A self self_po s H).
  - exact (@arglist_hidden_self_fixed_reads_back A self self_po s H).
Qed.
Print Assumptions C25_arglist_hidden_self_fixed.

(* ... and for the code as it is on the complement of the finding class: self not positional-only
   and no keyword-only parameters *)
Theorem C25_arglist_hidden_self_asis_partial : forall (A : Type) (self : A) (s : sigsrc A),
  s_po s = [] -> s_ko s = [] ->
  fmt_of_self StarThenSlash false self false s true = canon s.
Proof. exact arglist_hidden_self_asis_partial. Qed.
Print Assumptions C25_arglist_hidden_self_asis_partial.

Theorem C25_hidden_self_asis_refuted :
  fmt_of_self StarThenSlash false 0 false w_init true = [TArg 1; TArg 2; TStar] /\
  read_sig (fmt_of_self StarThenSlash false 0 false w_init true) = None /\
  fmt_of_self StarThenSlash false 0 false w_init2 true = [TArg 1; TArg 2; TVarArgs 9] /\
  read_sig (fmt_of_self StarThenSlash false 0 false w_init2 true) <> Some w_init2 /\
  fmt_of_self StarThenSlash false 0 true
      {| s_po := []; s_pk := [1]; s_va := None; s_ko := []; s_kw := None |} true = [TArg 1; TSlash] /\
  fmt_of_self StarThenSlash true 0 false w_init true = canon w_init /\
  fmt_of_self StarThenSlash true 0 false w_init2 true = canon w_init2.
Proof. exact hidden_self_asis_refuted. Qed.
Print Assumptions C25_hidden_self_asis_refuted.

(* the variant that inserts '/' first and keeps the star index (computed for a list without '/'):
   def f(a, /, b, [star], c) is embedded as f(a, /, [star], b, c) and def h(a, b, /, [star], c) as
   the unparsable h(a, b, [star], /, c) *)
Theorem C25_slash_first_refuted :
  fmt_of SlashThenStar false w_seed false = [TArg 1; TSlash; TStar; TArg 2; TArg 3] /\
  fmt_of SlashThenStar false w_seed false <> canon w_seed /\
  read_sig (fmt_of SlashThenStar false w_seed false)
    = Some {| s_po := [1]; s_pk := []; s_va := None; s_ko := [2; 3]; s_kw := None |} /\
  fmt_of SlashThenStar false w_seed2 false = [TArg 1; TArg 2; TStar; TSlash; TArg 3] /\
  read_sig (fmt_of SlashThenStar false w_seed2 false) = None /\
  fmt_of StarThenSlash false w_seed false = canon w_seed /\
  fmt_of StarThenSlash false w_seed2 false = canon w_seed2.
Proof. exact slash_first_refuted. Qed.
Print Assumptions C25_slash_first_refuted.

Example C25_arglist_nonvacuous :   (* def g(a, b, /, c, [star]args, d, e, [2star]kw) *)
  fmt_of StarThenSlash false
    {| s_po := [1; 2]; s_pk := [3]; s_va := Some 7; s_ko := [4; 5]; s_kw := Some 8 |} false
  = [TArg 1; TArg 2; TSlash; TArg 3; TVarArgs 7; TArg 4; TArg 5; TKwArgs 8].
Proof. vm_compute. reflexivity. Qed.
