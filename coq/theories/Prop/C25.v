(* C25 -- compiled functions report faithful names and signatures: the expression printer
   behind embedded signatures and the qualified-name transform.
   Only statements; proofs live in Proof/P_ExprPrint.v and Proof/P_ExprPrint_Read.v. *)
From Coq Require Import List NArith Bool Arith.
From CyVerif Require Import Lib.CInt Model.M_ExprPrint Proof.P_ExprPrint Proof.P_ExprPrint_Read.
Import ListNotations.
Open Scope nat_scope.

(* FULL STATEMENT (DESIGN: print_unambiguous), false for the printer as it is:
     forall e, wf e = true -> exists fuel0, forall fuel, fuel0 <= fuel ->
       reparse fuel (print false e) = RExpr e.
   Proved for the repaired printer (proposed_fixes/C25-expression_writer_parenthesisation.diff):
   every well-formed default-value tree is read back from its printed token list by the
   grammar reader, with any sufficient fuel (out-of-fuel is the explicit result ROutOfFuel). *)
Theorem C25_print_unambiguous_fixed : forall e, wf e = true ->
  exists fuel0, forall fuel, fuel0 <= fuel -> reparse fuel (print true e) = RExpr e.
Proof. exact print_unambiguous_fixed. Qed.
Print Assumptions C25_print_unambiguous_fixed.

(* ... also as an operand at any grammar level L, followed by anything that cannot continue it *)
Theorem C25_print_unambiguous_fixed_ctx : forall e L rest, wf e = true -> L <= 13 -> stops L rest ->
  exists fuel0, forall fuel, fuel0 <= fuel -> parse fuel L (pr_new L e ++ rest) = Ok e rest.
Proof. exact print_unambiguous_fixed_ctx. Qed.
Print Assumptions C25_print_unambiguous_fixed_ctx.

(* finding F22: the printer as it is changes or destroys the expression; one computed witness
   per class: a - (b - c), (a ** b) ** c, a / (b * c), (a if b else c) + 1, a < b < c,
   (a < b) < c, lambda q: q, (a,), (a + b).c, (-1) ** a, [a] * b (printed [a, b]) *)
Theorem C25_print_unambiguous_refuted :
  bad w_sub /\ bad w_pow /\ bad w_divmul /\ bad w_cond /\ bad w_casc /\ bad w_cmpcmp /\
  bad w_lam /\ bad w_tup /\ bad w_attr /\ bad w_negpow /\ bad w_seqmul.
Proof. exact old_refuted. Qed.
Print Assumptions C25_print_unambiguous_refuted.

Theorem C25_old_condexpr_text_does_not_parse :
  reparse 1000 (print false (ECond na (ECond nb nc na) nb)) = RError.
Proof. exact old_cond_syntax_error. Qed.
Print Assumptions C25_old_condexpr_text_does_not_parse.

(* the table dumped from the running code (Gen/Gen_Prec.v) is Python's documented precedence *)
Theorem C25_prec_table_is_pythons :
  (forall o, prec_bin o = py_level_bin o) /\ (forall o, prec_cmp o = 4) /\ (forall o, prec_un o = 11) /\
  prec_bool LOr = 1 /\ prec_bool LAnd = 2 /\ prec_not = 3.
Proof. exact prec_table_is_pythons. Qed.
Print Assumptions C25_prec_table_is_pythons.

(* qualified names: the repaired transform assigns to every def / class / lambda of every
   scope forest exactly the name of the language rule (CPython compiler_set_qualname) *)
Theorem C25_qualname_eq_fixed : forall l, swfs false l = true -> cy_module true l = rule_module l.
Proof. exact qualname_eq_fixed. Qed.
Print Assumptions C25_qualname_eq_fixed.

(* the transform as it is: right on every forest without a def under a global declaration ... *)
Theorem C25_qualname_eq_partial : forall l, swfs false l = true -> no_glob_defs l = true ->
  cy_module false l = rule_module l.
Proof. exact qualname_eq_old_partial. Qed.
Print Assumptions C25_qualname_eq_partial.

(* ... and wrong on  def o(): global g; def g(): def h(): ...  *)
Theorem C25_qualname_eq_refuted : swfs false w_scopes = true /\ cy_module false w_scopes <> rule_module w_scopes.
Proof. exact qualname_old_refuted. Qed.
Print Assumptions C25_qualname_eq_refuted.

(* non-vacuity: a well-formed tree with every kind of node that needed care, read back *)
Example C25_nonvacuous :
  let e := ECond (EBin BSub na (EBin BSub nb (ENum KInt true [49%N])))
                 (ECmp na CLt nb (CCons CIsNot (ENot nc) CNil))
                 (ELambda [[113%N]] (ETuple (ECons (EAttr (EBin BPow (EUn UNeg na) nb) [99%N]) ENil))) in
  wf e = true /\ reparse 400 (print true e) = RExpr e /\
  swfs false w_scopes = true /\ cy_module true w_scopes = rule_module w_scopes.
Proof. vm_compute. repeat split; reflexivity. Qed.
