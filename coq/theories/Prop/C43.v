(* C43 - The compiler never crashes and accepts all valid Python: the literal front end.
   Statements only; proofs in Proof/P_Lexicon.v.  L is the denotational language of M_Plex.ere
   (P_Plex_Deriv.L, see C50_derivative_correct).  Gen_Lexicon.v is dumped from the running
   Lexicon.make_lexicon by props/C43.py on every check. *)
From Coq Require Import ZArith List Bool String.
From CyVerif Require Import Model.M_Plex Proof.P_Plex_Deriv Model.M_Lexicon Proof.P_Lexicon Proof.P_LexiconDots Gen.Gen_Lexicon.
From CyVerif Require Import Model.M_CallArgs Proof.P_CallArgs.
Import ListNotations.
Open Scope Z_scope.

(* the dumped rules of the tree under test are the transcribed model, for the declared variant *)
Theorem C43_lexicon_dump_is_model :
  gen_intliteral = intliteral /\ gen_fltconst = fltconst /\ gen_imagconst = imagconst gen_imag_fixed
  /\ gen_beginstring = beginstring /\ gen_begin_ft_string = begin_ft_string.
Proof. vm_compute. repeat split. Qed.
Print Assumptions C43_lexicon_dump_is_model.

(* regular-language inclusion by computation: the verdict of the product exploration is sound for
   ALL event words (no length bound) *)
Theorem C43_decide_incl_sound : forall fuel a b,
  match decide_incl fuel a b with
  | VIncluded => forall w, L a w -> L b w
  | VCounter cw => L a cw /\ ~ L b cw
  | VUnknown => True
  end.
Proof. exact decide_incl_spec. Qed.
Print Assumptions C43_decide_incl_sound.

(* every Python 3.12 number literal is one whole token of the right kind (repaired imagconst) *)
Theorem C43_number_literals_included : forall w,
  (L py_integer w -> L lex_int w) /\ (L py_floatnumber w -> L lex_float w) /\
  (L py_imagnumber w -> L (lex_imag true) w) /\ (L py_number w -> L (lex_number true) w).
Proof. exact number_literals_included. Qed.
Print Assumptions C43_number_literals_included.

(* the rule as it is: 0_7j is a Python imaginary literal and not a token of the lexicon *)
Theorem C43_number_literals_included_refuted :
  L py_number (word "0_7j") /\ L py_imagnumber (word "0_7j") /\ ~ L (lex_number false) (word "0_7j").
Proof. exact number_literals_included_refuted. Qed.
Print Assumptions C43_number_literals_included_refuted.

(* ... and everything outside that family is a token already *)
Theorem C43_number_literals_included_partial : forall w,
  L py_number_known w -> L (lex_number false) w.
Proof. exact number_literals_included_partial. Qed.
Print Assumptions C43_number_literals_included_partial.

(* the same for the rules dumped from the tree under test *)
Theorem C43_number_literals_running_tree : forall w,
  L (if gen_imag_fixed then py_number else py_number_known) w ->
  L (EAlt (rule gen_intliteral) (EAlt (rule gen_fltconst) (rule gen_imagconst))) w.
Proof.
  destruct C43_lexicon_dump_is_model as (-> & -> & -> & _). exact (number_literals_tree gen_imag_fixed).
Qed.
Print Assumptions C43_number_literals_running_tree.

Theorem C43_string_prefixes_included : forall w,
  L py_strbegin w -> L (EAlt (rule gen_beginstring) (rule gen_begin_ft_string)) w.
Proof.
  destruct C43_lexicon_dump_is_model as (_ & _ & _ & -> & ->). exact string_prefixes_included.
Qed.
Print Assumptions C43_string_prefixes_included.

(* the integer decoders are NOT total on accepted INT tokens (as is: internal ValueError) *)
Theorem C43_str_to_number_total_refuted_octal :
  L lex_int (word "08") /\ decode_int_token py_lim (codes "08") = S2N_BadDigit
  /\ int_token_outcome false py_lim (codes "08") = InternalCrash
  /\ int_token_outcome true py_lim (codes "08") = PositionedError.
Proof. exact str_to_number_total_refuted_octal. Qed.
Print Assumptions C43_str_to_number_total_refuted_octal.

Theorem C43_str_to_number_total_refuted_limit :
  L lex_int (map EvChar (ones (py_lim + 1))) /\ L py_integer (map EvChar (ones (py_lim + 1)))
  /\ decode_int_token py_lim (ones (py_lim + 1)) = S2N_TooLong
  /\ int_token_outcome false py_lim (ones (py_lim + 1)) = InternalCrash
  /\ int_token_outcome true py_lim (ones (py_lim + 1)) = PositionedError.
Proof. exact str_to_number_total_refuted_limit. Qed.
Print Assumptions C43_str_to_number_total_refuted_limit.

Theorem C43_int_token_never_crashes_fixed : forall lim t, int_token_outcome true lim t <> InternalCrash.
Proof. exact int_token_never_crashes_fixed. Qed.
Print Assumptions C43_int_token_never_crashes_fixed.

(* ---- runs of dots (relative imports: `from ... import x`) ----
   the punctuation rule dumped from the running lexicon is the transcribed one *)
Theorem C43_text_rule_dump_is_model : gen_text_rule = text_rule.
Proof. vm_compute. reflexivity. Qed.
Print Assumptions C43_text_rule_dump_is_model.

(* meaning of the executable longest-match function used below, for every rule and input *)
Theorem C43_longest_match_spec : forall r w,
  (longest r w <= List.length w)%nat /\ ((0 < longest r w)%nat -> L r (firstn (longest r w) w)) /\
  (forall j, (longest r w < j <= List.length w)%nat -> ~ L r (firstn j w)).
Proof. exact longest_spec. Qed.
Print Assumptions C43_longest_match_spec.

(* a run of n dots is a TEXT token exactly for n = 1 and n = 3, and never (a prefix of) a number token *)
Theorem C43_dot_run_tokens_of_the_rules : forall n,
  (L (rule gen_text_rule) (dots n) <-> (n = 1 \/ n = 3)%nat) /\ (forall b, ~ L (lex_number b) (dots n)).
Proof. rewrite C43_text_rule_dump_is_model. intros n. split; [exact (text_rule_dots n) | intros b; exact (number_rules_dots b n)]. Qed.
Print Assumptions C43_dot_run_tokens_of_the_rules.

(* longest-match scanning of ANY run of n dots gives n/3 ellipsis tokens followed by n mod 3 dot tokens,
   and the level p_from_import_statement adds up from the token lengths is n *)
Theorem C43_dot_run_scan : forall fixed n,
  scan_dots (S n) fixed n = dot_tokens n /\ import_level (dot_tokens n) = n /\
  Forall (fun k => k = 1 \/ k = 3)%nat (dot_tokens n).
Proof.
  intros fixed n. split; [apply scan_dots_correct; auto | split; [apply dot_tokens_level | apply dot_tokens_shape]].
Qed.
Print Assumptions C43_dot_run_scan.

(* ---- argument lists (calls, class headers, decorators): Parsing.p_call_parse_args ----
   kinds: APos a | AStar *a | AKw k=a | ADStar **a; tail: ")" | ",)" | a comprehension clause.  py_valid is Python
   3.12's grammar (pairwise form: no plain positional after a keyword or **, no * after **; a trailing comma needs an
   argument; a bare generator expression must be the only argument of a call).  The loop as it is (first argument
   false) accepts EXACTLY these, for every sequence of any length, in calls (allow_genexp) and class headers *)
Theorem C43_call_args_accepted_iff_python : forall allow_genexp l t,
  accepts false allow_genexp l t = true <-> py_valid allow_genexp l t.
Proof. exact accepts_iff_python. Qed.
Print Assumptions C43_call_args_accepted_iff_python.

(* the pairwise form is the PEG rule of Grammar/python.gram, (positional | *x)* (k=v | *x)* (k=v | **x)*,
   and the executable form used by the correspondence run decides it *)
Theorem C43_call_args_grammar_forms : forall l,
  (py_args_ok l <-> py_grammar l) /\ (py_args_b l = true <-> py_args_ok l).
Proof. intros l. split; [apply pairwise_iff_grammar | apply py_args_b_spec]. Qed.
Print Assumptions C43_call_args_grammar_forms.

(* an accepted list records every argument exactly once (positional groups + keyword items) *)
Theorem C43_call_args_keeps_all_arguments : forall g allow_genexp l t ps ks,
  parse_args g allow_genexp l t = Some (ps, ks) -> (psize ps + List.length ks = List.length l)%nat.
Proof. exact accepted_keeps_all_arguments. Qed.
Print Assumptions C43_call_args_keeps_all_arguments.

(* the guard before a star argument must be `starstar_seen`: with `keyword_args` (first argument true) valid Python
   such as f(k=1, *a) and class C(metaclass=M, *bases, x=1, **kw,) is rejected *)
Theorem C43_call_args_star_guard_on_keywords_refuted :
  py_valid true [AKw; AStar] TEnd /\ accepts true true [AKw; AStar] TEnd = false /\ accepts false true [AKw; AStar] TEnd = true
  /\ py_valid false [AKw; AStar; AKw; ADStar] TComma /\ accepts true false [AKw; AStar; AKw; ADStar] TComma = false.
Proof. exact star_guard_on_keywords_refuted. Qed.
Print Assumptions C43_call_args_star_guard_on_keywords_refuted.


Example C43_nonvacuous :
  L py_number (word "1_000.5e-3J") /\ L (lex_number false) (word "1_000.5e-3J")
  /\ L py_integer (word "0x_Ff") /\ ~ L py_number (word "1__0") /\ ~ L py_number (word "08")
  /\ decode_int_token py_lim (codes "0x_FfUL") = S2N 255.
Proof.
  repeat split; try (apply derivative_correct; vm_compute; reflexivity);
    intros H; apply derivative_correct in H; vm_compute in H; discriminate.
Qed.
