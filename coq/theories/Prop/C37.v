(* C37 — prange: sequential results and a safe exit on every schedule. Statements only. *)
From Coq Require Import ZArith List Bool Permutation.
From CyVerif Require Import Lib.CInt Model.M_Prange Proof.P_Prange Model.M_PrangeShare Proof.P_PrangeShare.
Import ListNotations.
Open Scope Z_scope.

(* iteration space: the generated nsteps/index computation enumerates exactly list(range(...)),
   for every start, stop and non-zero step *)
Theorem C37_count_correct : forall start stop step,
  step <> 0 ->
  exists n, nsteps start stop step = Some n /\ Z.max 0 n = py_range_len start stop step.
Proof. exact nsteps_count. Qed.
Print Assumptions C37_count_correct.

Theorem C37_prange_values : forall start stop step,
  step <> 0 ->
  prange_values start stop step = Some (py_range start stop step).
Proof. exact prange_values_eq. Qed.
Print Assumptions C37_prange_values.

Theorem C37_lastprivate_is_last : forall start stop step,
  step <> 0 -> 0 < py_range_len start stop step ->
  exists vs, prange_values start stop step = Some vs /\
             last vs start = start + step * (py_range_len start stop step - 1).
Proof. exact lastprivate_is_last. Qed.
Print Assumptions C37_lastprivate_is_last.

(* the expression before the repair, (... - step/abs(step)) / step with int abs(int), agreed with the
   current one only for steps that fit C int ... *)
Theorem C37_old_count_fits_int : forall start stop step,
  step <> 0 -> Z.abs step <= 2 ^ 31 - 1 -> nsteps_old start stop step = nsteps start stop step.
Proof. exact nsteps_old_fits. Qed.
Print Assumptions C37_old_count_fits_int.

(* ... and was refuted beyond: division by zero for multiples of 2^32, wrong counts otherwise *)
Theorem C37_old_count_abs_truncation_refuted :
  (exists start stop step, step <> 0 /\ nsteps_old start stop step = None) /\
  (exists start stop step n, nsteps_old start stop step = Some n /\ Z.max 0 n <> py_range_len start stop step).
Proof. exact nsteps_old_abs_truncation_refuted. Qed.
Print Assumptions C37_old_count_abs_truncation_refuted.

(* reductions: for every commutative monoid, every partition of every permutation of the
   iterations among threads and every order of combining the partial results gives the
   sequential result ... *)
Theorem C37_reduction_schedule_independent :
  forall (A : Type) (op : A -> A -> A) (e : A),
  (forall a b c, op a (op b c) = op (op a b) c) -> (forall a b, op a b = op b a) -> (forall a, op a e = a) ->
  forall (f : Z -> A) init idxs chunks partials,
  Permutation (concat chunks) idxs ->
  Permutation partials (map (seq_reduce op f e) chunks) ->
  fold_left op partials init = seq_reduce op f init idxs.
Proof. exact @reduction_schedule_independent. Qed.
Print Assumptions C37_reduction_schedule_independent.

(* ... in particular for + * & | ^ on integers *)
Theorem C37_int_reductions : forall op e f init idxs chunks partials,
  In (op, e) reduce_ops ->
  Permutation (concat chunks) idxs ->
  Permutation partials (map (seq_reduce op f e) chunks) ->
  fold_left op partials init = seq_reduce op f init idxs.
Proof. exact int_reduction_schedule_independent. Qed.
Print Assumptions C37_int_reductions.

(* wrap-around transfer for C integer accumulators (+ and x) *)
Theorem C37_c_add_fold : forall w s l a, 1 <= w ->
  wrap w s (fold_left (addw w s) l a) = wrap w s (fold_left Z.add l a).
Proof. exact c_add_fold_is_wrapped_sum. Qed.
Print Assumptions C37_c_add_fold.

Theorem C37_c_mul_fold : forall w s l a, 1 <= w ->
  wrap w s (fold_left (mulw w s) l a) = wrap w s (fold_left Z.mul l a).
Proof. exact c_mul_fold_is_wrapped_product. Qed.
Print Assumptions C37_c_mul_fold.

(* exception hand-off, for every number of threads and every interleaving of error/exit events:
   the re-raised exception is the first one fetched ... *)
Theorem C37_saved_is_first_raised : forall evs,
  snd (fst (finish (run evs))) = hd_error (raised evs).
Proof. exact saved_is_first_raised. Qed.
Print Assumptions C37_saved_is_first_raised.

(* ... every raised exception object is either re-raised in the caller or released, exactly once
   (no leak, no double release) ... *)
Theorem C37_each_exception_once : forall evs,
  NoDup (raised evs) ->
  NoDup (opt_list (snd (fst (finish (run evs)))) ++ snd (finish (run evs))) /\
  (forall e, In e (raised evs) <-> In e (opt_list (snd (fst (finish (run evs)))) ++ snd (finish (run evs)))).
Proof. exact each_exception_once. Qed.
Print Assumptions C37_each_exception_once.

(* ... and the dispatch after the region prefers the error, else takes an exit kind some thread wrote *)
Theorem C37_why_is_allowed_outcome : forall evs,
  (forall t k, In (Exit t k) evs -> 1 <= k <= 3) ->
  let w := fst (fst (finish (run evs))) in
  (w = 4 <-> raised evs <> []) /\
  (raised evs = [] -> w = 0 \/ exists t k, In (Exit t k) evs /\ w = k).
Proof. exact why_is_allowed_outcome. Qed.
Print Assumptions C37_why_is_allowed_outcome.

(* ---- sharing classification (Model/M_PrangeShare.v) ------------------------------------------------

   the OpenMP combiner of every operator of generate_loop's operator string "+*-&^|" is a commutative
   monoid on the values of a w-bit C integer type (signed or unsigned, wrap-around), its initialiser is
   the identity, and  x o= v  commutes with combining: for  -  the partial differences are ADDED *)
Theorem C37_combiner_laws : forall w sg o, 2 <= w -> In o omp_ops ->
  (forall a b c, mop w sg o a (mop w sg o b c) = mop w sg o (mop w sg o a b) c) /\
  (forall a b, mop w sg o a b = mop w sg o b a) /\
  (forall a, in_range w sg a -> mop w sg o a (ident w sg o) = a) /\
  (forall a b v, act w sg o (mop w sg o a b) v = mop w sg o a (act w sg o b v)).
Proof.
  intros w sg o Hw Hin.
  assert (Ho : omp_reduction_op o = true) by (unfold omp_reduction_op; apply existsb_exists; exists o; split; [exact Hin|destruct o; reflexivity]).
  repeat split; intros; [apply mop_assoc|apply mop_comm|apply mop_ident|apply act_mop]; assumption.
Qed.
Print Assumptions C37_combiner_laws.

(* for every loop body that passes the well-formedness check under a classification cls (every
   assigned name is used in one role: reduction with one operator of the string / lastprivate by
   plain assignment or as a loop index; expressions read shared names and lastprivates assigned
   earlier in the same iteration; conditionals and nested range / prange loops allowed), for EVERY
   distribution of the iterations among any number of threads, every execution order inside a
   thread and every order of combining: a reduction variable, a lastprivate assigned on every
   path (Df) and every clause-less variable end with the value the sequential loop leaves.
   Integer types only: floating + and * are not associative, the harness uses exactly representable
   values for them. *)
Theorem C37_sharing_any_schedule : forall w sg, 2 <= w ->
  forall (cls : var -> clause) tgt body Df,
  cls tgt = CFirstLast -> wf cls [tgt] body = Some Df ->
  forall e0, (forall x, in_range w sg (e0 x)) ->
  (forall x o, cls x = CRed o -> omp_reduction_op o = true) ->
  forall idxs chunks x,
  Permutation (concat chunks) idxs ->
  (cls x = CFirstLast -> In x Df) ->
  par_exec w sg cls tgt body chunks (last idxs 0) e0 x = seq_run w sg tgt body idxs e0 x.
Proof. exact share_par_eq_seq. Qed.
Print Assumptions C37_sharing_any_schedule.

(* the same for a region as the compiler model classifies it (prange, or prange closely nested in a
   parallel block whose privates are not copied out), with or without the proposed repairs *)
Theorem C37_region_any_schedule : forall w sg, 2 <= w ->
  forall fx r Df e0 idxs chunks x,
  region_wf fx r = Some Df -> (forall y, in_range w sg (e0 y)) ->
  Permutation (concat chunks) idxs ->
  classify r x <> CBlockPriv -> (classify r x = CFirstLast -> In x Df) ->
  region_par w sg r chunks (last idxs 0) e0 x = region_seq w sg r idxs e0 x.
Proof. exact region_par_eq_seq. Qed.
Print Assumptions C37_region_any_schedule.

(* every name that a body uses in ONE declared role (rho: reduction with one operator of the string,
   or lastprivate by plain assignment / as a loop index), at whatever nesting depth of conditionals,
   range loops and nested pranges, gets exactly the declared clause from the compiler model *)
Theorem C37_uniform_names_classified : forall rho r x,
  rho (r_tgt r) = CFirstLast -> uses rho (r_body r) = true ->
  x = r_tgt r \/ assignedb x (r_body r) = true ->
  classify r x = rho x /\ (rho x = CFirstLast \/ exists o, rho x = CRed o /\ omp_reduction_op o = true).
Proof. exact classify_declared. Qed.
Print Assumptions C37_uniform_names_classified.

(* hence a body that is well-formed for the declared roles is well-formed for the computed
   classification, and C37_region_any_schedule applies to it *)
Theorem C37_declared_region_wf : forall fx r rho Df,
  rho (r_tgt r) = CFirstLast -> uses rho (r_body r) = true ->
  (forall x, x <> r_tgt r -> assignedb x (r_body r) = false -> rho x = classify r x) ->
  wf rho [r_tgt r] (r_body r) = Some Df ->
  region_errors fx r = [] ->
  region_wf fx r = Some Df.
Proof. exact declared_region_wf. Qed.
Print Assumptions C37_declared_region_wf.

(* FULL statement "every accepted body is classified soundly" is false for the code as it is: *)
Theorem C37_nonomp_inplace_operator_refuted : sharing_unsound r_shl.
Proof. exact shl_unsound. Qed.
Print Assumptions C37_nonomp_inplace_operator_refuted.

Theorem C37_assigned_and_inplace_refuted : sharing_unsound r_mixed.
Proof. exact mixed_unsound. Qed.
Print Assumptions C37_assigned_and_inplace_refuted.

Theorem C37_nested_operator_replaced_refuted : sharing_unsound r_nested_op.
Proof. exact nested_op_unsound. Qed.
Print Assumptions C37_nested_operator_replaced_refuted.

Theorem C37_reduction_read_in_inplace_rhs_refuted : sharing_unsound r_read_rhs.
Proof. exact read_rhs_unsound. Qed.
Print Assumptions C37_reduction_read_in_inplace_rhs_refuted.

(* the proposed repairs turn three of them into compile errors; the fourth stays accepted *)
Theorem C37_repairs_reject :
  region_errors all_fixes r_shl = [EUnsupportedOp] /\
  region_errors all_fixes r_nested_op = [EInconsistent] /\
  region_errors all_fixes r_read_rhs = [EReadReduction] /\
  region_errors all_fixes r_mixed = [].
Proof. exact repairs_reject. Qed.
Print Assumptions C37_repairs_reject.

Example C37_nonvacuous :
  prange_values 10 0 (-3) = Some [10; 7; 4; 1] /\ py_range 10 0 (-3) = [10; 7; 4; 1] /\
  finish (run [Exit 2 2; Err 1 101; Err 0 100; Exit 3 3]) = (4, Some 101, [100]) /\
  (* a body with all six operators, a temporary, a conditional, a nested prange: well-formed *)
  region_wf no_fixes
    {| r_pre := None; r_tgt := 0%nat;
       r_body := SSeq (SAssign 1%nat (EB BMul (EV 0%nat) (EC 3)))
                (SSeq (SInplace 2%nat OAdd (EV 1%nat))
                (SSeq (SIf (EB BAnd (EV 0%nat) (EC 1)) (SInplace 3%nat OSub (EV 0%nat)) (SInplace 4%nat OXor (EV 1%nat)))
                (SSeq (SLoop true 5%nat (EC 2) (SSeq (SInplace 6%nat OMul (EC 3)) (SInplace 7%nat OAnd (EV 5%nat))))
                      (SInplace 8%nat OOr (EV 0%nat))))) |} = Some [1%nat; 0%nat].
Proof. vm_compute. intuition congruence. Qed.
