(* C37 — prange: sequential results and a safe exit on every schedule. Statements only. *)
From Coq Require Import ZArith List Bool Permutation.
From CyVerif Require Import Lib.CInt Model.M_Prange Proof.P_Prange.
Import ListNotations.
Open Scope Z_scope.

(* iteration space: the generated nsteps/index computation enumerates exactly list(range(...)),
   for every start, stop and non-zero step *)
Theorem C37_count_correct : forall start stop step,
  step <> 0 ->
  exists n, nsteps start stop step = Some n /\ Z.max 0 n = py_range_len start stop step.
Proof. exact nsteps_count. Qed.
Print Assumptions C37_count_correct.

Theorem C37_prange_values : forall start stop step,
  step <> 0 ->
  prange_values start stop step = Some (py_range start stop step).
Proof. exact prange_values_eq. Qed.
Print Assumptions C37_prange_values.

Theorem C37_lastprivate_is_last : forall start stop step,
  step <> 0 -> 0 < py_range_len start stop step ->
  exists vs, prange_values start stop step = Some vs /\
             last vs start = start + step * (py_range_len start stop step - 1).
Proof. exact lastprivate_is_last. Qed.
Print Assumptions C37_lastprivate_is_last.

(* the expression before the repair, (... - step/abs(step)) / step with int abs(int), agreed with the
   current one only for steps that fit C int ... *)
Theorem C37_old_count_fits_int : forall start stop step,
  step <> 0 -> Z.abs step <= 2 ^ 31 - 1 -> nsteps_old start stop step = nsteps start stop step.
Proof. exact nsteps_old_fits. Qed.
Print Assumptions C37_old_count_fits_int.

(* ... and was refuted beyond: division by zero for multiples of 2^32, wrong counts otherwise *)
Theorem C37_old_count_abs_truncation_refuted :
  (exists start stop step, step <> 0 /\ nsteps_old start stop step = None) /\
  (exists start stop step n, nsteps_old start stop step = Some n /\ Z.max 0 n <> py_range_len start stop step).
Proof. exact nsteps_old_abs_truncation_refuted. Qed.
Print Assumptions C37_old_count_abs_truncation_refuted.

(* reductions: for every commutative monoid, every partition of every permutation of the
   iterations among threads and every order of combining the partial results gives the
   sequential result ... *)
Theorem C37_reduction_schedule_independent :
  forall (A : Type) (op : A -> A -> A) (e : A),
  (forall a b c, op a (op b c) = op (op a b) c) -> (forall a b, op a b = op b a) -> (forall a, op a e = a) ->
  forall (f : Z -> A) init idxs chunks partials,
  Permutation (concat chunks) idxs ->
  Permutation partials (map (seq_reduce op f e) chunks) ->
  fold_left op partials init = seq_reduce op f init idxs.
Proof. exact @reduction_schedule_independent. Qed.
Print Assumptions C37_reduction_schedule_independent.

(* ... in particular for + * & | ^ on integers *)
Theorem C37_int_reductions : forall op e f init idxs chunks partials,
  In (op, e) reduce_ops ->
  Permutation (concat chunks) idxs ->
  Permutation partials (map (seq_reduce op f e) chunks) ->
  fold_left op partials init = seq_reduce op f init idxs.
Proof. exact int_reduction_schedule_independent. Qed.
Print Assumptions C37_int_reductions.

(* wrap-around transfer for C integer accumulators (+ and x) *)
Theorem C37_c_add_fold : forall w s l a, 1 <= w ->
  wrap w s (fold_left (addw w s) l a) = wrap w s (fold_left Z.add l a).
Proof. exact c_add_fold_is_wrapped_sum. Qed.
Print Assumptions C37_c_add_fold.

Theorem C37_c_mul_fold : forall w s l a, 1 <= w ->
  wrap w s (fold_left (mulw w s) l a) = wrap w s (fold_left Z.mul l a).
Proof. exact c_mul_fold_is_wrapped_product. Qed.
Print Assumptions C37_c_mul_fold.

(* exception hand-off, for every number of threads and every interleaving of error/exit events:
   the re-raised exception is the first one fetched ... *)
Theorem C37_saved_is_first_raised : forall evs,
  snd (fst (finish (run evs))) = hd_error (raised evs).
Proof. exact saved_is_first_raised. Qed.
Print Assumptions C37_saved_is_first_raised.

(* ... every raised exception object is either re-raised in the caller or released, exactly once
   (no leak, no double release) ... *)
Theorem C37_each_exception_once : forall evs,
  NoDup (raised evs) ->
  NoDup (opt_list (snd (fst (finish (run evs)))) ++ snd (finish (run evs))) /\
  (forall e, In e (raised evs) <-> In e (opt_list (snd (fst (finish (run evs)))) ++ snd (finish (run evs)))).
Proof. exact each_exception_once. Qed.
Print Assumptions C37_each_exception_once.

(* ... and the dispatch after the region prefers the error, else takes an exit kind some thread wrote *)
Theorem C37_why_is_allowed_outcome : forall evs,
  (forall t k, In (Exit t k) evs -> 1 <= k <= 3) ->
  let w := fst (fst (finish (run evs))) in
  (w = 4 <-> raised evs <> []) /\
  (raised evs = [] -> w = 0 \/ exists t k, In (Exit t k) evs /\ w = k).
Proof. exact why_is_allowed_outcome. Qed.
Print Assumptions C37_why_is_allowed_outcome.

Example C37_nonvacuous :
  prange_values 10 0 (-3) = Some [10; 7; 4; 1] /\ py_range 10 0 (-3) = [10; 7; 4; 1] /\
  finish (run [Exit 2 2; Err 1 101; Err 0 100; Exit 3 3]) = (4, Some 101, [100]).
Proof. vm_compute. intuition congruence. Qed.
