(* C49 — Generated code is assembled in insertion-point order.
   Only statements; proofs live in Proof/P_IOTree.v.
   run / getvalue / allmarkers / is_empty / copyto : heap model of Cython/StringIOTree.py (M_IOTree part 1);
   spec_run / sregion / frags / written            : the list-of-holes reference (M_IOTree part 2);
   wf_hist : handles exist, an inserted buffer is a root and not the tree of its target, markers only
   together with text, reset only on buffers without insertion points inside. *)
From Coq Require Import List NArith Arith Bool Permutation.
From CyVerif Require Import Model.M_IOTree Proof.P_IOTree.
Import ListNotations.

(* refinement, for every well-formed history of any length over any number of buffers: the run is defined
   (all recursions terminate within fuel = number of objects + 1), and for EVERY buffer b - root or insertion
   point - getvalue/copyto/allmarkers/empty are those of the fragments inside hole b of the reference, in the
   reference's order; only written fragments occur. *)
Theorem C49_refines_holes : forall ops, wf_hist init_spec ops = true ->
  exists st, run ops = Some st /\
    forall b, b < sp_n (spec_run ops) ->
      exists body, sregion (spec_run ops) b = Some body /\
        (getvalue st b = Some (texts_of (frags body)) /\
         allmarkers st b = Some (marks_of (frags body)) /\
         is_empty st b = Some (is_nil (texts_of (frags body))) /\
         exists cs, copyto st b = Some cs /\ concat cs = texts_of (frags body) /\ Forall (fun c => c <> []) cs) /\
        incl (frags body) (written ops).
Proof. exact refines_holes. Qed.
Print Assumptions C49_refines_holes.

(* each written fragment exactly once: without reset the reference holds a permutation of the writes *)
Theorem C49_exactly_once : forall ops, wf_hist init_spec ops = true -> has_reset ops = false ->
  Permutation (frags (concat (sp_docs (spec_run ops)))) (written ops).
Proof. exact exactly_once. Qed.
Print Assumptions C49_exactly_once.

(* the assembled output: once everything has been inserted into one root r, getvalue r / allmarkers r are
   the concatenations over the reference's fragment list, which is a permutation of all writes *)
Theorem C49_final_output : forall ops d r, wf_hist init_spec ops = true -> has_reset ops = false ->
  sp_docs (spec_run ops) = [d] -> is_root r d = true ->
  exists st fs, run ops = Some st /\ getvalue st r = Some (texts_of fs) /\ allmarkers st r = Some (marks_of fs) /\
                fs = frags d /\ Permutation fs (written ops).
Proof. exact final_output. Qed.
Print Assumptions C49_final_output.

(* markers stay aligned: when every write carries one marker per newline (what CCodeWriter._write_lines
   does), text and markers of every buffer are concatenations over the same fragment list, each fragment
   with as many markers as newlines; so marker k is the marker of the write that produced line k *)
Theorem C49_markers_aligned : forall ops, wf_hist init_spec ops = true ->
  forallb (fun o => match o with OWrite _ s ms => Nat.eqb (length ms) (count_nl s) | _ => true end) ops = true ->
  exists st, run ops = Some st /\
    forall b, b < sp_n (spec_run ops) ->
      exists fs v m, getvalue st b = Some v /\ allmarkers st b = Some m /\
                     v = texts_of fs /\ m = marks_of fs /\
                     Forall (fun f => length (snd f) = count_nl (fst f)) fs /\ length m = count_nl v.
Proof. exact markers_aligned. Qed.
Print Assumptions C49_markers_aligned.

(* boundary (not reachable through CCodeWriter, excluded by wf_hist): markers appended without text are
   not carried along by insertion_point *)
Theorem C49_markers_without_text_boundary :
  wf_hist init_spec boundary_ops = false /\
  option_map (fun st => allmarkers st 0) (run boundary_ops) = Some (Some [9%N; 7%N]).
Proof. exact markers_without_text_boundary. Qed.
Print Assumptions C49_markers_without_text_boundary.

(* non-vacuity: a history with insertion point, subtree insertion, commit is well-formed, obeys the marker
   discipline, and assembles "a\n b\n d c\n" in insertion-point order (written chronologically a c d b) *)
Example C49_nonvacuous :
  wf_hist init_spec sample_ops = true /\ has_reset sample_ops = false /\
  option_map (fun st => (getvalue st 0, allmarkers st 0)) (run sample_ops)
    = Some (Some [97; 10; 100; 98; 10; 99; 10]%N, Some [1; 2; 3]%N) /\
  map fst (written sample_ops) = [[97; 10]; [99; 10]; [100]; [98; 10]]%N.
Proof. vm_compute. repeat split; reflexivity. Qed.
