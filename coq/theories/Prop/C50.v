(* C50 -- The lexer engine (Cython/Plex) recognises exactly its regular-expression rules.
   Only statements; proofs live in Proof/P_Plex*.v.

   Not proved (tied by the correspondence run only): Regexps.build_machine, i.e. that the NFA built
   from a rule accepts exactly the event language `ere_of rule` (the reference reading of the RE);
   that build_machine keeps every TransitionMap well formed (`nfa_ok` is evaluated on every
   generated lexicon instead).  Out-of-fuel of the worklist / the recursive epsilon closure is the
   explicit result None; C50_nfa_to_dfa_terminates shows it cannot happen above 2^(number of states). *)
From Coq Require Import ZArith NArith List Bool.
From CyVerif Require Import Model.M_Plex Proof.P_Plex_TMap Proof.P_Plex_Sets Proof.P_Plex_DFA
  Proof.P_Plex_Scan Proof.P_Plex_Deriv Proof.P_Plex Proof.P_Plex_Term.
Import ListNotations.
Open Scope Z_scope.

(* ---- (1) TransitionMap ---- *)
(* the binary search of split ends (fuel = distance is enough) with map[lo] <= code < map[lo+2] *)
Theorem C50_split_terminates : forall codes code, sorted codes -> forall fuel a b,
  0 <= a < b -> b < Z.of_nat (length codes) -> (Z.to_nat (b - a) <= fuel)%nat ->
  znth codes a <= code < znth codes b ->
  exists a', split_loop fuel codes code (2 * a) (2 * b) = Some (2 * a', 2 * (a' + 1))
             /\ a <= a' < b /\ znth codes a' <= code < znth codes (a' + 1).
Proof. exact split_loop_spec. Qed.
Print Assumptions C50_split_terminates.

(* tm_get is the set of the segment [code_k, code_k+1) containing the code *)
Theorem C50_tmap_get_is_segment : forall m c k, tm_inv m -> (k < length (tm_sets m))%nat ->
  nth k (tm_codes m) 0 <= c < nth (S k) (tm_codes m) 0 -> tm_get m c = nth k (tm_sets m) s_empty.
Proof. exact tm_get_segment. Qed.
Print Assumptions C50_tmap_get_is_segment.

(* add_set never fails, keeps the sorted/sentinel invariant and adds s exactly on [c0, c1) *)
Theorem C50_tmap_add_set : forall m c0 c1 s,
  tm_inv m -> - maxint <= c0 <= maxint -> - maxint <= c1 <= maxint ->
  exists m', tm_add_set m c0 c1 s = Some m' /\ tm_inv m'
    /\ forall c, - maxint <= c < maxint ->
         tm_get m' c = if (c0 <=? c) && (c <? c1) then s_union (tm_get m c) s else tm_get m c.
Proof. exact tm_add_set_spec. Qed.
Print Assumptions C50_tmap_add_set.

(* every history of add / add_set refines the abstract map code -> state set *)
Theorem C50_tmap_refines : forall ops m f, tm_inv m -> Forall op_ok ops ->
  (forall c, - maxint <= c < maxint -> tm_get m c = f c) ->
  exists m', tm_run m ops = Some m' /\ tm_inv m'
    /\ forall c, - maxint <= c < maxint -> tm_get m' c = f_run f ops c.
Proof. exact tm_refines. Qed.
Print Assumptions C50_tmap_refines.

(* items(): exactly the segments whose set, or S_0, is non-empty *)
Theorem C50_tmap_items : forall els codes sets c0 c1 s,
  In (c0, c1, s) (items_loop els codes sets) <->
  exists k, (k < length sets)%nat /\ (S k < length codes)%nat /\ nth k codes 0 = c0
            /\ nth (S k) codes 0 = c1 /\ nth k sets s_empty = s /\ (negb (s_is_empty s) || els = true).
Proof. exact items_loop_spec. Qed.
Print Assumptions C50_tmap_items.

(* ---- (2) nfa_to_dfa ---- *)
Theorem C50_epsilon_closure : forall m s C, eclose m s = Some C ->
  closed m C /\ forall t, s_mem t C = true <-> ereach m s t.
Proof. exact eclose_spec. Qed.
Print Assumptions C50_epsilon_closure.

Theorem C50_highest_priority_action : forall m ss,
  (best_action m ss = None /\ forall s, s_mem s ss = true -> n_prio (n_get m s) <= LOWEST_PRIORITY)
  \/ exists s, s_mem s ss = true /\ LOWEST_PRIORITY < n_prio (n_get m s)
               /\ (forall s', s_mem s' ss = true -> n_prio (n_get m s') <= n_prio (n_get m s))
               /\ best_action m ss = n_act (n_get m s).
Proof. exact best_action_spec. Qed.
Print Assumptions C50_highest_priority_action.

(* for every NFA whose TransitionMaps are well formed and satisfy states_0 == states_n-1, and every
   event word: the DFA state reached is the set of NFA states reachable on the word (epsilon moves
   included), its action is the highest-priority action of that set; the DFA blocks iff no NFA
   state is reachable; every transition target exists *)
Theorem C50_subset_construction_correct : forall m,
  (forall s, tm_inv (n_tm (n_get m s))) -> (forall s, tm_else_ok (n_tm (n_get m s)) = true) ->
  forall fuel D, nfa_to_dfa fuel m = Some D ->
  length (dfa_acts D) = length (dfa_trans D) /\ (0 < length (dfa_trans D))%nat
  /\ (forall st d e j, nth_error (dfa_trans D) st = Some d -> d_lookup d e = Some j ->
                       (j < length (dfa_trans D))%nat)
  /\ forall w, Forall valid_ev w ->
     match dfa_run_w (dfa_trans D) O w with
     | Some d => exists S', nth_error (dfa_sets D) d = Some S'
                   /\ (forall t, s_mem t S' = true <-> nreach m O w t)
                   /\ nth_error (dfa_acts D) d = Some (best_action m S')
     | None => forall t, ~ nreach m O w t
     end.
Proof. exact nfa_to_dfa_correct. Qed.
Print Assumptions C50_subset_construction_correct.

(* the worklist reaches closure and the epsilon-closure recursion ends: whenever every transition
   target is a state of the machine, fuel above the number of subsets gives a machine *)
Theorem C50_nfa_to_dfa_terminates : forall m,
  (forall s, tm_inv (n_tm (n_get m s))) -> (forall s, tm_else_ok (n_tm (n_get m s)) = true) ->
  (forall s, bounded m (n_eps (n_get m s))) -> (forall s e, bounded m (ntrans m s e)) ->
  (0 < length m)%nat ->
  forall fuel, (N.to_nat (2 ^ N.of_nat (length m)) < fuel)%nat -> exists D, nfa_to_dfa fuel m = Some D.
Proof. exact nfa_to_dfa_total. Qed.
Print Assumptions C50_nfa_to_dfa_terminates.

(* the same with the executable checks evaluated on every generated lexicon in the run *)
Theorem C50_nfa_to_dfa_terminates_checked : forall m fuel,
  nfa_ok m = true -> nfa_bounded m = true ->
  (N.to_nat (2 ^ N.of_nat (length m)) < fuel)%nat -> exists D, nfa_to_dfa fuel m = Some D.
Proof. exact nfa_to_dfa_total_b. Qed.
Print Assumptions C50_nfa_to_dfa_terminates_checked.

(* ---- (3) the scanner loop ---- *)
Theorem C50_scanner_longest_match : forall D text cfg,
  dfa_wf (dfa_acts D) (dfa_trans D) -> 0 <= c_next cfg ->
  match scan_a_token D text cfg with
  | TokOk start stop line col a c =>
      exists k, accepts (dfa_acts D) (dfa_trans D) text O cfg k a
        /\ (forall k' a', (k < k')%nat -> ~ accepts (dfa_acts D) (dfa_trans D) text O cfg k' a')
        /\ c = iter_next k text cfg
        /\ start = c_pos cfg /\ stop = c_pos c /\ line = c_line cfg /\ col = c_pos cfg - c_lstart cfg
  | TokEof c | TokErr c =>
      (forall k a, ~ accepts (dfa_acts D) (dfa_trans D) text O cfg k a)
      /\ exists k, blocks (dfa_trans D) text O cfg k /\ c = iter_next k text cfg
  | TokBad | TokFuel => False
  end.
Proof. exact scan_a_token_spec. Qed.
Print Assumptions C50_scanner_longest_match.

Theorem C50_scanner_error_iff_no_prefix : forall D text cfg,
  dfa_wf (dfa_acts D) (dfa_trans D) -> 0 <= c_next cfg ->
  (forall k a, ~ accepts (dfa_acts D) (dfa_trans D) text O cfg k a) <->
  (exists c, scan_a_token D text cfg = TokEof c \/ scan_a_token D text cfg = TokErr c).
Proof. exact scan_fails_iff. Qed.
Print Assumptions C50_scanner_error_iff_no_prefix.

(* NFA -> DFA -> scanner *)
Theorem C50_lexer_pipeline : forall m fuel D text cfg,
  nfa_ok m = true -> nfa_to_dfa fuel m = Some D ->
  text_ok text -> valid_ev (c_char cfg) -> 0 <= c_next cfg ->
  match scan_a_token D text cfg with
  | TokOk start stop line col a c =>
      exists k S, nfa_set m (evs text cfg k) S /\ best_action m S = Some a
        /\ (forall k' S', (k < k')%nat -> nfa_set m (evs text cfg k') S' -> best_action m S' = None)
        /\ c = iter_next k text cfg
        /\ start = c_pos cfg /\ stop = c_pos c /\ line = c_line cfg /\ col = c_pos cfg - c_lstart cfg
  | TokEof c | TokErr c =>
      forall k S, nfa_set m (evs text cfg k) S -> best_action m S = None
  | TokBad | TokFuel => False
  end.
Proof. exact lexer_pipeline. Qed.
Print Assumptions C50_lexer_pipeline.

(* ---- (4) the reference matcher ---- *)
Theorem C50_derivative_correct : forall w r, e_matches r w = true <-> L r w.
Proof. exact derivative_correct. Qed.
Print Assumptions C50_derivative_correct.

Theorem C50_ref_longest_correct : forall rs w,
  match ref_longest rs w 0 None with
  | Some (n, k) => 0 <= n <= Z.of_nat (length w) /\ first_acc rs (firstn (Z.to_nat n) w) k
                   /\ forall n' k', (Z.to_nat n < n' <= length w)%nat -> ~ first_acc rs (firstn n' w) k'
  | None => forall n' k', (n' <= length w)%nat -> ~ first_acc rs (firstn n' w) k'
  end.
Proof. intros rs w. exact (ref_longest_correct rs w). Qed.
Print Assumptions C50_ref_longest_correct.

(* full statement that is NOT proved (C50_build_machine_correct, stretch):
     forall rules m, lexicon_nfa rules = Some m ->
       forall w t, nreach m 0 w t /\ n_act (n_get m t) = Some k  <->  L (ere_of (nth (k-1) rules) true false) w *)

(* ---- finding any_duplicate_chars: Regexps.chars_to_ranges (Any / AnyBut) ---- *)
Theorem C50_chars_to_ranges_refuted :
  exists s x, ranges_cover (chars_to_ranges false s) x = true /\ ~ In x s.
Proof. exact chars_to_ranges_refuted. Qed.
Print Assumptions C50_chars_to_ranges_refuted.

Theorem C50_chars_to_ranges_partial : forall s, sorted (sort_codes s) ->
  chars_to_ranges false s = chars_to_ranges true s.
Proof. exact chars_to_ranges_nodup_partial. Qed.
Print Assumptions C50_chars_to_ranges_partial.

Theorem C50_chars_to_ranges_repaired : forall s x,
  ranges_cover (chars_to_ranges true s) x = true <-> In x s.
Proof. exact chars_to_ranges_dedup_correct. Qed.
Print Assumptions C50_chars_to_ranges_repaired.

(* non-vacuity: the lexicon [Str("a"); Rep1(Any("ab"))] builds, satisfies nfa_ok, converts, and
   scanning "ab\n" returns the token [0,2) of rule 2 (longest match) at line 1, column 0 *)
Example C50_nonvacuous :
  match lexicon_nfa [RSeq [RRange 97 98]; RRep1 (RRange 97 99)] with
  | Some m =>
      match nfa_to_dfa 100 m with
      | Some D => nfa_ok m && match scan_a_token D [97; 98; 10] config0 with
                              | TokOk 0 2 1 0 2 _ => true | _ => false end
      | None => false
      end
  | None => false
  end = true.
Proof. vm_compute. reflexivity. Qed.
