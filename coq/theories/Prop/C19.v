(* C19 - Comparisons and membership tests match CPython.
   Only statements; proofs live in Proof/P_Cmp.v (cascades, FlattenInListTransform) and
   Proof/P_CmpSw.v (SwitchTransform), Proof/P_CmpInt.v (PyObjectCompare on two ints),
   Proof/P_CmpFloat.v + Proof/P_CmpFloatQ.v (PyObjectCompare on a float and an int).
   Proof/P_CmpFold.v (ConstantFolding.visit_PrimaryCmpNode: constant links of a chain).
   Models: Model/M_Cmp.v, Model/M_CmpInt.v, Model/M_CmpFloat.v, Model/M_CmpFold.v.  In every model function the
   boolean flag selects the code as it is (false) or the proposed repair (true). *)
From Coq Require Import ZArith List Bool.
From CyVerif Require Import Lib.CInt Lib.PyLong Model.M_Cmp Proof.P_Cmp Proof.P_CmpSw.
From CyVerif Require Import Model.M_CmpInt Proof.P_CmpInt Model.M_CmpFloat Proof.P_CmpFloat Proof.P_CmpFloatQ.
From CyVerif Require Import Model.M_CmpFold Proof.P_CmpFold Model.M_CmpNot Proof.P_CmpNot.
Import ListNotations.
Open Scope Z_scope.

(* ---- cascaded comparisons: PrimaryCmpNode / CascadedCmpNode code = Python reference,
        same value or exception and same trace (operand evaluations, comparison calls,
        truth tests), for every cascade, every comparison and truth oracle ---- *)
Theorem C19_cascade_trace_eq : forall cmp truth (c : cascade),
  snd c <> [] -> run_cascade cmp truth true c = ref_cascade cmp truth c.
Proof. exact cascade_trace_eq. Qed.
Print Assumptions C19_cascade_trace_eq.

(* the code as it is (truth test of the intermediate result unchecked) is right when no
   truth test raises ... *)
Theorem C19_cascade_old_eq_partial : forall cmp truth (c : cascade),
  snd c <> [] -> (forall v x, truth v <> inr x) ->
  run_cascade cmp truth false c = ref_cascade cmp truth c.
Proof. exact cascade_old_eq_partial. Qed.
Print Assumptions C19_cascade_old_eq_partial.

(* ... and wrong otherwise (finding cascade_truth_error_ignored) *)
Theorem C19_cascade_old_refuted : exists cmp truth (c : cascade),
  snd c <> [] /\ run_cascade cmp truth false c <> ref_cascade cmp truth c.
Proof. exact cascade_old_refuted. Qed.
Print Assumptions C19_cascade_old_refuted.

(* each operand at most once, left to right, evaluation stops at some link *)
Theorem C19_cascade_operands_once : forall cmp truth (c : cascade),
  snd c <> [] -> all_logged c ->
  exists n, filter is_opev (fst (run_cascade cmp truth true c))
            = map EvOp (firstn n (map o_id (fst c :: map snd (snd c)))).
Proof. exact cascade_operands_once. Qed.
Print Assumptions C19_cascade_operands_once.

(* ---- FlattenInListTransform (left operand temp outermost = proposed repair):
        x in (a, b, ...) rewritten into the ==/or chain evaluates exactly like CPython's
        containment test, operand evaluation order included.  Hypotheses = complement of the
        other findings: == symmetric and true on identical objects, name/attribute members
        pure, operands of a set display hashable ---- *)
Theorem C19_flatten_in_eq : forall same eqb hashable te (e : intest),
  (forall a b, eqb a b = eqb b a) ->
  (forall a b, same a b = true -> eqb a b = true) ->
  simple_pure e -> set_hashable hashable e ->
  run_flatten same eqb hashable te true e = ref_in same eqb hashable te e.
Proof. exact flatten_eq. Qed.
Print Assumptions C19_flatten_in_eq.

(* the transform as it is: right when no member needs a temp or the left operand is pure *)
Theorem C19_flatten_in_old_eq_partial : forall same eqb hashable te (e : intest),
  (forall a b, eqb a b = eqb b a) ->
  (forall a b, same a b = true -> eqb a b = true) ->
  simple_pure e -> set_hashable hashable e ->
  (Forall (fun m => m_simple m = true) (i_members e) \/ pure_op (i_lhs e)) ->
  run_flatten same eqb hashable te false e = ref_in same eqb hashable te e.
Proof. exact flatten_old_eq_partial. Qed.
Print Assumptions C19_flatten_in_old_eq_partial.

(* F25: left operand evaluated after the member temps *)
Theorem C19_flatten_in_order_refuted : exists same eqb hashable te (e : intest),
  (forall a b, eqb a b = eqb b a) /\ (forall a b, same a b = true -> eqb a b = true) /\
  simple_pure e /\ set_hashable hashable e /\
  run_flatten same eqb hashable te false e <> ref_in same eqb hashable te e.
Proof. exact flatten_order_refuted. Qed.
Print Assumptions C19_flatten_in_order_refuted.

(* each remaining hypothesis of C19_flatten_in_eq is necessary (one finding each) *)
Theorem C19_flatten_in_lazy_simple_refuted : exists same eqb hashable te (e : intest),
  (forall a b, eqb a b = eqb b a) /\ (forall a b, same a b = true -> eqb a b = true) /\
  set_hashable hashable e /\
  run_flatten same eqb hashable te true e <> ref_in same eqb hashable te e.
Proof. exact flatten_lazy_simple_refuted. Qed.
Print Assumptions C19_flatten_in_lazy_simple_refuted.

Theorem C19_flatten_in_identity_refuted : exists same eqb hashable te (e : intest),
  (forall a b, eqb a b = eqb b a) /\ simple_pure e /\ set_hashable hashable e /\
  run_flatten same eqb hashable te true e <> ref_in same eqb hashable te e.
Proof. exact flatten_identity_refuted. Qed.
Print Assumptions C19_flatten_in_identity_refuted.

Theorem C19_flatten_in_set_unhashable_refuted : exists same eqb hashable te (e : intest),
  (forall a b, eqb a b = eqb b a) /\ (forall a b, same a b = true -> eqb a b = true) /\
  simple_pure e /\
  run_flatten same eqb hashable te true e <> ref_in same eqb hashable te e.
Proof. exact flatten_set_unhashable_refuted. Qed.
Print Assumptions C19_flatten_in_set_unhashable_refuted.

(* ---- SwitchTransform (and-chains accepted only for != : proposed repair): for every
        if/elif chain, whatever visit_IfStatNode returns (a switch, or the chain with its
        conditions rewritten by the expression visitors) executes the same branch with the
        same trace ---- *)
Theorem C19_switch_eq : forall envv envo envb cls els,
  clauses_wf envv cls ->
  exec_stmt envv envo envb (visit_if true cls els) = exec_clauses envv envo envb cls els.
Proof. exact switch_eq. Qed.
Print Assumptions C19_switch_eq.

Theorem C19_switch_accept_eq : forall envv envo envb cls els s,
  clauses_wf envv cls -> to_switch true cls els = Some s ->
  exec_stmt envv envo envb s = exec_clauses envv envo envb cls els.
Proof. exact switch_accept_eq. Qed.
Print Assumptions C19_switch_accept_eq.

(* boolean and conditional expressions (build_simple_switch_statement) *)
Theorem C19_switch_expr_eq : forall envv envo envb c,
  cond_wf envv c -> eval_cond envv envo envb (xform true c) = eval_cond envv envo envb c.
Proof. exact switch_expr_eq. Qed.
Print Assumptions C19_switch_expr_eq.

(* the code as it is: right on and-free chains, wrong on `x == 1 and x == 2` *)
Theorem C19_switch_old_eq_partial : forall envv envo envb cls els,
  clauses_wf envv cls -> Forall (fun cl => and_free (c_cond cl)) cls ->
  exec_stmt envv envo envb (visit_if false cls els) = exec_clauses envv envo envb cls els.
Proof. exact switch_old_eq_partial. Qed.
Print Assumptions C19_switch_old_eq_partial.

Theorem C19_switch_and_old_refuted : exists envv envo envb c,
  cond_wf envv c /\ eval_cond envv envo envb (xform false c) <> eval_cond envv envo envb c.
Proof. exact switch_and_old_refuted. Qed.
Print Assumptions C19_switch_and_old_refuted.

(* the C compiler's precondition is DERIVED from has_duplicate_values = false: distinct keys
   (constant_result / enum value / cname) plus key-faithfulness give pairwise distinct case
   values; integer labels are key-faithful by construction *)
Theorem C19_switch_labels_distinct : forall fa cls els subj cases els',
  to_switch fa cls els = Some (SSwitch subj cases els') ->
  faithful (all_labels cases) ->
  stmt_valid (SSwitch subj cases els') = true /\ (2 <= length (all_labels cases))%nat.
Proof. exact switch_labels_distinct. Qed.
Print Assumptions C19_switch_labels_distinct.

Theorem C19_switch_expr_labels_distinct : forall fa c ni s ls,
  try_expr fa c = Some (CSw ni s ls) -> faithful ls ->
  nodupz (map l_val ls) = true /\ (2 <= length ls)%nat.
Proof. exact switch_expr_labels_distinct. Qed.
Print Assumptions C19_switch_expr_labels_distinct.

Theorem C19_lit_labels_faithful : forall ls, Forall (fun l => label_lit l = true) ls -> faithful ls.
Proof. exact lit_labels_faithful. Qed.
Print Assumptions C19_lit_labels_faithful.

Theorem C19_declines_on_duplicates : forall fa cls els l1 l2 pre mid post cv cases,
  collect fa None cls = Some (cv, cases) ->
  all_labels cases = pre ++ l1 :: mid ++ l2 :: post ->
  key_eqb (l_key l1) (l_key l2) = true ->
  to_switch fa cls els = None.
Proof. exact declines_on_duplicates. Qed.
Print Assumptions C19_declines_on_duplicates.

(* key-faithfulness fails for a bytes character against an integer with the same value:
   `b in b"ab" ... elif b == 97` is accepted and yields duplicate case labels (finding) *)
Theorem C19_switch_labels_unfaithful_refuted : exists cls els subj cases els',
  to_switch true cls els = Some (SSwitch subj cases els') /\
  stmt_valid (SSwitch subj cases els') = false.
Proof. exact switch_labels_unfaithful_refuted. Qed.
Print Assumptions C19_switch_labels_unfaithful_refuted.

(* ---- PyObjectCompare on two Python ints (Cython/Utility/Optimize.c:
        __Pyx_PyObject_CompareIntInt<Op> + __Pyx_PyLong_CompareSignAndSize): for every operator,
        every configuration satisfying cfg_ok and every pair of well-formed CPython ints (any
        sign, any number of digits) the helper returns the comparison of the two values and no
        signed Py_ssize_t operation overflows (Some).  rich = PyObject_RichCompare contract,
        reached only without CYTHON_USE_PYLONG_INTERNALS when both operands overflow long long
        on the same side ---- *)
Theorem C19_intint_eq : forall c rich op a b,
  cfg_ok c -> (forall o x y, rich o x y = zop o x y) ->
  wf (i_sh c) a -> wf (i_sh c) b ->
  cmp_intint c rich op a b = Some (zop op (value (i_sh c) a) (value (i_sh c) b)).
Proof. exact intint_correct. Qed.
Print Assumptions C19_intint_eq.

(* the dispatcher's identity shortcut (op1 == op2) agrees with it *)
Theorem C19_intint_identity_eq : forall c rich op (same : bool) a b,
  cfg_ok c -> (forall o x y, rich o x y = zop o x y) ->
  wf (i_sh c) a -> wf (i_sh c) b -> (same = true -> a = b) ->
  cmp_exact c rich op same a b = Some (zop op (value (i_sh c) a) (value (i_sh c) b)).
Proof. exact exact_correct. Qed.
Print Assumptions C19_intint_identity_eq.

(* stated on values (operands = the normalised representation PyLong_From* builds).  The
   correspondence run evaluates cmp_exact on representations that the extracted wfb and value
   certify (wf, value = the operand), i.e. on instances of the previous theorem, and compares
   them with of_Z for operands of up to 8 digits and with lv_tag / ob_digit read from memory *)
Theorem C19_intint_values_eq : forall c op (same : bool) x y,
  cfg_ok c -> (same = true -> x = y) -> cmp_values c op same x y = Some (zop op x y).
Proof. exact values_correct. Qed.
Print Assumptions C19_intint_values_eq.

(* the digit loop, entered at index k-1, compares the numbers formed by the k low digits: every
   digit position down to index 0 takes part *)
Theorem C19_intint_digit_loop : forall sh w a b, 0 <= sh -> sh < w ->
  digits_ok sh (pl_digits a) -> digits_ok sh (pl_digits b) ->
  length (pl_digits a) = length (pl_digits b) ->
  forall k, (k <= length (pl_digits a))%nat ->
  exists d, digit_loop w a b k 0 = Some d /\
            cmp_says w d (mag sh (firstn k (pl_digits a))) (mag sh (firstn k (pl_digits b))).
Proof. exact digit_loop_spec. Qed.
Print Assumptions C19_intint_digit_loop.

(* the configurations: CPython 3.12 LP64 (run), the same without PyLong internals (run),
   pre-3.12 Py_SIZE layout, 15-bit digits on ILP32 *)
Theorem C19_intint_configs :
  cfg_ok lp64_312 /\ cfg_ok lp64_noint /\ cfg_ok lp64_311 /\ cfg_ok ilp32_15.
Proof. exact (conj cfg_ok_lp64_312 (conj cfg_ok_lp64_noint (conj cfg_ok_lp64_311 cfg_ok_ilp32_15))). Qed.
Print Assumptions C19_intint_configs.

(* non-trivial instance: two three-digit ints that differ in the lowest digit only are told
   apart, after three iterations of the digit loop (branch 6) *)
Example C19_intint_nonvacuous :
  cmp_values lp64_312 OpEq false (2 ^ 60 + 1) (2 ^ 60 + 2) = Some false /\
  cmp_values lp64_312 OpLt false (2 ^ 60 + 1) (2 ^ 60 + 2) = Some true /\
  branch_values lp64_312 (2 ^ 60 + 1) (2 ^ 60 + 2) = (6, 3).
Proof. exact lowest_digit_decides. Qed.

(* ---- PyObjectCompare on an exact float and an exact int (Cython/Utility/Optimize.c:
        __Pyx_PyObject_CompareFloatInt<Op> / __Pyx_PyObject_CompareIntFloat<Op>).  A double is nan,
        an infinity or a finite dyadic rational n / 2^k (DFin n k; every IEEE double is one).
        For every operator, every such double, every well-formed CPython int (any sign, any
        number of digits) and every configuration satisfying fcfg_ok - CYTHON_USE_PYLONG_INTERNALS
        on or off, lv_tag or ob_size layout - the helper returns the comparison of the two VALUES
        (fop / zfop: cross-multiplied integers, = the order of the rationals, see
        C19_float_oracle_is_rational_order), and never converts an integer to double inexactly
        (Some).  rich = the final PyObject_RichCompare, contract: CPython compares exactly ---- *)
Theorem C19_floatint_eq : forall c rich op f b,
  fcfg_ok c -> (forall o g z, rich o g z = fop o g z) ->
  dbl_ok f -> wf (i_sh (f_i c)) b ->
  cmp_floatint c rich op f b = Some (fop op f (value (i_sh (f_i c)) b)).
Proof. exact floatint_correct. Qed.
Print Assumptions C19_floatint_eq.

Theorem C19_intfloat_eq : forall c rich op a f,
  fcfg_ok c -> (forall o z g, rich o z g = zfop o z g) ->
  dbl_ok f -> wf (i_sh (f_i c)) a ->
  cmp_intfloat c rich op a f = Some (zfop op (value (i_sh (f_i c)) a) f).
Proof. exact intfloat_correct. Qed.
Print Assumptions C19_intfloat_eq.

(* the dispatcher on exact float / int operands in any combination (float-float = the C
   comparison of the doubles; int-int with the identity shortcut) *)
Theorem C19_num_eq : forall c rfz rzf rzz op (same : bool) a b,
  fcfg_ok c -> (forall o g z, rfz o g z = fop o g z) -> (forall o z g, rzf o z g = zfop o z g) ->
  (forall o x y, rzz o x y = zop o x y) ->
  num_ok (i_sh (f_i c)) a -> num_ok (i_sh (f_i c)) b ->
  (same = true -> a = b) -> (same = true -> exists x, a = NInt x) ->
  cmp_num c rfz rzf rzz op same a b = Some (num_op (i_sh (f_i c)) op a b).
Proof. exact num_correct. Qed.
Print Assumptions C19_num_eq.

(* the two preprocessor variants (and the two struct layouts) of each helper agree *)
Theorem C19_floatint_variants_agree : forall c1 c2 rich op f b,
  fcfg_ok c1 -> fcfg_ok c2 -> i_sh (f_i c1) = i_sh (f_i c2) ->
  (forall o g z, rich o g z = fop o g z) -> dbl_ok f -> wf (i_sh (f_i c1)) b ->
  cmp_floatint c1 rich op f b = cmp_floatint c2 rich op f b.
Proof. exact floatint_variants_agree. Qed.
Print Assumptions C19_floatint_variants_agree.

Theorem C19_intfloat_variants_agree : forall c1 c2 rich op a f,
  fcfg_ok c1 -> fcfg_ok c2 -> i_sh (f_i c1) = i_sh (f_i c2) ->
  (forall o z g, rich o z g = zfop o z g) -> dbl_ok f -> wf (i_sh (f_i c1)) a ->
  cmp_intfloat c1 rich op a f = cmp_intfloat c2 rich op a f.
Proof. exact intfloat_variants_agree. Qed.
Print Assumptions C19_intfloat_variants_agree.

Theorem C19_intint_variants_agree : forall c1 c2 rich op a b,
  cfg_ok c1 -> cfg_ok c2 -> i_sh c1 = i_sh c2 ->
  (forall o x y, rich o x y = zop o x y) -> wf (i_sh c1) a -> wf (i_sh c1) b ->
  cmp_intint c1 rich op a b = cmp_intint c2 rich op a b.
Proof. exact intint_variants_agree. Qed.
Print Assumptions C19_intint_variants_agree.

(* the oracle is the order of the rational n / 2^k and the integer z *)
Theorem C19_float_oracle_is_rational_order : forall n k z, 0 <= k ->
  fz_cmp (DFin n k) z = Some (QArith_base.Qcompare (q_of n k) (QArith_base.inject_Z z)) /\
  zf_cmp z (DFin n k) = Some (QArith_base.Qcompare (QArith_base.inject_Z z) (q_of n k)).
Proof. intros n k z H. exact (conj (fz_cmp_rational n k z H) (zf_cmp_rational n k z H)). Qed.
Print Assumptions C19_float_oracle_is_rational_order.

(* configurations: CPython 3.12 LP64 with internals (run) and without (run), pre-3.12 layout *)
Theorem C19_floatint_configs : fcfg_ok f_lp64_312 /\ fcfg_ok f_lp64_noint /\ fcfg_ok f_lp64_311.
Proof. exact (conj fcfg_ok_lp64_312 (conj fcfg_ok_lp64_noint fcfg_ok_lp64_311)). Qed.
Print Assumptions C19_floatint_configs.

(* NOT covered by fcfg_ok, and false there: a 32-bit long (LLP64) without PyLong internals.
   PyLong_AsLongAndOverflow overflows from 2^31 on, but the shortcut taken on overflow assumes
   the int is at least 2^53:  2.0**45 < 2**40  evaluates to True.  (Not reproducible on this
   LP64 machine; the model follows the C text.) *)
Theorem C19_floatint_long32_refuted :
  exists op f z, dbl_ok f /\
    cmp_floatint f_llp64_noint fop op f (of_Z 30 z) <> Some (fop op f z).
Proof. exact floatint_long32_refuted. Qed.
Print Assumptions C19_floatint_long32_refuted.

(* non-trivial instance: -1.5 against -(2**40) (float of small magnitude, negative multi-digit
   int) is decided by the same-sign shortcut (branch 4) with internals and as doubles (7) without *)
Example C19_floatint_nonvacuous :
  let b := of_Z 30 (- 2 ^ 40) in let f := DFin (-3) 1 in
  cmp_floatint f_lp64_312 fop OpLt f b = Some false /\
  cmp_floatint f_lp64_312 fop OpGt f b = Some true /\
  cmp_floatint f_lp64_noint fop OpLt f b = Some false /\
  cmp_intfloat f_lp64_312 zfop OpLt b f = Some true /\
  fbranch f_lp64_312 false f b = 4 /\ fbranch f_lp64_noint false f b = 7.
Proof. exact small_float_vs_big_int. Qed.

(* the hypotheses are satisfiable on non-trivial values: a 3-link cascade that stops at the
   second link, a flattened test with two member temps, an accepted 3-clause chain *)
Example C19_nonvacuous :
  (let c := (mkOp 0 true (inl 1), [(0, mkOp 1 true (inl 2)); (0, mkOp 2 true (inl 3)); (0, mkOp 3 true (inl 4))]) in
   let cmp := fun (_ : Z) (a b : val) => inl (if a <? 2 then 1 else 0) : val + exn in
   let truth := fun v : val => inl (negb (v =? 0)) : bool + exn in
   snd c <> [] /\
   run_cascade cmp truth true c = ([EvOp 0; EvOp 1; EvCmp 0 1 2; EvTruth 1; EvOp 2; EvCmp 0 2 3; EvTruth 0], OVal 0))
  /\
  (let e := mkIn false (mkOp 0 true (inl 5)) false KTuple
              [mkM false false false (mkOp 1 true (inl 4)); mkM true false false (mkOp 2 false (inl 5));
               mkM false false false (mkOp 3 true (inl 6))] in
   simple_pure e /\ set_hashable (fun _ => true) e /\
   run_flatten Z.eqb Z.eqb (fun _ => true) 900 true e = ([EvOp 0; EvOp 1; EvOp 3], OVal true))
  /\
  (let x := SVar [1] false TyInt in
   let lit := fun z => SLit (mkL (KInt z) z TyInt) in
   let cls := [mkC (CCmpC CopEq x (lit 1) false) 10;
               mkC (COr (CCmpC CopEq x (lit 2) false) (CCmpC CopEq (lit 3) x false)) 20;
               mkC (CInStr false x false [7; 5; 7]) 30] in
   clauses_wf (fun _ => 5) cls /\
   visit_if true cls (Some 40) =
     SSwitch x [([mkL (KInt 1) 1 TyInt], 10); ([mkL (KInt 2) 2 TyInt; mkL (KInt 3) 3 TyInt], 20);
                ([mkL (KInt 5) 5 TyInt; mkL (KInt 7) 7 TyInt], 30)] (Some 40) /\
   exec_stmt (fun _ => 5) (fun _ => 0) (fun _ => false) (visit_if true cls (Some 40)) = ([], Some 30)).
Proof.
  split; [|split].
  - split; [discriminate|vm_compute; reflexivity].
  - split; [|split].
    + split; [discriminate|]. constructor; [discriminate|].
      constructor; [intros _; split; [reflexivity|exists 5; reflexivity]|].
      constructor; [discriminate|constructor].
    + discriminate.
    + vm_compute. reflexivity.
  - split; [|split].
    + constructor; [cbn; auto|]. constructor; [cbn; auto|]. constructor; [cbn; auto|constructor].
    + vm_compute. reflexivity.
    + vm_compute. reflexivity.
Qed.

(* ---- ConstantFolding.visit_PrimaryCmpNode: a comparison chain whose links between two
        constants are folded at compile time (constant-True link dropped, constant-False link
        cuts the chain, the remaining partial cascades joined by `and`) evaluates like the
        unfolded chain - same value or exception, same operand evaluations, same comparison
        calls and truth tests of logging objects - for EVERY chain, every constness assignment,
        every semantics of the non-constant operands, every compile-time oracle that agrees with
        the run-time comparison of the constants, when comparison results are True/False;
        both for the code as it is (tf = false) and the repaired tail (tf = true) ---- *)
Theorem C19_constfold_chain_eq :
  forall ct cmp truth vbool loud,
    (forall b, truth (vbool b) = inl b) -> (forall b, loud (vbool b) = false) ->
    (forall op a b r, cmp op a b = inl r -> exists bb, r = vbool bb) ->
    (forall op a b r, ct op a b = Some r -> cmp op a b = inl (vbool r)) ->
    forall tf (c : chain), snd c <> [] -> chain_ok loud c ->
    obs loud (run_fold cmp truth vbool ct tf false c) = obs loud (ref_cascade cmp truth (plain c)).
Proof. exact fold_correct. Qed.
Print Assumptions C19_constfold_chain_eq.

(* a partial cascade of the folded chain runs on the temp machine of the first theorem *)
Theorem C19_constfold_segment_is_cascade : forall cmp truth vbool (c : cascade),
  snd c <> [] -> eval_node cmp truth vbool (FCasc c) [] = run_cascade cmp truth true c.
Proof. exact fold_segment_is_cascade. Qed.
Print Assumptions C19_constfold_segment_is_cascade.

(* the variant that throws the partial cascades to the left of a constant-False link away
   (`f() < 1 > 2` -> False, f never called) violates the statement under the same hypotheses *)
Theorem C19_constfold_drop_left_refuted :
  exists ct cmp truth vbool loud (c : chain),
    (forall b, truth (vbool b) = inl b) /\ (forall b, loud (vbool b) = false) /\
    (forall op a b r, cmp op a b = inl r -> exists bb, r = vbool bb) /\
    (forall op a b r, ct op a b = Some r -> cmp op a b = inl (vbool r)) /\
    chain_ok loud c /\ snd c <> [] /\
    obs loud (run_fold cmp truth vbool ct false true c) <> obs loud (ref_cascade cmp truth (plain c)).
Proof. exact fold_drop_left_refuted. Qed.
Print Assumptions C19_constfold_drop_left_refuted.

(* FULL statement (comparison results may be arbitrary objects, hypothesis 3 dropped): false for
   the code as it is - `w < 2 > 1` returns the result object of w < 2 untested where Python
   tests it and returns True (finding constfold_true_tail_result_untested; tf = true repairs
   this witness) ... *)
Theorem C19_constfold_objresult_refuted :
  exists ct cmp truth vbool loud (c : chain),
    (forall b, truth (vbool b) = inl b) /\ (forall b, loud (vbool b) = false) /\
    (forall op a b r, ct op a b = Some r -> cmp op a b = inl (vbool r)) /\
    chain_ok loud c /\ snd c <> [] /\
    obs loud (run_fold cmp truth vbool ct false false c) <> obs loud (ref_cascade cmp truth (plain c)) /\
    obs loud (run_fold cmp truth vbool ct true false c) = obs loud (ref_cascade cmp truth (plain c)).
Proof. exact fold_objresult_refuted. Qed.
Print Assumptions C19_constfold_objresult_refuted.

(* ... and also with the repaired tail: a falsy result object inside a partial cascade of two
   links that is followed by another node is truth-tested twice (finding
   constfold_segment_result_tested_twice) *)
Theorem C19_constfold_double_truth_refuted :
  exists ct cmp truth vbool loud (c : chain),
    (forall b, truth (vbool b) = inl b) /\ (forall b, loud (vbool b) = false) /\
    (forall op a b r, ct op a b = Some r -> cmp op a b = inl (vbool r)) /\
    chain_ok loud c /\ snd c <> [] /\
    obs loud (run_fold cmp truth vbool ct true false c) <> obs loud (ref_cascade cmp truth (plain c)).
Proof. exact fold_double_truth_refuted. Qed.
Print Assumptions C19_constfold_double_truth_refuted.

(* hypotheses of C19_constfold_chain_eq are satisfiable on a chain with a call, a constant-True
   and a constant-False link:  f() < 1 > 2  keeps the call *)
Example C19_constfold_nonvacuous :
  chain_ok w_quiet w_chain /\ snd w_chain <> [] /\
  fold w_ct false false w_chain =
    [FCasc (mkOp 0 true (inl 0), [(0, mkOp 1 false (inl 1))]); FBool false] /\
  run_fold w_cmp w_truth w_vbool w_ct false false w_chain = ([EvOp 0; EvCmp 0 0 1; EvTruth 1], OVal 0).
Proof.
  split; [exact (proj2 (proj2 (proj2 (proj2 w_hyps))))|]. split; [discriminate|].
  split; vm_compute; reflexivity.
Qed.

(* ---- ConstantFolding._handle_NotNode: `not (a in b)` -> `a not in b`, `not (a is b)` ->
        `a is not b` (after folding the operand; a literal operand gives the literal `not`;
        everything else keeps its NotNode) has the same value or exception and the same operand
        evaluations as the NotNode, for every folded operand, when `not in` / `is not` are the
        negations of `in` / `is` (language reference) ---- *)
Theorem C19_constfold_not_eq : forall cmp truth vbool,
  (forall b, truth (vbool b) = inl b) ->
  (forall op op' a b, negate_op op = Some op' ->
     match cmp op a b with
     | inr x => cmp op' a b = inr x
     | inl r => exists bb, r = vbool bb /\ cmp op' a b = inl (vbool (negb bb))
     end) ->
  forall ns, obs quiet (eval_nexpr cmp truth vbool (handle_not ns)) =
             obs quiet (eval_nexpr cmp truth vbool (NNot ns)).
Proof. exact handle_not_correct. Qed.
Print Assumptions C19_constfold_not_eq.
