(* C12 — Module string-table compression round-trips.
   Only statements; proofs live in Proof/P_LZSS.v, the model in Model/M_LZSS.v.
   compress   = Cython/LZSS.py lzss_compress (None = IndexError),
   decompress = Cython/Utility/StringTools.c __pyx_lzss_decompress with every access to src and
                dst bounds-checked (OOB_* results), returning (dst contents, bytes consumed). *)
From Coq Require Import ZArith List Bool.
From CyVerif Require Import Model.M_LZSS Proof.P_LZSS.
Import ListNotations.
Open Scope Z_scope.

(* The property, for EVERY non-empty byte string: the compressor terminates normally, writes only
   byte values, and the C decompressor given its output and dst_len = len(data) reconstructs data
   exactly, consumes exactly the compressed length, and performs no out-of-bounds access
   (an OOB_* result is excluded by the equation; ref_pos >= 0 makes the memcpy ranges disjoint). *)
Theorem C12_roundtrip : forall data,
  data <> [] -> bytes data ->
  exists c, compress data = Some c /\ bytes c /\
            decompress c (Z.of_nat (length data)) = DOk data (Z.of_nat (length c)).
Proof. exact roundtrip. Qed.
Print Assumptions C12_roundtrip.

(* (a) bit packing and decoding are inverse on every valid token stream, whatever match finder
   produced it: flag bytes, the three back-reference encodings, the padded last flag byte and
   the stop-at-dst_len rule *)
Theorem C12_pack_decode_all_token_streams : forall toks,
  toks <> [] -> valid_toks 0 toks ->
  decompress (pack toks) (Z.of_nat (length (expand toks))) =
  DOk (expand toks) (Z.of_nat (length (pack toks))).
Proof. exact pack_decode_all_token_streams. Qed.
Print Assumptions C12_pack_decode_all_token_streams.

(* (b) the match finder (hash table of token-start positions, window, lazy matching) never
   raises IndexError and emits only valid tokens whose expansion is the input *)
Theorem C12_tokenizer_sound : forall data,
  bytes data ->
  exists toks, tokenize data = Some toks /\ valid_toks 0 toks /\ toks_bytes toks /\ expand toks = data.
Proof. exact tokenizer_sound. Qed.
Print Assumptions C12_tokenizer_sound.

(* __Pyx_DecompressString_LZSS(cstring, len(compressed), len(data)) returns data (no RuntimeError) *)
Theorem C12_string_wrapper : forall data,
  data <> [] -> bytes data ->
  exists c, compress data = Some c /\
            decompress_string c (Z.of_nat (length c)) (Z.of_nat (length data)) = SOk data.
Proof. exact string_wrapper. Qed.
Print Assumptions C12_string_wrapper.

(* Code.py emits the lzss branch only if compressed_size <= len(concat_bytes) - 200, hence only
   for inputs of at least 200 bytes: the empty input never reaches the C decompressor ... *)
Theorem C12_selection_guard : forall data,
  lzss_emitted data = true -> 200 <= Z.of_nat (length data) /\ data <> [].
Proof. exact selection_guard. Qed.
Print Assumptions C12_selection_guard.

(* ... so whenever the decompressor call is emitted it returns the string table *)
Theorem C12_emitted_roundtrip : forall data,
  bytes data -> lzss_emitted data = true ->
  exists c, compress data = Some c /\
            decompress_string c (Z.of_nat (length c)) (Z.of_nat (length data)) = SOk data.
Proof. exact emitted_roundtrip. Qed.
Print Assumptions C12_emitted_roundtrip.

(* the hypothesis data <> [] is necessary: on the empty input (compressed to b'') the C loop
   would read src[0]; by C12_selection_guard this call is never generated *)
Theorem C12_empty_input_oob : compress [] = Some [] /\ decompress [] 0 = OOB_src_read.
Proof. exact empty_input_oob. Qed.
Print Assumptions C12_empty_input_oob.

(* non-vacuity: a 224-byte string whose token stream uses all three back-reference encodings
   (14-bit: end offset 130, length 40; 7-bit: end offset 0, length 4; 9-bit: end offset 173, length 5) *)
Definition ex_data : list Z :=
  zrange 40 0 ++ zrange 130 100 ++ zrange 40 0 ++ [250; 251; 252; 253] ++ [250; 251; 252; 253]
  ++ zrange 5 100 ++ [255].

Example C12_nonvacuous :
  ex_data <> [] /\ bytes ex_data /\
  (exists toks, tokenize ex_data = Some toks /\ valid_toks 0 toks /\
     filter (fun t => match t with TRef _ _ _ => true | TLit _ => false end) toks =
     [TRef 130 40 [130; 128; 37]; TRef 0 4 [0; 1]; TRef 173 5 [173; 2]]) /\
  (exists c, compress ex_data = Some c /\ length c = 205%nat /\
     decompress c 224 = DOk ex_data 205).
Proof.
  assert (bytes ex_data) as Hb by (apply bytesb_ok; vm_compute; reflexivity).
  split; [discriminate|]. split; [exact Hb|]. split.
  - destruct (tokenizer_sound ex_data Hb) as (toks & E & V & _ & _).
    exists toks. split; [exact E|]. split; [exact V|].
    revert E. vm_compute. intros E. injection E as <-. reflexivity.
  - eexists. split; [vm_compute; reflexivity|]. split; vm_compute; reflexivity.
Qed.
