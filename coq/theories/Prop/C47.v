(* C47 -- Source literal stripping is lossless and complete.
   Only statements; proofs live in Proof/P_Strip.v, the model in Model/M_Strip.v.
   strip fixp fixe code : the scanner strip_string_literals on a text (list of code points);
     fixp / fixe = false: the code as it is; true: with the proposed repair of the f-string
     prefix pattern / of the f flag carried over an empty triple-quoted literal.
   Done items lits : new_code (characters and labels Lab k) and the literals in label order. *)
From Coq Require Import NArith List Bool.
From CyVerif Require Import Model.M_Strip Proof.P_Strip.
Import ListNotations.

(* termination + losslessness on items, every input text: the fuel S(length code) given by
   [strip] always suffices (never OutOfFuel), no impossible token kind is met (never Stuck),
   and replacing every label by its literal gives the input back exactly *)
Theorem C47_terminates_and_lossless : forall fixp fixe code,
  exists items lits, strip fixp fixe code = Done items lits /\ subst lits items = Some code.
Proof. exact strip_total_lossless. Qed.
Print Assumptions C47_terminates_and_lossless.

(* losslessness on the text actually returned: "".join(new_code) with labels prefix+decimal+"_"
   and the dict {label: literal}; substituting back = re.sub(prefix [0-9]+ _, dict lookup).
   Stated assumption: the prefix does not occur in the input (and has no proper border). *)
Theorem C47_text_lossless : forall fixp fixe prefix code items lits,
  borderless prefix -> ~ occurs prefix code ->
  strip fixp fixe code = Done items lits ->
  subst_text prefix (dict prefix lits) 0 (render prefix items) = Some code.
Proof. exact strip_text_lossless. Qed.
Print Assumptions C47_text_lossless.

(* ... for the prefix both callers use, '__Pyx_L' *)
Theorem C47_default_prefix_lossless : forall fixp fixe code items lits,
  occursb default_prefix code = false ->
  strip fixp fixe code = Done items lits ->
  subst_text default_prefix (dict default_prefix lits) 0 (render default_prefix items) = Some code.
Proof. exact strip_default_prefix_lossless. Qed.
Print Assumptions C47_default_prefix_lossless.

(* completeness, fragment without f-string prefixes: whenever the reference tokenizer
   (character-level Python rules for ' " ''' """ literals, backslash escapes and # comments;
   None iff some literal carries an f/F/fr/rf.. prefix) classifies the text, the scanner keeps
   exactly the code characters and moves exactly the literal/comment body characters into
   literals, position by position: no body character is left in the stripped text *)
Theorem C47_complete_non_fstring : forall fixp fixe code cl,
  ref_classify code = Some cl ->
  exists items lits, strip fixp fixe code = Done items lits /\ classify lits items = Some cl.
Proof. exact strip_complete_plain. Qed.
Print Assumptions C47_complete_non_fstring.

(* the reference classification is a classification of the input itself *)
Theorem C47_reference_partitions_input : forall code cl,
  ref_classify code = Some cl -> map fst cl = code.
Proof. exact ref_classify_is_partition. Qed.
Print Assumptions C47_reference_partitions_input.

(* Full-strength completeness ("no body character remains, including inside f-strings") is
   FALSE for the code as it is -- finding F21:
   (a) F"{d["k"]}" : only a lower-case f directly before the quote marks an f-string, the
       k of the nested literal stays in the stripped text ... *)
Theorem C47_complete_fstring_prefix_refuted : forall fixe, kept_at false fixe w_upper_f 6 107%N.
Proof. exact upper_f_prefix_refuted. Qed.
Print Assumptions C47_complete_fstring_prefix_refuted.

(* ... and is moved into a literal with the repaired prefix pattern [fF][rR]? *)
Theorem C47_complete_fstring_prefix_repaired_witness : forall fixe, removed_at true fixe w_upper_f 6 107%N.
Proof. exact upper_f_prefix_repaired. Qed.
Print Assumptions C47_complete_fstring_prefix_repaired_witness.

(* (b) f"""{x:#x}<nl>abc""" : '#' in a format spec starts a comment, the literal text abc
       of the next line is scanned as code (with and without the prefix repair) *)
Theorem C47_complete_format_spec_hash_refuted : forall fixp fixe, kept_at fixp fixe w_spec_hash 11 97%N.
Proof. exact spec_hash_refuted. Qed.
Print Assumptions C47_complete_format_spec_hash_refuted.

(* (c) a = f"{x:'^9}"<nl>b = 'lit' : a quote used as fill character opens a literal, the
       body of the later literal 'lit' stays in the stripped text *)
Theorem C47_complete_format_spec_quote_refuted : forall fixp fixe, kept_at fixp fixe w_spec_quote 20 108%N.
Proof. exact spec_quote_refuted. Qed.
Print Assumptions C47_complete_format_spec_quote_refuted.

(* (d) f'''''''<sp>{}' : seven quotes after f = an empty triple-quoted f-string followed by the
       plain literal '<sp>{}'; the scanner treats that second literal as an f-string and keeps its
       braces as code ... *)
Theorem C47_complete_empty_triple_flag_refuted : forall fixp, kept_at fixp false w_empty_triple 9 123%N.
Proof. exact empty_triple_flag_refuted. Qed.
Print Assumptions C47_complete_empty_triple_flag_refuted.

(* ... and not with the repaired flag *)
Theorem C47_complete_empty_triple_flag_repaired_witness : forall fixp, removed_at fixp true w_empty_triple 9 123%N.
Proof. exact empty_triple_flag_repaired. Qed.
Print Assumptions C47_complete_empty_triple_flag_repaired_witness.

(* non-vacuity: x = 'a\'b' + "" # c'  -- the prefix is absent, the reference tokenizer accepts,
   two labels are produced and substituted back *)
Example C47_nonvacuous :
  let code := [120; 32; 61; 32; 39; 97; 92; 39; 98; 39; 32; 43; 32; 34; 34; 32; 35; 32; 99; 39]%N in
  occursb default_prefix code = false /\ borderless default_prefix
  /\ (exists cl, ref_classify code = Some cl /\ nth_error cl 7 = Some (39%N, true)
                 /\ nth_error cl 19 = Some (39%N, true) /\ nth_error cl 13 = Some (34%N, false))
  /\ (exists items lits, strip false false code = Done items lits /\ length lits = 2
                         /\ subst_text default_prefix (dict default_prefix lits) 0
                              (render default_prefix items) = Some code).
Proof.
  cbv zeta. split; [vm_compute; reflexivity|]. split; [exact default_prefix_borderless|]. split.
  - eexists. repeat split; vm_compute; reflexivity.
  - eexists _, _. repeat split; vm_compute; reflexivity.
Qed.
