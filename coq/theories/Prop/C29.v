(* C29 - automatic pickling of extension types round-trips.  Statements only; proofs in Proof/P_Pickle.v.
   Section variables of the model (atom, cv, to_py, from_py, czero, atom_truth, hash, atom_eqb) are
   universally quantified in every theorem: the value conversions and the hash are uninterpreted. *)
From Coq Require Import ZArith List Bool Permutation Sorted.
From CyVerif Require Import Model.M_Pickle Proof.P_Pickle Proof.P_PickleChain.
Import ListNotations.

(* 1. ROUND TRIP, all layouts (any number of members, any inheritance depth), all values: for an
   eligible class without user __getstate__/__setstate__, whose attribute names are pairwise
   distinct, what pickle/copy rebuild from __reduce__ has the type, the instance __dict__ and every
   member (inherited ones included) of the original.  slot_ok = each C member survives
   to_py/from_py (section hypothesis on the conversion) and is not a pointer. *)
Theorem C29_roundtrip :
  forall (atom cv : Type) (to_py : kind -> cv -> atom) (from_py : kind -> atom -> option cv)
         (czero : cv) (atom_truth : atom -> bool) (hash : nat -> list name -> Z)
         (atom_eqb : atom -> atom -> bool)
         avail f e (o : obj atom cv) c bs ms acc,
  t_hier (o_type atom cv o) = c :: bs ->
  decide f e (c :: bs) = InjectPickle ms ->
  existsb c_getstate (c :: bs) = false -> existsb c_setstate (c :: bs) = false ->
  NoDup (all_names (c :: bs)) ->
  wf_obj atom cv to_py from_py o ->
  accepted hash avail f (all_names (c :: bs)) = Some acc -> hd_error avail = Some 0%nat ->
  exists rv o',
    reduce atom cv to_py hash f e o = Ok rv /\
    load atom cv from_py czero atom_truth hash atom_eqb avail f e rv = Ok o' /\
    same_attrs atom cv (c :: bs) o' o.
Proof. exact P_Pickle.roundtrip. Qed.
Print Assumptions C29_roundtrip.

(* 2. the state tuple is the name-sorted member list (plus the non-empty __dict__), the checksum is
   the hash of exactly these names *)
Theorem C29_state_order :
  forall (atom cv : Type) (to_py : kind -> cv -> atom) (from_py : kind -> atom -> option cv)
         (hash : nat -> list name -> Z) f e (o : obj atom cv) c bs ms rv,
  t_hier (o_type atom cv o) = c :: bs ->
  decide f e (c :: bs) = InjectPickle ms ->
  existsb c_getstate (c :: bs) = false -> existsb c_setstate (c :: bs) = false ->
  wf_obj atom cv to_py from_py o -> reduce atom cv to_py hash f e o = Ok rv ->
  let st := map (fun m => item_of atom cv to_py m (slot_of atom cv o m)) (all_members (c :: bs)) in
  rv_chk atom rv = hash 0%nat (all_names (c :: bs)) /\
  StronglySorted mle (all_members (c :: bs)) /\
  ((rv_arg_state atom rv = Some st /\ rv_state atom rv = None) \/
   (rv_arg_state atom rv = None /\ rv_state atom rv = Some st) \/
   (exists d, o_dict atom cv o = Some d /\ d <> [] /\
              rv_arg_state atom rv = None /\ rv_state atom rv = Some (st ++ [PDict d]))).
Proof. exact P_Pickle.reduce_state_order. Qed.
Print Assumptions C29_state_order.

(* 3. the member list is a sorted permutation of the declared members of the class and its bases, and
   depends only on that set: re-ordering declarations, or moving them between a base and a subclass,
   changes neither the state order nor the checksum (old pickles stay loadable and correctly assigned) *)
Theorem C29_members_sorted_permutation :
  forall h, Permutation (all_members h) (gather h) /\ StronglySorted mle (all_members h).
Proof. intro h. split; [apply P_Pickle.all_members_perm|apply P_Pickle.all_members_sorted]. Qed.
Print Assumptions C29_members_sorted_permutation.

Theorem C29_layout_invariant :
  forall h1 h2, Permutation (gather h1) (gather h2) -> NoDup (map m_name (gather h1)) ->
                all_members h1 = all_members h2.
Proof. exact P_Pickle.layout_invariant. Qed.
Print Assumptions C29_layout_invariant.

(* 4. LAYOUT CHANGE.  Full statement wanted by the property: "all_names h1 <> all_names h2 -> loading
   raises".  It is FALSE for the real hash (28-bit truncation; the correspondence run exhibits two
   layouts with equal checksums and replays the mis-assignment) and not provable for an
   uninterpreted one.  Proved: a checksum outside the accepted set raises PickleError whatever the
   state; hence a changed layout is detected whenever the writer's checksum is not accepted, in
   particular when the hash separates the two layouts. *)
Theorem C29_bad_checksum_raises :
  forall (atom cv : Type) (from_py : kind -> atom -> option cv) (czero : cv) (atom_truth : atom -> bool)
         (hash : nat -> list name -> Z) (atom_eqb : atom -> atom -> bool) avail f owner t chk st acc,
  accepted hash avail f (all_names owner) = Some acc -> ~ In chk acc ->
  unpickle atom cv from_py czero atom_truth hash atom_eqb avail f owner t chk st = Err EPickle.
Proof. exact P_Pickle.unpickle_bad_checksum. Qed.
Print Assumptions C29_bad_checksum_raises.

Theorem C29_layout_change_detected_partial :
  forall (atom cv : Type) (to_py : kind -> cv -> atom) (from_py : kind -> atom -> option cv)
         (czero : cv) (atom_truth : atom -> bool) (hash : nat -> list name -> Z)
         (atom_eqb : atom -> atom -> bool) avail f e (o : obj atom cv) h1 h2 t2 rv acc2,
  reduce_cython atom cv to_py hash h1 o = Ok rv ->
  accepted hash avail f (all_names h2) = Some acc2 ->
  (forall a, In a avail -> hash a (all_names h2) <> hash 0%nat (all_names h1)) ->
  load_into atom cv from_py czero atom_truth hash atom_eqb avail f e h2 t2 rv = Err EPickle.
Proof. exact P_Pickle.cross_layout_injective. Qed.
Print Assumptions C29_layout_change_detected_partial.

(* 5. ELIGIBILITY = the documented rule, for every hierarchy, provided no stray module-level name
   __cinit__/__reduce__ is visible (quiet) - see C29_module_name_refuted for the general case *)
Theorem C29_eligibility_documented_partial :
  forall f e c bs, quiet f e ->
    ((exists ms, decide f e (c :: bs) = InjectPickle ms) <-> documented_rule f c bs).
Proof. exact P_Pickle.decide_pickle_iff. Qed.
Print Assumptions C29_eligibility_documented_partial.

Theorem C29_eligible_members :
  forall f e h ms, decide f e h = InjectPickle ms -> ms = all_members h.
Proof. exact P_Pickle.decide_pickle_members. Qed.
Print Assumptions C29_eligible_members.

Theorem C29_refusal_reason :
  forall f e c bs r ns,
  decide f e (c :: bs) = InjectRaise r ns ->
  match r with
  | RCinit => existsb c_cinit (c :: bs) || negb (fx_lookup f) && g_cinit e = true
  | RNonPy => existsb c_cinit (c :: bs) = false /\ ns <> [] /\
              ns = map m_name (filter (fun m => non_py f (m_kind m)) (all_members (c :: bs)))
  | RStruct => existsb c_cinit (c :: bs) = false /\ c_auto c <> Some true /\ ns <> [] /\
               (forall m, In m (all_members (c :: bs)) -> non_py f (m_kind m) = false) /\
               ns = map m_name (filter (fun m => is_struct (m_kind m)) (all_members (c :: bs)))
  end.
Proof. exact P_Pickle.decide_refusal. Qed.
Print Assumptions C29_refusal_reason.

(* 5b. THE BASE-CLASS WALK.  decide_walk is the while-loop of _inject_pickle_methods as written (accumulators
   all_members / cinit / inherited_reduce over cls = node.entry.type, cls.base_type, ...), parameterised by
   the scope each lookup consults; sel_cls = cls.scope (the code).  For chains of ANY depth: *)
Theorem C29_walk_accumulates_all_levels :
  forall sc sr node h,
  walk sc sr node h =
  {| w_members := gather h;
     w_cinit := existsb (fun k => c_cinit (sc node k)) h;
     w_reduce := existsb (fun k => c_reduce (sr node k)) h |}.
Proof. exact P_PickleChain.walk_spec. Qed.
Print Assumptions C29_walk_accumulates_all_levels.

Theorem C29_walk_is_decide :
  forall f e h, decide_walk sel_cls sel_cls f e h = decide f e h.
Proof. exact P_PickleChain.decide_walk_eq. Qed.
Print Assumptions C29_walk_is_decide.

(* the real methods are injected iff auto_pickle is not False and NO level (the class or a base at any
   depth) has a __cinit__, a __reduce__/__reduce_ex__, an unconvertible member, or a struct member while
   the class being compiled is not @auto_pickle(True) *)
Theorem C29_chain_rule :
  forall f e c bs, quiet f e ->
  ((exists ms, decide_walk sel_cls sel_cls f e (c :: bs) = InjectPickle ms) <->
   (c_auto c <> Some false /\ forall k, In k (c :: bs) -> level_ok f (forced_of c) k)).
Proof. exact P_PickleChain.chain_rule. Qed.
Print Assumptions C29_chain_rule.

Theorem C29_cinit_at_any_level_refuses :
  forall f e c bs k,
  quiet f e -> In k (c :: bs) -> c_cinit k = true ->
  existsb c_reduce (c :: bs) = false -> c_auto c <> Some false ->
  decide_walk sel_cls sel_cls f e (c :: bs) = InjectRaise RCinit [].
Proof. exact P_PickleChain.cinit_anywhere_refuses. Qed.
Print Assumptions C29_cinit_at_any_level_refuses.

Theorem C29_unconvertible_member_at_any_level_refuses :
  forall f e c bs k m,
  In k (c :: bs) -> In m (c_members k) -> special (m_name m) = false -> non_py f (m_kind m) = true ->
  forall ms, decide_walk sel_cls sel_cls f e (c :: bs) <> InjectPickle ms.
Proof. exact P_PickleChain.nonpy_anywhere_refuses. Qed.
Print Assumptions C29_unconvertible_member_at_any_level_refuses.

(* the own-scope-only variant (lookup of __cinit__ in node.scope at every step) decides, on EVERY chain, as if
   the bases had no __cinit__; so it injects real methods on every chain whose only obstacle is a base-class
   __cinit__ - the property-violating behaviour; concrete witnesses for __cinit__ and for __reduce__ *)
Theorem C29_own_scope_variant_spec :
  forall f e c bs, decide_walk sel_node sel_cls f e (c :: bs) = decide f e (c :: map clear_cinit bs).
Proof. exact P_PickleChain.own_scope_variant_spec. Qed.
Print Assumptions C29_own_scope_variant_spec.

Theorem C29_own_scope_variant_wrong :
  forall f e c bs,
  quiet f e -> c_cinit c = false -> existsb c_cinit bs = true ->
  documented_rule f c (map clear_cinit bs) ->
  (exists ms, decide_walk sel_node sel_cls f e (c :: bs) = InjectPickle ms) /\
  decide_walk sel_cls sel_cls f e (c :: bs) = InjectRaise RCinit [].
Proof. exact P_PickleChain.own_scope_variant_wrong. Qed.
Print Assumptions C29_own_scope_variant_wrong.

Theorem C29_own_scope_variant_refuted :
  decide_walk sel_cls sel_cls F1 E0 cinit_chain = InjectRaise RCinit [] /\
  exists ms, decide_walk sel_node sel_cls F1 E0 cinit_chain = InjectPickle ms /\ ms <> [].
Proof. exact P_PickleChain.own_scope_variant_refuted. Qed.
Print Assumptions C29_own_scope_variant_refuted.

Theorem C29_own_scope_reduce_refuted :
  decide_walk sel_cls sel_cls F1 E0 reduce_chain = NoInject /\
  exists ms, decide_walk sel_cls sel_node F1 E0 reduce_chain = InjectPickle ms.
Proof. exact P_PickleChain.own_scope_reduce_refuted. Qed.
Print Assumptions C29_own_scope_reduce_refuted.

(* 5c. FINDING (unchanged tree): a base class cimported from another module is seen through its .pxd
   (attributes, no methods); its __cinit__ is invisible to the walk, the subclass gets real pickle methods *)
Theorem C29_cimported_members_still_collected :
  forall c bs, all_members (c :: map pxd_view bs) = all_members (c :: bs).
Proof. exact P_PickleChain.all_members_pxd_view. Qed.
Print Assumptions C29_cimported_members_still_collected.

Theorem C29_cimported_base_cinit_unseen :
  forall f e c bs,
  quiet f e -> existsb c_cinit bs = true ->
  documented_rule f c (map pxd_view bs) ->
  (exists ms, decide f e (c :: map pxd_view bs) = InjectPickle ms) /\ ~ documented_rule f c bs.
Proof. exact P_PickleChain.cimported_cinit_unseen. Qed.
Print Assumptions C29_cimported_base_cinit_unseen.

Theorem C29_cimported_base_cinit_refuted :
  decide F1 E0 cinit_chain = InjectRaise RCinit [] /\
  exists ms, decide F1 E0 [mk_cls 2 [{| m_name := nB; m_kind := KObj |}] None; pxd_view cinit_base] = InjectPickle ms
             /\ ms <> [].
Proof. exact P_PickleChain.cimported_cinit_refuted. Qed.
Print Assumptions C29_cimported_base_cinit_refuted.

(* 6. FINDINGS: the as-is model (all repair flags off) violates the property *)
Theorem C29_module_name_refuted :
  exists h, documented_rule F0 (hd (mk_cls 0 [] None) h) (tl h) /\
            decide F0 {| g_cinit := true; g_reduce := false |} h = InjectRaise RCinit [].
Proof. exact P_Pickle.module_name_refuted. Qed.
Print Assumptions C29_module_name_refuted.

Theorem C29_autopickle_off_refuted :
  exists rv o', zreduce F0 E0 off_o = Ok rv /\ zload [0;1;2]%nat F0 E0 rv = Ok o' /\
                get Z Z (o_slots Z Z off_o) nB = Some (SC 9%Z) /\
                get Z Z (o_slots Z Z o') nB = Some (SC 0%Z).
Proof. exact P_Pickle.autopickle_off_refuted. Qed.
Print Assumptions C29_autopickle_off_refuted.

Theorem C29_char_ptr_refuted :
  (exists ms, decide F0 E0 ptr_h = InjectPickle ms) /\
  exists rv o', zreduce F0 E0 ptr_o = Ok rv /\ zload [0;1;2]%nat F0 E0 rv = Ok o' /\
                get Z Z (o_slots Z Z o') nA = Some SDangling.
Proof. exact P_Pickle.char_ptr_refuted. Qed.
Print Assumptions C29_char_ptr_refuted.

Theorem C29_checksum_padding_refuted :
  forall (hash : nat -> list name -> Z) ns, accepted hash [0; 1]%nat F0 ns = None.
Proof. exact P_Pickle.pad_refuted. Qed.
Print Assumptions C29_checksum_padding_refuted.

(* repaired variants: the flags make the findings disappear *)
Theorem C29_fx_lookup_env_irrelevant :
  forall f e1 e2 h, fx_lookup f = true -> decide f e1 h = decide f e2 h.
Proof. exact P_Pickle.decide_fx_lookup_env. Qed.
Print Assumptions C29_fx_lookup_env_irrelevant.

Theorem C29_fx_ptr_no_pointer_member :
  forall f e h ms m cv st, fx_ptr f = true -> decide f e h = InjectPickle ms ->
    In m (all_members h) -> m_kind m <> KC cv st true.
Proof. exact P_Pickle.eligible_fx_ptr_no_ptr. Qed.
Print Assumptions C29_fx_ptr_no_pointer_member.

Theorem C29_fx_pad_total :
  forall f cs, fx_pad f = true -> (1 <= length cs <= 3)%nat -> exists acc, pad3 f cs = Some acc.
Proof. exact P_Pickle.pad3_fx_total. Qed.
Print Assumptions C29_fx_pad_total.

(* the hypotheses of C29_roundtrip are satisfiable on a two-level hierarchy with a C member, an object
   member and a non-empty instance dict *)
Definition nv_h : hierarchy :=
  [mk_cls 2 [{| m_name := nB; m_kind := KObj |}; {| m_name := dict_name; m_kind := KObj |}] None;
   mk_cls 1 [{| m_name := nA; m_kind := kint |}] None].
Definition nv_o : obj Z Z :=
  {| o_type := {| t_hier := nv_h; t_pydict := false |};
     o_slots := [(nB, SObj (PAtom 4%Z)); (nA, SC 7%Z)]; o_dict := Some [(1%Z, 2%Z)] |}.
Example C29_nonvacuous :
  (exists ms, decide F0 E0 nv_h = InjectPickle ms) /\
  NoDup (all_names nv_h) /\
  wf_obj Z Z (fun _ c => c) (fun _ a => Some a) nv_o /\
  exists rv o', zreduce F0 E0 nv_o = Ok rv /\ zload [0;1;2]%nat F0 E0 rv = Ok o' /\
    o_dict Z Z o' = Some [(1%Z, 2%Z)] /\ get Z Z (o_slots Z Z o') nA = Some (SC 7%Z) /\
    get Z Z (o_slots Z Z o') nB = Some (SObj (PAtom 4%Z)).
Proof.
  split; [eexists; vm_compute; reflexivity|].
  split; [vm_compute; repeat constructor; simpl; intuition discriminate|].
  split.
  - split.
    + intros m Hm. vm_compute in Hm. destruct Hm as [<-|[<-|[]]]; eexists; (split; [vm_compute; reflexivity|]); vm_compute; auto.
    + vm_compute. split; discriminate.
  - eexists. eexists. split; [vm_compute; reflexivity|]. split; [vm_compute; reflexivity|].
    repeat split; reflexivity.
Qed.
