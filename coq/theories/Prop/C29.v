From Coq Require Import ZArith List Bool.
From CyVerif Require Import Model.M_Pickle Proof.P_Pickle.
Theorem C29_placeholder : True. Proof. exact P_Pickle.placeholder. Qed.
Print Assumptions C29_placeholder.
