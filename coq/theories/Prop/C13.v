(* C13 - Builtin call and method optimisations preserve semantics.
   Only statements; models in Model/M_Builtins.v, proofs in Proof/P_Builtins.v.
   pyx_* = the helper as written in the tree, py_* = Python's semantics written independently.
   Helpers not named here are plain C-API forwarding and are covered differentially only. *)
From Coq Require Import ZArith List Bool.
From CyVerif Require Import Lib.CInt Model.M_Builtins Proof.P_Builtins.
Import ListNotations.
Open Scope Z_scope.

(* 1. list.pop(i) (__Pyx_PyList_PopIndex macro + __Pyx__PyList_PopIndex): every list, every value
   of 'allocated', every C index value: same element, same remaining list, same IndexError *)
Theorem C13_pop_index_eq : forall (A : Type) (l : list A) alloc v,
  zlen l <= ssize_max -> pyx_list_popindex_macro l alloc v = py_list_pop l v.
Proof. intros A. exact pop_index_macro_eq. Qed.
Print Assumptions C13_pop_index_eq.

Theorem C13_pop_index_error_iff : forall (A : Type) (l : list A) alloc v,
  zlen l <= ssize_max ->
  (pyx_list_popindex_macro l alloc v = Raise IndexError <-> ~ (- zlen l <= v < zlen l)).
Proof. intros A. exact pop_index_error_iff. Qed.
Print Assumptions C13_pop_index_error_iff.

(* list.pop() (__Pyx_PyList_Pop) *)
Theorem C13_pop_eq : forall (A : Type) (l : list A) alloc,
  0 <= alloc -> pyx_list_pop l alloc = py_list_pop l (-1).
Proof. intros A. exact pop_eq. Qed.
Print Assumptions C13_pop_eq.

(* 2. bytes.startswith/endswith (__Pyx_PyBytes_SingleTailmatch).
   Full statement, FALSE on the tree (finding bytes_tailmatch_start_plus_sublen_overflow):
     forall s sub start stop dir, pyx_bytes_single false s sub start stop dir = Ok (py_tailmatch ...) *)
Theorem C13_bytes_tailmatch_refuted :
  exists s sub start stop dir,
    ssize_min <= start <= ssize_max /\ ssize_min <= stop <= ssize_max /\
    pyx_bytes_single false s sub start stop dir = UB /\
    py_tailmatch s sub start stop dir = false.
Proof. exact bytes_tailmatch_refuted. Qed.
Print Assumptions C13_bytes_tailmatch_refuted.

(* the tree, under the explicit complement of the finding class *)
Theorem C13_bytes_tailmatch_eq_partial : forall s sub start stop dir,
  zlen s + zlen sub <= ssize_max -> ssize_min <= start -> start + zlen sub <= ssize_max ->
  pyx_bytes_single false s sub start stop dir = Ok (py_tailmatch s sub start stop dir).
Proof. exact bytes_tailmatch_eq_partial. Qed.
Print Assumptions C13_bytes_tailmatch_eq_partial.

(* the repaired comparison (proposed fix): all start/end, both directions, no UB *)
Theorem C13_bytes_tailmatch_fixed_eq : forall s sub start stop dir,
  pyx_bytes_single true s sub start stop dir = Ok (py_tailmatch s sub start stop dir).
Proof. exact bytes_tailmatch_fixed_eq. Qed.
Print Assumptions C13_bytes_tailmatch_fixed_eq.

(* py_tailmatch is the test on the Python slice whenever the window is well formed *)
Theorem C13_tailmatch_window_is_slice : forall (s : list Z) start stop,
  let n := zlen s in
  let sa := if start <? 0 then (if start + n <? 0 then 0 else start + n) else start in
  let ea := snd (py_slice_adjust n start stop) in
  sa <= ea -> py_slice s start stop = sub_at s sa (ea - sa).
Proof. exact py_slice_window. Qed.
Print Assumptions C13_tailmatch_window_is_slice.

(* tuple of prefixes (bytes and str loops): first element that matches or raises decides *)
Theorem C13_tuple_loop_eq : forall (S : Type) (single : S -> res bool) subs,
  pyx_tuple_loop single subs = py_tuple_match single subs.
Proof. intros S. exact tuple_loop_eq. Qed.
Print Assumptions C13_tuple_loop_eq.

(* 3. b[start:stop].decode(...) (__Pyx_decode_c_bytes) and s[start:stop] (__Pyx_PyUnicode_Substring):
   the decoded/copied range is exactly Python's slice, for all start/stop in Z *)
Theorem C13_decode_c_bytes_range_eq : forall len start stop,
  0 <= len -> pyx_decode_c_bytes_range len start stop = py_slice_range len start stop.
Proof. exact decode_c_bytes_range_eq. Qed.
Print Assumptions C13_decode_c_bytes_range_eq.

Theorem C13_decode_c_bytes_range_in_bounds : forall len start stop o n,
  0 <= len -> pyx_decode_c_bytes_range len start stop = Some (o, n) -> 0 <= o /\ 0 < n /\ o + n <= len.
Proof. exact decode_c_bytes_range_in_bounds. Qed.
Print Assumptions C13_decode_c_bytes_range_in_bounds.

Theorem C13_substring_range_eq : forall len start stop,
  0 <= len -> pyx_substring_range len start stop = py_slice_range len start stop.
Proof. exact substring_range_eq. Qed.
Print Assumptions C13_substring_range_eq.

(* char* slices have no upper clipping (C semantics): equal only when stop lies inside the string *)
Theorem C13_decode_c_string_range_eq_partial : forall len start stop,
  0 <= len -> stop <= len ->
  pyx_decode_c_string_range len start stop = py_slice_range len start stop.
Proof. exact decode_c_string_range_eq_partial. Qed.
Print Assumptions C13_decode_c_string_range_eq_partial.

(* 4. abs() of a signed C integer: Python's value except at the most negative value, where it is
   OverflowError under overflowcheck=True and C undefined behaviour otherwise *)
Theorem C13_abs_c_eq : forall w ovf x,
  (w = 8 \/ w = 16 \/ w = 32 \/ w = 64) -> in_range w true x ->
  x <> min_int (if w <? 32 then 32 else w) true ->
  pyx_abs_c w ovf x = py_abs_c w x /\ pyx_abs_c w ovf x = Ok (Z.abs x).
Proof. exact abs_c_eq. Qed.
Print Assumptions C13_abs_c_eq.

Theorem C13_abs_c_min : forall w,
  (w = 32 \/ w = 64) ->
  pyx_abs_c w true (min_int w true) = py_abs_c w (min_int w true) /\
  py_abs_c w (min_int w true) = Raise OverflowError /\
  pyx_abs_c w false (min_int w true) = UB.
Proof. exact abs_c_min. Qed.
Print Assumptions C13_abs_c_min.

(* 5. ord(): full statement (forall o, pyx_ord false o = py_ord o) is FALSE on the tree
   (finding ord_str_wrong_length_raises_ValueError) *)
Theorem C13_ord_refuted : exists o, pyx_ord false o = Raise ValueError /\ py_ord o = Raise TypeError.
Proof. exact ord_refuted. Qed.
Print Assumptions C13_ord_refuted.

Theorem C13_ord_eq_partial : forall o,
  (forall l, o = OStr l -> zlen l = 1) -> pyx_ord false o = py_ord o.
Proof. exact ord_eq_partial. Qed.
Print Assumptions C13_ord_eq_partial.

Theorem C13_ord_fixed_eq : forall o, pyx_ord true o = py_ord o.
Proof. exact ord_fixed_eq. Qed.
Print Assumptions C13_ord_fixed_eq.

Theorem C13_chr_eq : forall v, pyx_chr v = py_chr v.
Proof. exact chr_eq. Qed.
Print Assumptions C13_chr_eq.

(* 6. dict.get / pop / setdefault default and KeyError logic *)
Theorem C13_dict_get_eq : forall d k dflt, pyx_dict_get d k dflt = py_dict_get d k dflt.
Proof. exact dict_get_eq. Qed.
Print Assumptions C13_dict_get_eq.

Theorem C13_dict_pop_313_eq : forall d k dflt, pyx_dict_pop_313 d k dflt = py_dict_pop d k dflt.
Proof. exact dict_pop_313_eq. Qed.
Print Assumptions C13_dict_pop_313_eq.

Theorem C13_dict_pop_keyerror_iff : forall d z dflt,
  pyx_dict_pop_313 d (KInt z) dflt = Raise KeyError <-> (lookup d z = None /\ dflt = None).
Proof. exact dict_pop_keyerror_iff. Qed.
Print Assumptions C13_dict_pop_keyerror_iff.

Theorem C13_dict_pop_ignore_eq : forall d k dflt,
  pyx_dict_pop_ignore d k =
  match py_dict_pop d k (Some dflt) with Ok (_, d') => Ok d' | Raise e => Raise e | UB => UB end.
Proof. exact dict_pop_ignore_eq. Qed.
Print Assumptions C13_dict_pop_ignore_eq.

Theorem C13_dict_setdefault_eq : forall d k dflt, pyx_dict_setdefault d k dflt = py_dict_setdefault d k dflt.
Proof. exact dict_setdefault_eq. Qed.
Print Assumptions C13_dict_setdefault_eq.

(* 7. min/max: the nested conditional built by _optimise_min_max for m+1 arguments, evaluated with
   ANY comparison function (non-total, non-antisymmetric, raising): same winner as Python's
   left-to-right scan, same exception, same sequence of comparison calls *)
Theorem C13_minmax_unrolled_eq : forall (cmp : Z -> Z -> option bool) (args : nat -> Z) (m : nat) env,
  eval cmp args (build_minmax m) env = py_scan cmp (args 0%nat) (map args (seq 1 m)).
Proof. exact minmax_unrolled_eq. Qed.
Print Assumptions C13_minmax_unrolled_eq.

Theorem C13_minmax_list_eq : forall cmp x rest,
  pyx_minmax cmp (x :: rest) = py_minmax cmp (x :: rest).
Proof. exact minmax_list_eq. Qed.
Print Assumptions C13_minmax_list_eq.

Theorem C13_minmax_ties_keep_first : forall cmp x rest,
  (forall a b, cmp a b = Some false) -> fst (pyx_minmax cmp (x :: rest)) = Ok x.
Proof. exact minmax_ties_keep_first. Qed.
Print Assumptions C13_minmax_ties_keep_first.

(* 8. any()/all() over a single-loop generator expression with optional filter, inlined as a loop
   with early return: same result, same exception, same items evaluated *)
Theorem C13_anyall_inlined_eq : forall filt pred is_any xs,
  pyx_anyall filt pred is_any xs = py_anyall filt pred is_any xs.
Proof. exact anyall_inlined_eq. Qed.
Print Assumptions C13_anyall_inlined_eq.

Theorem C13_anyall_early_exit : forall filt pred is_any pre x post,
  decides filt pred is_any x = true ->
  pyx_anyall filt pred is_any (pre ++ x :: post) = pyx_anyall filt pred is_any (pre ++ [x]).
Proof. exact anyall_early_exit. Qed.
Print Assumptions C13_anyall_early_exit.

(* the hypotheses are satisfiable on non-trivial values: a negative index on a 3-element list, an
   endswith with negative start, a 3-cycle comparison (no minimum exists: Python's scan still answers) *)
Example C13_nonvacuous :
  pyx_list_popindex_macro [10; 20; 30] 3 (-2) = Ok (20, [10; 30]) /\
  pyx_bytes_single false [97; 98; 99] [98; 99] (-2) 100 1 = Ok true /\
  fst (pyx_minmax (fun a b => Some ((a + 1) mod 3 =? b)) [0; 1; 2]) = Ok 2 /\
  pyx_anyall (fun _ => Some true) (fun x => if x =? 2 then None else Some (x =? 1)) true [0; 1; 2] = (Ok true, [0; 1]).
Proof. vm_compute. repeat split. Qed.
