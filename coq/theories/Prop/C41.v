(* C41 -- Compiler directives apply exactly within their scope.
   Only statements; proofs live in Proof/P_Directives.v.  Model: Model/M_Directives.v (the code),
   documented meaning: Model/M_DirectivesDoc.v, tables: Gen/Gen_Directives.v (regenerated from
   the running Options module by props/C41.py on every run). *)
From Coq Require Import ZArith NArith List Bool.
From CyVerif Require Import Model.M_Directives Model.M_DirectivesDoc Proof.P_Directives Gen.Gen_Directives.
Import ListNotations.
Open Scope N_scope.

(* ---- directive strings ---- *)

(* parse_directive_value, for every type table, flag, name and text (all code-point strings):
   Ok v only with v the documented value of the text (or the docstring's "option does not exist
   -> None" exit for an unknown / value-less name); Err exactly when the text has no documented
   value -- never a silently different value *)
Theorem C41_parse_value_ok_or_error :
  forall types digit_val codec_class relaxed name text,
  match parse_directive_value types digit_val codec_class relaxed name text with
  | Ok v => doc_value types digit_val codec_class relaxed name text = Some v \/
            (v = VNone /\ doc_value types digit_val codec_class relaxed name text = None /\
             (lookup_type name types = None \/ lookup_type name types = Some TNoValue))
  | Err _ who => doc_value types digit_val codec_class relaxed name text = None /\ who = name
  end.
Proof. exact parse_value_ok_or_error. Qed.
Print Assumptions C41_parse_value_ok_or_error.

(* parse_directive_list: FULL STATEMENT (false for the code as it is on the current table, see
   C41_parse_list_refuted):
     forall relaxed ignore cur s, match parse_directive_list g_types g_names ... false relaxed ignore cur s with
       | Ok d => exists f, doc_list ... s = Some f /\ forall k, get k d = f k | Err _ _ => doc_list ... s = None end.
   Proved (partial): for every table in which no default directive is value-less (strict = false,
   the code as it is), and unconditionally for the repaired parser (strict = true). *)
Theorem C41_parse_list_ok_or_error_partial :
  forall types defaults digit_val codec_class strict,
  (strict = false -> forall d, In d defaults -> settable types d = true) ->
  forall relaxed ignore cur s,
  match parse_directive_list types defaults digit_val codec_class strict relaxed ignore cur s with
  | Ok d => exists f, doc_list types defaults digit_val codec_class relaxed ignore (fun k => get k cur) s = Some f
                      /\ forall k, get k d = f k
  | Err _ _ => doc_list types defaults digit_val codec_class relaxed ignore (fun k => get k cur) s = None
  end.
Proof. exact parse_list_ok_or_error. Qed.
Print Assumptions C41_parse_list_ok_or_error_partial.

(* the running table with the repaired parser: unconditional *)
Theorem C41_parse_list_ok_or_error_fixed :
  forall codec relaxed ignore cur s,
  match g_parse_list true codec relaxed ignore cur s with
  | Ok d => exists f, doc_list g_types g_names g_digit (codec_from_table codec) relaxed ignore (fun k => get k cur) s = Some f
                      /\ forall k, get k d = f k
  | Err _ _ => doc_list g_types g_names g_digit (codec_from_table codec) relaxed ignore (fun k => get k cur) s = None
  end.
Proof.
  intros. apply (parse_list_ok_or_error g_types g_names g_digit (codec_from_table codec) true). discriminate.
Qed.
Print Assumptions C41_parse_list_ok_or_error_fixed.

(* the code as it is, on the running table: "with_gil=True" is accepted and stored as None although
   the documentation gives it no value (finding valueless_directive_string_parsed_to_None) *)
Theorem C41_parse_list_refuted :
  exists s d, g_parse_list false [] false false [] s = Ok d /\
              get [119; 105; 116; 104; 95; 103; 105; 108] d = Some VNone /\
              doc_list g_types g_names g_digit (codec_from_table []) false false (fun k => get k []) s = None.
Proof.
  exists [119; 105; 116; 104; 95; 103; 105; 108; 61; 84; 114; 117; 101].   (* "with_gil=True" *)
  eexists. split; [vm_compute; reflexivity|]. split; vm_compute; reflexivity.
Qed.
Print Assumptions C41_parse_list_refuted.

(* ---- scope resolution ---- *)

(* module level: header comment (legal at module level), else options, else default *)
Theorem C41_module_precedence :
  forall scopes defaults options header d,
  get d (fst (module_dict scopes defaults options header)) = module_value scopes defaults options header d.
Proof. exact module_precedence. Qed.
Print Assumptions C41_module_precedence.

(* every forest of nested defs / classes / with blocks, every path, every inherited directive:
   the dict built by copying and updating while descending = innermost enclosing explicit legal
   setting, else the surrounding value; the transform's current dict is restored afterwards *)
Theorem C41_effective_directive :
  forall scopes immediate non_inherited d cur forest,
  mem d non_inherited = false -> Forall scalar_tree forest ->
  let '(l, st, _) := visit_list scopes immediate non_inherited cur forest in
  st = cur /\
  forall p a, lookup_path l p = Some a ->
              Some (get d (body_dict a)) = spec_at scopes immediate d (get d cur) forest p.
Proof. exact effective_directive. Qed.
Print Assumptions C41_effective_directive.

Theorem C41_effective_in_module :
  forall scopes immediate non_inherited defaults options header body d,
  mem d non_inherited = false -> Forall scalar_tree body ->
  let '(md, l, st, _) := visit_module scopes immediate non_inherited defaults options header body in
  st = md /\
  forall p a, lookup_path l p = Some a ->
    Some (get d (body_dict a)) =
    spec_at scopes immediate d (module_value scopes defaults options header d) body p.
Proof. exact effective_in_module. Qed.
Print Assumptions C41_effective_in_module.

(* no leak to siblings or outward: the value at a path depends only on the nodes on the path *)
Theorem C41_no_leak :
  forall scopes immediate non_inherited d cur f1 f2 p a1 a2,
  mem d non_inherited = false -> Forall scalar_tree f1 -> Forall scalar_tree f2 ->
  same_on_path f1 f2 p ->
  lookup_path (fst (fst (visit_list scopes immediate non_inherited cur f1))) p = Some a1 ->
  lookup_path (fst (fst (visit_list scopes immediate non_inherited cur f2))) p = Some a2 ->
  get d (body_dict a1) = get d (body_dict a2).
Proof. exact no_leak. Qed.
Print Assumptions C41_no_leak.

(* a setting illegal in its scope is reported (it is never applied: spec_at / module_value above
   only count legal settings) *)
Theorem C41_scope_violation_rejected :
  forall scopes immediate non_inherited cur k sets ch n v,
  k <> KProbe -> In (n, v) sets -> scope_ok scopes n (scope_name k) = false ->
  In (n, scope_name k) (snd (visit scopes immediate non_inherited cur (Node k sets ch))).
Proof. exact scope_violation_rejected. Qed.
Print Assumptions C41_scope_violation_rejected.

Theorem C41_header_scope_violation_rejected :
  forall scopes defaults options header n v,
  In (n, v) header -> scope_ok scopes n w_module = false ->
  In (n, w_module) (snd (module_dict scopes defaults options header)).
Proof. exact header_scope_violation_rejected. Qed.
Print Assumptions C41_header_scope_violation_rejected.

(* the generated directive_scopes table (finite, by computation): every entry is non-empty, and for
   each of module header / function / class / cdef class / with statement the model accepts a
   setting of the directive iff the scope is listed, reports it otherwise and leaves the enclosed
   value unchanged *)
Theorem C41_scope_table :
  scope_table_check g_scopes g_immediate g_non_inherited g_defaults = true.
Proof. vm_compute. reflexivity. Qed.
Print Assumptions C41_scope_table.

(* ---- immediate vs inherited decorators ---- *)

(* the running tables (finite, by computation over the dump of Options.immediate_decorator_directives
   and Options.directive_scopes): the immediate set is exactly the documented list of signature /
   type decorators, contains no documented behaviour directive (boundscheck, wraparound, cdivision,
   nonecheck, overflowcheck, embedsignature, binding, always_allow_keywords, profile, infer_types,
   optimize.*, warn.* ...), none of those is dropped on inheritance either, and every immediate
   directive is one whose use is restricted to particular scopes *)
Theorem C41_immediate_table :
  immediate_table_ok g_immediate g_scopes g_non_inherited = true.
Proof. vm_compute. reflexivity. Qed.
Print Assumptions C41_immediate_table.

(* directive_scopes of the running compiler = the documented placement table, entry by entry *)
Theorem C41_scopes_table_documented : scopes_table_ok g_scopes = true.
Proof. vm_compute. reflexivity. Qed.
Print Assumptions C41_scopes_table_documented.

(* any tables, any directive outside the immediate set: the value for the code at any path is the
   innermost enclosing explicit legal setting -- the specification with an EMPTY immediate set,
   i.e. class and function decorators are inherited by everything they enclose *)
Theorem C41_inherited_directive :
  forall scopes immediate non_inherited d cur forest,
  mem d immediate = false -> mem d non_inherited = false -> Forall scalar_tree forest ->
  let '(l, st, _) := visit_list scopes immediate non_inherited cur forest in
  st = cur /\
  forall p a, lookup_path l p = Some a ->
              Some (get d (body_dict a)) = spec_at scopes [] d (get d cur) forest p.
Proof. exact inherited_directive. Qed.
Print Assumptions C41_inherited_directive.

(* the running compiler, every documented behaviour directive, every forest and path *)
Theorem C41_behaviour_directive_inherited :
  forall d cur forest, In d doc_behaviour -> Forall scalar_tree forest ->
  let '(l, st, _) := visit_list g_scopes g_immediate g_non_inherited cur forest in
  st = cur /\
  forall p a, lookup_path l p = Some a ->
              Some (get d (body_dict a)) = spec_at g_scopes [] d (get d cur) forest p.
Proof.
  intros d cur forest Hd Hs.
  destruct (immediate_table_behaviour g_scopes g_immediate g_non_inherited d C41_immediate_table Hd) as [Hi Hn].
  exact (inherited_directive g_scopes g_immediate g_non_inherited d cur forest Hi Hn Hs).
Qed.
Print Assumptions C41_behaviour_directive_inherited.

(* a decorated def / class / cdef class: the object itself is under its own first legal decorator
   setting of every directive (immediate or not); the enclosed code is too unless the directive is
   immediate, in which case it keeps the surrounding value *)
Theorem C41_decorated_object :
  forall scopes immediate non_inherited d cur k sets ch,
  k <> KProbe -> k <> KWith -> scalar_tree (Node k sets ch) -> mem d non_inherited = false ->
  let '(a, st, _) := visit scopes immediate non_inherited cur (Node k sets ch) in
  st = cur /\
  get d (node_dict a) = or_else (first_setting scopes d k sets) (get d cur) /\
  get d (body_dict a) = or_else (if mem d immediate then None else first_setting scopes d k sets) (get d cur).
Proof. exact decorated_object. Qed.
Print Assumptions C41_decorated_object.

(* on the running tables an immediate directive is a documented one with a restricted scope *)
Theorem C41_immediate_members :
  forall d, mem d g_immediate = true -> mem d doc_immediate = true /\ restricted_scope g_scopes d = true.
Proof. intros d. exact (immediate_table_members g_scopes g_immediate g_non_inherited d C41_immediate_table). Qed.
Print Assumptions C41_immediate_members.

Definition ex_cdiv : str := [99; 100; 105; 118; 105; 115; 105; 111; 110].   (* "cdivision" *)
Definition ex_body : list tree :=
  [Node KFunc [(ex_cdiv, VBool false); (ex_cdiv, VBool true)]
        [Node KWith [(ex_cdiv, VBool true)] [Node KProbe [] []]; Node KProbe [] []];
   Node KFunc [] [Node KProbe [] []]].

(* hypotheses satisfiable on a non-trivial program: option cdivision=True; a function decorated
   cdivision(False) [first decorator wins] containing `with cdivision(True)`; a sibling function *)
Definition ex_binding : str := [98; 105; 110; 100; 105; 110; 103].   (* "binding" *)
Definition ex_final : str := [102; 105; 110; 97; 108].   (* "final" *)
Example C41_nonvacuous :
  In ex_binding doc_behaviour /\ mem ex_final g_immediate = true /\
  (let '(l, _, rej) := visit_list g_scopes g_immediate g_non_inherited g_defaults
       [Node KCClass [(ex_binding, VBool false); (ex_final, VBool true)] [Node KFunc [] [Node KProbe [] []]]] in
   rej = [] /\
   option_map (fun a => get ex_binding (body_dict a)) (lookup_path l [0; 0]%nat) = Some (Some (VBool false)) /\
   option_map (fun a => get ex_final (node_dict a)) (lookup_path l [0]%nat) = Some (Some (VBool true)) /\
   option_map (fun a => get ex_final (body_dict a)) (lookup_path l [0; 0]%nat) = Some None) /\
  mem ex_cdiv g_non_inherited = false /\ Forall scalar_tree ex_body /\
  let '(_, l, _, rej) := g_visit_module [(ex_cdiv, VBool true)] [] ex_body in
  rej = [] /\
  option_map (fun a => get ex_cdiv (body_dict a)) (lookup_path l [0; 0; 0]%nat) = Some (Some (VBool true)) /\
  option_map (fun a => get ex_cdiv (body_dict a)) (lookup_path l [0; 1]%nat) = Some (Some (VBool false)) /\
  option_map (fun a => get ex_cdiv (body_dict a)) (lookup_path l [1; 0]%nat) = Some (Some (VBool true)).
Proof.
  split; [vm_compute; tauto|]. split; [vm_compute; reflexivity|]. split; [vm_compute; auto|].
  split; [vm_compute; reflexivity|]. split.
  - repeat constructor.
  - vm_compute. auto.
Qed.
