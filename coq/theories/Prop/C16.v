(* C16 — Typed memoryview indexing and slicing match buffer semantics.
   Only statements; proofs live in Proof/P_MemSlice.v.  Model: Model/M_MemSlice.v
   (slice_dim/index_dim = __pyx_memoryview_slice_memviewslice, SliceIndex, SimpleSlice;
    slice_nd = generate_buffer_slice_code / memview_slice; py_* = CPython sliceobject.c).
   fixes_all  = the code with proposed_fixes/C16-*.diff applied,
   fixes_none = the code before them (the flag values are chosen in props/C16.py). *)
From Coq Require Import ZArith List Bool.
From CyVerif Require Import Lib.CInt Model.M_MemSlice Proof.P_MemSlice.
Import ListNotations.
Open Scope Z_scope.

(* For ALL integers shape >= 0, start, stop, step and all have_start/have_stop/have_step
   combinations, the repaired per-dimension computation yields exactly
   (slicelength, first index, index step) of slice(start, stop, step).indices(shape) --
   including the ValueError for a zero step (both sides None). *)
Theorem C16_slice_dim_eq : forall shape start stop step hs he hst,
  0 <= shape ->
  slice_triple fixes_all shape start stop step hs he hst
  = py_slice_indices shape (opt hs start) (opt he stop) (opt hst step).
Proof. exact slice_triple_eq. Qed.
Print Assumptions C16_slice_dim_eq.

(* the same against the ssize_t API PySlice_Unpack + PySlice_AdjustIndices, for every
   PY_SSIZE_T_MAX = M that holds the extent (the API clamps a step below -M) *)
Theorem C16_slice_dim_eq_unpack_adjust : forall M shape start stop step hs he hst,
  0 <= shape <= M -> (hst = true -> - M <= step) ->
  slice_triple fixes_all shape start stop step hs he hst
  = py_slice_ssize M shape (opt hs start) (opt he stop) (opt hst step).
Proof. exact slice_triple_ssize_eq. Qed.
Print Assumptions C16_slice_dim_eq_unpack_adjust.

(* the two CPython formulations agree *)
Theorem C16_unpack_adjust_is_indices : forall M length a b c,
  0 <= length <= M -> (forall s, c = Some s -> - M <= s) ->
  py_slice_ssize M length a b c = py_slice_indices length a b c.
Proof. exact py_slice_ssize_eq. Qed.
Print Assumptions C16_unpack_adjust_is_indices.

(* what is stored in dst (new shape, stride*step, data offset start*stride) addresses, as
   i-th element, base element first + i*step -- any code variant; when the normalised start is -1
   (negative step, start before the first item: the view is empty by C16_offsets_in_bounds) the data
   pointer / suboffset is not moved at all *)
Theorem C16_element_set_eq : forall fx shape stride start stop step hs he hst n s' o,
  slice_dim fx shape stride start stop step hs he hst = DSlice n s' o ->
  exists first istep,
    slice_triple fx shape start stop step hs he hst = Some (n, first, istep) /\
    (0 <= first -> forall i, o + i * s' = (first + i * istep) * stride) /\
    (first < 0 -> o = 0).
Proof. exact element_eq. Qed.
Print Assumptions C16_element_set_eq.

(* every element of the repaired view is an element of the base dimension (C36 share) *)
Theorem C16_offsets_in_bounds : forall shape start stop step hs he hst n first istep i,
  0 <= shape ->
  slice_triple fixes_all shape start stop step hs he hst = Some (n, first, istep) ->
  0 <= i < n -> 0 <= first + i * istep < shape.
Proof. exact offsets_in_bounds. Qed.
Print Assumptions C16_offsets_in_bounds.

(* "Step may not be zero": ValueError iff a step is given and is 0; a slice never raises IndexError *)
Theorem C16_zero_step_raises : forall fx shape stride start stop step hs he hst,
  (slice_dim fx shape stride start stop step hs he hst = DErr ValueError <-> (hst = true /\ step = 0))
  /\ slice_dim fx shape stride start stop step hs he hst <> DErr IndexError.
Proof. intros. split; [apply zero_step_raises|apply slice_dim_never_index_error]. Qed.
Print Assumptions C16_zero_step_raises.

(* integer index: IndexError iff outside [-shape, shape); otherwise the offset of the
   wrapped index, which lies in [0, shape) *)
Theorem C16_index_oob_raises : forall shape stride i, 0 <= shape ->
  (index_dim shape stride i = DErr IndexError <-> ~ (- shape <= i < shape)) /\
  (- shape <= i < shape ->
   index_dim shape stride i = DIndex ((if i <? 0 then i + shape else i) * stride)
   /\ 0 <= (if i <? 0 then i + shape else i) < shape).
Proof.
  intros shape stride i Hs. split; [apply index_oob_raises; exact Hs|]. intros Hr.
  rewrite index_dim_eq. destruct (py_index_spec shape i Hs) as [Hin _].
  destruct (Hin Hr) as [E B]. rewrite E. split; [reflexivity|exact B].
Qed.
Print Assumptions C16_index_oob_raises.

(* the SimpleSlice template (bare ':') is the general computation with nothing given *)
Theorem C16_simple_slice_eq : forall fx shape stride, 0 <= shape ->
  slice_dim fx shape stride 0 0 0 false false false = simple_slice shape stride.
Proof. exact simple_slice_eq. Qed.
Print Assumptions C16_simple_slice_eq.

(* N dimensions (int / slice / None per position, after ellipsis expansion): every element of
   the result view is the base element selected by Python/NumPy basic indexing (base_index),
   lies inside the base, and is read at the same byte offset. *)
Theorem C16_nd_elements : forall ixs dims off off' rdims,
  Forall (fun d => 0 <= fst d) dims ->
  slice_nd fixes_all dims ixs off = NdOk off' rdims ->
  forall js, in_box rdims js ->
  exists ks, base_index (map fst dims) ixs js = Some ks /\ in_box dims ks /\
             elem_offset off' rdims js = elem_offset off dims ks.
Proof. exact slice_nd_elements. Qed.
Print Assumptions C16_nd_elements.

(* N dimensions: ValueError only from a zero step, IndexError only from an integer index *)
Theorem C16_nd_errors : forall ixs dims off e,
  slice_nd fixes_all dims ixs off = NdErr e ->
  (e = ValueError -> exists a b, In (ISlice a b (Some 0)) ixs) /\
  (e = IndexError -> exists i, In (IInt i) ixs).
Proof. exact slice_nd_errors. Qed.
Print Assumptions C16_nd_errors.

(* no Py_ssize_t overflow in the index arithmetic of the slice branch (either code variant):
   start+shape, stop+shape, shape-1, the normalised bounds, stop-start, the quotient, step*quotient,
   the remainder and quotient+1 all fit in 64 bits when the arguments do and shape <= PY_SSIZE_T_MAX-1.
   (stride*step and start*stride depend on the buffer geometry and are not covered.)  C36 share *)
Theorem C16_slice_dim_no_overflow : forall fx shape start stop step hs he hst,
  in_range 64 true start -> in_range 64 true stop -> in_range 64 true step ->
  0 <= shape <= max_int 64 true - 1 -> (hst = true -> step <> 0) ->
  Forall (in_range 64 true) (slice_intermediates fx shape start stop step hs he hst).
Proof. exact slice_no_overflow. Qed.
Print Assumptions C16_slice_dim_no_overflow.

(* ---- the code before the repairs ----
   The full statement C16_slice_dim_eq is FALSE for it:
     forall shape start stop step hs he hst, 0 <= shape ->
       slice_triple fixes_none shape start stop step hs he hst = py_slice_indices shape ... *)

(* finding F7 (class neg_step_bound_below_minus_len): without the clamp repair, a[:-12:-1] *)
Theorem C16_slice_dim_eq_clamp_refuted : forall fe, exists shape start stop step hs he hst,
  0 <= shape /\ (hst = true -> step <> 0) /\
  slice_triple {| fx_clamp := false; fx_ceil := fe |} shape start stop step hs he hst
  <> py_slice_indices shape (opt hs start) (opt he stop) (opt hst step).
Proof. exact clamp_unfixed_refuted. Qed.
Print Assumptions C16_slice_dim_eq_clamp_refuted.

(* finding (class empty_slice_rounds_up): without the rounding repair, a[3:2:2] *)
Theorem C16_slice_dim_eq_ceil_refuted : forall fc, exists shape start stop step hs he hst,
  0 <= shape /\ (hst = true -> step <> 0) /\
  slice_triple {| fx_clamp := fc; fx_ceil := false |} shape start stop step hs he hst
  <> py_slice_indices shape (opt hs start) (opt he stop) (opt hst step).
Proof. exact ceil_unfixed_refuted. Qed.
Print Assumptions C16_slice_dim_eq_ceil_refuted.

(* ... and then an element outside the base is addressed: a[5:4:2] on 5 elements reads a[5] *)
Theorem C16_offsets_in_bounds_ceil_refuted : forall fc,
  exists shape start stop step hs he hst n first istep i,
  0 <= shape /\
  slice_triple {| fx_clamp := fc; fx_ceil := false |} shape start stop step hs he hst = Some (n, first, istep)
  /\ 0 <= i < n /\ ~ (0 <= first + i * istep < shape).
Proof. exact bounds_unfixed_refuted. Qed.
Print Assumptions C16_offsets_in_bounds_ceil_refuted.

(* outside the two classes the unrepaired code is right: f7_class = negative step with a given
   start/stop below -shape; ceil_class = exact quotient (stop'-start')/step' strictly inside (-1, 0) *)
Theorem C16_slice_dim_eq_current_partial : forall shape start stop step hs he hst,
  0 <= shape ->
  f7_class shape start stop step hs he hst = false ->
  (forall s' e' st' n, slice_bounds fixes_all shape start stop step hs he hst = Some (s', e', st', n) ->
                       ceil_class s' e' st' = false) ->
  slice_triple fixes_none shape start stop step hs he hst
  = py_slice_indices shape (opt hs start) (opt he stop) (opt hst step).
Proof. exact slice_triple_current_partial. Qed.
Print Assumptions C16_slice_dim_eq_current_partial.

(* non-vacuity: a reversed, strided slice of a 2-D base; a[::-2, 1] on shape (5, 4), C order, 8-byte items *)
Example C16_nonvacuous :
  slice_triple fixes_all 5 0 (-12) (-1) false true true = Some (5, 4, -1)
  /\ py_slice_indices 5 None (Some (-12)) (Some (-1)) = Some (5, 4, -1)
  /\ slice_nd fixes_all [(5, 32); (4, 8)] [ISlice None None (Some (-2)); IInt 1] 0 = NdOk 136 [(3, -64)]
  /\ in_box [(3, -64)] [2]
  /\ base_index [5; 4] [ISlice None None (Some (-2)); IInt 1] [2] = Some [0; 1]
  /\ elem_offset 136 [(3, -64)] [2] = elem_offset 0 [(5, 32); (4, 8)] [0; 1].
Proof. vm_compute. intuition congruence. Qed.
