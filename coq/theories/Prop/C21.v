(* C21 - Unbound local variables fail exactly where CPython fails: the flow-analysis part.
   Model: Model/M_Flow.v (ControlFlow.initialize / reaching_definitions / map_one and the cf_is_null,
   cf_maybe_null hints of check_definitions).  All theorems hold for EVERY finite CFG, every block
   order and every gen/kill assignment.

   NOT proved (the property stays partial there, and is false - finding del_in_try_no_exception_edge):
     cfg_covers_paths : every interpreter execution of a function body is a path of the CFG that
     ControlFlowAnalysis builds for it, and initialize()'s i_gen/i_kill summarise the block statements.
   That part is tested by the correspondence run (compiled functions vs CPython). *)
From Coq Require Import NArith List Bool Arith.
From CyVerif Require Import Model.M_Flow Proof.P_Flow.
Import ListNotations.

(* the "while dirty" loop finishes within len(blocks)*bits+1 passes (rd_fuel), whatever the graph *)
Theorem C21_fixpoint_reached_terminates : forall (nbits : nat) (bs : list rblock),
  (forall b, In b bs -> bits_below nbits (r_gen b)) ->
  exists r, reaching_definitions nbits bs = Some r.
Proof. exact P_Flow.rd_terminates. Qed.
Print Assumptions C21_fixpoint_reached_terminates.

(* its result solves the data-flow equations: i_input = OR of the parents' i_output,
   i_output = (i_input & ~i_kill) | i_gen, the entry point keeps i_output = i_gen *)
Theorem C21_fixpoint_reached_equations : forall nbits bs outs ins,
  (forall b, In b bs -> bits_below nbits (r_gen b)) ->
  reaching_definitions nbits bs = Some (outs, ins) -> rd_equations bs outs ins.
Proof. exact P_Flow.rd_fixpoint. Qed.
Print Assumptions C21_fixpoint_reached_equations.

(* ... and it is the least solution *)
Theorem C21_fixpoint_reached_least : forall nbits bs outs ins Sol,
  reaching_definitions nbits bs = Some (outs, ins) ->
  sub (r_gen (nth 0 bs rb0)) (getN Sol 0) ->
  (forall i b, 1 <= i < length bs -> nth_error bs i = Some b ->
     sub (transfer b (or_parents Sol (r_parents b))) (getN Sol i)) ->
  le_outs outs Sol.
Proof. exact P_Flow.rd_least. Qed.
Print Assumptions C21_fixpoint_reached_least.

(* a definition that survives some CFG path from a generating block (for Uninitialized bits: the
   entry point or a block ending in a deletion) is in i_output of the last block and in i_input of
   each of its children *)
Theorem C21_rd_sound : forall bs outs ins d,
  rd_equations bs outs ins ->
  (forall v, flows bs d v -> N.testbit (getN outs v) d = true) /\
  (forall u v b, flows bs d u -> 1 <= v -> nth_error bs v = Some b -> In u (r_parents b) ->
     N.testbit (getN ins v) d = true).
Proof. exact P_Flow.rd_sound. Qed.
Print Assumptions C21_rd_sound.

(* a reference classified "definitely bound" (no cf_maybe_null, so NameNode emits no check): no CFG
   path delivers the Uninitialized pseudo-definition of the entry to it *)
Theorem C21_no_check_safe : forall bs outs ins mask clo e v b pre u,
  rd_equations bs outs ins ->
  1 <= v -> nth_error bs v = Some b ->
  classify clo false (has_uninit (state_after mask pre (getN ins v)) e)
                     (has_other mask (state_after mask pre (getN ins v)) e) = Bound ->
  flows bs (N.of_nat e) u -> In u (r_parents b) ->
  (forall x, N.testbit x (N.of_nat e) = true -> N.testbit (state_after mask pre x) (N.of_nat e) = true) ->
  False.
Proof. exact P_Flow.no_check_safe. Qed.
Print Assumptions C21_no_check_safe.

(* a reference classified cf_is_null: no CFG path delivers any assignment of the entry to it *)
Theorem C21_is_null_exact : forall bs outs ins mask clo sta e v b pre u k,
  rd_equations bs outs ins ->
  1 <= v -> nth_error bs v = Some b ->
  classify clo sta (has_uninit (state_after mask pre (getN ins v)) e)
                   (has_other mask (state_after mask pre (getN ins v)) e) = DefNull ->
  k <> N.of_nat e -> N.testbit (mask e) k = true ->
  flows bs k u -> In u (r_parents b) ->
  (forall x, N.testbit x k = true -> N.testbit (state_after mask pre x) k = true) ->
  False.
Proof. exact P_Flow.is_null_exact. Qed.
Print Assumptions C21_is_null_exact.

(* the classes the model reports are computed from exactly those states *)
Theorem C21_walk_spec : forall c mask ns x pre p post,
  ns = pre ++ p :: post ->
  nth (length pre) (walk c mask x ns) Bound =
  let e := stat_entry (fst p) in
  classify (nth e (c_closure c) false) (nth e (c_static c) false)
           (has_uninit (state_after mask pre x) e) (has_other mask (state_after mask pre x) e).
Proof. exact P_Flow.walk_spec. Qed.
Print Assumptions C21_walk_spec.

(* x = 1; del x; if c: del x - the CFG dumped from the compiler for it:
   the second "del x" is classified cf_is_null, the read of c definitely bound *)
Example C21_nonvacuous :
  let c := mk_cfg 2 [false; false] [false; false]
             [ mk_block [] [] []; mk_block [0] [SAssign 0; SAssign 1; SRef 1; SDel 1] [];
               mk_block [1] [SRef 0] []; mk_block [2] [SRef 1; SDel 1] []; mk_block [2; 3] [] [] ] in
  exists r, analyse c = Some r /\
    nth 3 (res_cls r) [] = [DefNull; DefNull] /\ nth 2 (res_cls r) [] = [Bound] /\
    rd_equations (res_raw r) (res_out r) (res_in r).
Proof.
  vm_compute analyse. eexists. split; [reflexivity|]. split; [reflexivity|]. split; [reflexivity|].
  cbn [res_raw res_out res_in].
  eapply P_Flow.rd_fixpoint with (nbits := 6).
  - intros b Hb k Hk. simpl in Hb.
    repeat (destruct Hb as [<-|Hb]; [revert k Hk; apply (proj1 (P_Flow.below_check 6 _)); vm_compute; reflexivity|]).
    destruct Hb.
  - vm_compute. reflexivity.
Qed.
