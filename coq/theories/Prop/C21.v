(* C21 - Unbound local variables fail exactly where CPython fails: the flow-analysis part.
   Model: Model/M_Flow.v (ControlFlow.initialize / reaching_definitions / map_one and the cf_is_null,
   cf_maybe_null hints of check_definitions).  All theorems hold for EVERY finite CFG, every block
   order and every gen/kill assignment.

   CFG construction (Model/M_FlowCFG.v = ControlFlowAnalysis.visit_* for references, assignments, del,
   if, while/for..else, try/except/else, try/finally, with (desugared), break, continue, return,
   raise + the unreachable-block part of normalize): for the REPAIRED builder (fx = true,
   proposed_fixes/C21-jump_through_nested_finally.diff) every execution of a function body is covered
   by the graph (C21_cfg_covers_paths) and therefore every name read while unbound carries a
   cf_maybe_null / cf_is_null hint (C21_unbound_use_is_checked), under the decidable side condition
   graph_ok that the extracted model evaluates on every program.  For the builder AS IT IS (fx = false)
   the statement is false: C21_asis_*_refuted (findings jump_skips_outer_finally,
   exception_in_finally_ending_in_jump).
   NOT proved: graph_ok (build ...) = true for all programs (edges leave from block ends etc.; checked
   at run time); an as-is theorem restricted to programs outside the two finding classes; statements
   outside the modelled language (match, comprehensions, closures, augmented assignment) are tested
   only. *)
From Coq Require Import NArith List Bool Arith.
From CyVerif Require Import Model.M_Flow Proof.P_Flow.
From CyVerif Require Import Model.M_FlowCFG Proof.P_FlowCFG Proof.P_FlowCFG_Sim Proof.P_FlowCFG_Bridge.
Import ListNotations.

(* the "while dirty" loop finishes within len(blocks)*bits+1 passes (rd_fuel), whatever the graph *)
Theorem C21_fixpoint_reached_terminates : forall (nbits : nat) (bs : list rblock),
  (forall b, In b bs -> bits_below nbits (r_gen b)) ->
  exists r, reaching_definitions nbits bs = Some r.
Proof. exact P_Flow.rd_terminates. Qed.
Print Assumptions C21_fixpoint_reached_terminates.

(* its result solves the data-flow equations: i_input = OR of the parents' i_output,
   i_output = (i_input & ~i_kill) | i_gen, the entry point keeps i_output = i_gen *)
Theorem C21_fixpoint_reached_equations : forall nbits bs outs ins,
  (forall b, In b bs -> bits_below nbits (r_gen b)) ->
  reaching_definitions nbits bs = Some (outs, ins) -> rd_equations bs outs ins.
Proof. exact P_Flow.rd_fixpoint. Qed.
Print Assumptions C21_fixpoint_reached_equations.

(* ... and it is the least solution *)
Theorem C21_fixpoint_reached_least : forall nbits bs outs ins Sol,
  reaching_definitions nbits bs = Some (outs, ins) ->
  sub (r_gen (nth 0 bs rb0)) (getN Sol 0) ->
  (forall i b, 1 <= i < length bs -> nth_error bs i = Some b ->
     sub (transfer b (or_parents Sol (r_parents b))) (getN Sol i)) ->
  le_outs outs Sol.
Proof. exact P_Flow.rd_least. Qed.
Print Assumptions C21_fixpoint_reached_least.

(* a definition that survives some CFG path from a generating block (for Uninitialized bits: the
   entry point or a block ending in a deletion) is in i_output of the last block and in i_input of
   each of its children *)
Theorem C21_rd_sound : forall bs outs ins d,
  rd_equations bs outs ins ->
  (forall v, flows bs d v -> N.testbit (getN outs v) d = true) /\
  (forall u v b, flows bs d u -> 1 <= v -> nth_error bs v = Some b -> In u (r_parents b) ->
     N.testbit (getN ins v) d = true).
Proof. exact P_Flow.rd_sound. Qed.
Print Assumptions C21_rd_sound.

(* a reference classified "definitely bound" (no cf_maybe_null, so NameNode emits no check): no CFG
   path delivers the Uninitialized pseudo-definition of the entry to it *)
Theorem C21_no_check_safe : forall bs outs ins mask clo e v b pre u,
  rd_equations bs outs ins ->
  1 <= v -> nth_error bs v = Some b ->
  classify clo false (has_uninit (state_after mask pre (getN ins v)) e)
                     (has_other mask (state_after mask pre (getN ins v)) e) = Bound ->
  flows bs (N.of_nat e) u -> In u (r_parents b) ->
  (forall x, N.testbit x (N.of_nat e) = true -> N.testbit (state_after mask pre x) (N.of_nat e) = true) ->
  False.
Proof. exact P_Flow.no_check_safe. Qed.
Print Assumptions C21_no_check_safe.

(* a reference classified cf_is_null: no CFG path delivers any assignment of the entry to it *)
Theorem C21_is_null_exact : forall bs outs ins mask clo sta e v b pre u k,
  rd_equations bs outs ins ->
  1 <= v -> nth_error bs v = Some b ->
  classify clo sta (has_uninit (state_after mask pre (getN ins v)) e)
                   (has_other mask (state_after mask pre (getN ins v)) e) = DefNull ->
  k <> N.of_nat e -> N.testbit (mask e) k = true ->
  flows bs k u -> In u (r_parents b) ->
  (forall x, N.testbit x k = true -> N.testbit (state_after mask pre x) k = true) ->
  False.
Proof. exact P_Flow.is_null_exact. Qed.
Print Assumptions C21_is_null_exact.

(* the classes the model reports are computed from exactly those states *)
Theorem C21_walk_spec : forall c mask ns x pre p post,
  ns = pre ++ p :: post ->
  nth (length pre) (walk c mask x ns) Bound =
  let e := stat_entry (fst p) in
  classify (nth e (c_closure c) false) (nth e (c_static c) false)
           (has_uninit (state_after mask pre x) e) (has_other mask (state_after mask pre x) e).
Proof. exact P_Flow.walk_spec. Qed.
Print Assumptions C21_walk_spec.

(* ---- CFG construction ------------------------------------------------------------------------- *)

(* every evaluation of a NameNode (read, assignment target, del) that some execution of the body
   performs while the name is unbound is a statement of the graph built by the repaired
   ControlFlowAnalysis, at a position that a path from the entry point reaches with the name unbound.  Executions: any outcome of conditions,
   loop counts, raise points, handler matches; break/continue/return/raise through any nesting of
   try/finally, try/except and loops. *)
Theorem C21_cfg_covers_paths : forall args body tr o s2,
  wf false body = true ->
  exec (IS body) (bind args s_init) tr o s2 ->
  Forall (justified (build true args body)) tr.
Proof. exact P_FlowCFG_Sim.cfg_covers_paths. Qed.
Print Assumptions C21_cfg_covers_paths.

(* ... and check_definitions (M_Flow.analyse on that graph, after detaching unreachable blocks) gives
   that statement the cf_maybe_null hint, so NameNode emits the run-time check (reads, del) resp. the
   NULL-tolerant decref of the old value (assignments) *)
Theorem C21_unbound_use_is_checked : forall ne args body tr o s2 l e r,
  wf false body = true ->
  graph_ok ne (build true args body) = true ->
  exec (IS body) (bind args s_init) tr o s2 ->
  In (l, e, false) tr ->
  analyse (cfg_of ne (build true args body)) = Some r ->
  exists b k s c', stat_at (build true args body) b k = Some s /\ label_of s = l /\ entry_of s = e /\
                   cls_at ne (build true args body) r b k = Some c' /\ c' <> Bound.
Proof. exact P_FlowCFG_Bridge.unbound_use_is_checked. Qed.
Print Assumptions C21_unbound_use_is_checked.

Theorem C21_no_hint_no_unbound_use : forall ne args body tr o s2 l e r,
  wf false body = true ->
  graph_ok ne (build true args body) = true ->
  exec (IS body) (bind args s_init) tr o s2 ->
  analyse (cfg_of ne (build true args body)) = Some r ->
  (forall b k s, stat_at (build true args body) b k = Some s -> label_of s = l ->
                 cls_at ne (build true args body) r b k = Some Bound) ->
  ~ In (l, e, false) tr.
Proof. exact P_FlowCFG_Bridge.no_hint_no_unbound_use. Qed.
Print Assumptions C21_no_hint_no_unbound_use.

(* the code as it is: break through two nested finally clauses skips the outer one - the read after
   the loop happens with x unbound but is classified "definitely bound" (no check: NULL dereference) *)
Theorem C21_asis_jump_skips_outer_finally_refuted :
  (exists tr s2, exec (IS w1_body) (bind w1_args s_init) tr OExc s2 /\ In (7, 2, false) tr) /\
  exists r, analyse (cfg_of 4 (build false w1_args w1_body)) = Some r /\
    graph_ok 4 (build false w1_args w1_body) = true /\ wf false w1_body = true /\
    forallb (fun q => match q with (s, b, k) =>
               match s with LRef 7 2 => match cls_at 4 (build false w1_args w1_body) r b k with
                                        | Some Bound => true | _ => false end
                          | _ => true end end)
            (all_stats (build false w1_args w1_body)) = true /\
    existsb (fun q => match q with (LRef 7 2, _, _) => true | _ => false end)
            (all_stats (build false w1_args w1_body)) = true.
Proof. split; [exact P_FlowCFG_Bridge.w1_exec|exact P_FlowCFG_Bridge.w1_class]. Qed.
Print Assumptions C21_asis_jump_skips_outer_finally_refuted.

(* the code as it is: an exception raised inside a finally clause that ends in return reaches the
   enclosing handler without a CFG edge *)
Theorem C21_asis_exception_in_finally_ending_in_jump_refuted :
  (exists tr s2, exec (IS w2_body) (bind w1_args s_init) tr OExc s2 /\ In (4, 2, false) tr) /\
  exists r, analyse (cfg_of 3 (build false w1_args w2_body)) = Some r /\
    graph_ok 3 (build false w1_args w2_body) = true /\ wf false w2_body = true /\
    forallb (fun q => match q with (s, b, k) =>
               match s with LRef 4 2 => match cls_at 3 (build false w1_args w2_body) r b k with
                                        | Some Bound => true | _ => false end
                          | _ => true end end)
            (all_stats (build false w1_args w2_body)) = true /\
    existsb (fun q => match q with (LRef 4 2, _, _) => true | _ => false end)
            (all_stats (build false w1_args w2_body)) = true.
Proof. split; [exact P_FlowCFG_Bridge.w2_exec|exact P_FlowCFG_Bridge.w2_class]. Qed.
Print Assumptions C21_asis_exception_in_finally_ending_in_jump_refuted.

(* the hypotheses of C21_unbound_use_is_checked hold on the first of these programs *)
Example C21_cfg_nonvacuous : graph_ok 4 (build true w1_args w1_body) = true /\ wf false w1_body = true /\
  exists r, analyse (cfg_of 4 (build true w1_args w1_body)) = Some r.
Proof. exact P_FlowCFG_Bridge.w1_fixed_ok. Qed.

(* x = 1; del x; if c: del x - the CFG dumped from the compiler for it:
   the second "del x" is classified cf_is_null, the read of c definitely bound *)
Example C21_nonvacuous :
  let c := mk_cfg 2 [false; false] [false; false]
             [ mk_block [] [] []; mk_block [0] [SAssign 0; SAssign 1; SRef 1; SDel 1] [];
               mk_block [1] [SRef 0] []; mk_block [2] [SRef 1; SDel 1] []; mk_block [2; 3] [] [] ] in
  exists r, analyse c = Some r /\
    nth 3 (res_cls r) [] = [DefNull; DefNull] /\ nth 2 (res_cls r) [] = [Bound] /\
    rd_equations (res_raw r) (res_out r) (res_in r).
Proof.
  vm_compute analyse. eexists. split; [reflexivity|]. split; [reflexivity|]. split; [reflexivity|].
  cbn [res_raw res_out res_in].
  eapply P_Flow.rd_fixpoint with (nbits := 6).
  - intros b Hb k Hk. simpl in Hb.
    repeat (destruct Hb as [<-|Hb]; [revert k Hk; apply (proj1 (P_Flow.below_check 6 _)); vm_compute; reflexivity|]).
    destruct Hb.
  - vm_compute. reflexivity.
Qed.
