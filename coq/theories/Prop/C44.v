(* C44 — Tracebacks and code positions point at the right source: the location-table encoder
   (Cython/Compiler/LineTable.py) against CPython 3.12's table readers.
   Only statements; definitions of the vocabulary (wf_pos, sorted_from, chain, table_wf) and the
   proofs live in Proof/P_LineTable.v, the executable model in Model/M_LineTable.v.

   build_line_table fx : fx = false is the code as it is (long form carries end_lineno to the next
   entry), fx = true the proposed one-line repair (carries start_lineno). *)
From Coq Require Import ZArith List Bool Lia.
From CyVerif Require Import Lib.CInt Model.M_LineTable Proof.P_LineTable.
Import ListNotations.
Open Scope Z_scope.

(* vocabulary, spelled out: a position is well formed iff 0 <= start <= end line, columns >= 0 *)
Theorem C44_wf_pos_def : forall sl el sc ec,
  wf_pos (sl, el, sc, ec) <-> (0 <= sl /\ sl <= el /\ 0 <= sc /\ 0 <= ec).
Proof. intros. unfold wf_pos. tauto. Qed.
Print Assumptions C44_wf_pos_def.

(* sorted_from first ps: start lines non-decreasing, the first one >= firstlineno *)
Theorem C44_sorted_from_def : forall first p r,
  sorted_from first [] /\
  (sorted_from first (p :: r) <-> (first <= p_start p /\ sorted_from (p_start p) r)).
Proof. intros. unfold sorted_from. cbn. tauto. Qed.
Print Assumptions C44_sorted_from_def.

(* MAIN (repaired encoder): for EVERY list of well-formed positions sorted by start line the
   encoder succeeds and CPython's co_positions() reader returns exactly the list; the line reader
   used by co_lines()/PyCode_Addr2Line returns exactly the start lines.  Unbounded in length,
   line numbers and columns. *)
Theorem C44_decode_encode : forall ps first,
  Forall wf_pos ps -> sorted_from first ps ->
  exists bs, build_line_table true ps first = EOk bs /\
             decode_positions first bs = DOk ps /\
             decode_lines first bs = LOk (map p_start ps).
Proof. exact decode_encode_fixed. Qed.
Print Assumptions C44_decode_encode.

(* The same statement for the code as it is (fx = false) is FALSE:
     forall ps first, Forall wf_pos ps -> sorted_from first ps ->
       exists bs, build_line_table false ps first = EOk bs /\ decode_positions first bs = DOk ps
   (finding F1).  It holds when every position is on a single line - which is all that the
   compiler itself records (ParseTreeTransforms._build_positions emits (line, line, col, col')). *)
Theorem C44_decode_encode_current_partial : forall ps first,
  Forall wf_pos ps -> Forall (fun p => p_end p = p_start p) ps -> sorted_from first ps ->
  exists bs, build_line_table false ps first = EOk bs /\
             decode_positions first bs = DOk ps /\
             decode_lines first bs = LOk (map p_start ps).
Proof. exact decode_encode_current_single_line. Qed.
Print Assumptions C44_decode_encode_current_partial.

(* F1: a multi-line span followed by another entry is decoded wrongly ... *)
Theorem C44_decode_encode_current_refuted :
  exists ps first, Forall wf_pos ps /\ sorted_from first ps /\
    exists bs, build_line_table false ps first = EOk bs /\ decode_positions first bs <> DOk ps.
Proof. exact decode_encode_current_refuted. Qed.
Print Assumptions C44_decode_encode_current_refuted.

(* ... or a start-sorted list is rejected by the encoder's own assertion *)
Theorem C44_encode_current_rejects_sorted_refuted :
  exists ps first, Forall wf_pos ps /\ sorted_from first ps /\
    build_line_table false ps first = EAssertionError.
Proof. exact encode_current_rejects_sorted_refuted. Qed.
Print Assumptions C44_encode_current_rejects_sorted_refuted.

(* byte well-formedness, both variants, under the variant's own assertion chain (chain true =
   sorted_from; chain false = every start line >= the previous END line): the output is a
   concatenation of one entry per position, each a start byte in 128..255 with length field 0
   followed by payload bytes in 0..127; every byte is a latin-1 code point *)
Theorem C44_bytes_wellformed : forall fx ps first,
  Forall wf_pos ps -> chain fx first ps ->
  exists bs, build_line_table fx ps first = EOk bs /\
    (exists entries, bs = concat entries /\ length entries = length ps /\
       Forall (fun e => exists h t, e = h :: t /\ 128 <= h < 256 /\ Z.land h 7 = 0 /\
                                    Forall (fun b => 0 <= b < 128) t) entries) /\
    Forall (fun b => 0 <= b < 256) bs.
Proof. exact bytes_wellformed. Qed.
Print Assumptions C44_bytes_wellformed.

(* the fuel parameters of the model are never exhausted, on any input at all *)
Theorem C44_model_total : forall fx ps first bs,
  build_line_table fx ps first <> EOutOfFuel /\
  decode_positions first bs <> DOutOfFuel /\ decode_lines first bs <> LOutOfFuel.
Proof.
  intros. split; [apply build_never_out_of_fuel|].
  split; [apply decode_never_out_of_fuel|apply lines_never_out_of_fuel].
Qed.
Print Assumptions C44_model_total.

(* non-vacuity: all three entry forms, a multi-line span, a 3-byte varint *)
Example C44_nonvacuous :
  let ps := [(5, 5, 0, 3); (5, 5, 3, 4); (6, 6, 100, 200); (9, 11, 0, 1); (5000, 5001, 300, 2)] in
  Forall wf_pos ps /\ sorted_from 3 ps /\
  build_line_table true ps 3 =
    EOk [224; 0; 3; 128; 49; 240; 2; 0; 101; 1; 73; 3; 240; 6; 2; 1; 2; 240; 126; 91; 2; 1; 109; 4; 3] /\
  decode_positions 3 [224; 0; 3; 128; 49; 240; 2; 0; 101; 1; 73; 3; 240; 6; 2; 1; 2; 240; 126; 91; 2; 1; 109; 4; 3]
    = DOk ps.
Proof. cbv zeta. split; [repeat constructor; cbn; lia|]. split; [cbn; lia|]. split; vm_compute; reflexivity. Qed.
