(* C14 -- Optimised loops iterate exactly like Python loops.
   Only statements; proofs live in Proof/P_Range.v.  S/body/st are universally quantified: the body is
   an arbitrary state transformer that sees the value assigned to the target and answers Next
   (fall through / continue) or Break, so one equation covers the sequence of values, their order, the
   final state (incl. the target's final value) and whether the else clause ran. *)
From Coq Require Import ZArith List Bool.
From CyVerif Require Import Lib.CInt Model.M_Prange Model.M_Range Proof.P_Range.
Import ListNotations.
Open Scope Z_scope.

(* for x in range(a, b, s) with a C-typed target of any width/signedness, any a b, any constant s <> 0:
   ForFromStatNode's loop = Python's loop, provided no loop-variable value leaves the C type
   (fwd_safe: a + s*len fits; unsigned descending form: a+|s| and b+|s| fit).
   Full statement without fwd_safe is FALSE on the current tree: see the _refuted theorems (F16). *)
Theorem C14_range_loop_eq_partial : forall (S : Type) (body : Z -> S -> ctl * S) w sg a b s fuel st,
  1 <= w -> s <> 0 -> in_range w sg a -> in_range w sg b ->
  fwd_safe w sg a b s = true ->
  (length (py_range a b s) < fuel)%nat ->
  range_loop body w sg a b s fuel st = done_of (py_for body (py_range a b s) st).
Proof. intros S body. exact (range_loop_eq body). Qed.
Print Assumptions C14_range_loop_eq_partial.

(* object targets: the transform only fires for literal arguments in [-2^30, 2^30); the loop variable is a
   C long; no hypothesis about overflow is needed *)
Theorem C14_object_target_range_eq : forall (S : Type) (body : Z -> S -> ctl * S) a b s fuel st,
  s <> 0 -> - 2 ^ 30 <= a < 2 ^ 30 -> - 2 ^ 30 <= b < 2 ^ 30 -> - 2 ^ 30 <= s < 2 ^ 30 ->
  (length (py_range a b s) < fuel)%nat ->
  range_loop body 64 true a b s fuel st = done_of (py_for body (py_range a b s) st).
Proof. intros S body. exact (object_target_range_eq body). Qed.
Print Assumptions C14_object_target_range_eq.

(* reversed(range(a, b, s)), constant bounds (start bound computed by the compiler) *)
Theorem C14_reversed_const_eq_partial : forall (S : Type) (body : Z -> S -> ctl * S) w sg a b s fuel st,
  1 <= w -> s <> 0 -> in_range w sg a ->
  rev_safe w sg (rev_bound1_const a b s) a s = true ->
  (length (py_range a b s) < fuel)%nat ->
  reversed_loop_const body w sg a b s fuel st = done_of (py_for body (py_reversed_range a b s) st).
Proof. intros S body. exact (reversed_loop_const_eq body). Qed.
Print Assumptions C14_reversed_const_eq_partial.

Theorem C14_object_target_reversed_eq : forall (S : Type) (body : Z -> S -> ctl * S) a b s fuel st,
  s <> 0 -> - 2 ^ 30 <= a < 2 ^ 30 -> - 2 ^ 30 <= b < 2 ^ 30 -> - 2 ^ 30 <= s < 2 ^ 30 ->
  (length (py_range a b s) < fuel)%nat ->
  reversed_loop_const body 64 true a b s fuel st = done_of (py_for body (py_reversed_range a b s) st).
Proof. intros S body. exact (object_target_reversed_eq body). Qed.
Print Assumptions C14_object_target_reversed_eq.

(* reversed(range(a, b, s)), runtime bounds: when the C evaluation of the start bound is exact ... *)
Theorem C14_reversed_runtime_eq_partial : forall (S : Type) (body : Z -> S -> ctl * S) floor w sg cw csg a b s fuel st,
  1 <= w -> s <> 0 -> in_range w sg a ->
  rev_bound1_rt floor cw csg a b s = Some (rev_bound1_const a b s) ->
  rev_safe w sg (rev_bound1_const a b s) a s = true ->
  (length (py_range a b s) < fuel)%nat ->
  reversed_loop_rt body floor w sg cw csg a b s fuel st = done_of (py_for body (py_reversed_range a b s) st).
Proof. intros S body. exact (reversed_loop_rt_eq body). Qed.
Print Assumptions C14_reversed_runtime_eq_partial.

(* ... which it is, for signed bound types and Python's // (cdivision=False), whenever it is free of UB *)
Theorem C14_reversed_bound_exact_unless_overflow : forall cw csg a b s r,
  s <> 0 -> prom_s cw csg = true ->
  rev_bound1_rt true cw csg a b s = Some r -> r = rev_bound1_const a b s.
Proof. exact rev_bound1_rt_signed_exact. Qed.
Print Assumptions C14_reversed_bound_exact_unless_overflow.

(* enumerate(iterable, start): the counter temp, assigned then incremented inside the body *)
Theorem C14_enumerate_eq : forall (S : Type) (body : Z * Z -> S -> ctl * S) w sg typed vals start st,
  1 <= w ->
  (typed = true -> in_range w sg start /\ in_range w sg (start + Z.of_nat (length vals))) ->
  (let '((_, st'), e) := py_for (enum_body w sg typed body) vals (start, st) in (st', e))
  = py_for_pairs body (py_enumerate vals start) st.
Proof. intros S body w sg typed vals start st. apply enumerate_eq. Qed.
Print Assumptions C14_enumerate_eq.

(* observable corollaries for a body that never breaks: values seen = py_range in order, the target keeps the
   last value (or stays unassigned for an empty range), the else clause runs *)
Theorem C14_iterations_final_value_else : forall w sg a b s fuel brk,
  1 <= w -> s <> 0 -> in_range w sg a -> in_range w sg b -> fwd_safe w sg a b s = true ->
  (length (py_range a b s) < fuel)%nat -> Z.of_nat (length (py_range a b s)) < brk ->
  range_loop (log_body brk) w sg a b s fuel l0
  = Done (py_range a b s, last (map Some (py_range a b s)) None) true.
Proof. exact iterations_final_value_else. Qed.
Print Assumptions C14_iterations_final_value_else.

(* the else clause is skipped iff some iteration's body breaks *)
Theorem C14_else_runs_iff_no_break : forall (S : Type) (body : Z -> S -> ctl * S) vals st,
  snd (py_for body vals st) = false <->
  exists pre v post st1, vals = pre ++ v :: post /\ py_for body pre st = (st1, true) /\ fst (body v st1) = Break.
Proof. intros S body. exact (py_for_else_iff body). Qed.
Print Assumptions C14_else_runs_iff_no_break.

(* ---- findings ---- *)
(* F16, signed: `no_wrap_in_increment` is false -- the increment leaves int (undefined behaviour) *)
Theorem C14_no_wrap_in_increment_refuted :
  exists a b s, in_range 32 true a /\ in_range 32 true b /\ s <> 0 /\
    range_loop (log_body 10) 32 true a b s 20 l0 = UB.
Proof. exact no_wrap_in_increment_refuted_signed. Qed.
Print Assumptions C14_no_wrap_in_increment_refuted.

(* F16, unsigned: wraps to 0 and keeps iterating; range_loop_eq without fwd_safe is false *)
Theorem C14_range_loop_eq_refuted :
  exists a b s, in_range 32 false a /\ in_range 32 false b /\ s <> 0 /\
    range_loop (log_body 3) 32 false a b s 20 l0 = Done ([4294967294; 0; 2], Some 2) false /\
    py_for (log_body 3) (py_range a b s) l0 = (([4294967294], Some 4294967294), true).
Proof. exact no_wrap_in_increment_refuted_unsigned. Qed.
Print Assumptions C14_range_loop_eq_refuted.

Theorem C14_unsigned_descending_refuted :
  exists a b s, in_range 32 false a /\ in_range 32 false b /\ s <> 0 /\
    range_loop (log_body 10) 32 false a b s 20 l0 = Done l0 true /\
    py_for (log_body 10) (py_range a b s) l0 = (([4294967295; 4294967292], Some 4294967292), true).
Proof. exact unsigned_descending_refuted. Qed.
Print Assumptions C14_unsigned_descending_refuted.

Theorem C14_no_overflow_in_bound_calc_refuted :
  exists a b s, in_range 32 true a /\ in_range 32 true b /\ s <> 0 /\
    rev_bound1_rt true 32 true a b s = None.
Proof. exact no_overflow_in_bound_calc_refuted. Qed.
Print Assumptions C14_no_overflow_in_bound_calc_refuted.

(* new finding: the runtime start bound obeys the cdivision directive *)
Theorem C14_reversed_bound_cdivision_refuted :
  exists a b s, in_range 32 true a /\ in_range 32 true b /\ s <> 0 /\
    reversed_loop_rt (log_body 10) false 32 true 32 true a b s 20 l0 = Done ([0], Some 0) true /\
    py_reversed_range a b s = [].
Proof. exact reversed_bound_cdivision_refuted. Qed.
Print Assumptions C14_reversed_bound_cdivision_refuted.

(* the hypotheses are satisfiable on non-trivial values: cdef int i; for i in range(-7, 1000000100, 500000000)
   and reversed(range(10, -5, -4)) *)
Example C14_nonvacuous :
  fwd_safe 32 true (-7) 1000000100 500000000 = true /\
  py_range (-7) 1000000100 500000000 = [-7; 499999993; 999999993] /\
  range_loop (log_body 100) 32 true (-7) 1000000100 500000000 10 l0
    = Done ([-7; 499999993; 999999993], Some 999999993) true /\
  rev_bound1_rt true 32 true 10 (-5) (-4) = Some (rev_bound1_const 10 (-5) (-4)) /\
  rev_safe 32 true (rev_bound1_const 10 (-5) (-4)) 10 (-4) = true /\
  reversed_loop_rt (log_body 3) true 32 true 32 true 10 (-5) (-4) 10 l0 = Done ([-2; 2; 6], Some 6) false.
Proof. vm_compute. repeat split. Qed.
