(* C01 - Compiled pure-Python code behaves exactly like CPython: the closure-conversion part.
   run_cells  = MiniPy under CPython's scheme (symtable classification + cells), Lib/MiniPy.v
   run_scopes = MiniPy under the compiler's scheme (scope objects + outer_scope hops), Model/M_Closure.v
   Outcomes (Done value trace | Failed exception trace | NoFuel | IsStuck) are compared by equality, so
   out-of-fuel and stuck runs are covered: they coincide on both sides.

   Full property (false on the tree because of finding del_unbound_global_attributeerror):
     forall n prog main, run_scopes false n prog main = run_cells n prog main. *)
From Coq Require Import ZArith List Bool.
From CyVerif Require Import Lib.MiniPy Model.M_Closure Proof.P_Closure.
Import ListNotations.

(* the compiler's scheme with the del-of-unbound-global repair: indistinguishable from CPython's cells,
   for all programs, all entry expressions, all fuel *)
Theorem C01_closure_conversion_correct_fixed : forall (n : nat) (prog : list stmt) (main : expr),
  run_scopes true n prog main = run_cells n prog main.
Proof. exact P_Closure.closure_conversion_correct_fixed. Qed.
Print Assumptions C01_closure_conversion_correct_fixed.

(* the tree as it is: equal, or the run ends at the same point with the same trace and the only
   difference is AttributeError instead of NameError (del of an unbound module global) *)
Theorem C01_closure_conversion_correct_partial : forall (n : nat) (prog : list stmt) (main : expr),
  run_scopes false n prog main = run_cells n prog main \/
  exists t, run_cells n prog main = Failed NameError t /\
            run_scopes false n prog main = Failed AttributeError t.
Proof. exact P_Closure.closure_conversion_correct_partial. Qed.
Print Assumptions C01_closure_conversion_correct_partial.

Theorem C01_closure_conversion_refuted :
  exists n prog main, run_scopes false n prog main <> run_cells n prog main.
Proof. exact P_Closure.closure_conversion_refuted. Qed.
Print Assumptions C01_closure_conversion_refuted.

(* Scope.lookup through the outer_scope chain finds a variable exactly when symtable resolves the name
   to an enclosing function (so from_closure entries = free variables) *)
Theorem C01_hops_agree_with_owner : forall (ctx : sctx) (x : ident),
  has_owner ctx x = true <-> exists k, lookup_outer ctx x = Some k.
Proof. exact P_Closure.hops_agree_with_owner. Qed.
Print Assumptions C01_hops_agree_with_owner.

(* non-trivial instance: a counter closure two levels deep (own scope object + one outer_scope hop),
     def f(a):
         def g():
             def h():
                 nonlocal a
                 a += 1
                 return a
             return h
         return g()
     k = f(10); log(k()); main = k() + k()
   gives 25 with trace [11] under both schemes *)
Example C01_nonvacuous :
  let prog := [SDef 0 [1] [SDef 2 [] [SDef 3 [] [SNonlocal 1; SAug 1 Add (EInt 1); SReturn (EName 1)];
                                       SReturn (EName 3)];
                           SReturn (ECall (EName 2) [])];
               SAssign 4 (ECall (EName 0) [EInt 10]);
               SExpr (ELog (ECall (EName 4) []))] in
  let main := EBin Add (ECall (EName 4) []) (ECall (EName 4) []) in
  run_cells 100 prog main = Done (VInt 25) [VInt 11] /\
  run_scopes false 100 prog main = Done (VInt 25) [VInt 11].
Proof. vm_compute. split; reflexivity. Qed.
