(* C01 - Compiled pure-Python code behaves exactly like CPython: the closure-conversion part.
   run_cells  = MiniPy under CPython's scheme (symtable classification + cells), Lib/MiniPy.v
   run_scopes = MiniPy under the compiler's scheme (scope objects + outer_scope hops), Model/M_Closure.v
   Outcomes (Done value trace | Failed exception trace | NoFuel | IsStuck) are compared by equality, so
   out-of-fuel and stuck runs are covered: they coincide on both sides.

   Full property (false on the tree because of finding del_unbound_global_attributeerror):
     forall n prog main, run_scopes false n prog main = run_cells n prog main. *)
From Coq Require Import ZArith List Bool.
From CyVerif Require Import Lib.MiniPy Model.M_Closure Proof.P_Closure.
From CyVerif Require Import Model.M_Unpack Proof.P_Unpack.
Import ListNotations.

(* the compiler's scheme with the del-of-unbound-global repair: indistinguishable from CPython's cells,
   for all programs, all entry expressions, all fuel *)
Theorem C01_closure_conversion_correct_fixed : forall (n : nat) (prog : list stmt) (main : expr),
  run_scopes true n prog main = run_cells n prog main.
Proof. exact P_Closure.closure_conversion_correct_fixed. Qed.
Print Assumptions C01_closure_conversion_correct_fixed.

(* the tree as it is: equal, or the run ends at the same point with the same trace and the only
   difference is AttributeError instead of NameError (del of an unbound module global) *)
Theorem C01_closure_conversion_correct_partial : forall (n : nat) (prog : list stmt) (main : expr),
  run_scopes false n prog main = run_cells n prog main \/
  exists t, run_cells n prog main = Failed NameError t /\
            run_scopes false n prog main = Failed AttributeError t.
Proof. exact P_Closure.closure_conversion_correct_partial. Qed.
Print Assumptions C01_closure_conversion_correct_partial.

Theorem C01_closure_conversion_refuted :
  exists n prog main, run_scopes false n prog main <> run_cells n prog main.
Proof. exact P_Closure.closure_conversion_refuted. Qed.
Print Assumptions C01_closure_conversion_refuted.

(* Scope.lookup through the outer_scope chain finds a variable exactly when symtable resolves the name
   to an enclosing function (so from_closure entries = free variables) *)
Theorem C01_hops_agree_with_owner : forall (ctx : sctx) (x : ident),
  has_owner ctx x = true <-> exists k, lookup_outer ctx x = Some k.
Proof. exact P_Closure.hops_agree_with_owner. Qed.
Print Assumptions C01_hops_agree_with_owner.

(* non-trivial instance: a counter closure two levels deep (own scope object + one outer_scope hop),
     def f(a):
         def g():
             def h():
                 nonlocal a
                 a += 1
                 return a
             return h
         return g()
     k = f(10); log(k()); main = k() + k()
   gives 25 with trace [11] under both schemes *)
Example C01_nonvacuous :
  let prog := [SDef 0 [1] [SDef 2 [] [SDef 3 [] [SNonlocal 1; SAug 1 Add (EInt 1); SReturn (EName 1)];
                                       SReturn (EName 3)];
                           SReturn (ECall (EName 2) [])];
               SAssign 4 (ECall (EName 0) [EInt 10]);
               SExpr (ELog (ECall (EName 4) []))] in
  let main := EBin Add (ECall (EName 4) []) (ECall (EName 4) []) in
  run_cells 100 prog main = Done (VInt 25) [VInt 11] /\
  run_scopes false 100 prog main = Done (VInt 25) [VInt 11].
Proof. vm_compute. split; reflexivity. Qed.

(* ---------------------------------------------------------------------------------------------------
   Sequence unpacking (Model/M_Unpack.v): the code generated for  T = rhs,  for T in ...,  [.. for T in ..]
   by SequenceNode.generate_assignment_code computes Python's unpacking.
   cy_assign  = the generated protocol (exact tuple/list fast path by size check + item copy; generic
                iterator path with its "need more than k values" / "too many values" decisions; starred
                path: left targets by iteration, rest into a list, length guard, right targets read
                from its end) applied to nested targets left to right;
   ref_assign = unpacking as the language reference defines it, by the number of items.
   Outcome = (trace of observable iterator next-calls and bindings in order, Done | exception | Stuck);
   erase forgets the wording of CPython's message but keeps the number it reports (got / expected).
   Unbounded in the number and nesting of targets and in the number of items; wf is what Python
   guarantees about exact tuples/lists, st_ok the soundness of the static type of the right-hand side. *)
Theorem C01_unpack_one_level_correct : forall (st : stype) (nl : nat) (star : option nat) (v : val),
  wf v -> st_ok st v ->
  obs v (cy_unpack st nl star v) = obs v (map_res erase (ref_unpack nl star v)).
Proof. exact P_Unpack.cy_unpack_correct. Qed.
Print Assumptions C01_unpack_one_level_correct.

Theorem C01_unpack_nested_correct : forall (st : stype) (t : target) (v : val),
  wf v -> st_ok st v -> cy_assign st t v = map_a erase (ref_assign t v).
Proof. exact P_Unpack.cy_assign_correct. Qed.
Print Assumptions C01_unpack_nested_correct.

(* no read outside ob_item (the indices len-(i+1) and 0..n-1 are in range whenever the guards pass) and
   the unpacked temps always match the targets one to one *)
Theorem C01_unpack_safe : forall (st : stype) (t : target) (v : val),
  wf v -> st_ok st v ->
  snd (cy_assign st t v) <> AStuck /\ snd (cy_assign st t v) <> AExc COutOfBounds.
Proof. exact P_Unpack.cy_assign_safe. Qed.
Print Assumptions C01_unpack_safe.

Theorem C01_unpack_starred_is_new_list : forall st nl nr v c vals, wf v -> st_ok st v ->
  cy_unpack st nl (Some nr) v = (c, Vals vals) -> exists l, nth_error vals nl = Some (new_list l).
Proof. exact P_Unpack.starred_is_new_list. Qed.
Print Assumptions C01_unpack_starred_is_new_list.

(* the length guard of the starred path is tight: with len <= n_right instead of len < n_right the
   statement fails at the boundary (a, *b, c = [1, 2]) *)
Theorem C01_unpack_star_guard_tight : exists nl nr v, wf v /\
  snd (cy_star_g true nl nr v) <> snd (map_res erase (ref_unpack nl (Some nr) v)).
Proof. exact P_Unpack.cy_star_guard_tight. Qed.
Print Assumptions C01_unpack_star_guard_tight.

(* for k, v in obj.items() on a non-dict: the pair goes through __Pyx_unpack_tuple2.
   Full statement (false on the tree, finding items_loop_tuple_subclass_iter_ignored):
     forall ls rs v, wf v -> length ls + length rs = 2 ->
       cy_items_assign false (TSeq ls None rs) v = map_a erase (ref_assign (TSeq ls None rs) v).
   Proved for the tree (fx = false) when the item is not a tuple subclass overriding __iter__, and for
   the proposed PyTuple_CheckExact (fx = true) without that restriction. *)
Theorem C01_unpack_items_loop_partial : forall fx ls rs v, wf v -> (fx = false -> plain_tuplesub v) ->
  length ls + length rs = 2 ->
  cy_items_assign fx (TSeq ls None rs) v = map_a erase (ref_assign (TSeq ls None rs) v).
Proof. exact P_Unpack.cy_items_assign_correct. Qed.
Print Assumptions C01_unpack_items_loop_partial.

Theorem C01_unpack_items_loop_refuted : exists v, wf v /\
  snd (cy_tuple2 false v) <> snd (map_res erase (ref_unpack 2 None v)).
Proof. exact P_Unpack.cy_tuple2_refuted. Qed.
Print Assumptions C01_unpack_items_loop_refuted.

(* non-trivial instance:  (a, *b), *c, d = [iter-object 9 yielding 1 2 3, 4, 5]  binds a=1 b=[2,3]
   c=[4] d=5 after four observable next-calls on object 9 *)
Example C01_unpack_nonvacuous :
  let it := VSeq {| h_kind := KOther; h_id := 9; h_logs := true; h_end := EndStop |} []
                 [VAtom 1; VAtom 2; VAtom 3] in
  let t := TSeq [TSeq [TName 0] (Some 1) []] (Some 2) [TName 3] in
  cy_assign SObj t (new_list [it; VAtom 4; VAtom 5])
  = ([EvNext 9; EvNext 9; EvNext 9; EvNext 9; EvBind 0 (VAtom 1);
      EvBind 1 (new_list [VAtom 2; VAtom 3]); EvBind 2 (new_list [VAtom 4]); EvBind 3 (VAtom 5)], ADone).
Proof. vm_compute. reflexivity. Qed.
