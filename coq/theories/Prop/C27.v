(* C27 - cpdef calls reach the most-derived override.  Statements only.
   run_cy cached fx h : what the generated code invokes (C body directly vs Python-level override)
   for every call in a history, incl. the pre-filter and (cached = true) the dict-version cache;
   run_py h : the implementation Python attribute lookup selects (MRO search, instance dict
   shadowing of non-data descriptors), on the plain class/instance dict contents.

   The full statement
     forall h ops, wf_hier h = true -> run_cy cached false h (w0 h) ops = run_py h (p0 h) ops
   is FALSE for the code as it is, for both values of cached (C27_*_refuted below). *)
From Coq Require Import ZArith List Bool.
From CyVerif Require Import Model.M_Override Proof.P_Override Model.M_VTable Proof.P_VTable.
Import ListNotations.
Open Scope Z_scope.

(* cache compiled out (CYTHON_USE_DICT_VERSIONS = 0: the default build on CPython >= 3.12):
   for ALL well-formed hierarchies without a plain-def re-definition of m in an extension type and
   ALL histories, every call (from Python, from C through the vtable, K.m(o)) runs the
   implementation Python lookup selects *)
Theorem C27_dispatch_eq_nocache_partial : forall h fx ops, wf_hier h = true -> no_ext_def h = true ->
  run_cy false fx h (w0 h) ops = run_py h (p0 h) ops.
Proof. exact dispatch_eq_nocache. Qed.
Print Assumptions C27_dispatch_eq_nocache_partial.

(* the missing part is really false: `def m` in a cdef subclass (documented restriction) *)
Theorem C27_dispatch_eq_ext_def_refuted : exists h ops, wf_hier h = true /\
  run_cy false false h (w0 h) ops <> run_py h (p0 h) ops.
Proof.
  exists [mkcls Ext [0%nat] MCpdef false NoDict; mkcls Ext [1%nat; 0%nat] (MDef 5) false NoDict],
         [New 1; CallC 0].
  split; [vm_compute; reflexivity|]. vm_compute. discriminate.
Qed.
Print Assumptions C27_dispatch_eq_ext_def_refuted.

(* dict-version cache on: equality for all histories that set/delete m only on classes without
   subclasses (instance mutations, creations and calls unrestricted) *)
Theorem C27_dispatch_eq_cached_partial : forall h ops, wf_hier h = true -> no_ext_def h = true ->
  forallb (leaf_op h) ops = true ->
  run_cy true false h (w0 h) ops = run_py h (p0 h) ops.
Proof. exact dispatch_eq_cached_leaf. Qed.
Print Assumptions C27_dispatch_eq_cached_partial.

Theorem C27_cached_eq_uncached_partial : forall h ops, wf_hier h = true -> no_ext_def h = true ->
  forallb (leaf_op h) ops = true ->
  run_cy true false h (w0 h) ops = run_cy false false h (w0 h) ops.
Proof. exact cached_eq_uncached_leaf. Qed.
Print Assumptions C27_cached_eq_uncached_partial.

(* ... and false without the restriction: the cache keys on the dict of type(obj) only, a
   mutation of a base class leaves it valid.  T <- P <- Q, q = Q(); C call; P.m = f; C call *)
Theorem C27_dispatch_eq_cached_refuted : exists h ops, wf_hier h = true /\ no_ext_def h = true /\
  run_cy true false h (w0 h) ops <> run_py h (p0 h) ops /\
  run_cy false false h (w0 h) ops = run_py h (p0 h) ops.
Proof.
  exists [mkcls Ext [0%nat] MCpdef false NoDict; mkcls Py [1%nat; 0%nat] MNone false Managed;
          mkcls Py [2%nat; 1%nat; 0%nat] MNone false Managed],
         [New 2; CallC 0; SetClass 1 (Fn 7); CallC 0].
  split; [vm_compute; reflexivity|]. split; [vm_compute; reflexivity|].
  split; [vm_compute; discriminate|vm_compute; reflexivity].
Qed.
Print Assumptions C27_dispatch_eq_cached_refuted.

(* pre-filter soundness, both builds, every reachable state of every history: when the filter
   says "cannot be overridden" (static type without instance dict), Python lookup resolves to the
   wrapper of the very C body that sits in the vtable slot *)
Theorem C27_prefilter_sound_partial : forall h cached fx ops oi o k, wf_hier h = true -> no_ext_def h = true ->
  nth_error (w_objs (exec_cy cached fx h (w0 h) ops)) oi = Some o ->
  prefilter h (os_cls o) = false -> vslot h (os_cls o) = Some k ->
  lookup h (cd_w (exec_cy cached fx h (w0 h) ops)) (os_cls o) (inst_m o) = TWrap k.
Proof. exact prefilter_sound. Qed.
Print Assumptions C27_prefilter_sound_partial.

Theorem C27_prefilter_sound_refuted : exists h ops oi o k, wf_hier h = true /\
  nth_error (w_objs (exec_cy false false h (w0 h) ops)) oi = Some o /\
  prefilter h (os_cls o) = false /\ vslot h (os_cls o) = Some k /\
  lookup h (cd_w (exec_cy false false h (w0 h) ops)) (os_cls o) (inst_m o) <> TWrap k.
Proof.
  exists [mkcls Ext [0%nat] MCpdef false NoDict; mkcls Ext [1%nat; 0%nat] (MDef 5) false NoDict],
         [New 1], 0%nat, (mkos 1 None), 0%nat.
  split; [vm_compute; reflexivity|]. split; [vm_compute; reflexivity|]. split; [vm_compute; reflexivity|].
  split; [vm_compute; reflexivity|]. vm_compute. discriminate.
Qed.
Print Assumptions C27_prefilter_sound_refuted.

(* the repaired variant fx (cache the result only for types whose bases are all immutable static
   types; proposed_fixes/C27-stale_cache_base_class_mutation.diff): ALL histories *)
Theorem C27_dispatch_eq_cached_fx : forall h ops, wf_hier h = true -> no_ext_def h = true ->
  run_cy true true h (w0 h) ops = run_py h (p0 h) ops.
Proof. exact dispatch_eq_cached_fx. Qed.
Print Assumptions C27_dispatch_eq_cached_fx.

(* the invariant carrying the cached theorems: established initially, preserved by every step
   (leaf-class mutations for the code as it is, any mutation for fx), and it makes every step
   agree with the Python semantics *)
Theorem C27_cache_invariant_step : forall h fx cached cv w s o, wf_hier h = true ->
  Inv h fx cv w -> Rel w s -> (cached = true -> cv = true) ->
  (cv = true -> leaf_op h o = true \/ fx = true) -> no_ext_def h = true ->
  snd (step_cy cached fx h w o) = snd (step_py h s o) /\
  Inv h fx cv (fst (step_cy cached fx h w o)) /\ Rel (fst (step_cy cached fx h w o)) (fst (step_py h s o)).
Proof. intros h fx cached cv w s o Hwf. exact (step_sim h Hwf fx cached cv w s o). Qed.
Print Assumptions C27_cache_invariant_step.

(* hypotheses are satisfiable on a non-trivial value: depth-3 hierarchy with an instance dict,
   a cpdef override in a cdef subclass, a Python subclass, class and instance mutations *)
Example C27_nonvacuous :
  let h := [mkcls Ext [0%nat] MCpdef false NoDict; mkcls Ext [1%nat; 0%nat] MCpdef false NoDict;
            mkcls Py [2%nat; 1%nat; 0%nat] MNone false Managed] in
  let ops := [New 2; New 1; CallC 0; CallC 0; SetInst 0 9; CallC 0; DelInst 0; CallC 0; SetClass 2 (Fn 7); CallC 0; CallPy 0;
              SetClass 2 (Wrap 0); CallC 0; DelClass 2; CallC 0; CallC 1; CallVia 0 0] in
  wf_hier h = true /\ no_ext_def h = true /\ forallb (leaf_op h) ops = true /\
  run_cy true false h (w0 h) ops = [RBody 1; RBody 1; RFn 9; RBody 1; RFn 7; RFn 7; RBody 0; RBody 1; RBody 1; RBody 0].
Proof. vm_compute. repeat split; reflexivity. Qed.

(* the repaired variant still caches: second C call on a direct Python subclass is a cache hit
   (same results as without cache on a history with a base-class mutation) *)
Example C27_fx_on_witness :
  let h := [mkcls Ext [0%nat] MCpdef false NoDict; mkcls Py [1%nat; 0%nat] MNone false Managed;
            mkcls Py [2%nat; 1%nat; 0%nat] MNone false Managed] in
  let ops := [New 2; CallC 0; SetClass 1 (Fn 7); CallC 0; New 1; CallC 1; CallC 1] in
  run_cy true true h (w0 h) ops = [RBody 0; RFn 7; RFn 7; RFn 7].
Proof. vm_compute. reflexivity. Qed.

(* ---------- how a C-level call reaches the method: vtable slots, adapters, static types ----------
   chain = the declarations of m along the extension types from the root down (cdef / cpdef, number of
   optional arguments, final); build = the vtable as Symtab.declare_cfunction +
   CFuncDefNode.generate_wrapper_functions + generate_exttype_vtable_init_code fill it (one slot per C
   signature, adapters in the older slots); vt_call askip ch t = what a call through a reference
   statically typed t runs on an object whose extension type has chain ch (askip = the constant the
   adapter passes for skip_dispatch, false = '0' in the code as it is); vt_ref = the most-derived
   declaration: the cdef body, or the cpdef C entry point with skip_dispatch = 0.
   For ALL chains the compiler accepts, ALL static types: *)
Theorem C27_vtable_call_correct : forall ch t, wf_chain ch None = true -> vt_call false ch t = vt_ref ch t.
Proof. exact vt_call_correct. Qed.
Print Assumptions C27_vtable_call_correct.

(* an adapter passing skip_dispatch = 1: cdef m; cpdef m in the subclass; call through the base type *)
Theorem C27_vtable_adapter_skip_refuted : exists ch t, wf_chain ch None = true /\ vt_call true ch t <> vt_ref ch t.
Proof. exact vt_call_askip_refuted. Qed.
Print Assumptions C27_vtable_adapter_skip_refuted.

(* end to end: every history of class / instance mutations, Python-level calls and C-level calls
   through ANY static type (VCallT t o) invokes what Python lookup selects - the cdef body when the
   most-derived C declaration is a plain cdef method (not visible to Python) *)
Theorem C27_vdispatch_eq_nocache_partial : forall h vd fx ops, wf_hier h = true -> wf_vt h vd = true ->
  no_ext_def h = true ->
  vrun_cy false false fx h vd (w0 h) ops = vrun_py h vd (p0 h) ops.
Proof. exact vdispatch_eq_nocache. Qed.
Print Assumptions C27_vdispatch_eq_nocache_partial.

Theorem C27_vdispatch_eq_cached_fx : forall h vd ops, wf_hier h = true -> wf_vt h vd = true ->
  no_ext_def h = true ->
  vrun_cy false true true h vd (w0 h) ops = vrun_py h vd (p0 h) ops.
Proof. exact vdispatch_eq_cached_fx. Qed.
Print Assumptions C27_vdispatch_eq_cached_fx.

(* A: cdef m; B(A): cpdef m; class P(B) overrides m; P(); C call through B and through A *)
Theorem C27_vdispatch_adapter_skip_refuted : exists h vd ops, wf_hier h = true /\ wf_vt h vd = true /\
  no_ext_def h = true /\
  vrun_cy true false false h vd (w0 h) ops <> vrun_py h vd (p0 h) ops /\
  vrun_cy false false false h vd (w0 h) ops = vrun_py h vd (p0 h) ops.
Proof. exact vdispatch_askip_refuted. Qed.
Print Assumptions C27_vdispatch_adapter_skip_refuted.

(* three slots (cdef, cdef + 1 optional argument, cpdef + 1 optional argument), the newest one
   re-used by a fourth class: all older slots hold adapters to the most-derived implementation *)
Example C27_vtable_nonvacuous :
  let ch := [(0%nat, VDecl false 0 false); (1%nat, VDecl false 1 false); (2%nat, VDecl true 1 false);
             (3%nat, VDecl true 1 false)] in
  wf_chain ch None = true /\
  map s_ent (build false ch []) = [EImpl 3; EAdapt 3 (SkConst false) OpFwd; EAdapt 3 (SkConst false) OpNull] /\
  map s_cls (build false ch []) = [2%nat; 1%nat; 0%nat] /\
  vt_call false ch 0 = Some (VEntry 3 false) /\ vt_call false ch 3 = Some (VEntry 3 false).
Proof. vm_compute. repeat split; reflexivity. Qed.
