(* C18 — String formatting produces exactly CPython's text (C-integer formatting).
   Only statements; proofs live in Proof/P_IntFmtDigits.v and Proof/P_IntFmt.v.
   Characters are code points: 'd'=100 'o'=111 'x'=120 'X'=88, ' '=32, '0'=48, '-'=45. *)
From Coq Require Import ZArith List Bool.
From CyVerif Require Import Lib.CInt Model.M_IntFmt Proof.P_IntFmtDigits Proof.P_IntFmt Proof.P_IntFmtUtf8
  Gen.Gen_IntFmt Model.M_FStr Proof.P_FStr.
Import ListNotations.
Open Scope Z_scope.

(* __Pyx__PyUnicode_From_<T>(value, width, padding_char, format_char) returns exactly CPython's
   format(value, spec) text -- for EVERY bit width w >= 1 (sizeof(T) = ceil(w/8)), both
   signednesses, every value of the type, every width, every padding character and each of
   d/o/x/X.  The result is a Text, hence: no write below digits[0] of the sizeof(T)*3+2 byte
   buffer, no table index outside a table, the C assert holds, BuildFromAscii neither reads
   past clength nor leaves a position unwritten, and the loop terminates within its fuel. *)
Theorem C18_format_eq : forall w s v width pad fc,
  1 <= w -> in_range w s v -> (fc = 100 \/ fc = 111 \/ fc = 120 \/ fc = 88) ->
  cint_to_unicode w s v width pad fc = Text (py_format_int v width pad fc).
Proof. exact format_eq. Qed.
Print Assumptions C18_format_eq.

(* the declared buffer always suffices (C36 share), stated on its own *)
Theorem C18_buffer_fits : forall w s v width pad fc e,
  1 <= w -> in_range w s v -> (fc = 100 \/ fc = 111 \/ fc = 120 \/ fc = 88) ->
  cint_to_unicode w s v width pad fc <> Err e.
Proof. exact no_error. Qed.
Print Assumptions C18_buffer_fits.

(* the digits of the produced text are digits of the base (in the right case), denote |v| and
   have no leading zero ("0" only for 0); a '-' precedes them iff v < 0 *)
Theorem C18_digits_correct : forall w s v fc,
  1 <= w -> in_range w s v -> (fc = 100 \/ fc = 111 \/ fc = 120 \/ fc = 88) ->
  exists ds,
    cint_to_unicode w s v 0 32 fc = Text ((if v <? 0 then [45] else []) ++ ds)
    /\ parse_base (fmt_base fc) ds = Z.abs v
    /\ forallb (is_digit_of (fmt_base fc) (fmt_upper fc)) ds = true
    /\ no_leading_zero (Z.abs v) ds.
Proof. exact digits_correct. Qed.
Print Assumptions C18_digits_correct.

(* the specification's digits themselves are sound (base 8, 10, 16; any n >= 0) *)
Theorem C18_spec_digits_sound : forall b u n, (b = 8 \/ b = 10 \/ b = 16) -> 0 <= n ->
  parse_base b (py_digits b u n) = n /\
  forallb (is_digit_of b u) (py_digits b u n) = true /\ no_leading_zero n (py_digits b u n).
Proof.
  intros b u n Hb Hn. apply (py_digits_correct b u Hb (S (Z.to_nat n))).
  rewrite Nat2Z.inj_succ, Z2Nat.id by assumption. split; [assumption|apply Z.lt_succ_diag_r].
Qed.
Print Assumptions C18_spec_digits_sound.

(* 'c': full statement
     forall w s v width pad, in_range w s v ->
       uchar_to_unicode false w s v width pad = py_format_char v width pad
   (OverflowError iff v not in range(0x110000), else the padded character) is FALSE for the
   test as written (finding F17): *)
Theorem C18_char_range_check_refuted :
  exists w s v width pad, 1 <= w /\ in_range w s v /\
    py_format_char v width pad = COverflowError /\
    uchar_to_unicode false w s v width pad = CText [65].
Proof. exact char_range_refuted. Qed.
Print Assumptions C18_char_range_check_refuted.

Theorem C18_char_range_check_refuted_exception :
  exists w s v width pad, 1 <= w /\ in_range w s v /\
    py_format_char v width pad = COverflowError /\
    uchar_to_unicode false w s v width pad = CValueError.
Proof. exact char_range_refuted_exc. Qed.
Print Assumptions C18_char_range_check_refuted_exception.

(* what holds for the test as written: all values below 0x200000 and all 8/16-bit types *)
Theorem C18_char_range_check_partial : forall w s v width pad,
  1 <= w -> in_range w s v -> (v < 2097152 \/ sizeof w <= 2) ->
  uchar_to_unicode false w s v width pad = py_format_char v width pad.
Proof. exact char_range_partial. Qed.
Print Assumptions C18_char_range_check_partial.

(* the repaired test (proposed fix): full statement for every width, value, width and pad *)
Theorem C18_char_range_check_fixed : forall w s v width pad,
  1 <= w -> in_range w s v ->
  uchar_to_unicode true w s v width pad = py_format_char v width pad.
Proof. exact char_range_fixed. Qed.
Print Assumptions C18_char_range_check_fixed.

(* ---- the padded 'c' path at byte level (__Pyx_PyUnicode_FromOrdinal_Padded: UTF-8 encode into
   char chars[256], memset the padding, PyUnicode_DecodeUTF8 / DecodeLatin1) ---- *)

(* decode (encode cp) = [cp] for EVERY code point the C encoder is given: U+0080..U+10FFFF minus
   the surrogates (which take the PyUnicode_FromOrdinal path); utf8_enc_c = the three branches with
   the guards  value < 0x800 / value < 0x10000 / else  and the masks and shifts as written;
   utf8_decode = strict RFC 3629 decoder (overlong forms, surrogates, > U+10FFFF, truncation,
   stray continuation bytes are errors).  By case analysis on the ranges, not by enumeration. *)
Theorem C18_utf8_decode_encode : forall cp, 128 <= cp <= 1114111 -> is_surrogate cp = false ->
  utf8_decode (utf8_enc_c cp) = Some [cp].
Proof.
  intros cp H S. rewrite <- (app_nil_r (utf8_enc_c cp)). rewrite utf8_roundtrip by assumption. reflexivity.
Qed.
Print Assumptions C18_utf8_decode_encode.

(* the bytes are the RFC 3629 encoding (2, 3 or 4 bytes by range, each a byte) *)
Theorem C18_utf8_bytes : forall cp, 128 <= cp <= 1114111 ->
  utf8_enc_c cp = utf8_ref cp /\ Forall (fun b => 0 <= b <= 255) (utf8_enc_c cp) /\
  length (utf8_enc_c cp) = (if cp <? 2048 then 2%nat else if cp <? 65536 then 3%nat else 4%nat).
Proof. intros cp H. split; [apply enc_is_utf8; assumption|]. split; [apply enc_bytes|apply enc_length]. Qed.
Print Assumptions C18_utf8_bytes.

(* the branch guards are tight: a code point given to a branch one size too short or too long
   never decodes back to itself (so `<` vs `<=` at 0x800 / 0x10000 matters for exactly those values) *)
Theorem C18_utf8_guards_tight : forall cp,
  (2048 <= cp -> utf8_decode (enc2 cp) <> Some [cp]) /\
  (65536 <= cp -> utf8_decode (enc3 cp) <> Some [cp]) /\
  (128 <= cp < 2048 -> utf8_decode (enc3 cp) = None) /\
  (2048 <= cp < 65536 -> utf8_decode (enc4 cp) = None).
Proof. exact guards_tight. Qed.
Print Assumptions C18_utf8_guards_tight.

(* the byte-level helper equals the abstract one for EVERY int value (also negative and beyond
   U+10FFFF: Latin-1 truncation, 21-bit 4-byte form), every ulength >= 2 and every ASCII padding
   character (the compiler only passes ' ' and '0') *)
Theorem C18_char_bytes_refine : forall iv ulength pad, 2 <= ulength -> 0 <= pad <= 127 ->
  from_ordinal_padded_b iv ulength pad = from_ordinal_padded iv ulength pad.
Proof. exact padded_b_refines. Qed.
Print Assumptions C18_char_bytes_refine.

(* full statement for the code as it is: for every C integer type, value, width and ASCII padding
   character f"{v:<pad><width>c}" is CPython's text or OverflowError *)
Theorem C18_char_bytes_eq : forall w s v width pad,
  1 <= w -> in_range w s v -> 0 <= pad <= 127 ->
  uchar_to_unicode_b true w s v width pad = py_format_char v width pad.
Proof. exact char_bytes_fixed. Qed.
Print Assumptions C18_char_bytes_eq.

(* padded length: exactly max(width,1) characters = width-1 padding characters then the code
   point; chars[256] suffices for every width; no decode error, abort or ValueError *)
Theorem C18_char_padded_length : forall w s v width pad l,
  1 <= w -> in_range w s v -> 0 <= pad <= 127 ->
  uchar_to_unicode_b true w s v width pad = CText l ->
  Z.of_nat (length l) = Z.max width 1 /\ last l 0 = v /\ 0 <= v <= 1114111 /\
  firstn (Z.to_nat (width - 1)) l = repeat pad (Z.to_nat (width - 1)).
Proof. exact char_bytes_length. Qed.
Print Assumptions C18_char_padded_length.

Theorem C18_char_bytes_safe : forall w s v width pad,
  1 <= w -> in_range w s v -> 0 <= pad <= 127 ->
  uchar_to_unicode_b true w s v width pad <> CBufferOverflow /\
  uchar_to_unicode_b true w s v width pad <> CUnicodeDecodeError /\
  uchar_to_unicode_b true w s v width pad <> CAbort /\
  uchar_to_unicode_b true w s v width pad <> CValueError.
Proof. exact char_bytes_safe. Qed.
Print Assumptions C18_char_bytes_safe.

(* non-vacuity of the byte-level statements: first/last code point of every encoding length, the
   widest padding the buffer path takes (250 + 4 bytes), and the overlong form C0 80 rejected *)
Example C18_utf8_nonvacuous :
  utf8_enc_c 2047 = [223; 191] /\ utf8_enc_c 2048 = [224; 160; 128] /\
  utf8_enc_c 65535 = [239; 191; 191] /\ utf8_enc_c 65536 = [240; 144; 128; 128] /\
  utf8_enc_c 1114111 = [244; 143; 191; 191] /\
  utf8_decode (enc2 2048) = None /\ utf8_decode [237; 160; 128] = None /\
  uchar_to_unicode_b true 32 true 2048 3 32 = CText [32; 32; 2048] /\
  uchar_to_unicode_b true 32 true 1114111 251 48 = CText (repeat 48 250 ++ [1114111]) /\
  uchar_to_unicode_b true 32 true 1114111 252 48 = CText (repeat 48 251 ++ [1114111]).
Proof. vm_compute. intuition congruence. Qed.

(* the three tables as written in Cython/Utility/TypeConversion.c (Gen/Gen_IntFmt.v is regenerated
   from the source text on every run) are the tables of the model *)
Theorem C18_tables_match_source :
  c_DIGIT_PAIRS_10 = DIGIT_PAIRS_10 /\ c_DIGIT_PAIRS_8 = DIGIT_PAIRS_8 /\ c_DIGITS_HEX = DIGITS_HEX.
Proof. exact c_tables_eq. Qed.
Print Assumptions C18_tables_match_source.

(* non-vacuity: INT64_MIN in octal (22 digits + sign in the 26-byte buffer), zero padding of a
   negative int, upper-case hex of the largest uint64 *)
Example C18_nonvacuous :
  in_range 64 true (-9223372036854775808) /\
  cint_to_unicode 64 true (-9223372036854775808) 0 32 111 =
    Text [45;49;48;48;48;48;48;48;48;48;48;48;48;48;48;48;48;48;48;48;48;48;48] /\
  cint_to_unicode 32 true (-5) 5 48 100 = Text [45;48;48;48;53] /\
  cint_to_unicode 32 true (-5) 5 32 100 = Text [32;32;32;45;53] /\
  cint_to_unicode 8 true (-128) 0 32 111 = Text [45;50;48;48] /\
  py_format_int 18446744073709551615 0 32 88 = [70;70;70;70;70;70;70;70;70;70;70;70;70;70;70;70].
Proof. unfold in_range. vm_compute. intuition congruence. Qed.

(* ------------------------------------------------------------------------------------------------
   f-string assembly (Model/M_FStr.v): an f-string is a list of parts, literal | placeholder(operand,
   conversion, spec).  The compiler rewrites the list (ConstantFolding: constant operands, empty specs,
   literal merging, 0/1/2-part shapes; type analysis: plain formatting of a str name; FinalOptimizePhase:
   repeated formatted values become CloneNodes of the first one, keyed by (name, c_format_spec,
   format_spec node, conversion or s)).
   For EVERY part list, every formatting function fmt of the running interpreter (the text of
   format(conv(x), spec)), every nested-spec valuation and every assignment of static classes to the
   variables -- given only: an integer constant formats as its digits, a plainly formatted string
   literal is itself, and format(x, "") = str(x) for values of builtin types -- the rewritten list
   produces CPython's text, and the sequence of formatting calls on generic objects (the calls that
   run user code: __format__ / __repr__ / __str__) is unchanged. *)
Theorem C18_fstring_rewrites_preserve_text_and_calls :
  forall (fmt : fop -> conv -> text -> text) (dyn : nat -> text) (cls : nat -> vclass),
    (forall t c, fmt (FInt t) c nil = t) ->
    (forall t c, plain c = true -> fmt (FStr t) c nil = t) ->
    (forall v, cls v <> KObj -> fmt (FVar v) CvNone nil = fmt (FVar v) CvS nil) ->
    forall ps, Forall (wf_part cls) ps ->
      shape_text fmt dyn (optimise kflags_real ps) = ref_text fmt dyn ps /\
      shape_events dyn (optimise kflags_real ps) = ref_events dyn ps.
Proof. exact optimise_correct. Qed.
Print Assumptions C18_fstring_rewrites_preserve_text_and_calls.

(* the same for a nested format spec inside a value of a de-duplicated f-string (not visited by the late pass) *)
Theorem C18_fstring_nested_spec_rewrites_preserve_text_and_calls :
  forall (fmt : fop -> conv -> text -> text) (dyn : nat -> text) (cls : nat -> vclass),
    (forall t c, fmt (FInt t) c nil = t) ->
    (forall t c, plain c = true -> fmt (FStr t) c nil = t) ->
    (forall v, cls v <> KObj -> fmt (FVar v) CvNone nil = fmt (FVar v) CvS nil) ->
    forall ps, Forall (wf_part cls) ps ->
      shape_text fmt dyn (optimise_inner ps) = ref_text fmt dyn ps /\
      shape_events dyn (optimise_inner ps) = ref_events dyn ps.
Proof. exact optimise_inner_correct. Qed.
Print Assumptions C18_fstring_nested_spec_rewrites_preserve_text_and_calls.

(* the de-duplication key determines the text: two different positions with equal keys format the
   same variable with the same conversion (up to none = s) and no spec *)
Theorem C18_fstring_dedup_key_determines_text :
  forall (fmt : fop -> conv -> text -> text) (dyn : nat -> text) (cls : nat -> vclass),
    (forall v, cls v <> KObj -> fmt (FVar v) CvNone nil = fmt (FVar v) CvS nil) ->
    forall i j n m k k', i <> j -> wf_node cls n -> wf_node cls m ->
      node_key kflags_real i n = Some k -> node_key kflags_real j m = Some k' -> key_eqb k k' = true ->
      nt0 fmt dyn n = nt0 fmt dyn m.
Proof. exact key_sound. Qed.
Print Assumptions C18_fstring_dedup_key_determines_text.

(* literal merging leaves no empty literal and no two adjacent literals *)
Theorem C18_fstring_literals_merged : forall ps, merged (fold ps).
Proof. intro ps. exact (merge_merged (map fold_part ps)). Qed.
Print Assumptions C18_fstring_literals_merged.

(* the key WITHOUT the conversion character is wrong: f"{s!r}={s}|" with a str argument repeats the repr
   (all hypotheses of the theorem above hold for the witness) *)
Theorem C18_fstring_key_without_conversion_refuted :
  Forall (wf_part w_cls_str) w_parts_conv /\
  (forall t c, w_fmt (FInt t) c nil = t) /\ (forall t c, plain c = true -> w_fmt (FStr t) c nil = t) /\
  (forall v, w_cls_str v <> KObj -> w_fmt (FVar v) CvNone nil = w_fmt (FVar v) CvS nil) /\
  shape_text w_fmt w_dyn (optimise (mk_kflags false true) w_parts_conv) <> ref_text w_fmt w_dyn w_parts_conv.
Proof. exact key_without_conversion_refuted. Qed.
Print Assumptions C18_fstring_key_without_conversion_refuted.

(* de-duplicating generic objects is wrong: a __format__ call disappears *)
Theorem C18_fstring_object_dedup_refuted :
  Forall (wf_part w_cls_obj) w_parts_obj /\
  shape_events w_dyn (optimise (mk_kflags true false) w_parts_obj) <> ref_events w_dyn w_parts_obj.
Proof. exact object_dedup_refuted. Qed.
Print Assumptions C18_fstring_object_dedup_refuted.

(* FINDING padded_c_format_in_join_kind_ignored: JoinedStrNode takes every formatted C number whose
   c_format_spec is not exactly c for ASCII; a padded 3c / 03c value is not.  Full statement (false for
   the code as it is): every character of the joined text is <= max_char (join_kind ...).  Witness
   f"{v:3c}|{v:3c}|x" with v = 0x20AC: the result is allocated for ASCII. *)
Theorem C18_fstring_join_kind_padded_c_refuted :
  exists c, In c (concat w_texts_kind) /\ N.ltb (max_char (join_kind false w_nodes_kind w_texts_kind)) c = true.
Proof. exact padded_c_kind_refuted. Qed.
Print Assumptions C18_fstring_join_kind_padded_c_refuted.

Example C18_fstring_nonvacuous :
  optimise kflags_real
    [PLit [97%N]; PPh (OStr nil) CvNone SNone; PLit [98%N]; PPh (OVar 0 KStrOpt) CvNone SNone;
     PPh (OVar 0 KStrOpt) CvR (SLit nil false); PPh (OVar 0 KStrOpt) CvS SNone; PPh (OVar 0 KStrOpt) CvR SNone;
     PPh (OVar 1 KObj) CvNone SNone; PPh (OVar 1 KObj) CvNone SNone] =
  ShJoin [NLit [97%N; 98%N]; NUni 0; NFmt (OVar 0 KStrOpt) CvR None SNone; NClone 1; NClone 2;
          NFmt (OVar 1 KObj) CvNone None SNone; NFmt (OVar 1 KObj) CvNone None SNone].
Proof. reflexivity. Qed.
