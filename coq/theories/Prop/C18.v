(* C18 — String formatting produces exactly CPython's text (C-integer formatting).
   Only statements; proofs live in Proof/P_IntFmtDigits.v and Proof/P_IntFmt.v.
   Characters are code points: 'd'=100 'o'=111 'x'=120 'X'=88, ' '=32, '0'=48, '-'=45. *)
From Coq Require Import ZArith List Bool.
From CyVerif Require Import Lib.CInt Model.M_IntFmt Proof.P_IntFmtDigits Proof.P_IntFmt Gen.Gen_IntFmt.
Import ListNotations.
Open Scope Z_scope.

(* __Pyx__PyUnicode_From_<T>(value, width, padding_char, format_char) returns exactly CPython's
   format(value, spec) text -- for EVERY bit width w >= 1 (sizeof(T) = ceil(w/8)), both
   signednesses, every value of the type, every width, every padding character and each of
   d/o/x/X.  The result is a Text, hence: no write below digits[0] of the sizeof(T)*3+2 byte
   buffer, no table index outside a table, the C assert holds, BuildFromAscii neither reads
   past clength nor leaves a position unwritten, and the loop terminates within its fuel. *)
Theorem C18_format_eq : forall w s v width pad fc,
  1 <= w -> in_range w s v -> (fc = 100 \/ fc = 111 \/ fc = 120 \/ fc = 88) ->
  cint_to_unicode w s v width pad fc = Text (py_format_int v width pad fc).
Proof. exact format_eq. Qed.
Print Assumptions C18_format_eq.

(* the declared buffer always suffices (C36 share), stated on its own *)
Theorem C18_buffer_fits : forall w s v width pad fc e,
  1 <= w -> in_range w s v -> (fc = 100 \/ fc = 111 \/ fc = 120 \/ fc = 88) ->
  cint_to_unicode w s v width pad fc <> Err e.
Proof. exact no_error. Qed.
Print Assumptions C18_buffer_fits.

(* the digits of the produced text are digits of the base (in the right case), denote |v| and
   have no leading zero ("0" only for 0); a '-' precedes them iff v < 0 *)
Theorem C18_digits_correct : forall w s v fc,
  1 <= w -> in_range w s v -> (fc = 100 \/ fc = 111 \/ fc = 120 \/ fc = 88) ->
  exists ds,
    cint_to_unicode w s v 0 32 fc = Text ((if v <? 0 then [45] else []) ++ ds)
    /\ parse_base (fmt_base fc) ds = Z.abs v
    /\ forallb (is_digit_of (fmt_base fc) (fmt_upper fc)) ds = true
    /\ no_leading_zero (Z.abs v) ds.
Proof. exact digits_correct. Qed.
Print Assumptions C18_digits_correct.

(* the specification's digits themselves are sound (base 8, 10, 16; any n >= 0) *)
Theorem C18_spec_digits_sound : forall b u n, (b = 8 \/ b = 10 \/ b = 16) -> 0 <= n ->
  parse_base b (py_digits b u n) = n /\
  forallb (is_digit_of b u) (py_digits b u n) = true /\ no_leading_zero n (py_digits b u n).
Proof.
  intros b u n Hb Hn. apply (py_digits_correct b u Hb (S (Z.to_nat n))).
  rewrite Nat2Z.inj_succ, Z2Nat.id by assumption. split; [assumption|apply Z.lt_succ_diag_r].
Qed.
Print Assumptions C18_spec_digits_sound.

(* 'c': full statement
     forall w s v width pad, in_range w s v ->
       uchar_to_unicode false w s v width pad = py_format_char v width pad
   (OverflowError iff v not in range(0x110000), else the padded character) is FALSE for the
   test as written (finding F17): *)
Theorem C18_char_range_check_refuted :
  exists w s v width pad, 1 <= w /\ in_range w s v /\
    py_format_char v width pad = COverflowError /\
    uchar_to_unicode false w s v width pad = CText [65].
Proof. exact char_range_refuted. Qed.
Print Assumptions C18_char_range_check_refuted.

Theorem C18_char_range_check_refuted_exception :
  exists w s v width pad, 1 <= w /\ in_range w s v /\
    py_format_char v width pad = COverflowError /\
    uchar_to_unicode false w s v width pad = CValueError.
Proof. exact char_range_refuted_exc. Qed.
Print Assumptions C18_char_range_check_refuted_exception.

(* what holds for the test as written: all values below 0x200000 and all 8/16-bit types *)
Theorem C18_char_range_check_partial : forall w s v width pad,
  1 <= w -> in_range w s v -> (v < 2097152 \/ sizeof w <= 2) ->
  uchar_to_unicode false w s v width pad = py_format_char v width pad.
Proof. exact char_range_partial. Qed.
Print Assumptions C18_char_range_check_partial.

(* the repaired test (proposed fix): full statement for every width, value, width and pad *)
Theorem C18_char_range_check_fixed : forall w s v width pad,
  1 <= w -> in_range w s v ->
  uchar_to_unicode true w s v width pad = py_format_char v width pad.
Proof. exact char_range_fixed. Qed.
Print Assumptions C18_char_range_check_fixed.

(* the three tables as written in Cython/Utility/TypeConversion.c (Gen/Gen_IntFmt.v is regenerated
   from the source text on every run) are the tables of the model *)
Theorem C18_tables_match_source :
  c_DIGIT_PAIRS_10 = DIGIT_PAIRS_10 /\ c_DIGIT_PAIRS_8 = DIGIT_PAIRS_8 /\ c_DIGITS_HEX = DIGITS_HEX.
Proof. exact c_tables_eq. Qed.
Print Assumptions C18_tables_match_source.

(* non-vacuity: INT64_MIN in octal (22 digits + sign in the 26-byte buffer), zero padding of a
   negative int, upper-case hex of the largest uint64 *)
Example C18_nonvacuous :
  in_range 64 true (-9223372036854775808) /\
  cint_to_unicode 64 true (-9223372036854775808) 0 32 111 =
    Text [45;49;48;48;48;48;48;48;48;48;48;48;48;48;48;48;48;48;48;48;48;48;48] /\
  cint_to_unicode 32 true (-5) 5 48 100 = Text [45;48;48;48;53] /\
  cint_to_unicode 32 true (-5) 5 32 100 = Text [32;32;32;45;53] /\
  cint_to_unicode 8 true (-128) 0 32 111 = Text [45;50;48;48] /\
  py_format_int 18446744073709551615 0 32 88 = [70;70;70;70;70;70;70;70;70;70;70;70;70;70;70;70].
Proof. unfold in_range. vm_compute. intuition congruence. Qed.
