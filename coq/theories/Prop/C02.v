(* C02 — object arithmetic with constant operands matches CPython.
   Only statements; proofs live in Proof/P_PyLongBinop.v.
   x ranges over ALL well-formed CPython ints (sign + base-2^30 digit list of any length);
   [binop o ord zc c x] is the C helper __Pyx_PyLong_<o><ord>(.., intval = c, .., zerodivision_check = zc)
   of Optimize.c on the exact int x; [accepts] is the compile-time guard of Optimize.py;
   [py_binop] is Python's semantics on Z (Z.div = floor, Z.modulo = sign of the divisor,
   Z.land/lor/lxor = two's complement on unbounded integers, Z.shiftl/Z.shiftr arithmetic). *)
From Coq Require Import ZArith Bool List.
From CyVerif Require Import Lib.CInt Lib.PyLong Model.M_PyLongBinop Proof.P_PyLongBinop.
Import ListNotations.
Open Scope Z_scope.

(* whenever the fast path returns a value (anything but the deferral to PyNumber_<Op>), it is
   Python's result: value, result kind (int / bool / float quotient) and ZeroDivisionError *)
Theorem C02_fast_path_correct : forall o ord zc c x,
  accepts o ord c = true -> wf SHIFT x ->
  forall r, binop o ord zc c x = r -> r <> RFallback -> r = py_binop o ord c (value SHIFT x).
Proof. exact fast_path_correct. Qed.
Print Assumptions C02_fast_path_correct.

(* the same for everything the C template supports (also `c // x`, `c % x`, `c / x`, which
   Optimize.py never requests) *)
Theorem C02_template_correct : forall o ord zc c x,
  template_ok o ord c = true -> wf SHIFT x ->
  binop o ord zc c x = RFallback \/ binop o ord zc c x = py_binop o ord c (value SHIFT x).
Proof. exact binop_correct. Qed.
Print Assumptions C02_template_correct.

(* no undefined behaviour: every intermediate signed long / long long value is representable,
   every shift count is in [0,64), no division by zero or LONG_MIN / -1, every digit read is
   inside the allocation (the C text's deliberate wrapping `a << b` excepted, see the model) *)
Theorem C02_fast_path_ub_free : forall o ord zc c x,
  template_ok o ord c = true -> wf SHIFT x -> binop o ord zc c x <> RUB.
Proof. exact fast_path_ub_free. Qed.
Print Assumptions C02_fast_path_ub_free.

(* == and != : decided by the helper (never deferred), for every constant of type long but
   LONG_MIN, through the sign tests and the digit-wise comparison *)
Theorem C02_compare_correct : forall c x,
  wf SHIFT x -> -9223372036854775808 < c < 9223372036854775808 ->
  forall ord zc, binop OpEq ord zc c x = RBool (value SHIFT x =? c)
              /\ binop OpNe ord zc c x = RBool (negb (value SHIFT x =? c)).
Proof. exact compare_decides. Qed.
Print Assumptions C02_compare_correct.

(* ZeroDivisionError exactly when CPython raises it (zerodivision_check = 1, i.e. cdivision off) *)
Theorem C02_zerodiv_exact : forall o ord c x,
  template_ok o ord c = true -> wf SHIFT x ->
  (binop o ord true c x = RZeroDiv <-> is_div o = true /\ snd (operands ord c (value SHIFT x)) = 0).
Proof. exact zerodiv_exact. Qed.
Print Assumptions C02_zerodiv_exact.

(* (double)a / (double)b is only evaluated on the true operands, with a non-zero divisor, and
   when both convert to double exactly (|.| <= 2^53), so that the IEEE quotient is the
   correctly rounded a/b that CPython's int.__truediv__ returns *)
Theorem C02_truediv_exact : forall ord zc c x a b,
  template_ok OpTrueDivide ord c = true -> wf SHIFT x ->
  binop OpTrueDivide ord zc c x = RFloatDiv a b ->
  (a, b) = operands ord c (value SHIFT x) /\ b <> 0
  /\ Z.abs a <= 2 ^ 53 /\ Z.abs b <= 2 ^ 53 /\ double_exact a /\ double_exact b.
Proof. exact truediv_exact. Qed.
Print Assumptions C02_truediv_exact.

(* the guard `accepts` implies what the template needs *)
Theorem C02_accepts_sufficient : forall o ord c, accepts o ord c = true -> template_ok o ord c = true.
Proof. exact accepts_template_ok. Qed.
Print Assumptions C02_accepts_sufficient.

(* ... and its restriction of shifts to a constant count is necessary: `3 << x` through the
   template would evaluate `a << b` with b = 64 *)
Theorem C02_cobj_shift_needs_guard :
  exists c xv, c_small c = true /\ binop_z OpLshift CObj false c xv = RUB.
Proof. exact cobj_shift_is_ub_without_guard. Qed.
Print Assumptions C02_cobj_shift_needs_guard.

(* non-vacuity: accepted constants, well-formed operands at digit boundaries, fast path taken *)
Example C02_nonvacuous :
  accepts OpFloorDivide ObjC (-7) = true /\ wf SHIFT (of_Z SHIFT (2 ^ 60 - 1))
  /\ pl_digits (of_Z SHIFT (- 2 ^ 30)) = [0; 1]
  /\ binop_z OpFloorDivide ObjC false (-7) (2 ^ 60 - 1) = RInt (-164703072086692425)
  /\ binop_z OpRemainder ObjC false (-7) (2 ^ 60 - 2) = RInt (-1)
  /\ binop_z OpAnd CObj false 5 (- 2 ^ 100 - 3) = RInt 5
  /\ binop_z OpLshift ObjC false 62 1 = RInt (2 ^ 62)
  /\ binop_z OpLshift ObjC false 63 1 = RFallback
  /\ binop_z OpEq ObjC false (2 ^ 30) (2 ^ 30) = RBool true
  /\ binop_z OpNe CObj false (- 2 ^ 30) (- 2 ^ 30 - 1) = RBool true
  /\ binop_z OpTrueDivide ObjC false 3 (2 ^ 53 + 1) = RFallback
  /\ binop_z OpTrueDivide ObjC false 3 (2 ^ 53) = RFloatDiv (2 ^ 53) 3
  /\ binop_z OpMultiply ObjC false (2 ^ 30) (- (2 ^ 30 - 1)) = RInt (- (2 ^ 30 - 1) * 2 ^ 30)
  /\ binop_z OpRemainder CObj true 7 0 = RZeroDiv.
Proof. rewrite <- wfb_spec. vm_compute. repeat split; reflexivity. Qed.
