(* C46 — cythonize rebuilds exactly the modules whose inputs changed.
   Only statements; proofs live in Proof/P_DepTree.v; the model of
   DependencyTree.transitive_merge(_helper) / newest_dependency / the rebuild test of
   cythonize() is Model/M_DepTree.v.

   Vocabulary (Proof/P_DepTree.v):
     reach outgoing n m        m is reachable from n (reflexive, transitive) along `outgoing`
     reach_av outgoing A n m   the same inside the graph with the nodes satisfying A removed
     cache_ok outgoing extract seen
                               every entry seen[k] is, as a set, U { extract m | reach k m }
     stack_ok V st             the stack dict has distinct keys inside V and depth indices < len
     blocked st loop s         s is a stack node whose depth index is >= that of `loop`
   A finite graph is a node list V closed under `outgoing`; nothing else is assumed: cycles,
   self-loops, diamonds, duplicate successors, any iteration order, any item sets. *)
From Coq Require Import List ZArith Bool.
From CyVerif Require Import Lib.CInt Model.M_DepTree Proof.P_DepTree Model.M_DepScan Proof.P_DepScan.
Import ListNotations.

(* Main theorem.  Any sequence of all_dependencies() queries on one tree, starting from the empty
   _transitive_cache, with fuel = |V| + 1: no query runs out of fuel or hits a KeyError (the
   result is QOk), the i-th answer is exactly the union of extract(m) over the m reachable from
   the i-th queried node, and every entry left in the shared cache is such a closure. *)
Theorem C46_closure_correct :
  forall (outgoing : node -> list node) (extract : node -> nset) (V : list node),
    (forall v, In v V -> incl (outgoing v) V) ->
    forall qs, incl qs V ->
    exists ans seen',
      run_queries outgoing extract (fuel_for V) [] qs = QOk ans seen' /\
      cache_ok outgoing extract seen' /\
      Forall2 (fun q d => forall x, In x d <-> exists m, reach outgoing q m /\ In x (extract m)) qs ans.
Proof. exact closure_correct. Qed.
Print Assumptions C46_closure_correct.

(* One query on ANY cache whose entries are closures (in particular every cache an earlier
   history left behind): exact answer, loop = None at top level, cache still consistent. *)
Theorem C46_query_on_any_consistent_cache :
  forall outgoing extract V,
    (forall v, In v V -> incl (outgoing v) V) ->
    forall seen q, In q V -> cache_ok outgoing extract seen ->
    exists deps seen',
      transitive_merge outgoing extract (fuel_for V) seen q = Ok deps None seen' /\
      cache_ok outgoing extract seen' /\
      forall x, In x deps <-> exists m, reach outgoing q m /\ In x (extract m).
Proof. exact transitive_merge_correct. Qed.
Print Assumptions C46_query_on_any_consistent_cache.

(* The (deps, loop) contract of transitive_merge_helper in an arbitrary well-formed state
   (any consistent cache, any stack): it terminates within the fuel bound without KeyError;
   deps lies inside the closure of n; deps contains extract(m) for every m reachable from n without
   entering a stack node at or below `loop`; `loop`, if any, is a stack node reachable from n;
   loop = None makes deps the exact closure; the cache stays consistent. *)
Theorem C46_helper_contract :
  forall outgoing extract V,
    (forall v, In v V -> incl (outgoing v) V) ->
    forall n seen st, In n V -> cache_ok outgoing extract seen -> stack_ok V st ->
    exists deps loop seen',
      tmh outgoing extract (fuel_for V) n seen st = Ok deps loop seen' /\
      cache_ok outgoing extract seen' /\
      (forall x, In x deps -> exists m, reach outgoing n m /\ In x (extract m)) /\
      (forall m, reach_av outgoing (blocked st loop) n m -> incl (extract m) deps) /\
      (forall l, loop = Some l -> (exists d, lookup l st = Some d) /\ reach outgoing n l) /\
      (loop = None -> forall x, In x deps <-> exists m, reach outgoing n m /\ In x (extract m)).
Proof. exact helper_contract. Qed.
Print Assumptions C46_helper_contract.

(* The answer for q does not depend on which queries were made before it. *)
Theorem C46_order_independent :
  forall outgoing extract V qs1 qs2 q,
    (forall v, In v V -> incl (outgoing v) V) -> incl qs1 V -> incl qs2 V -> In q V ->
    exists a1 a2 ans1 ans2 s1 s2,
      run_queries outgoing extract (fuel_for V) [] (qs1 ++ [q]) = QOk (ans1 ++ [a1]) s1 /\
      run_queries outgoing extract (fuel_for V) [] (qs2 ++ [q]) = QOk (ans2 ++ [a2]) s2 /\
      forall x, In x a1 <-> In x a2.
Proof. exact order_independent. Qed.
Print Assumptions C46_order_independent.

(* The rebuild test of cythonize() without force, on a dependency set containing the source:
   compile iff some dependency is strictly newer than the C file (c_ts = -1: no usable C file). *)
Theorem C46_rebuild_iff_newer :
  forall (c_ts : Z) (ts : nat -> Z) (source : nat) (deps : nset),
    In source deps ->
    exists b, rebuild_decision false c_ts ts source deps = Some b /\
              (b = true <-> exists x, In x deps /\ (c_ts < ts x)%Z).
Proof. exact rebuild_iff_newer. Qed.
Print Assumptions C46_rebuild_iff_newer.

Theorem C46_rebuild_forced :
  forall c_ts ts source deps, In source deps -> rebuild_decision true c_ts ts source deps = Some true.
Proof. exact rebuild_forced. Qed.
Print Assumptions C46_rebuild_forced.

(* End to end on the model: after any earlier queries on the tree, the module q is regenerated
   iff some item of some node reachable from q is newer than its C file. *)
Theorem C46_cythonize_exact :
  forall outgoing extract V (before : list node) q (c_ts : Z) (ts : nat -> Z),
    (forall v, In v V -> incl (outgoing v) V) -> incl before V -> In q V ->
    In q (extract q) ->
    exists ans d seen b,
      run_queries outgoing extract (fuel_for V) [] (before ++ [q]) = QOk (ans ++ [d]) seen /\
      rebuild_decision false c_ts ts q d = Some b /\
      (b = true <-> exists n x, reach outgoing q n /\ In x (extract n) /\ (c_ts < ts x)%Z).
Proof. exact cythonize_exact. Qed.
Print Assumptions C46_cythonize_exact.

(* Finding from_cimport_submodule_untracked (the scanner, which the theorems above take as the given
   `outgoing`): for "from pk cimport q0" the tree as it is does not list pk/q0.pxd although the
   compiler reads it, so a newer pk/q0.pxd leaves m.c stale.  Witness replayed on the real cythonize
   by props/C46.py (project "witness"). *)
Theorem C46_from_cimport_scan_refuted :
  exists ans seen x,
    run_queries (wit_out false) (wit_ext false) (fuel_for [0; 1; 2]) [] [0] = QOk [ans] seen /\
    In x wit_files_read /\ ~ In x ans /\
    wit_rebuild false 20 (fun f => if Nat.eqb f 2 then 30 else 10)%Z = Some false.
Proof. exact from_cimport_scan_refuted. Qed.
Print Assumptions C46_from_cimport_scan_refuted.

(* the same project with the repaired scanner (proposed_fixes/C46-from_cimport_submodule_untracked.diff) *)
Theorem C46_from_cimport_scan_fixed :
  exists ans seen,
    run_queries (wit_out true) (wit_ext true) (fuel_for [0; 1; 2]) [] [0] = QOk [ans] seen /\
    (forall x, In x ans <-> In x wit_files_read) /\
    forall c_ts ts, exists b, wit_rebuild true c_ts ts = Some b /\
      (b = true <-> exists x, In x wit_files_read /\ (c_ts < ts x)%Z).
Proof. exact from_cimport_scan_fixed. Qed.
Print Assumptions C46_from_cimport_scan_fixed.

(* ------------------------------------------------------------------------------------------------
   Second region: extraction of the graph from sources (Model/M_DepScan.v, Proof/P_DepScan.v).
   Vocabulary: a str is a list of characters with 0 = '.'; ident w = w is non-empty and has no dot;
   render level path = level dots followed by '.'.join(path) (the text after "from" / "cimport");
   import_rule level path pkg = the qualified name Python's / Cython's import rule gives to
   (level, path) inside package pkg (None: beyond the top-level package);
   scan r stmts = what parse_dependencies records; find_pxd_cands f module pkg = the qualified names
   find_pxd hands to Context.find_pxd_file, in order (f: finding repaired or not, see below). *)

(* parse_dependencies + find_pxd, "from <level dots><path> cimport ..., w, ...": for EVERY level >= 1
   within the package depth and EVERY module path (the empty one included) the "package.name"
   candidate of w is recorded, and find_pxd resolves it to exactly the submodule the import rule names. *)
Theorem C46_from_cimport_submodule_tracked :
  forall (fixed : bool) (level : nat) (path names pkg : list str) (w : str),
    1 <= level -> level <= length pkg -> idents path -> ident w -> In w names ->
    exists c q,
      In c (sc_cimports (scan SepEndsWithDot [SFrom (render level path) names])) /\
      import_rule level (path ++ [w]) pkg = Some q /\
      find_pxd_cands fixed c pkg = Some [join_dots q].
Proof. exact from_cimport_submodule_tracked. Qed.
Print Assumptions C46_from_cimport_submodule_tracked.

(* the same for an absolute "from a.b cimport w": candidates package-of-the-file first, then absolute *)
Theorem C46_from_cimport_submodule_tracked_abs :
  forall (fixed : bool) (path names pkg : list str) (w : str),
    path <> [] -> idents path -> ident w -> In w names ->
    exists c,
      In c (sc_cimports (scan SepEndsWithDot [SFrom (render 0 path) names])) /\
      find_pxd_cands fixed c pkg = Some [join_dots (pkg ++ path ++ [w]); join_dots (path ++ [w])].
Proof. exact from_cimport_submodule_tracked_abs. Qed.
Print Assumptions C46_from_cimport_submodule_tracked_abs.

(* the separator rule "sep = '' only if <from> == '.'" is wrong: for "from .. cimport s" inside p.q no
   recorded candidate resolves to p.s (whichever variant of find_pxd) *)
Theorem C46_sep_only_one_dot_refuted :
  exists level path names pkg w q,
    1 <= level /\ level <= length pkg /\ idents path /\ ident w /\ In w names /\ idents pkg /\
    import_rule level (path ++ [w]) pkg = Some q /\
    forall fixed c, In c (sc_cimports (scan SepOnlyOneDot [SFrom (render level path) names])) ->
                    find_pxd_cands fixed c pkg <> Some [join_dots q].
Proof. exact sep_only_one_dot_refuted. Qed.
Print Assumptions C46_sep_only_one_dot_refuted.

(* find_pxd on a relative name with a module part: one candidate, the import rule's name *)
Theorem C46_resolve_relative :
  forall fixed level path pkg,
    1 <= level -> level <= length pkg -> path <> [] -> idents path ->
    exists q, import_rule level path pkg = Some q /\
              find_pxd_cands fixed (render level path) pkg = Some [join_dots q].
Proof. exact resolve_relative. Qed.
Print Assumptions C46_resolve_relative.

Theorem C46_resolve_absolute :
  forall fixed path pkg, path <> [] -> idents path ->
    find_pxd_cands fixed (render 0 path) pkg = Some [join_dots (pkg ++ path); join_dots path].
Proof. exact resolve_absolute. Qed.
Print Assumptions C46_resolve_absolute.

(* Finding bare_dots_package_off_by_one: "from . cimport x" records "." (the package whose
   __init__.pxd the compiler reads); the code as it is resolves dots-only names one package too high
   (C46_resolve_dots_only_as_is; witness C46_dots_only_refuted replayed by props/C46.py); the repaired
   find_pxd (proposed_fixes/C46-bare_dots_package_off_by_one.diff) obeys the rule for every level. *)
Theorem C46_resolve_dots_only_as_is :
  forall level pkg, 1 <= level ->
    find_pxd_cands false (render level []) pkg
    = if level <=? length pkg then Some [join_dots (firstn (length pkg - level) pkg)] else None.
Proof. exact resolve_dots_only_as_is. Qed.
Print Assumptions C46_resolve_dots_only_as_is.

Theorem C46_dots_only_refuted :
  exists level pkg q, 1 <= level /\ level <= length pkg /\ idents pkg /\
    import_rule level [] pkg = Some q /\
    find_pxd_cands false (render level []) pkg <> Some [join_dots q].
Proof. exact dots_only_refuted. Qed.
Print Assumptions C46_dots_only_refuted.

Theorem C46_resolve_dots_only_fixed :
  forall level pkg, 1 <= level -> level <= length pkg ->
    exists q, import_rule level [] pkg = Some q /\
              find_pxd_cands true (render level []) pkg = Some [join_dots q].
Proof. exact resolve_dots_only_fixed. Qed.
Print Assumptions C46_resolve_dots_only_fixed.

(* find_pxd over any file system vs the file the compiler opens.  Relative names: always equal. *)
Theorem C46_find_pxd_relative_matches_compiler :
  forall fixed ll3 fs level path pkg,
    1 <= level -> level <= length pkg -> path <> [] -> idents path ->
    find_pxd fixed fs (render level path) pkg = compiler_resolve ll3 fs level path pkg.
Proof. exact find_pxd_relative_matches_compiler. Qed.
Print Assumptions C46_find_pxd_relative_matches_compiler.

(* Absolute names.  Full statement (false under language_level 3):
     forall fixed ll3 fs path pkg, path <> [] -> idents path ->
       find_pxd fixed fs (render 0 path) pkg = compiler_resolve ll3 fs 0 path pkg.
   Proved: under language_level 2 always; under 3 when the importing file is not in a package or no
   module of that name exists inside its package.  The rest is finding
   absolute_cimport_shadowed_by_package_sibling (C46_find_pxd_absolute_ll3_refuted). *)
Theorem C46_find_pxd_absolute_matches_compiler_partial :
  forall fixed ll3 fs path pkg, path <> [] -> idents path ->
    ll3 = false \/ pkg = [] \/ fs (join_dots (pkg ++ path)) = false ->
    find_pxd fixed fs (render 0 path) pkg = compiler_resolve ll3 fs 0 path pkg.
Proof. exact find_pxd_absolute_matches_compiler_partial. Qed.
Print Assumptions C46_find_pxd_absolute_matches_compiler_partial.

Theorem C46_find_pxd_absolute_ll3_refuted :
  exists fs path pkg, path <> [] /\ idents path /\ idents pkg /\
    forall fixed, find_pxd fixed fs (render 0 path) pkg <> compiler_resolve true fs 0 path pkg.
Proof. exact find_pxd_absolute_ll3_refuted. Qed.
Print Assumptions C46_find_pxd_absolute_ll3_refuted.

(* package(filename) = the maximal run of package directories directly above the file *)
Theorem C46_package_of_spec :
  forall dirs, exists n, n <= length dirs /\
    package_of dirs = rev (map fst (firstn n dirs)) /\
    Forall (fun d => snd d = true) (firstn n dirs) /\
    (forall d, nth_error dirs n = Some d -> snd d = false).
Proof. exact package_of_spec. Qed.
Print Assumptions C46_package_of_spec.

Example C46_scan_nonvacuous :
  idents [[7]] /\ ident [8] /\
  sc_cimports (scan SepEndsWithDot [SFrom (render 2 []) [[8]]; SFrom (render 1 [[7]]) [[8]; [9]]; SCimport [[7; 0; 8]]])
    = [[0; 0]; [0; 0; 8]; [0; 7]; [0; 7; 0; 8]; [0; 7; 0; 9]; [7; 0; 8]] /\
  find_pxd_cands false [0; 0; 8] [[1]; [2]] = Some [[1; 0; 8]] /\
  find_pxd_cands false [0; 0; 0; 8] [[1]; [2]] = Some [[8]] /\
  find_pxd_cands false [0; 0; 0; 0; 8] [[1]; [2]] = None.
Proof.
  split; [constructor; [apply ident_single; discriminate|constructor]|].
  split; [apply ident_single; discriminate|]. vm_compute. repeat split.
Qed.

(* non-vacuity (graphs ex_out / ex_cyc of Model/M_DepTree.v): a 2-cycle below a diamond and a self-loop; queried 3, 0, 1 on one
   cache.  Hypotheses hold; answers as computed; and the fuel bound |V|+1 is not slack: with
   fuel |V| the same first query is out of fuel on a 4-cycle. *)
Example C46_nonvacuous :
  (forall v, In v [0; 1; 2; 3] -> incl (ex_out v) [0; 1; 2; 3]) /\
  incl [3; 0; 1] [0; 1; 2; 3] /\
  run_queries ex_out ex_ext (fuel_for [0; 1; 2; 3]) [] [3; 0; 1]
    = QOk [[3; 1]; [0; 1; 3; 2]; [1; 3]]
          [(0, [0; 1; 3; 2]); (2, [2; 3; 1]); (1, [1; 3]); (3, [3; 1])] /\
  run_queries ex_cyc ex_ext 4 [] [0] = QFail /\
  rebuild_decision false 5 (fun n => Z.of_nat n) 0 [0; 1; 3; 2] = Some false /\
  rebuild_decision false 2 (fun n => Z.of_nat n) 0 [0; 1; 3; 2] = Some true.
Proof.
  split.
  { intros v [<-|[<-|[<-|[<-|[]]]]]; simpl; intros x Hx; simpl in Hx; intuition (subst; simpl; auto). }
  split.
  { intros x Hx; simpl in *; intuition. }
  vm_compute. repeat split.
Qed.
