(* C46 — cythonize rebuilds exactly the modules whose inputs changed.
   Only statements; proofs live in Proof/P_DepTree.v; the model of
   DependencyTree.transitive_merge(_helper) / newest_dependency / the rebuild test of
   cythonize() is Model/M_DepTree.v.

   Vocabulary (Proof/P_DepTree.v):
     reach outgoing n m        m is reachable from n (reflexive, transitive) along `outgoing`
     reach_av outgoing A n m   the same inside the graph with the nodes satisfying A removed
     cache_ok outgoing extract seen
                               every entry seen[k] is, as a set, U { extract m | reach k m }
     stack_ok V st             the stack dict has distinct keys inside V and depth indices < len
     blocked st loop s         s is a stack node whose depth index is >= that of `loop`
   A finite graph is a node list V closed under `outgoing`; nothing else is assumed: cycles,
   self-loops, diamonds, duplicate successors, any iteration order, any item sets. *)
From Coq Require Import List ZArith Bool.
From CyVerif Require Import Lib.CInt Model.M_DepTree Proof.P_DepTree.
Import ListNotations.

(* Main theorem.  Any sequence of all_dependencies() queries on one tree, starting from the empty
   _transitive_cache, with fuel = |V| + 1: no query runs out of fuel or hits a KeyError (the
   result is QOk), the i-th answer is exactly the union of extract(m) over the m reachable from
   the i-th queried node, and every entry left in the shared cache is such a closure. *)
Theorem C46_closure_correct :
  forall (outgoing : node -> list node) (extract : node -> nset) (V : list node),
    (forall v, In v V -> incl (outgoing v) V) ->
    forall qs, incl qs V ->
    exists ans seen',
      run_queries outgoing extract (fuel_for V) [] qs = QOk ans seen' /\
      cache_ok outgoing extract seen' /\
      Forall2 (fun q d => forall x, In x d <-> exists m, reach outgoing q m /\ In x (extract m)) qs ans.
Proof. exact closure_correct. Qed.
Print Assumptions C46_closure_correct.

(* One query on ANY cache whose entries are closures (in particular every cache an earlier
   history left behind): exact answer, loop = None at top level, cache still consistent. *)
Theorem C46_query_on_any_consistent_cache :
  forall outgoing extract V,
    (forall v, In v V -> incl (outgoing v) V) ->
    forall seen q, In q V -> cache_ok outgoing extract seen ->
    exists deps seen',
      transitive_merge outgoing extract (fuel_for V) seen q = Ok deps None seen' /\
      cache_ok outgoing extract seen' /\
      forall x, In x deps <-> exists m, reach outgoing q m /\ In x (extract m).
Proof. exact transitive_merge_correct. Qed.
Print Assumptions C46_query_on_any_consistent_cache.

(* The (deps, loop) contract of transitive_merge_helper in an arbitrary well-formed state
   (any consistent cache, any stack): it terminates within the fuel bound without KeyError;
   deps lies inside the closure of n; deps contains extract(m) for every m reachable from n without
   entering a stack node at or below `loop`; `loop`, if any, is a stack node reachable from n;
   loop = None makes deps the exact closure; the cache stays consistent. *)
Theorem C46_helper_contract :
  forall outgoing extract V,
    (forall v, In v V -> incl (outgoing v) V) ->
    forall n seen st, In n V -> cache_ok outgoing extract seen -> stack_ok V st ->
    exists deps loop seen',
      tmh outgoing extract (fuel_for V) n seen st = Ok deps loop seen' /\
      cache_ok outgoing extract seen' /\
      (forall x, In x deps -> exists m, reach outgoing n m /\ In x (extract m)) /\
      (forall m, reach_av outgoing (blocked st loop) n m -> incl (extract m) deps) /\
      (forall l, loop = Some l -> (exists d, lookup l st = Some d) /\ reach outgoing n l) /\
      (loop = None -> forall x, In x deps <-> exists m, reach outgoing n m /\ In x (extract m)).
Proof. exact helper_contract. Qed.
Print Assumptions C46_helper_contract.

(* The answer for q does not depend on which queries were made before it. *)
Theorem C46_order_independent :
  forall outgoing extract V qs1 qs2 q,
    (forall v, In v V -> incl (outgoing v) V) -> incl qs1 V -> incl qs2 V -> In q V ->
    exists a1 a2 ans1 ans2 s1 s2,
      run_queries outgoing extract (fuel_for V) [] (qs1 ++ [q]) = QOk (ans1 ++ [a1]) s1 /\
      run_queries outgoing extract (fuel_for V) [] (qs2 ++ [q]) = QOk (ans2 ++ [a2]) s2 /\
      forall x, In x a1 <-> In x a2.
Proof. exact order_independent. Qed.
Print Assumptions C46_order_independent.

(* The rebuild test of cythonize() without force, on a dependency set containing the source:
   compile iff some dependency is strictly newer than the C file (c_ts = -1: no usable C file). *)
Theorem C46_rebuild_iff_newer :
  forall (c_ts : Z) (ts : nat -> Z) (source : nat) (deps : nset),
    In source deps ->
    exists b, rebuild_decision false c_ts ts source deps = Some b /\
              (b = true <-> exists x, In x deps /\ (c_ts < ts x)%Z).
Proof. exact rebuild_iff_newer. Qed.
Print Assumptions C46_rebuild_iff_newer.

Theorem C46_rebuild_forced :
  forall c_ts ts source deps, In source deps -> rebuild_decision true c_ts ts source deps = Some true.
Proof. exact rebuild_forced. Qed.
Print Assumptions C46_rebuild_forced.

(* End to end on the model: after any earlier queries on the tree, the module q is regenerated
   iff some item of some node reachable from q is newer than its C file. *)
Theorem C46_cythonize_exact :
  forall outgoing extract V (before : list node) q (c_ts : Z) (ts : nat -> Z),
    (forall v, In v V -> incl (outgoing v) V) -> incl before V -> In q V ->
    In q (extract q) ->
    exists ans d seen b,
      run_queries outgoing extract (fuel_for V) [] (before ++ [q]) = QOk (ans ++ [d]) seen /\
      rebuild_decision false c_ts ts q d = Some b /\
      (b = true <-> exists n x, reach outgoing q n /\ In x (extract n) /\ (c_ts < ts x)%Z).
Proof. exact cythonize_exact. Qed.
Print Assumptions C46_cythonize_exact.

(* Finding from_cimport_submodule_untracked (the scanner, which the theorems above take as the given
   `outgoing`): for "from pk cimport q0" the tree as it is does not list pk/q0.pxd although the
   compiler reads it, so a newer pk/q0.pxd leaves m.c stale.  Witness replayed on the real cythonize
   by props/C46.py (project "witness"). *)
Theorem C46_from_cimport_scan_refuted :
  exists ans seen x,
    run_queries (wit_out false) (wit_ext false) (fuel_for [0; 1; 2]) [] [0] = QOk [ans] seen /\
    In x wit_files_read /\ ~ In x ans /\
    wit_rebuild false 20 (fun f => if Nat.eqb f 2 then 30 else 10)%Z = Some false.
Proof. exact from_cimport_scan_refuted. Qed.
Print Assumptions C46_from_cimport_scan_refuted.

(* the same project with the repaired scanner (proposed_fixes/C46-from_cimport_submodule_untracked.diff) *)
Theorem C46_from_cimport_scan_fixed :
  exists ans seen,
    run_queries (wit_out true) (wit_ext true) (fuel_for [0; 1; 2]) [] [0] = QOk [ans] seen /\
    (forall x, In x ans <-> In x wit_files_read) /\
    forall c_ts ts, exists b, wit_rebuild true c_ts ts = Some b /\
      (b = true <-> exists x, In x wit_files_read /\ (c_ts < ts x)%Z).
Proof. exact from_cimport_scan_fixed. Qed.
Print Assumptions C46_from_cimport_scan_fixed.

(* non-vacuity (graphs ex_out / ex_cyc of Model/M_DepTree.v): a 2-cycle below a diamond and a self-loop; queried 3, 0, 1 on one
   cache.  Hypotheses hold; answers as computed; and the fuel bound |V|+1 is not slack: with
   fuel |V| the same first query is out of fuel on a 4-cycle. *)
Example C46_nonvacuous :
  (forall v, In v [0; 1; 2; 3] -> incl (ex_out v) [0; 1; 2; 3]) /\
  incl [3; 0; 1] [0; 1; 2; 3] /\
  run_queries ex_out ex_ext (fuel_for [0; 1; 2; 3]) [] [3; 0; 1]
    = QOk [[3; 1]; [0; 1; 3; 2]; [1; 3]]
          [(0, [0; 1; 3; 2]); (2, [2; 3; 1]); (1, [1; 3]); (3, [3; 1])] /\
  run_queries ex_cyc ex_ext 4 [] [0] = QFail /\
  rebuild_decision false 5 (fun n => Z.of_nat n) 0 [0; 1; 3; 2] = Some false /\
  rebuild_decision false 2 (fun n => Z.of_nat n) 0 [0; 1; 3; 2] = Some true.
Proof.
  split.
  { intros v [<-|[<-|[<-|[<-|[]]]]]; simpl; intros x Hx; simpl in Hx; intuition (subst; simpl; auto). }
  split.
  { intros x Hx; simpl in *; intuition. }
  vm_compute. repeat split.
Qed.
