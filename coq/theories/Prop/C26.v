(* C26 — global and builtin lookups always see the current binding. Statements only. *)
From Coq Require Import ZArith List Bool.
From CyVerif Require Import Model.M_GlobalCache Proof.P_GlobalCache.
Import ListNotations.
Open Scope Z_scope.

(* for every assignment nm of names to call sites and every history of module-dict and builtins
   mutations interleaved with global-name reads, the version-cached lookup
   (__Pyx_GetModuleGlobalName with CYTHON_USE_DICT_VERSIONS) returns exactly what the plain lookup does *)
Theorem C26_cached_eq_uncached : forall nm ops, run true nm w0 ops = run false nm w0 ops.
Proof. exact cached_eq_uncached. Qed.
Print Assumptions C26_cached_eq_uncached.

(* ... and both return, at every read, the binding current at that point of the history:
   module namespace first, then builtins, else NameError *)
Theorem C26_lookup_current : forall nm ops, run true nm w0 ops = spec_run nm [] [] ops.
Proof. exact lookup_current. Qed.
Print Assumptions C26_lookup_current.

Theorem C26_uncached_current : forall nm ops w,
  run false nm w ops = spec_run nm (moddict w) (builtins w) ops.
Proof. exact run_uncached_spec. Qed.
Print Assumptions C26_uncached_current.

(* the invariant that carries the proof: a cache whose version equals the dict's tag holds the
   dict's current entry; it is established initially and preserved by every step *)
Theorem C26_invariant_preserved : forall nm w i,
  Inv nm w -> Inv nm (lookup_cached_world w i (nm i)) /\ lookup_cached_result w i (nm i) = lookup_spec w (nm i).
Proof.
  intros nm w i H. split; [apply lookup_cached_world_inv; assumption | apply lookup_cached_correct; assumption].
Qed.
Print Assumptions C26_invariant_preserved.

(* the dict model is a map *)
Theorem C26_dict_model_is_map : forall (d : list (Z * Z)) k k' v,
  dget (dset d k v) k = Some v /\ dget (ddel d k) k = None /\
  (k <> k' -> dget (dset d k v) k' = dget d k' /\ dget (ddel d k) k' = dget d k').
Proof.
  intros. split; [apply dget_dset_same|]. split; [apply dget_ddel_same|].
  intros H. split; [apply dget_dset_other | apply dget_ddel_other]; assumption.
Qed.
Print Assumptions C26_dict_model_is_map.

Example C26_nonvacuous :
  run true (fun i => i) w0 [SetBuiltin 7 70; Lookup 7; SetMod 7 1; Lookup 7; Lookup 7; DelMod 7; Lookup 7; DelBuiltin 7; Lookup 7]
  = [Found 70; Found 1; Found 1; Found 70; NameError].
Proof. vm_compute. reflexivity. Qed.
