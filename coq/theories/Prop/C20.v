(* C20 - Operands and targets are evaluated left-to-right exactly once.
   Only statements; proofs live in Proof/P_EvalOrder.v.  Model: Model/M_EvalOrder.v
   (reference semantics eval / ref_stmt = CPython's documented order; gen / gen_stmt = the code
   generator's discipline on a three-address temp machine with forward jumps; flags = which of the
   repairs are applied, all false = the tree as it is).  S : sem is an ARBITRARY semantics of leaf calls,
   primitive operations, truth tests and unpacking. *)
From Coq Require Import List Bool Arith.
From CyVerif Require Import Model.M_EvalOrder Proof.P_EvalOrder.
Import ListNotations.

(* every expression of the modelled language (and/or jump threading, not, conditional expressions,
   cascaded comparisons, calls, displays, subscripts, slices, attributes, f-strings as strict n-ary
   nodes, method calls, min/max), evaluated for its value at any temp counter n in any machine state:
   the generated code runs to completion, leaves the variables alone, appends exactly the reference
   event trace and the reference sequence of leaf evaluations, puts the reference value into the
   result operand and preserves every temp below n.
   Hypothesis eok: a min/max node needs fx_minmax, a method-call node needs fx_mcall (findings below). *)
Theorem C20_expr_trace_eq : forall (S : sem) (F : flags) e n st, eok F e = true ->
  let '(code, ro, n') := gen F CVal e n in
  let r := eval S (mvars st) MVal e in
  exists st', run S code st Normal = (st', Normal) /\
    mvars st' = mvars st /\ trace st' = trace st ++ rev r /\ leaflog st' = leaflog st ++ rlf r /\
    getop st' ro = rv r /\ (forall t, t < n -> temps st' t = temps st t).
Proof. exact gen_expr_correct. Qed.
Print Assumptions C20_expr_trace_eq.

(* the same in every context of the generator: value, C truth value (conditions, not), and operand of a
   jump-threaded and/or tree with "next and" / "next or" / end labels: the code leaves through exactly
   the label the reference truth value selects (short-circuiting stops at the same point), tests the
   truth of an operand at most once, and delivers the value only when it is the result *)
Theorem C20_gen_all_contexts : forall (S : sem) (F : flags) e, eok F e = true ->
  forall c n, wfctx c n -> specR S c (fun vars => eval S vars (mode_of c) e) n (gen F c e n).
Proof. exact gen_correct. Qed.
Print Assumptions C20_gen_all_contexts.

(* statements.  FULL STATEMENT (not proved as a theorem; checked on the witnesses below and by the
   correspondence run): for every statement s (cascaded / unpacking assignment, augmented assignment,
   del) with repaired flags, run (gen_stmt s) has the trace, leaf sequence and final variables of
   ref_stmt s.  Proved part: del statements. *)
Theorem C20_stmt_trace_eq_partial : forall (S : sem) (F : flags) o es st, forallb (eok F) es = true ->
  let '(code, _) := gen_stmt F (SDel o es) 0 in
  let r := ref_stmt S (mvars st) (SDel o es) in
  exists st', run S code st Normal = (st', Normal) /\
    mvars st' = svars r /\ trace st' = trace st ++ sev r /\ leaflog st' = leaflog st ++ slf r.
Proof. exact del_correct. Qed.
Print Assumptions C20_stmt_trace_eq_partial.

(* findings: with the tree as it is the property is refuted (witnesses replayed on the compiled code by
   props/C20.py), each repaired variant agrees with the reference on its witness *)
Theorem C20_minmax_refuted : exists s,
  trace_of (mk_flags false true true true) s <> sev (ref_run s) /\ trace_of repaired s = sev (ref_run s).
Proof. exists w_minmax. split; [exact minmax_refuted_w | apply minmax_repaired_w]. Qed.
Print Assumptions C20_minmax_refuted.

Theorem C20_method_lookup_refuted : exists s, trace_of (mk_flags true false true true) s <> sev (ref_run s).
Proof. exists w_mcall. exact mcall_refuted_w. Qed.
Print Assumptions C20_method_lookup_refuted.

Theorem C20_inplace_refuted : exists s,
  trace_of (mk_flags true true false true) s <> sev (ref_run s) /\ trace_of repaired s = sev (ref_run s).
Proof. exists w_inplace. split; [exact inplace_refuted_w | exact inplace_repaired_w]. Qed.
Print Assumptions C20_inplace_refuted.

Theorem C20_cascaded_unpacking_refuted : exists s,
  trace_of (mk_flags true true true false) s <> sev (ref_run s) /\ trace_of repaired s = sev (ref_run s).
Proof. exists w_cascade. split; [exact cascade_refuted_w | exact cascade_repaired_w]. Qed.
Print Assumptions C20_cascaded_unpacking_refuted.

(* ConstantFolding rewrites  not (a [not] in b <cascade>)  by flipping the first operator: not an equivalence *)
Theorem C20_not_of_cascaded_in_refuted : exists a n ops rest,
  rv (eval std_sem init_vars MVal (ENot (ECmp a (OIn n :: ops) rest))) <>
  rv (eval std_sem init_vars MVal (ECmp a (OIn (negb n) :: ops) rest)).
Proof. exists (ELeaf 1 3), true, [OLog 0], [ELeaf 1 4; ELeaf 0 5]. apply notflip_refuted_w. Qed.
Print Assumptions C20_not_of_cascaded_in_refuted.

Example C20_nonvacuous :
  eok repaired (ECond (EOr (ENot (ELeaf 1 1)) (ELeaf 0 2))
                      (EMCall 7 (OLog 2) (ELeaf 0 7) [EMinMax (OLog 0) [ELeaf 0 8; ELeaf 1 9]]) (ELeaf 0 11)) = true
  /\ trace_of repaired w_big = sev (ref_run w_big) /\ 10 <= length (trace_of repaired w_big).
Proof. split; [reflexivity|]. split; [apply big_agrees | apply big_agrees]. Qed.
