(* C20 - Operands and targets are evaluated left-to-right exactly once.
   Only statements; proofs live in Proof/P_EvalOrder.v.  Model: Model/M_EvalOrder.v
   (reference semantics eval / ref_stmt = CPython's documented order; gen / gen_stmt = the code
   generator's discipline on a three-address temp machine with forward jumps; flags = which of the
   repairs are applied, all false = the tree as it is).  S : sem is an ARBITRARY semantics of leaf calls,
   primitive operations, truth tests and unpacking. *)
From Coq Require Import List Bool Arith.
From CyVerif Require Import Model.M_CCallMap Model.M_EvalOrder Proof.P_CCallMap Proof.P_EvalOrder Proof.P_EvalOrderCC Proof.P_EvalOrderStmt.
Import ListNotations.

(* every expression of the modelled language (and/or jump threading, not, conditional expressions,
   cascaded comparisons, calls, displays, subscripts, slices, attributes, f-strings as strict n-ary
   nodes, method calls, min/max, calls of C functions with keyword arguments), evaluated for its value at
   any temp counter n in any machine state:
   the generated code runs to completion, leaves the variables alone, appends exactly the reference
   event trace and the reference sequence of leaf evaluations, puts the reference value into the
   result operand and preserves every temp below n.
   Hypothesis eok: a min/max node needs fx_minmax, a method-call node needs fx_mcall, a C-call node needs
   ccok (findings below; with the repairs ccok holds for every well-formed call, C20_ccall_repaired_covers_all). *)
Theorem C20_expr_trace_eq : forall (S : sem) (F : flags) e n st, eok F e = true ->
  let '(code, ro, n') := gen F CVal e n in
  let r := eval S (mvars st) MVal e in
  exists st', run S code st Normal = (st', Normal) /\
    mvars st' = mvars st /\ trace st' = trace st ++ rev r /\ leaflog st' = leaflog st ++ rlf r /\
    getop st' ro = rv r /\ (forall t, t < n -> temps st' t = temps st t).
Proof. exact gen_expr_correct. Qed.
Print Assumptions C20_expr_trace_eq.

(* the same in every context of the generator: value, C truth value (conditions, not), and operand of a
   jump-threaded and/or tree with "next and" / "next or" / end labels: the code leaves through exactly
   the label the reference truth value selects (short-circuiting stops at the same point), tests the
   truth of an operand at most once, and delivers the value only when it is the result *)
Theorem C20_gen_all_contexts : forall (S : sem) (F : flags) e, eok F e = true ->
  forall c n, wfctx c n -> specR S c (fun vars => eval S vars (mode_of c) e) n (gen F c e n).
Proof. exact gen_correct. Qed.
Print Assumptions C20_gen_all_contexts.

(* statements: for every statement s of the modelled language - (cascaded / unpacking) assignment,
   augmented assignment, del - the code of gen_stmt started in any machine state runs to completion and
   has the event trace, the leaf sequence and the final variables of the reference (CPython order):
     t1 = t2 = ... = rhs : right-hand side first, then the targets left to right, the sub-expressions of
        every target (in the variable environment the earlier targets left) before its store, the items of
        a tuple target after ONE unpacking of the value;
     x op= rhs, b[i] op= rhs, o.a op= rhs : object and index once (let-temps of ExpandInplaceOperators),
        read, right-hand side, operation, store;
     del target : sub-expressions left to right, then the deletion.
   stmt_ok (executable) = the expressions are covered (eok); for assignments: the parallel-assignment
   flattening of the tree as it is does not apply (flattens = None, or the repair fx_cascade - the finding
   is refuted below), and a value that is a bare variable is not reassigned inside a tuple target (the
   compiler does not copy a simple right-hand side: x, y = z = x hands the NEW x to z - documented
   assumption "leaves do not rebind the variables"); for attribute targets of augmented assignments: the
   repair fx_inplace (applied in the tree; the old behaviour is refuted below). *)
Theorem C20_stmt_trace_eq : forall (S : sem) (F : flags) s st, stmt_ok F s = true ->
  let '(code, _) := gen_stmt F s 0 in
  let r := ref_stmt S (mvars st) s in
  exists st', run S code st Normal = (st', Normal) /\
    mvars st' = svars r /\ trace st' = trace st ++ sev r /\ leaflog st' = leaflog st ++ slf r.
Proof. exact stmt_correct. Qed.
Print Assumptions C20_stmt_trace_eq.

(* findings: with the tree as it is the property is refuted (witnesses replayed on the compiled code by
   props/C20.py), each repaired variant agrees with the reference on its witness *)
Theorem C20_minmax_refuted : exists s,
  trace_of (mk_flags false true true true) s <> sev (ref_run s) /\ trace_of repaired s = sev (ref_run s).
Proof. exists w_minmax. split; [exact minmax_refuted_w | apply minmax_repaired_w]. Qed.
Print Assumptions C20_minmax_refuted.

Theorem C20_method_lookup_refuted : exists s, trace_of (mk_flags true false true true) s <> sev (ref_run s).
Proof. exists w_mcall. exact mcall_refuted_w. Qed.
Print Assumptions C20_method_lookup_refuted.

Theorem C20_inplace_refuted : exists s,
  trace_of (mk_flags true true false true) s <> sev (ref_run s) /\ trace_of repaired s = sev (ref_run s).
Proof. exists w_inplace. split; [exact inplace_refuted_w | exact inplace_repaired_w]. Qed.
Print Assumptions C20_inplace_refuted.

Theorem C20_cascaded_unpacking_refuted : exists s,
  trace_of (mk_flags true true true false) s <> sev (ref_run s) /\ trace_of repaired s = sev (ref_run s).
Proof. exists w_cascade. split; [exact cascade_refuted_w | exact cascade_repaired_w]. Qed.
Print Assumptions C20_cascaded_unpacking_refuted.


(* ---- calls of compile-time-known C functions: keyword arguments mapped to declared positions ----
   (ExprNodes.GeneralCallNode.map_to_simple_call_node; model Model/M_CCallMap.v)
   The mapping itself, for every declaration (ndecl parameters), every well-formed call matching it
   (npos positional arguments, keywords with declared indices names: all declared, none bound twice, no
   gap) and every "simple" verdict of the compiler: unless a non-simple argument precedes the first temp
   (tree as it is: the argument list is cut there; cc_keep = the repair), the SimpleCallNode receives the
   arguments in the binding the call denotes (ref_slots), and the evaluation order - temps first, then the
   arguments left in place - visits every argument exactly once (a duplicate-free list of all m call
   positions) and the non-simple ones in CALL order. *)
Theorem C20_ccall_mapping : forall cc_keep npos ndecl names simple,
  cc_wf npos ndecl names = true ->
  let m := npos + length names in
  let k := npos + inorder_prefix ndecl npos names in
  (cc_keep = true \/ (forall p, p < k -> simple p = true) \/ (forall p, k <= p < m -> simple p = true)) ->
  let slots := ref_slots npos names ndecl 0 in
  exists temps,
    ccmap true cc_keep npos ndecl names simple = CMOk temps slots /\
    filter (nonsimple simple) (cc_order temps slots) = filter (nonsimple simple) (seq 0 m) /\
    NoDup (cc_order temps slots) /\
    (forall p, In p (cc_order temps slots) <-> p < m) /\
    (forall p, In p slots <-> p < m) /\ length slots = m.
Proof. exact ccmap_ok. Qed.
Print Assumptions C20_ccall_mapping.

(* the code generated for a covered C call (any semantics, any argument expressions of the modelled
   language, any temp counter and machine state): receiver, then every argument value in call order,
   each exactly once (event trace and leaf sequence of the reference), the values passed to the declared
   parameters the call binds them to *)
Theorem C20_ccall_call_order : forall (S : sem) (F : flags) o nreq ndecl recv npos names es n st,
  eok F (ECCall o nreq ndecl recv npos names es) = true ->
  let '(code, ro, n') := gen F CVal (ECCall o nreq ndecl recv npos names es) n in
  let rr := eval S (mvars st) MVal recv in
  let rs := evals S (mvars st) es in
  let p := opsem S o (rv rr :: map (fun q => nth q (map rv rs) VNone) (ref_slots npos names ndecl 0)) in
  exists st', run S code st Normal = (st', Normal) /\ mvars st' = mvars st /\
    trace st' = trace st ++ rev rr ++ flat_ev rs ++ snd p /\
    leaflog st' = leaflog st ++ rlf rr ++ flat_lf rs /\
    getop st' ro = fst p /\ (forall t, t < n -> temps st' t = temps st t).
Proof. exact ccall_call_order. Qed.
Print Assumptions C20_ccall_call_order.

(* with the three proposed repairs (and the temp-sorting step) the side condition ccok is just
   well-formedness: every declaration, every call matching it *)
Theorem C20_ccall_repaired_covers_all : forall F nreq ndecl recv npos names es,
  fx_ccsimple F = true -> fx_cckeep F = true -> fx_ccrecv F = true -> cc_sorted F = true ->
  length es = npos + length names -> cc_wf npos ndecl names = true -> nreq <= npos + length names ->
  ccok F nreq ndecl recv npos names es = true.
Proof. exact ccok_repaired. Qed.
Print Assumptions C20_ccall_repaired_covers_all.

(* the temp-sorting step is necessary: without it (temps chained in declaration order)
   cf(c=T(1), b=T(2), a=T(3)) evaluates 3, 2, 1 *)
Theorem C20_ccall_unsorted_refuted : exists s,
  trace_of cc_seeded s <> sev (ref_run s) /\ leaflog (fst (run_stmt cc_seeded s)) = [3; 2; 1] /\
  trace_of repaired s = sev (ref_run s) /\ trace_of cc_asis s = sev (ref_run s).
Proof. exists w_cc_reversed. exact cc_seeded_refuted_w. Qed.
Print Assumptions C20_ccall_unsorted_refuted.

(* findings in the tree as it is (witnesses replayed on the compiled code by props/C20.py) *)
(* is_simple() is asked before type analysis: cf(c=x.a, b=T(1), a=T(2)) looks x.a up last *)
Theorem C20_ccall_simple_refuted : exists s,
  trace_of cc_asis s <> sev (ref_run s) /\ trace_of repaired s = sev (ref_run s).
Proof. exists w_cc_attr. exact cc_simple_refuted_w. Qed.
Print Assumptions C20_ccall_simple_refuted.

(* a non-simple argument before the first temp cuts the argument list: co(T(1), c=T(2), b=T(3)) calls
   co(T1) (the evaluated values are dropped); with required parameters the call is rejected *)
Theorem C20_ccall_cut_refuted : exists s s',
  trace_of cc_asis s <> sev (ref_run s) /\ stmt_rejected cc_asis s = false /\
  trace_of repaired s = sev (ref_run s) /\
  stmt_rejected cc_asis s' = true /\ stmt_rejected repaired s' = false /\
  trace_of repaired s' = sev (ref_run s').
Proof. exists w_cc_cut, w_cc_cut_rejected. exact cc_cut_refuted_w. Qed.
Print Assumptions C20_ccall_cut_refuted.

(* the receiver of a C method call is evaluated after the keyword temps *)
Theorem C20_ccall_receiver_refuted : exists s,
  trace_of cc_asis s <> sev (ref_run s) /\ trace_of repaired s = sev (ref_run s).
Proof. exists w_cc_recv. exact cc_recv_refuted_w. Qed.
Print Assumptions C20_ccall_receiver_refuted.

(* ConstantFolding rewrites  not (a [not] in b <cascade>)  by flipping the first operator: not an equivalence *)
Theorem C20_not_of_cascaded_in_refuted : exists a n ops rest,
  rv (eval std_sem init_vars MVal (ENot (ECmp a (OIn n :: ops) rest))) <>
  rv (eval std_sem init_vars MVal (ECmp a (OIn (negb n) :: ops) rest)).
Proof. exists (ELeaf 1 3), true, [OLog 0], [ELeaf 1 4; ELeaf 0 5]. apply notflip_refuted_w. Qed.
Print Assumptions C20_not_of_cascaded_in_refuted.

Example C20_nonvacuous :
  eok repaired (ECond (EOr (ENot (ELeaf 1 1)) (ELeaf 0 2))
                      (EMCall 7 (OLog 2) (ELeaf 0 7) [EMinMax (OLog 0) [ELeaf 0 8; ELeaf 1 9]]) (ELeaf 0 11)) = true
  /\ trace_of repaired w_big = sev (ref_run w_big) /\ 10 <= length (trace_of repaired w_big)
  /\ stmt_ok repaired w_big = true
  /\ stmt_ok repaired w_inplace = true
  /\ eok cc_asis w_cc_big = true
  /\ trace_of cc_asis (SAssign [TS (TName rvar)] w_cc_big) = sev (ref_run (SAssign [TS (TName rvar)] w_cc_big)).
Proof.
  split; [reflexivity|]. split; [apply big_agrees|]. split; [apply big_agrees|].
  split; [reflexivity|]. split; [reflexivity|].
  split; apply cc_big_covered.
Qed.
