(* C30 — cdef dataclasses behave like standard dataclasses (decision level).
   Only statements; proofs live in Proof/P_Dataclass.v.  cy_* = Cython/Compiler/Dataclass.py,
   py_* = CPython 3.12 Lib/dataclasses.py (Model/M_Dataclass.v). *)
From Coq Require Import NArith ZArith List Bool.
From CyVerif Require Import Lib.CInt Model.M_Dataclass Gen.Gen_HashAction Proof.P_Dataclass.
Import ListNotations.

(* __init__ parameter list (order, positional / keyword-only, which have defaults) including
   the "non-default argument follows default argument" error and its offending field, for
   every field list and option set without field(kw_only=...) *)
Theorem C30_init_signature_eq : forall o u fs,
  no_field_kw fs -> user_init_checked o u fs -> cy_init_sig o u fs = py_init_sig o u fs.
Proof. exact init_signature_eq. Qed.
Print Assumptions C30_init_signature_eq.

(* full statement (false): forall o u fs, cy_init_sig o u fs = py_init_sig o u fs *)
Theorem C30_init_signature_field_kw_refuted : exists o u fs,
  user_init_checked o u fs /\ cy_init_sig o u fs <> py_init_sig o u fs
  /\ cy_rejected o u fs = true /\ py_rejected o u fs = false.
Proof. exact init_signature_field_kw_refuted. Qed.
Print Assumptions C30_init_signature_field_kw_refuted.

Theorem C30_init_signature_user_init_refuted : exists o u fs,
  no_field_kw fs /\ cy_init_sig o u fs = SigNone /\ py_init_sig o u fs = SigErr 2%N.
Proof. exact init_signature_user_init_refuted. Qed.
Print Assumptions C30_init_signature_user_init_refuted.

Theorem C30_repr_fields_eq : forall o u fs, cy_repr_fields o u fs = py_repr_fields o u fs.
Proof. exact repr_fields_eq. Qed.
Print Assumptions C30_repr_fields_eq.

Theorem C30_compare_fields_eq : forall o u fs,
  cy_eq_fields o u fs = py_eq_fields o u fs /\ cy_order_fields o fs = py_order_fields o fs.
Proof. exact compare_fields_eq. Qed.
Print Assumptions C30_compare_fields_eq.

(* full statement, true only for the repaired `hash is None` test (hx = true) *)
Theorem C30_hash_fields_eq : forall fs, cy_hash_names true fs = py_hash_names fs.
Proof. exact hash_fields_eq. Qed.
Print Assumptions C30_hash_fields_eq.

(* the code as it is (hx = false) *)
Theorem C30_hash_fields_eq_partial : forall fs,
  hash_none_is_compared fs -> cy_hash_names false fs = py_hash_names fs.
Proof. exact hash_fields_eq_partial. Qed.
Print Assumptions C30_hash_fields_eq_partial.

(* full statement (false): forall fs, cy_hash_names false fs = py_hash_names fs *)
Theorem C30_hash_fields_compare_false_refuted : exists fs,
  cy_hash_names false fs = [1%N; 2%N] /\ py_hash_names fs = [1%N] /\ py_cmp_names fs = [1%N]
  /\ cy_cmp_names fs = [1%N].
Proof. exact hash_fields_compare_false_refuted. Qed.
Print Assumptions C30_hash_fields_compare_false_refuted.

(* the (unsafe_hash, eq, frozen, explicit __hash__) -> action decision, all 16 rows *)
Theorem C30_hash_action_eq : forall unsafe eq frozen expl,
  cy_hash_action unsafe eq frozen expl = py_hash_action unsafe eq frozen expl.
Proof. exact hash_action_eq. Qed.
Print Assumptions C30_hash_action_eq.

(* finite, by computation, over the tables dumped on every run from the running
   Dataclass.generate_hash_code (cy_hash_rows) and dataclasses._hash_action (py_hash_rows):
   both tables are complete (16 keys), are the model functions, and agree with each other *)
Theorem C30_hash_action_table_eq : hash_table_check = true.
Proof. vm_compute. reflexivity. Qed.
Print Assumptions C30_hash_action_table_eq.

Theorem C30_hash_eq_partial : forall o u fs,
  explicit_hash_agree u -> cy_hash true o u fs = py_hash o u fs.
Proof. exact hash_eq_partial. Qed.
Print Assumptions C30_hash_eq_partial.

(* full statement (false): forall o u fs, cy_hash true o u fs = py_hash o u fs *)
Theorem C30_hash_eq_refuted : exists o u fs, cy_hash true o u fs = HErr /\ py_hash o u fs = HAdd [1%N].
Proof. exact hash_eq_refuted. Qed.
Print Assumptions C30_hash_eq_refuted.

(* full statement, true only for the repaired loop (mx = true) *)
Theorem C30_match_args_eq : forall o u fs,
  no_field_kw fs -> cy_match_args true o u fs = py_match_args o u fs.
Proof. exact match_args_eq. Qed.
Print Assumptions C30_match_args_eq.

(* the code as it is (mx = false) *)
Theorem C30_match_args_eq_partial : forall o u fs,
  no_field_kw fs -> (o_kw_only o = true \/ forall f, In f fs -> f_init f = true) ->
  cy_match_args false o u fs = py_match_args o u fs.
Proof. exact match_args_eq_partial. Qed.
Print Assumptions C30_match_args_eq_partial.

(* full statement (false): forall o u fs, no_field_kw fs -> cy_match_args false o u fs = py_match_args o u fs *)
Theorem C30_match_args_init_false_refuted : exists o u fs,
  no_field_kw fs /\ cy_match_args false o u fs = Some [1%N; 2%N] /\ py_match_args o u fs = Some [1%N].
Proof. exact match_args_init_false_refuted. Qed.
Print Assumptions C30_match_args_init_false_refuted.

(* where attribute values come from after the synthesised __init__ *)
Theorem C30_body_eq_partial : forall fs, init_false_has_default fs -> cy_body fs = py_body fs.
Proof. exact body_eq_partial. Qed.
Print Assumptions C30_body_eq_partial.

(* full statement (false): forall fs, cy_body fs = py_body fs *)
Theorem C30_body_init_false_refuted : exists fs,
  cy_body fs = [(1%N, SZero)] /\ py_body fs = [(1%N, SUnset)].
Proof. exact body_init_false_refuted. Qed.
Print Assumptions C30_body_init_false_refuted.

(* which classes are rejected (compile error / exception at class creation) *)
Theorem C30_rejected_eq_partial : forall o u fs,
  no_field_kw fs -> user_init_checked o u fs -> explicit_hash_agree u ->
  no_initvar_factory fs -> (o_order o = true -> o_eq o = true) ->
  cy_rejected o u fs = py_rejected o u fs.
Proof. exact rejected_eq_partial. Qed.
Print Assumptions C30_rejected_eq_partial.

Theorem C30_rejected_order_without_eq_refuted : exists o u fs,
  no_field_kw fs /\ cy_rejected o u fs = false /\ py_rejected o u fs = true.
Proof. exact rejected_order_without_eq_refuted. Qed.
Print Assumptions C30_rejected_order_without_eq_refuted.

(* every decision at once on the complement of the finding classes *)
Theorem C30_decisions_eq_partial : forall o u fs,
  domain_ok o u fs -> cy_decide true true o u fs = py_decide o u fs.
Proof. exact decisions_eq_partial. Qed.
Print Assumptions C30_decisions_eq_partial.

(* the same for the code as it is, on the further complement of the hash-field finding *)
Theorem C30_decisions_eq_asis_partial : forall o u fs,
  domain_ok o u fs -> hash_none_is_compared fs -> cy_decide false false o u fs = py_decide o u fs.
Proof. exact decisions_eq_asis_partial. Qed.
Print Assumptions C30_decisions_eq_asis_partial.

(* the synthesised field-by-field comparison cascade is the tuple comparison of
   dataclasses.py, for any element type obeying the comparison contract *)
Theorem C30_order_is_tuple_order : forall (A : Type) ident eqv rel c (ps : list (A * A)),
  cmp_contract A ident eqv rel ps ->
  cy_order A eqv rel c ps = py_order A ident eqv rel c ps.
Proof. exact order_is_tuple_order. Qed.
Print Assumptions C30_order_is_tuple_order.

Theorem C30_equal_is_tuple_equal : forall (A : Type) (ident eqv : A -> A -> bool) ps,
  (forall x y, In (x, y) ps -> ident x y = true -> eqv x y = true) ->
  cy_equal A eqv ps = py_equal A ident eqv ps.
Proof. exact equal_is_tuple_equal. Qed.
Print Assumptions C30_equal_is_tuple_equal.

(* integers obey the contract; `<` is the lexicographic order *)
Theorem C30_order_is_tuple_order_int : forall c ps,
  cy_order Z Z.eqb z_rel c ps = py_order Z Z.eqb Z.eqb z_rel c ps.
Proof. exact order_is_tuple_order_int. Qed.
Print Assumptions C30_order_is_tuple_order_int.

Theorem C30_order_lt_is_lexicographic : forall ps,
  cy_order Z Z.eqb z_rel OLt ps = Some (lex_lt ps).
Proof. exact order_lt_is_lexicographic. Qed.
Print Assumptions C30_order_lt_is_lexicographic.

(* full statement (false): order_is_tuple_order for every element type *)
Theorem C30_order_unorderable_equal_refuted :
  cy_order (option Z) oz_ident oz_rel OLe [(None, None)] = None
  /\ py_order (option Z) oz_ident oz_ident oz_rel OLe [(None, None)] = Some true.
Proof. exact order_unorderable_equal_refuted. Qed.
Print Assumptions C30_order_unorderable_equal_refuted.

Theorem C30_equal_nan_identity_refuted :
  cy_equal (bool * Z) nv_eqv [((true, 7%Z), (true, 7%Z))] = false
  /\ py_equal (bool * Z) nv_ident nv_eqv [((true, 7%Z), (true, 7%Z))] = true.
Proof. exact equal_nan_identity_refuted. Qed.
Print Assumptions C30_equal_nan_identity_refuted.

(* the hypotheses are satisfiable on a non-trivial class: five fields mixing defaults, a
   factory, init=False with default, repr=False, compare=False, hash=True, an InitVar;
   order=True, unsafe_hash=True, frozen=True, a __post_init__ *)
Example C30_nonvacuous :
  let fs := [mkField 1%N DNone true true true None None false;
             mkField 2%N DValue true false true None None false;
             mkField 3%N DFactory true true false (Some true) None false;
             mkField 4%N DValue true true true None None true;
             mkField 5%N DValue true true true (Some false) None false] in
  let o := mkOpts true true true true true true true false in
  let u := mkUser false false false HMissing false true in
  domain_ok o u fs
  /\ py_init_sig o u fs = SigOk [(1%N, PPos, false); (2%N, PPos, true); (3%N, PPos, true);
                                 (4%N, PPos, true); (5%N, PPos, true)]
  /\ py_hash o u fs = HAdd [1%N; 2%N; 3%N]
  /\ py_repr_fields o u fs = Some [1%N; 3%N; 5%N]
  /\ py_rejected o u fs = false.
Proof.
  cbv zeta. split; [|repeat split].
  constructor.
  - intros f H; repeat (destruct H as [<-|H]; [reflexivity|]); destruct H.
  - intros H; discriminate H.
  - intros [H _]; discriminate H.
  - intros f H; repeat (destruct H as [<-|H]; [reflexivity|]); destruct H.
  - reflexivity.
  - right. intros f H; repeat (destruct H as [<-|H]; [reflexivity|]); destruct H.
  - intros f H; repeat (destruct H as [<-|H]; [cbn; intros; try discriminate; reflexivity|]); destruct H.
Qed.
