(* C31 — match statements behave like CPython.
   Only statements; proofs live in Proof/P_Match.v.

   Full statement (FALSE on the current tree, see the four C31_*_refuted theorems):
     forall ct cases v, match_cy false ct cases v = match_ref ct cases v
   (selected case, bindings including those of guard-failed cases, exception, guard trace). *)
From Coq Require Import ZArith List Bool NArith Sorted.
From CyVerif Require Import Model.M_Match Proof.P_Match.
Import ListNotations.

(* the code as it is (fxas = false): equality for ALL class tables, case lists and subjects
   outside the four refuted classes: safe_cases = no duplicate mapping keys / class attributes,
   and nodes that reorder their sub-pattern tests (class pattern with positional and keyword
   sub-patterns, mapping pattern with a value key) contain no sub-pattern that can raise;
   as_ok_cases = no as-target directly on an int/bool-valued literal or value pattern *)
Theorem C31_match_eq_partial : forall ct cases v,
  safe_cases ct cases = true -> as_ok_cases cases = true ->
  match_cy false ct cases v = match_ref ct cases v.
Proof. intros ct cases v Hs Ha. apply match_eq_gen; [exact Hs | now right]. Qed.
Print Assumptions C31_match_eq_partial.

(* with the as-target repair (fxas = true) only the three ordering classes remain excluded *)
Theorem C31_match_eq_fixed_as : forall ct cases v,
  safe_cases ct cases = true ->
  match_cy true ct cases v = match_ref ct cases v.
Proof. intros ct cases v Hs. apply match_eq_gen; [exact Hs | now left]. Qed.
Print Assumptions C31_match_eq_fixed_as.

(* per pattern, any strictness: the decision structure (length tests, front/back indexing with
   the explicit out-of-bounds outcome, slices, key sorting, up-front duplicate tests, keyword
   before positional) computes the PEP 634 result, for every pattern and subject *)
Theorem C31_pattern_eq : forall fx ct p s v,
  safe ct s p = true -> fx || as_ok p = true ->
  cy fx ct p v = pm_ref ct p v.
Proof. intros fx ct p s v Hs Ha. exact (proj1 (proj1 (cy_eq_ref fx ct) p s v Hs Ha)). Qed.
Print Assumptions C31_pattern_eq.

(* guards are evaluated only for cases whose pattern matched, in case order *)
Theorem C31_guard_order : forall ct cases v,
  let tr := match match_ref ct cases v with SDone o => o_guards o | SRaise _ g => g end in
  StronglySorted lt tr /\
  Forall (fun j => exists p g b, nth_error cases j = Some (p, g) /\ pm_ref ct p v = Ok b /\ has_guard g = true) tr.
Proof. exact guard_order_ref. Qed.
Print Assumptions C31_guard_order.

(* findings: the full statement is refuted by the faithful model; each witness is replayed on
   the real implementation by props/C31.py (FIXED table) *)
Theorem C31_dup_mapping_key_refuted :
  match_cy false [] w_dupmap (VInt 5) = SRaise EValueError []
  /\ match_ref [] w_dupmap (VInt 5) = SDone {| o_sel := Some 1%nat; o_env := []; o_guards := [] |}.
Proof. exact refuted_dupmap. Qed.
Print Assumptions C31_dup_mapping_key_refuted.

Theorem C31_dup_class_attr_refuted :
  match_cy false w_ct w_dupcls (VInst 0 []) = SRaise ETypeError []
  /\ match_ref w_ct w_dupcls (VInst 0 []) = SDone {| o_sel := Some 1%nat; o_env := []; o_guards := [] |}.
Proof. exact refuted_dupcls. Qed.
Print Assumptions C31_dup_class_attr_refuted.

Theorem C31_subpattern_order_refuted :
  match_cy false w_ct w_order w_order_v = SDone {| o_sel := Some 1%nat; o_env := []; o_guards := [] |}
  /\ match_ref w_ct w_order w_order_v = SRaise ETypeError [].
Proof. exact refuted_order. Qed.
Print Assumptions C31_subpattern_order_refuted.

Theorem C31_as_value_refuted :
  match_cy false [] w_as (VBool true) = SDone {| o_sel := Some 0%nat; o_env := [(0%N, VInt 1)]; o_guards := [0%nat] |}
  /\ match_ref [] w_as (VBool true) = SDone {| o_sel := Some 0%nat; o_env := [(0%N, VBool true)]; o_guards := [0%nat] |}
  /\ match_cy true [] w_as (VBool true) = match_ref [] w_as (VBool true).
Proof. exact refuted_as. Qed.
Print Assumptions C31_as_value_refuted.

(* the hypotheses are satisfiable on a non-trivial statement: [x, *r, K(1, y=2)] with a guard,
   {"k": [a, _], **rest}, and the match really selects/binds *)
Definition nv_ct : ctab := [(0%N, [0%N])].
Definition nv_cases : list (pat * guard) :=
  [(PSeq (PCons (PCap 0) PNil) (StarCap 1)
         (PCons (PClass (CUser 0) (PCons (PLit (LInt 1)) PNil) (KCons (KAttr 1) (PLit (LInt 2)) KNil)) PNil),
    GVarEq 0 (LInt 7));
   (PMap (KCons (KLit (LStr 3)) (PSeq (PCons (PCap 2) (PCons PWild PNil)) StarNone PNil) KNil) (Some 4%N), GNone)].
Definition nv_v : value :=
  VSeq [VInt 7; VNone; VStr 5; VInst 0 [(0%N, VBool true); (1%N, VInt 2)]].
Example C31_nonvacuous :
  safe_cases nv_ct nv_cases = true /\ as_ok_cases nv_cases = true /\
  match_cy false nv_ct nv_cases nv_v
  = SDone {| o_sel := Some 0%nat;
             o_env := [(1%N, VList [VNone; VStr 5]); (0%N, VInt 7)];
             o_guards := [0%nat] |}.
Proof. repeat split; vm_compute; reflexivity. Qed.
