(* C04 — overflowcheck reports exactly the overflowing C arithmetic.
   Only statements; proofs live in Proof/P_Overflow.v (and Proof/P_CMath.v for '//').
   w = width of the C result type (after the integer promotions: >= width of int), s = signed,
   lw / llw = widths of long / long long; cb, ca, swap = the outcomes of the three
   __builtin_constant_p tests in the portable multiplication (any values).
   wide_ok w lw llw: a strictly wider type used by a widening path has at least twice the width
   (LP64: int 32 -> long 64; LLP64: int/long 32 -> long long 64). *)
From Coq Require Import ZArith Bool.
From CyVerif Require Import Lib.CInt Model.M_CMath Proof.P_CMath Model.M_Overflow Proof.P_Overflow Proof.P_OverflowTd.
Open Scope Z_scope.

(* every base helper (add/sub/mul, signed/unsigned, portable branch as written or builtin branch by
   contract): returns the exact result wrapped to the type and sets the bit iff it does not fit *)
Theorem C04_helpers_exact : forall builtin op w s lw llw cb ca swap a b,
  2 <= w -> wide_ok w lw llw -> in_range w s a -> in_range w s b ->
  base_helper builtin op w s lw llw cb ca swap a b
  = (wrap w s (exact_op op a b), negb (in_rangeb w s (exact_op op a b))).
Proof. exact base_helper_exact. Qed.
Print Assumptions C04_helpers_exact.

(* the two preprocessor branches of Overflow.c agree on every operator, value and bit *)
Theorem C04_portable_eq_builtin : forall op w s lw llw cb ca swap a b,
  2 <= w -> wide_ok w lw llw -> in_range w s a -> in_range w s b ->
  helper false op w s lw llw cb ca swap a b = helper true op w s lw llw cb ca swap a b.
Proof. exact portable_eq_builtin. Qed.
Print Assumptions C04_portable_eq_builtin.

(* soundness: + - * << : a value that is returned is the exact mathematical result *)
Theorem C04_binop_sound : forall builtin op w s lw llw cb ca swap a b v,
  8 <= w -> wide_ok w lw llw -> in_range w s a -> in_range w s b ->
  binop_node builtin op w s lw llw cb ca swap a b = Val v ->
  v = exact_cop op a b /\ in_range w s v /\ exact_defined op b = true.
Proof. exact binop_node_sound. Qed.
Print Assumptions C04_binop_sound.

(* completeness of detection: a result that does not fit (or a negative shift count) raises *)
Theorem C04_binop_complete : forall builtin op w s lw llw cb ca swap a b,
  8 <= w -> wide_ok w lw llw -> in_range w s a -> in_range w s b ->
  ~ in_range w s (exact_cop op a b) \/ exact_defined op b = false ->
  binop_node builtin op w s lw llw cb ca swap a b = Ovf.
Proof. exact binop_node_complete. Qed.
Print Assumptions C04_binop_complete.

(* + - * never raise spuriously: the outcome is decided by the exact result alone *)
Theorem C04_add_sub_mul_exact : forall builtin op w s lw llw cb ca swap a b,
  op <> OLshift -> 2 <= w -> wide_ok w lw llw -> in_range w s a -> in_range w s b ->
  binop_node builtin op w s lw llw cb ca swap a b
  = if in_rangeb w s (exact_cop op a b) then Val (exact_cop op a b) else Ovf.
Proof. exact binop_node_exact. Qed.
Print Assumptions C04_add_sub_mul_exact.

(* '<<' : the bit is set exactly for: result does not fit / negative left operand / 0 << (>= width) *)
Theorem C04_lshift_flag_exactly : forall w s a b,
  8 <= w -> in_range w s a -> in_range w s b -> 0 <= b ->
  (snd (lshift_helper w s a b) = true <->
   ~ in_range w s (a * 2 ^ b) \/ (s = true /\ a < 0) \/ (a = 0 /\ w <= b)).
Proof. exact lshift_flag_iff. Qed.
Print Assumptions C04_lshift_flag_exactly.

(* spurious OverflowError (raised although the exact result fits): exactly this set, on any operator *)
Theorem C04_spurious_exactly : forall builtin op w s lw llw cb ca swap a b,
  8 <= w -> wide_ok w lw llw -> in_range w s a -> in_range w s b ->
  (spurious builtin op w s lw llw cb ca swap a b = true <->
   op = OLshift /\ 0 <= b /\ in_range w s (a * 2 ^ b) /\ ((s = true /\ a < 0) \/ (a = 0 /\ w <= b))).
Proof. exact spurious_exactly. Qed.
Print Assumptions C04_spurious_exactly.

(* no undefined behaviour in the helpers' own operations (C36 share): no signed overflow in any
   intermediate (incl. the wider type), divisions defined, shift counts in range, flag word 0/1 *)
Theorem C04_helpers_ub_free : forall w lw llw cb ca swap s a b,
  8 <= w -> wide_ok w lw llw -> in_range w s a -> in_range w s b ->
  (s = true -> sadd_ub_free w lw llw a b = true /\ ssub_ub_free w a b = true
               /\ smul_ub_free w lw llw cb ca swap a b = true)
  /\ lshift_ub_free w s a b = true.
Proof. exact helpers_ub_free. Qed.
Print Assumptions C04_helpers_ub_free.

(* the platform condition wide_ok is needed: with a wider type of less than twice the width the
   unsigned widening product misses an overflow and the signed one overflows the wider type *)
Theorem C04_widening_needs_double_width_refuted :
  (exists w lw llw a b, 8 <= w /\ w < lw /\ in_range w false a /\ in_range w false b /\
     umul_portable w lw llw false false false a b = (0, false) /\ a * b <> 0)
  /\ (exists w lw llw a b, 8 <= w /\ w < lw /\ in_range w true a /\ in_range w true b /\
     smul_ub_free w lw llw false false false a b = false).
Proof. exact (conj umul_widen_needs_double_width smul_widen_needs_double_width). Qed.
Print Assumptions C04_widening_needs_double_width_refuted.

(* FINDING: unary minus is emitted as plain (-x) under overflowcheck.  Full statement (false for the
   current code, neg_node false):  forall w s a, in_range w s a ->
     neg_node false w s a = if in_rangeb w s (- a) then Val (- a) else Ovf. *)
Theorem C04_unary_neg_refuted :
  (exists w a, 8 <= w /\ in_range w true a /\ neg_node false w true a = Undef)
  /\ (exists w a v, 8 <= w /\ in_range w false a /\ neg_node false w false a = Val v /\ v <> - a
                    /\ ~ in_range w false (- a)).
Proof. exact neg_node_unchecked_refuted. Qed.
Print Assumptions C04_unary_neg_refuted.

(* ... it is right on the complement of the finding classes (wherever -a fits) *)
Theorem C04_unary_neg_partial : forall w s a,
  1 <= w -> in_range w s a -> in_range w s (- a) -> neg_node false w s a = Val (- a).
Proof. exact neg_node_unchecked_partial. Qed.
Print Assumptions C04_unary_neg_partial.

(* ... and the repaired variant (test before negating) satisfies the full statement *)
Theorem C04_unary_neg_checked_exact : forall w s a,
  1 <= w -> in_range w s a ->
  neg_node true w s a = if in_rangeb w s (- a) then Val (- a) else Ovf.
Proof. exact neg_node_checked_exact. Qed.
Print Assumptions C04_unary_neg_checked_exact.

(* abs() on int / long / long long under overflowcheck *)
Theorem C04_abs_exact : forall w a,
  2 <= w -> in_range w true a ->
  abs_node w a = if in_rangeb w true (Z.abs a) then Val (Z.abs a) else Ovf.
Proof. exact abs_node_exact. Qed.
Print Assumptions C04_abs_exact.

(* '//' (and '/' on C integers without true division) is DivNode: ZeroDivisionError iff b = 0,
   OverflowError iff the quotient does not fit, else Python's floor quotient (model and proof of C03) *)
Theorem C04_floordiv : forall w s bconst a b,
  2 <= w -> in_range w s a -> in_range w s b ->
  div_node true w s bconst a b = py_floordiv w s a b.
Proof. exact div_node_python. Qed.
Print Assumptions C04_floordiv.

(* ConsolidateOverflowCheck: with one shared bit tested at the top (fold on) and with one bit per node
   (fold off) the outcome is the same: OverflowError iff some sub-operation sets its bit; a set bit is
   never left untested (run_top never returns None) *)
Theorem C04_fold_preserves : forall builtin w lw llw s env e,
  run_top builtin w lw llw s env (consolidate false (annotate e)) = Some (ref_eval builtin w lw llw s env e)
  /\ run_top builtin w lw llw s env (annotate e) = Some (ref_eval builtin w lw llw s env e).
Proof. exact fold_preserves. Qed.
Print Assumptions C04_fold_preserves.

(* folded nested expression over values of the type: returns only the exact value of the whole
   expression, raises whenever some sub-operation's exact result does not fit *)
Theorem C04_folded_tree_sound_complete : forall builtin w lw llw s env,
  8 <= w -> wide_ok w lw llw -> forall e, leaves_ok w s env e ->
  exists r, run_top builtin w lw llw s env (consolidate false (annotate e)) = Some r /\
    (forall v, r = Some v -> exact_eval w s env e = Some v) /\
    (exact_eval w s env e = None -> r = None).
Proof. exact folded_tree_sound_complete. Qed.
Print Assumptions C04_folded_tree_sound_complete.

(* Binop (typedef'd types): under SizeCheck, for a type at least as wide as int the dispatch is the
   base helper of that width ... *)
Theorem C04_dispatch_sane : forall builtin op iw lw llw w s cb ca swap a b,
  size_sane iw lw llw w = true -> iw <= w ->
  binop_dispatch builtin op iw lw llw w s cb ca swap a b
  = of_pair (base_helper builtin op w s lw llw cb ca swap a b).
Proof. exact dispatch_sane. Qed.
Print Assumptions C04_dispatch_sane.

(* ... and for sizeof(T) < sizeof(int) it is unchecked (never instantiated: the result type of a
   C integer operation is at least int; the check inspects the generated C for it) *)
Theorem C04_dispatch_narrow_unchecked_refuted :
  exists builtin op iw lw llw w s a b v,
    8 <= w /\ w < iw /\ in_range w s a /\ in_range w s b /\
    binop_dispatch builtin op iw lw llw w s false false false a b = R v false /\ v <> exact_op op a b.
Proof. exact dispatch_narrow_unchecked_refuted. Qed.
Print Assumptions C04_dispatch_narrow_unchecked_refuted.

(* the __Pyx_div_<int>_checking_overflow helper (never referenced by the compiler) is wrong for
   negative operands; right on non-negative ones *)
Theorem C04_div_helper_refuted :
  exists w a b v, 8 <= w /\ in_range w true a /\ in_range w true b /\
    sdiv_helper w a b = (v, false) /\ v <> a / b /\ v <> Z.quot a b.
Proof. exact sdiv_helper_refuted. Qed.
Print Assumptions C04_div_helper_refuted.

Theorem C04_div_helper_nonneg_partial : forall w a b,
  1 <= w -> in_range w true a -> in_range w true b -> 0 <= a -> 0 < b ->
  sdiv_helper w a b = (a / b, false).
Proof. exact sdiv_helper_nonneg_partial. Qed.
Print Assumptions C04_div_helper_nonneg_partial.

(* FINDING: a negative operand is converted to an unsigned result type before the helper *)
Theorem C04_negative_operand_conversion_refuted :
  exists w a c v, 8 <= w /\ in_range w false a /\ in_range w true c /\ c < 0 /\
    binop_node true OAdd w false 64 64 false false false a (wrap w false c) = Val v /\ v <> a + c.
Proof. exact negative_operand_conversion_refuted. Qed.
Print Assumptions C04_negative_operand_conversion_refuted.

(* ---- typedef'd integer types (ctypedef aliases, libc.stdint, extern typedefs of inexact declared
   size, Py_ssize_t / size_t / Py_hash_t / ptrdiff_t): the compiler instantiates Binop / LeftShift at
   the typedef name and the if-chain on sizeof(TYPE) chooses the callee.  iw = width of int, w / s =
   real width / signedness of TYPE, size_sane = the import-time SizeCheck. *)

(* the callee chosen by the chain: the base helper of exactly the type's width and signedness, or the
   shortcut for sizeof(TYPE) < sizeof(int) *)
Theorem C04_typedef_callee : forall iw lw llw w s,
  size_sane iw lw llw w = true ->
  dispatch_choice CmpLt iw lw llw w s = if w <? iw then CNarrow else CBase w s.
Proof. exact dispatch_choice_spec. Qed.
Print Assumptions C04_typedef_callee.

(* code as it is, any sane type at least as wide as int (every width 32/64 ..., both signednesses):
   the wrapped exact result, and the bit is set iff the exact result is outside the type *)
Theorem C04_typedef_dispatch_exact : forall builtin op iw lw llw w s cb ca swap a b,
  size_sane iw lw llw w = true -> iw <= w -> 2 <= w -> wide_ok w lw llw ->
  in_range w s a -> in_range w s b ->
  binop_dispatch builtin op iw lw llw w s cb ca swap a b
  = R (wrap w s (exact_op op a b)) (negb (in_rangeb w s (exact_op op a b))).
Proof. exact dispatch_exact. Qed.
Print Assumptions C04_typedef_dispatch_exact.

(* the guard of the shortcut is tight: whatever guard lets a type of width w take the unchecked
   shortcut, for every operator and signedness some operands of the type return a wrong value with
   the bit clear.  Instances: a guard "sizeof(TYPE) <= sizeof(int)" at w = iw (c := CmpLe: int-sized typedefs,
   P_OverflowTd.dispatch_le_guard_refuted), and the code as it is at every w < iw (next statement). *)
Theorem C04_typedef_unchecked_arm_refuted : forall builtin op c iw lw llw w s,
  3 <= w -> cmp_holds c w iw = true ->
  exists a b v, in_range w s a /\ in_range w s b /\
    binop_dispatch_v false c builtin op iw lw llw w s false false false a b = R v false
    /\ v <> exact_op op a b.
Proof. exact unchecked_arm_refuted. Qed.
Print Assumptions C04_typedef_unchecked_arm_refuted.

(* FINDING (extern typedef whose real type is narrower than int): full statement, false for the code
   as it is:  forall w < iw ..., binop_dispatch ... = R (wrap w s exact) (negb (in_rangeb w s exact)) *)
Theorem C04_typedef_narrow_refuted : forall builtin op iw lw llw w s, 3 <= w -> w < iw ->
  exists a b v, in_range w s a /\ in_range w s b /\
    binop_dispatch builtin op iw lw llw w s false false false a b = R v false
    /\ v <> exact_op op a b.
Proof. exact dispatch_narrow_asis_refuted. Qed.
Print Assumptions C04_typedef_narrow_refuted.

(* ... the repaired shortcut (int helper, then test that the result survives the cast to TYPE) makes
   the dispatch exact for EVERY sane width (8/16/32/64 ...) and signedness *)
Theorem C04_typedef_dispatch_repaired_exact : forall builtin op iw lw llw w s cb ca swap a b,
  size_sane iw lw llw w = true -> 2 <= w -> wide_ok w lw llw -> wide_ok iw lw llw ->
  in_range w s a -> in_range w s b ->
  binop_dispatch_v true CmpLt builtin op iw lw llw w s cb ca swap a b
  = R (wrap w s (exact_op op a b)) (negb (in_rangeb w s (exact_op op a b))).
Proof. exact dispatch_fx_exact. Qed.
Print Assumptions C04_typedef_dispatch_repaired_exact.

(* the statement on a typedef'd result type, + - * : exact value iff it fits, OverflowError otherwise
   (as it is: types at least as wide as int = the complement of the finding class; repaired: all) *)
Theorem C04_typedef_node_exact : forall fx builtin op iw lw llw w s cb ca swap a b,
  op <> OLshift -> size_sane iw lw llw w = true -> 2 <= w -> (fx = true \/ iw <= w) ->
  wide_ok w lw llw -> wide_ok iw lw llw -> in_range w s a -> in_range w s b ->
  typedef_node fx CmpLt builtin op iw lw llw w s cb ca swap a b
  = if in_rangeb w s (exact_cop op a b) then Val (exact_cop op a b) else Ovf.
Proof. exact typedef_node_exact. Qed.
Print Assumptions C04_typedef_node_exact.

(* '<<' on a typedef'd type of any width (incl. narrower than int, where the macros are evaluated in
   int): a returned value is exact and fits; a result that does not fit or a negative count raises *)
Theorem C04_typedef_lshift_sound_complete : forall fx c builtin iw lw llw w s cb ca swap a b,
  8 <= w -> in_range w s a -> in_range w s b ->
  (forall v, typedef_node fx c builtin OLshift iw lw llw w s cb ca swap a b = Val v ->
     0 <= b /\ v = a * 2 ^ b /\ in_range w s v)
  /\ (~ in_range w s (a * 2 ^ b) \/ b < 0 ->
      typedef_node fx c builtin OLshift iw lw llw w s cb ca swap a b = Ovf).
Proof. exact typedef_lshift_sound_complete. Qed.
Print Assumptions C04_typedef_lshift_sound_complete.

(* FINDING: the OverflowError of a checked operation inside a nogil section / nogil function is raised
   without the GIL (crash).  Full statement (false for the code as it is, gil_fixed = false):
     forall in_nogil o, nogil_node false in_nogil o = o. *)
Theorem C04_nogil_raise_refuted :
  exists a b, in_range 32 true a /\ in_range 32 true b /\ ~ in_range 32 true (a + b) /\
    nogil_node false true (binop_node true OAdd 32 true 64 64 false false false a b) = Undef.
Proof. exact nogil_node_refuted. Qed.
Print Assumptions C04_nogil_raise_refuted.

(* ... right wherever nothing is raised, and the repaired variant is context independent *)
Theorem C04_nogil_partial_and_repaired : forall gil_fixed in_nogil o,
  (o <> Ovf -> nogil_node gil_fixed in_nogil o = o) /\ nogil_node true in_nogil o = o.
Proof. intros. split; [apply nogil_node_partial | apply nogil_node_fixed]. Qed.
Print Assumptions C04_nogil_partial_and_repaired.

Example C04_typedef_nonvacuous :
  size_sane 32 64 64 32 = true /\ wide_ok 32 64 64 /\ in_range 32 true 2147483647
  /\ typedef_node false CmpLt false OAdd 32 64 64 32 true false false false 2147483647 1 = Ovf
  /\ typedef_node false CmpLe false OAdd 32 64 64 32 true false false false 2147483647 1 = Val (-2147483648)
  /\ typedef_node false CmpLt false OMul 32 64 64 16 false false false false 65535 2 = Val 65534
  /\ typedef_node true CmpLt false OMul 32 64 64 16 false false false false 65535 2 = Ovf
  /\ typedef_node true CmpLt false OMul 32 64 64 16 false false false false 255 257 = Val 65535.
Proof. unfold wide_ok, in_range. vm_compute. intuition congruence. Qed.

(* non-vacuity: LP64 int operands meet the hypotheses; one fitting and one overflowing product, on
   the portable branch with the widening path *)
Example C04_nonvacuous :
  8 <= 32 /\ wide_ok 32 64 64 /\ in_range 32 true 46341 /\ in_range 32 true (-46340)
  /\ binop_node false OMul 32 true 64 64 false false false 46341 46341 = Ovf
  /\ binop_node false OMul 32 true 64 64 false false false 46341 (-46340) = Val (-2147441940)
  /\ binop_node false OLshift 32 true 64 64 false false false (-1) 1 = Ovf.
Proof. unfold wide_ok, in_range. vm_compute. intuition congruence. Qed.
