(* C22 -- Exception handling semantics match CPython.
   Only statements; proofs live in Proof/P_Exc.v, definitions in Model/M_Exc.v.

   exec_ref  = CPython 3.12 (top exc_info item pushed/popped around handlers and around finally
               with a pending exception, implicit chaining in PyErr_SetObject);
   run_sch fx sx = the generated code (desugar = WithTransform + as-name try/finally, then
               ExceptionSave/GetException/ExceptionReset/ExceptionSwap and the handler temps);
               fx = ReraiseStatNode repaired, sx = ExceptionSave repaired.
   same_obs  = same outcome incl. identity of the propagating exception, same core (every
               exception's __context__/__cause__/__suppress_context__, names, the log of blocks,
               probes and __exit__ calls with heap snapshots) and same sys.exc_info() afterwards.

   gen / exec_lab / run_lab (M_ExcLab) = the label level of the same generated code: gen mirrors
               the label allocations and assignments of TryExceptStatNode / ExceptClauseNode /
               TryFinallyStatNode / WithStatNode .generate_execution_code over the label state
               cgs (error, return, break, continue label, counter); exec_lab dispatches on the
               LABEL an exit jumps to.  tr g o = the jump that stands for outcome o under the
               labels of g; wf g = the current labels were allocated before.

   All statements of the language are covered: raise / raise from / bare raise, try/except
   (typed, bare, as-name with the implicit deletion), else, finally, with-blocks (WithTransform:
   pass-through, swallowing and raising __exit__), loops with return/break/continue, probes; any
   nesting.  (except* is not in the language: differential testing only.)

   annot / exec_a / run_tmp (M_ExcVars) = the exception STATE at the level of the generated temps:
               annot mirrors the assignments of code.funcstate.exc_vars (ExceptClauseNode: the
               temps filled by GetException; TryFinallyStatNode: its own temps for the EXCEPTION
               copy of the finally clause only) and resolves every bare raise, at generation time,
               to the temps it reads or to the dynamic __Pyx_ReraiseException(); exec_a runs the
               annotated code over a store of temps (one variable per allocating construct).
               keep = true: the variant that keeps an enclosing handler's exc_vars for the
               exception copy. *)
From Coq Require Import List Bool.
From CyVerif Require Import Model.M_Exc Model.M_ExcLab Model.M_ExcVars Proof.P_Exc Proof.P_ExcLab Proof.P_ExcVars.
Import ListNotations.

(* all programs, all calling contexts
   (h = pre-existing exceptions, t = top exc_info item, b = topmost item underneath),
   with the repaired ReraiseStatNode *)
Theorem C22_repaired_scheme_matches_cpython : forall sx s h t b,
  same_obs (run_ref s h t b) (run_sch true sx s h t b).
Proof. exact repaired_matches_reference. Qed.
Print Assumptions C22_repaired_scheme_matches_cpython.

(* ReraiseStatNode before its repair (fx = false): the same, unless the zeroed handler temps are reached *)
Theorem C22_unrepaired_reraise_matches_cpython_unless_crash : forall sx s h t b,
  fst (run_sch false sx s h t b) <> OCrash ->
  same_obs (run_ref s h t b) (run_sch false sx s h t b).
Proof. exact current_matches_reference_unless_crash. Qed.
Print Assumptions C22_unrepaired_reraise_matches_cpython_unless_crash.

(* finding: a bare raise after a caught bare raise in the same handler restores zeroed temps *)
Theorem C22_current_scheme_refuted :
  exists s h t b, fst (run_sch false false s h t b) = OCrash /\
                  fst (run_ref s h t b) = ORaise 0.
Proof. exact current_reraise_refuted. Qed.
Print Assumptions C22_current_scheme_refuted.

(* general form: any related pair of states (inside handlers, zeroed or live temps ...) *)
Theorem C22_refinement_invariant : forall fx sx s r c,
  Rel fx sx r c ->
  (fx = false /\ fst (exec_sch fx sx (desugar s) c) = OCrash) \/
  same_obs (exec_ref s r) (exec_sch fx sx (desugar s) c).
Proof. exact scheme_refines_reference_core. Qed.
Print Assumptions C22_refinement_invariant.

(* the top exc_info item is put back exactly when nothing is handled underneath (or with the
   repaired ExceptionSave) ... *)
Theorem C22_top_item_restored : forall fx sx s h t b,
  (b = None \/ sx = true) ->
  fst (run_sch fx sx s h t b) <> OCrash ->
  top (snd (run_sch fx sx s h t b)) = t /\ top (snd (run_ref s h t b)) = t.
Proof. exact top_item_restored. Qed.
Print Assumptions C22_top_item_restored.

(* ... finding: called from a generator frame, the outer exception is left in the frame's item *)
Theorem C22_top_item_refuted :
  exists s h t b fx, fst (run_sch fx false s h t b) <> OCrash /\
    top (snd (run_sch fx false s h t b)) <> top (snd (run_ref s h t b)).
Proof. exact top_item_refuted. Qed.
Print Assumptions C22_top_item_refuted.

(* generated try/finally: the result comes from exactly one run of the finally clause, started
   in the core state the body left *)
Theorem C22_finally_runs_once : forall fx sx body fin c o c1,
  exec_sch fx sx body c = (o, c1) -> o <> OCrash ->
  exists cin pending,
    co cin = co c1 /\
    (fst (exec_sch fx sx (CFinally true body fin) c) = OCrash \/
     (fst (exec_sch fx sx (CFinally true body fin) c) = after pending (fst (exec_sch fx sx fin cin)) /\
      co (snd (exec_sch fx sx (CFinally true body fin) c)) = co (snd (exec_sch fx sx fin cin)))).
Proof. exact finally_runs_once. Qed.
Print Assumptions C22_finally_runs_once.

Theorem C22_return_in_finally_swallows : forall fx sx body fin c e c1 c2,
  exec_sch fx sx body c = (ORaise e, c1) ->
  exec_sch fx sx fin (set_cur (Some (Some e)) (set_top (Some e) c1)) = (ORet, c2) ->
  exec_sch fx sx (CFinally true body fin) c = (ORet, set_top (top c1) (set_cur (cur c1) c2)).
Proof. exact return_in_finally_swallows. Qed.
Print Assumptions C22_return_in_finally_swallows.

(* ---- label / handler selection ----
   every statement (with-blocks included), at every clause position (= every label state g the
   enclosing statements can set up) and in every machine state: the label code generated for it
   leaves by exactly the label standing for the outcome of the structural scheme -- the handler
   set that is active at a position is the one the structure says *)
Theorem C22_label_code_selects_scheme_continuation : forall fx sx s g c, wf g ->
  exec_lab fx sx (fst (gen false s g)) c =
  (tr g (fst (exec_sch fx sx s c)), snd (exec_sch fx sx s c)).
Proof. exact gen_selects_scheme_continuation. Qed.
Print Assumptions C22_label_code_selects_scheme_continuation.

(* the label state after a statement is the one before it (only the counter grows) *)
Theorem C22_label_state_restored : forall s g,
  let g' := snd (gen false s g) in
  g_err g' = g_err g /\ g_ret g' = g_ret g /\ g_brk g' = g_brk g /\ g_cont g' = g_cont g /\
  g_next g <= g_next g'.
Proof. exact gen_restores_labels. Qed.
Print Assumptions C22_label_state_restored.

(* whole functions: label level = structural scheme, for ALL programs *)
Theorem C22_label_code_equals_scheme : forall fx sx s h t b,
  run_lab false fx sx s h t b = run_sch fx sx s h t b.
Proof. exact run_lab_eq_run_sch. Qed.
Print Assumptions C22_label_code_equals_scheme.

(* ... hence the continuation selected at the label level is CPython's *)
Theorem C22_label_code_matches_cpython : forall sx s h t b,
  same_obs (run_ref s h t b) (run_lab false true sx s h t b).
Proof. exact lab_matches_reference. Qed.
Print Assumptions C22_label_code_matches_cpython.

(* exits taken in an else clause never reach the except clauses of the same statement *)
Theorem C22_else_exits_bypass_own_handlers : forall fx sx body hs orelse g c c1 o c2,
  wf g ->
  exec_sch fx sx body c = (ONorm, c1) -> exec_sch fx sx orelse c1 = (o, c2) ->
  o <> ONorm -> o <> OCrash ->
  exec_lab fx sx (fst (gen false (CTry body hs orelse) g)) c =
  (tr g o, set_top (if sx then top c else handled c) c2).
Proof. exact else_exits_bypass_own_handlers. Qed.
Print Assumptions C22_else_exits_bypass_own_handlers.

(* the model depends on WHERE the error label is switched: generated with the switch after the
   else clause, an else clause raising a class its own handler matches is swallowed *)
Theorem C22_late_error_label_switch_refuted :
  exists s h t b,
    fst (run_lab true true true s h t b) = ONorm /\ fst (run_ref s h t b) = ORaise 0 /\
    fst (run_lab false true true s h t b) = ORaise 0.
Proof. exact late_switch_refuted. Qed.
Print Assumptions C22_late_error_label_switch_refuted.

(* ---- exception state in the generated temps ----
   whole functions, ALL programs: the code with exc_vars resolved at generation time computes the
   outcome of the structural scheme, and (unless the zeroed-temps state of the unrepaired
   ReraiseStatNode is reached) its whole final state *)
Theorem C22_temp_code_equals_scheme : forall fx sx s h t b,
  fst (run_tmp false fx sx s h t b) = fst (run_sch fx sx s h t b) /\
  (fst (run_sch fx sx s h t b) <> OCrash ->
   run_sch fx sx s h t b =
   (fst (run_tmp false fx sx s h t b), set_cur None (snd (run_tmp false fx sx s h t b)))).
Proof. exact run_tmp_eq_run_sch. Qed.
Print Assumptions C22_temp_code_equals_scheme.

(* general form: any statement at any clause position (ev = the exc_vars value the enclosing
   clauses installed, n = constructs generated so far), any machine state whose temps ev hold
   what the scheme's cur holds *)
Theorem C22_temp_code_simulates_scheme : forall fx sx s ev n c tm, ev_lt ev n ->
  sim ev n tm (exec_sch fx sx s (proj ev tm c)) (exec_a fx sx (fst (annot false s ev n)) c tm).
Proof. intros fx sx. exact (proj1 (main_sim fx sx)). Qed.
Print Assumptions C22_temp_code_simulates_scheme.

(* ... hence every bare raise re-raises, every probe sees and every __context__ records the
   exception CPython has current at that point *)
Theorem C22_temp_code_matches_cpython : forall sx s h t b,
  same_obs (run_ref s h t b) (run_tmp false true sx s h t b).
Proof. exact tmp_matches_reference. Qed.
Print Assumptions C22_temp_code_matches_cpython.

(* a bare raise as the finally clause, on the exception path, re-raises the exception propagating
   through the statement, under any enclosing handler and in any state *)
Theorem C22_reraise_in_finally_is_the_propagating_one : forall fx sx body ev n c tm e,
  fst (fst (exec_a fx sx (fst (annot false body ev (S n))) c tm)) = ORaise e ->
  fst (fst (exec_a fx sx (fst (annot false (CFinally true body CReraise) ev n)) c tm)) = ORaise e.
Proof. exact reraise_in_finally_propagating. Qed.
Print Assumptions C22_reraise_in_finally_is_the_propagating_one.

(* the model depends on WHICH exc_vars the exception copy of a finally clause is generated with:
   keeping the enclosing handler's, try/finally in a handler re-raises the handler's exception *)
Theorem C22_kept_outer_exc_vars_refuted :
  exists s h t b,
    fst (run_tmp true true true s h t b) = ORaise 0 /\
    fst (run_ref s h t b) = ORaise 1 /\
    fst (run_tmp false true true s h t b) = ORaise 1.
Proof. exact keep_outer_exc_vars_refuted. Qed.
Print Assumptions C22_kept_outer_exc_vars_refuted.

(* non-trivial instance: nested handlers, as-name, finally, a with-block whose __exit__ lets the
   exception through, chaining; both runs raise the same exception with the same context *)
Example C22_nonvacuous :
  let s := SFinally
             (STry (SWith 7 XPass (SRaise (RNew 3) NoCause))
                   (HCons (Some 3) (Some 1)
                      (SSeq SProbe (SRaise (RNew 4) (FromVar 1))) HNil) SSkip)
             SProbe in
  fst (run_sch false false s [] None None) = ORaise 1 /\
  fst (run_lab false true true s [] None None) = ORaise 1 /\
  fst (run_ref s [] None None) = ORaise 1 /\
  e_ctx (get (heap (co (snd (run_ref s [] None None)))) 1) = Some 0.
Proof. vm_compute. auto. Qed.
