(* C10 -- String and bytes literals keep their exact values.
   Only statements; proofs in Proof/P_StrLit.v, model in Model/M_StrLit.v.
   Characters, code points and bytes are numbers (N).
   decode fx k raw body = the scanner ESCAPE token (lex_escape), Parsing._append_escape_sequence,
     the literal builders and the loop of p_string_literal; fx = the proposed octal fix.
   py_value k raw body = the independently written rule of the language reference.
   PARTIAL: the Plex tokenisation is modelled by lex_escape, not derived from the lexicon; bodies
   with a backslash-N-brace name escape are excluded (has_named); the agreement theorem covers the
   non-raw kinds str / u / b (raw and char literals: correspondence run and totality only). *)
From Coq Require Import NArith ZArith List Bool.
From CyVerif Require Import Lib.CInt Model.M_StrLit Proof.P_StrLit.
Import ListNotations.
Open Scope N_scope.

(* (1) full statement, FALSE on the tree as it is:
     forall k raw body, decode false k raw body is not an internal error.
   Refuted: the body backslash 7 7 7 of an unprefixed (and of a bytes) literal raises
   UnicodeEncodeError inside BytesLiteralBuilder.append_charval; Python gives chr(511) / b'\xff'. *)
Theorem C10_decoder_total_refuted : exists body, decode false KStr false body = DInternal.
Proof. exact decoder_total_refuted. Qed.
Print Assumptions C10_decoder_total_refuted.

Theorem C10_decoder_total_refuted_bytes :
  exists body, decode false KBytes false body = DInternal /\ py_value KBytes false body = PyValue [255].
Proof. exact decoder_total_refuted_bytes. Qed.
Print Assumptions C10_decoder_total_refuted_bytes.

(* with the repair (append_charval keeps the low 8 bits on the bytes side): for EVERY kind, raw
   flag and body the decoder neither raises an internal error nor runs out of fuel *)
Theorem C10_decoder_total_fixed : forall k raw body,
  decode true k raw body <> DInternal /\ decode true k raw body <> DOutOfFuel.
Proof. exact decoder_total_fixed. Qed.
Print Assumptions C10_decoder_total_fixed.

(* ... and for every non-raw str / u / b literal body without a name escape it yields exactly the
   code points / bytes of the specification, and rejects exactly the bodies Python rejects *)
Theorem C10_decoder_agrees_fixed_partial : forall k body, k <> KChar -> has_named body = false ->
  match py_value k false body with
  | PyValue v => visible k (decode true k false body) = Some v /\ exists b u, decode true k false body = DOk b u
  | PyReject => decode true k false body = DError
  | _ => True
  end.
Proof. exact decoder_agrees_fixed. Qed.
Print Assumptions C10_decoder_agrees_fixed_partial.

(* (2) UTF-8: the strict decoder inverts the encoder on every string of scalar values; the encoder
   is defined exactly on scalar values, gives bytes, and refuses strings with surrogates ... *)
Theorem C10_utf8_roundtrip : forall cs bs, encode_utf8 cs = Some bs -> decode_utf8 bs = Some cs.
Proof. exact utf8_roundtrip. Qed.
Print Assumptions C10_utf8_roundtrip.

Theorem C10_utf8_encode_defined : forall cs,
  (encode_utf8 cs <> None <-> Forall (fun c => is_scalar c = true) cs)
  /\ (forall bs, encode_utf8 cs = Some bs -> Forall (fun b => b < 256) bs).
Proof. exact utf8_encode_defined. Qed.
Print Assumptions C10_utf8_encode_defined.

Theorem C10_utf8_surrogates_rejected : forall cs, contains_surrogates cs = true -> encode_utf8 cs = None.
Proof. exact utf8_surrogates_rejected. Qed.
Print Assumptions C10_utf8_surrogates_rejected.

(* ... which the compiler therefore carries as str.encode('unicode_escape') text decoded by
   PyUnicode_DecodeUnicodeEscape: the round trip holds for EVERY code point, surrogates included *)
Theorem C10_unicode_escape_roundtrip : forall cs, Forall (fun c => c < 1114112) cs ->
  unicode_escape_decode (uesc_encode cs) = Some cs.
Proof. exact unicode_escape_roundtrip. Qed.
Print Assumptions C10_unicode_escape_roundtrip.

(* (3) the string table, for ALL lists of text and byte constants (any order, empty strings, NUL
   bytes): the table is generated, its bit-fields are legal and hold every length, and the two
   unpacking loops give back exactly the lists.  index_ok: lengths < 2^32, and (tree as it is,
   fx = false) the category is empty or has a non-empty member. *)
Theorem C10_string_table_roundtrip : forall fx texts bstrs,
  Forall (Forall (fun c => is_scalar c = true)) texts ->
  index_ok fx (map utf8_len texts) -> index_ok fx (map nlen bstrs) ->
  exists t, gen_table fx texts bstrs = GOk t
            /\ t_data t = concat (map (flat_map enc_char) texts) ++ concat bstrs
            /\ unpack_table t (t_data t) = Some (texts, bstrs).
Proof. exact string_table_roundtrip. Qed.
Print Assumptions C10_string_table_roundtrip.

(* the side condition is necessary on the tree as it is: one empty bytes constant alone gives a
   zero-width bit-field (the C file does not compile); with width max(1, ...) it round-trips *)
Theorem C10_string_table_refuted : gen_table false [] [[]] = GCompileError /\
  exists t, gen_table true [] [[]] = GOk t /\ unpack_table t (t_data t) = Some ([], [[]]).
Proof. exact string_table_refuted. Qed.
Print Assumptions C10_string_table_refuted.

(* (4) composition with C11 (the C literal is read back) and C12 (LZSS) for EVERY value of
   CYTHON_COMPRESS_STRINGS (user_macro; None = not defined), both forms of the C array (msvc),
   Python before/after 3.14 and every zlib/bz2/zstd that satisfies its contract: module init
   rebuilds exactly the constants *)
Theorem C10_pipeline_identity : forall cd fx msvc py314 user_macro texts bstrs,
  codec_ok cd ->
  Forall (Forall (fun c => is_scalar c = true)) texts -> Forall bytesN bstrs ->
  index_ok fx (map utf8_len texts) -> index_ok fx (map nlen bstrs) ->
  exists im, gen_image fx cd texts bstrs = Some im
             /\ init_table cd msvc py314 user_macro im = Some (texts, bstrs).
Proof. exact pipeline_identity. Qed.
Print Assumptions C10_pipeline_identity.

(* non-vacuity: a str body with every escape kind decodes to the specified value (a lone
   surrogate and an octal escape above 0o377 included); its value goes through the
   unicode_escape path; a table with an empty text, a NUL byte string and an astral character is
   generated and unpacked under the identity codec with the macro set to 2 *)
Example C10_nonvacuous :
  let body := [97; 92; 110; 92; 52; 48; 48; 92; 120; 52; 49; 92; 117; 100; 56; 48; 48; 92; 85; 48; 48; 48; 49; 102; 54; 48; 48; 92; 113; 92; 10; 233] in
  has_named body = false
  /\ py_value KStr false body = PyValue [97; 10; 256; 65; 55296; 128512; 92; 113; 233]
  /\ visible KStr (decode true KStr false body) = Some [97; 10; 256; 65; 55296; 128512; 92; 113; 233]
  /\ unicode_escape_decode (uesc_encode [97; 55296; 128512]) = Some [97; 55296; 128512]
  /\ codec_ok id_codec
  /\ exists im, gen_image false id_codec [[]; [128512; 0]] [[0; 0]; []] = Some im
                /\ init_table id_codec false false (Some 2%Z) im = Some ([[]; [128512; 0]], [[0; 0]; []]).
Proof.
  cbv zeta. split; [reflexivity|]. split; [vm_compute; reflexivity|]. split; [vm_compute; reflexivity|].
  split; [vm_compute; reflexivity|]. split.
  - intros a d c Hd. unfold id_codec. cbn [ext_compress ext_decompress].
    destruct ((a =? 1) || (a =? 2)) eqn:E; [|discriminate]. intros [= <-]. split.
    + constructor; [|exact Hd]. apply orb_true_iff in E as [E|E]; apply N.eqb_eq in E; subst; reflexivity.
    + now rewrite N.eqb_refl.
  - eexists. split; [vm_compute; reflexivity|]. vm_compute. reflexivity.
Qed.
