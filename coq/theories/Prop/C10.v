(* C10 -- String and bytes literals keep their exact values.
   Only statements; proofs in Proof/P_StrLit.v, model in Model/M_StrLit.v.
   Characters, code points and bytes are numbers (N).
   decode fx k raw body = the scanner ESCAPE token (lex_escape), Parsing._append_escape_sequence,
     the literal builders and the loop of p_string_literal; fx = the proposed octal fix.
   py_value k raw body = the independently written rule of the language reference.
   PARTIAL: the Plex tokenisation is modelled by lex_escape, not derived from the lexicon; bodies
   with a backslash-N-brace name escape are excluded (has_named); the agreement theorem covers the
   non-raw kinds str / u / b (raw and char literals: correspondence run and totality only). *)
From Coq Require Import NArith ZArith List Bool.
From CyVerif Require Import Lib.CInt Model.M_StrLit Proof.P_StrLit.
From CyVerif Require Model.M_LZSS Model.M_StrTab Proof.P_LZSS Proof.P_StrTab.
Import ListNotations.
Open Scope N_scope.

(* (1) full statement, FALSE on the tree as it is:
     forall k raw body, decode false k raw body is not an internal error.
   Refuted: the body backslash 7 7 7 of an unprefixed (and of a bytes) literal raises
   UnicodeEncodeError inside BytesLiteralBuilder.append_charval; Python gives chr(511) / b'\xff'. *)
Theorem C10_decoder_total_refuted : exists body, decode false KStr false body = DInternal.
Proof. exact decoder_total_refuted. Qed.
Print Assumptions C10_decoder_total_refuted.

Theorem C10_decoder_total_refuted_bytes :
  exists body, decode false KBytes false body = DInternal /\ py_value KBytes false body = PyValue [255].
Proof. exact decoder_total_refuted_bytes. Qed.
Print Assumptions C10_decoder_total_refuted_bytes.

(* with the repair (append_charval keeps the low 8 bits on the bytes side): for EVERY kind, raw
   flag and body the decoder neither raises an internal error nor runs out of fuel *)
Theorem C10_decoder_total_fixed : forall k raw body,
  decode true k raw body <> DInternal /\ decode true k raw body <> DOutOfFuel.
Proof. exact decoder_total_fixed. Qed.
Print Assumptions C10_decoder_total_fixed.

(* ... and for every non-raw str / u / b literal body without a name escape it yields exactly the
   code points / bytes of the specification, and rejects exactly the bodies Python rejects *)
Theorem C10_decoder_agrees_fixed_partial : forall k body, k <> KChar -> has_named body = false ->
  match py_value k false body with
  | PyValue v => visible k (decode true k false body) = Some v /\ exists b u, decode true k false body = DOk b u
  | PyReject => decode true k false body = DError
  | _ => True
  end.
Proof. exact decoder_agrees_fixed. Qed.
Print Assumptions C10_decoder_agrees_fixed_partial.

(* (2) UTF-8: the strict decoder inverts the encoder on every string of scalar values; the encoder
   is defined exactly on scalar values, gives bytes, and refuses strings with surrogates ... *)
Theorem C10_utf8_roundtrip : forall cs bs, encode_utf8 cs = Some bs -> decode_utf8 bs = Some cs.
Proof. exact utf8_roundtrip. Qed.
Print Assumptions C10_utf8_roundtrip.

Theorem C10_utf8_encode_defined : forall cs,
  (encode_utf8 cs <> None <-> Forall (fun c => is_scalar c = true) cs)
  /\ (forall bs, encode_utf8 cs = Some bs -> Forall (fun b => b < 256) bs).
Proof. exact utf8_encode_defined. Qed.
Print Assumptions C10_utf8_encode_defined.

Theorem C10_utf8_surrogates_rejected : forall cs, contains_surrogates cs = true -> encode_utf8 cs = None.
Proof. exact utf8_surrogates_rejected. Qed.
Print Assumptions C10_utf8_surrogates_rejected.

(* ... which the compiler therefore carries as str.encode('unicode_escape') text decoded by
   PyUnicode_DecodeUnicodeEscape: the round trip holds for EVERY code point, surrogates included *)
Theorem C10_unicode_escape_roundtrip : forall cs, Forall (fun c => c < 1114112) cs ->
  unicode_escape_decode (uesc_encode cs) = Some cs.
Proof. exact unicode_escape_roundtrip. Qed.
Print Assumptions C10_unicode_escape_roundtrip.

(* (3) the string table, for ALL lists of text and byte constants (any order, empty strings, NUL
   bytes): the table is generated, its bit-fields are legal and hold every length, and the two
   unpacking loops give back exactly the lists.  index_ok: lengths < 2^32, and (tree as it is,
   fx = false) the category is empty or has a non-empty member. *)
Theorem C10_string_table_roundtrip : forall fx texts bstrs,
  Forall (Forall (fun c => is_scalar c = true)) texts ->
  index_ok fx (map utf8_len texts) -> index_ok fx (map nlen bstrs) ->
  exists t, gen_table fx texts bstrs = GOk t
            /\ t_data t = concat (map (flat_map enc_char) texts) ++ concat bstrs
            /\ unpack_table t (t_data t) = Some (texts, bstrs).
Proof. exact string_table_roundtrip. Qed.
Print Assumptions C10_string_table_roundtrip.

(* the side condition is necessary on the tree as it is: one empty bytes constant alone gives a
   zero-width bit-field (the C file does not compile); with width max(1, ...) it round-trips *)
Theorem C10_string_table_refuted : gen_table false [] [[]] = GCompileError /\
  exists t, gen_table true [] [[]] = GOk t /\ unpack_table t (t_data t) = Some ([], [[]]).
Proof. exact string_table_refuted. Qed.
Print Assumptions C10_string_table_refuted.

(* (4) composition with C11 (the C literal is read back) and C12 (LZSS) for EVERY value of
   CYTHON_COMPRESS_STRINGS (user_macro; None = not defined), both forms of the C array (msvc),
   Python before/after 3.14 and every zlib/bz2/zstd that satisfies its contract: module init
   rebuilds exactly the constants *)
Theorem C10_pipeline_identity : forall cd fx msvc py314 user_macro texts bstrs,
  codec_ok cd ->
  Forall (Forall (fun c => is_scalar c = true)) texts -> Forall bytesN bstrs ->
  index_ok fx (map utf8_len texts) -> index_ok fx (map nlen bstrs) ->
  exists im, gen_image fx cd texts bstrs = Some im
             /\ init_table cd msvc py314 user_macro im = Some (texts, bstrs).
Proof. exact pipeline_identity. Qed.
Print Assumptions C10_pipeline_identity.

(* (5) large tables.  The codec is C12's (M_LZSS.compress = Cython/LZSS.py, M_LZSS.dec =
   __pyx_lzss_decompress); M_StrTab.ref_fields is the field decoding of one back reference as the C
   code reads it, M_StrTab.form_of the form LZSS.py picks, M_StrTab.lzss_unpack = decompress + the
   two unpacking loops of module init.
   split (decode (encode (concat table))) = table for EVERY non-empty table, whatever its size,
   whatever distances its repeats have, and whether or not the 200-byte saving test keeps the branch *)
Theorem C10_table_lzss_roundtrip : forall fx texts bstrs,
  Forall (Forall (fun c => is_scalar c = true)) texts -> Forall bytesN bstrs ->
  index_ok fx (map utf8_len texts) -> index_ok fx (map nlen bstrs) ->
  concat (map (flat_map enc_char) texts) ++ concat bstrs <> [] ->
  exists t c, gen_table fx texts bstrs = GOk t /\ lzss_compress (t_data t) = Some c /\ bytesN c
              /\ M_StrTab.lzss_unpack t c = Some (texts, bstrs).
Proof. exact P_StrTab.table_lzss_roundtrip. Qed.
Print Assumptions C10_table_lzss_roundtrip.

(* one back reference: what LZSS.py writes for (end offset eo, length len) is read by the C field
   decoding as exactly (form, eo, len) - for all three forms, every offset up to the 16 KiB window
   and every length; the form fixes the encoded size *)
Theorem C10_backref_fields_exact : forall eo len bs rest, (len <= 258)%Z ->
  M_LZSS.encode_match (eo + len)%Z len = Some bs ->
  exists f, M_StrTab.form_of eo len = Some f
            /\ M_StrTab.ref_fields (bs ++ rest) = Some (f, eo, len, rest)
            /\ Z.of_nat (length bs) = M_StrTab.rform_len f /\ P_LZSS.bytes bs.
Proof. exact P_StrTab.backref_fields_exact. Qed.
Print Assumptions C10_backref_fields_exact.

(* hence distinct references have distinct encodings: no bit of an offset or length field can be
   dropped by the decoder *)
Theorem C10_backref_injective : forall eo len eo' len' bs, (len <= 258)%Z -> (len' <= 258)%Z ->
  M_LZSS.encode_match (eo + len)%Z len = Some bs -> M_LZSS.encode_match (eo' + len')%Z len' = Some bs ->
  eo = eo' /\ len = len'.
Proof. exact P_StrTab.backref_injective. Qed.
Print Assumptions C10_backref_injective.

(* ref_fields is what C12's model of the C loop does on a back-reference round *)
Theorem C10_dec_ref_uses_fields : forall dst_len src f eo len rest flags pos outr out_pos,
  Z.land flags 256 <> 0%Z -> Z.land flags 1 = 0%Z ->
  M_StrTab.ref_fields src = Some (f, eo, len, rest) ->
  M_LZSS.dec dst_len src flags pos outr out_pos =
  M_LZSS.dec_copy dst_len (M_LZSS.dec dst_len rest) flags (pos + M_StrTab.rform_len f)%Z eo (len - 3)%Z outr out_pos.
Proof. exact P_StrTab.dec_ref_uses_fields. Qed.
Print Assumptions C10_dec_ref_uses_fields.

(* the thresholds of the reference forms (the generator places repeats on both sides of each):
   7-bit form up to end offset 127, 2+7-bit form up to 639 with lengths up to 34, 7+7-bit form up to
   16511 with lengths from 4; beyond the window, or length 3 beyond 639, nothing is stored *)
Theorem C10_form_ranges : forall eo len f, M_StrTab.form_of eo len = Some f ->
  match f with
  | M_StrTab.F7 => (0 <= eo <= 127 /\ 3 <= len)%Z
  | M_StrTab.F9 => (128 <= eo <= 639 /\ 3 <= len <= 34)%Z
  | M_StrTab.F14 => (128 <= eo <= 16511 /\ 4 <= len /\ (640 <= eo \/ 35 <= len))%Z
  end.
Proof. exact P_StrTab.form_ranges. Qed.
Print Assumptions C10_form_ranges.

Theorem C10_form_none : forall eo len,
  (M_StrTab.form_of eo len = None <-> M_LZSS.encode_match (eo + len)%Z len = None)
  /\ (M_StrTab.form_of eo len = None <-> (len < 3 \/ eo < 0 \/ 16512 <= eo \/ (640 <= eo /\ len = 3))%Z).
Proof. intros eo len. split; [apply P_StrTab.form_of_encode|apply P_StrTab.form_none]. Qed.
Print Assumptions C10_form_none.

(* the storage-mode threshold: the lzss branch is emitted, and is the default, exactly when it
   saves at least 200 bytes *)
Theorem C10_lzss_stored_iff_saving : forall cd data c, lzss_compress data = Some c ->
  (In (90, c) (compressions cd data) <-> nlen c + 200 <= nlen data)
  /\ (default_compression (compressions cd data) = 90%Z <-> nlen c + 200 <= nlen data).
Proof. exact P_StrTab.lzss_stored_iff_saving. Qed.
Print Assumptions C10_lzss_stored_iff_saving.

(* non-vacuity: a str body with every escape kind decodes to the specified value (a lone
   surrogate and an octal escape above 0o377 included); its value goes through the
   unicode_escape path; a table with an empty text, a NUL byte string and an astral character is
   generated and unpacked under the identity codec with the macro set to 2 *)
Example C10_nonvacuous :
  let body := [97; 92; 110; 92; 52; 48; 48; 92; 120; 52; 49; 92; 117; 100; 56; 48; 48; 92; 85; 48; 48; 48; 49; 102; 54; 48; 48; 92; 113; 92; 10; 233] in
  has_named body = false
  /\ py_value KStr false body = PyValue [97; 10; 256; 65; 55296; 128512; 92; 113; 233]
  /\ visible KStr (decode true KStr false body) = Some [97; 10; 256; 65; 55296; 128512; 92; 113; 233]
  /\ unicode_escape_decode (uesc_encode [97; 55296; 128512]) = Some [97; 55296; 128512]
  /\ codec_ok id_codec
  /\ exists im, gen_image false id_codec [[]; [128512; 0]] [[0; 0]; []] = Some im
                /\ init_table id_codec false false (Some 2%Z) im = Some ([[]; [128512; 0]], [[0; 0]; []]).
Proof.
  cbv zeta. split; [reflexivity|]. split; [vm_compute; reflexivity|]. split; [vm_compute; reflexivity|].
  split; [vm_compute; reflexivity|]. split.
  - intros a d c Hd. unfold id_codec. cbn [ext_compress ext_decompress].
    destruct ((a =? 1) || (a =? 2)) eqn:E; [|discriminate]. intros [= <-]. split.
    + constructor; [|exact Hd]. apply orb_true_iff in E as [E|E]; apply N.eqb_eq in E; subst; reflexivity.
    + now rewrite N.eqb_refl.
  - eexists. split; [vm_compute; reflexivity|]. vm_compute. reflexivity.
Qed.

(* non-vacuity of (5): the reference 8320 bytes back (the first end offset that needs bit 13 of the
   7+7-bit field) is written as 128 192 45 and read back as (F14, 8320, 48); 16511 is the last
   storable end offset, 16512 is not stored *)
Example C10_nonvacuous_farref :
  M_LZSS.encode_match (8320 + 48)%Z 48%Z = Some [128; 192; 45]%Z
  /\ M_StrTab.ref_fields [128; 192; 45]%Z = Some (M_StrTab.F14, 8320, 48, [])%Z
  /\ M_StrTab.form_of 16511%Z 4%Z = Some M_StrTab.F14 /\ M_StrTab.form_of 16512%Z 4%Z = None
  /\ M_StrTab.form_of 639%Z 34%Z = Some M_StrTab.F9 /\ M_StrTab.form_of 640%Z 34%Z = Some M_StrTab.F14
  /\ M_StrTab.form_of 639%Z 35%Z = Some M_StrTab.F14 /\ M_StrTab.form_of 127%Z 258%Z = Some M_StrTab.F7.
Proof. repeat split; vm_compute; reflexivity. Qed.
