(* C06 — C double arithmetic and float parsing match CPython.
   Only statements; proofs live in Proof/P_FloatOps.v and Proof/P_AsDouble.v. *)
From Coq Require Import ZArith Bool List SpecFloat.
From CyVerif Require Import Model.M_FloatOps Model.M_AsDouble Proof.P_FloatOps Proof.P_AsDouble.
Import ListNotations.
Open Scope Z_scope.

(* ===== a % b on C doubles (CMath.c ModFloat + ModNode's zero test) ===== *)

(* FULL STATEMENT, false on the current tree (finding F2):
     forall fmod a b, mod_node fmod false a b = py_float_rem fmod a b                      *)

(* repaired ModFloat (proposed_fixes/C06-mod_float.diff) = CPython's float_rem, for all doubles
   (valid or not), whatever libm's fmod returns: value, sign of zero, NaN, ZeroDivisionError *)
Theorem C06_mod_float_eq_python : forall (fmod : F -> F -> F) a b,
  mod_node fmod true a b = py_float_rem fmod a b.
Proof. exact mod_new_eq_py. Qed.
Print Assumptions C06_mod_float_eq_python.

(* current ModFloat: 0.0 % inf and 5.0 % inf give nan, 1.0 % -1.0 gives +0.0 (exact fmod) *)
Theorem C06_mod_float_refuted :
  exists a b, fvalid a = true /\ fvalid b = true /\ mod_node_x false a b <> py_float_rem_x a b.
Proof. exact mod_old_refuted_ex. Qed.
Print Assumptions C06_mod_float_refuted.

Theorem C06_mod_float_refuted_witnesses :
  mod_node_x false fzero (finf false) = FVal S754_nan /\ py_float_rem_x fzero (finf false) = FVal fzero /\
  mod_node_x false ffive (finf false) = FVal S754_nan /\ py_float_rem_x ffive (finf false) = FVal ffive /\
  mod_node_x false fone fmone = FVal (S754_zero false) /\ py_float_rem_x fone fmone = FVal (S754_zero true).
Proof. exact mod_old_refuted. Qed.
Print Assumptions C06_mod_float_refuted_witnesses.

(* current ModFloat, exactly: with r = fmod(a, b) it agrees with CPython iff NOT
     (b infinite, r not NaN, no adjustment by b)  or  (r = +0 and b a negative finite number).
   Only hypothesis: fmod(a, NaN) = NaN (C99 F.9.7.1).  "partial": this is the theorem for the
   tree as it is, on the exact complement of finding F2 (and its converse inside the class). *)
Theorem C06_mod_float_current_partial : forall (fmod : F -> F -> F),
  (forall a, fmod a S754_nan = S754_nan) ->
  forall a b, fvalid b = true ->
  (mod_old_bad (fmod a b) b = false -> mod_node fmod false a b = py_float_rem fmod a b) /\
  (feqb b fzero = false -> mod_old_bad (fmod a b) b = true ->
     mod_node fmod false a b <> py_float_rem fmod a b).
Proof. exact mod_old_characterised_ieee. Qed.
Print Assumptions C06_mod_float_current_partial.

(* ===== a // b on C doubles (DivNode: floor(a / b)) ===== *)

(* FULL STATEMENT, false on the current tree (finding F3):
     forall a b, floordiv_node fmod floor false a b = py_float_floor_div fmod floor a b     *)
Theorem C06_floordiv_refuted :
  exists a b, fvalid a = true /\ fvalid b = true /\
    floordiv_node_x false a b <> py_float_floor_div_x a b.
Proof. exact floordiv_old_refuted_ex. Qed.
Print Assumptions C06_floordiv_refuted.

(* -1.0 // inf = -0.0 (CPython -1.0);  1.0 // 0.1 = 10.0 (CPython 9.0) *)
Theorem C06_floordiv_refuted_witnesses :
  floordiv_node_x false fmone (finf false) = FVal (S754_zero true) /\
  py_float_floor_div_x fmone (finf false) = FVal fmone /\
  floordiv_node_x false fone ftenth = FVal (S754_finite false 5629499534213120 (-49)) /\
  py_float_floor_div_x fone ftenth = FVal (S754_finite false 5066549580791808 (-49)).
Proof. exact floordiv_old_refuted. Qed.
Print Assumptions C06_floordiv_refuted_witnesses.

(* the proposed helper is float_floor_div's computation (same libm calls, same order) *)
Theorem C06_floordiv_helper_eq_python : forall (fmod : F -> F -> F) (ffloor : F -> F) a b,
  floordiv_node fmod ffloor true a b = py_float_floor_div fmod ffloor a b.
Proof. exact floordiv_new_eq_py. Qed.
Print Assumptions C06_floordiv_helper_eq_python.

(* ===== float(bytes / bytearray / str): the pre-scanner ===== *)

(* FULL STATEMENTS, false on the current tree (F4, F5, separator stripping):
     scan_bytes false data = Parse s' -> s' = remove_us (strip ..) /\ us_ok (strip ..) = true
     scan_str false false false data <> OOBWrite                                              *)

(* repaired: whatever the bytes scanner hands to PyOS_string_to_double is the input without the
   surrounding Py_ISSPACE characters and without underscores, and every underscore of the input
   stands between two ASCII digits (CPython's rule, pystrtod.c) *)
Theorem C06_fast_parse_sound_bytes : forall data s',
  scan_bytes true data = Parse s' ->
  s' = remove_us (strip isspace_b data) /\ us_ok (strip isspace_b data) = true.
Proof. exact scan_bytes_sound. Qed.
Print Assumptions C06_fast_parse_sound_bytes.

(* the same for float(str) (ASCII strings take the bytes path) *)
Theorem C06_fast_parse_sound_str : forall data s',
  scan_str true true true data = Parse s' ->
  let sp := if is_ascii data then isspace_b else isspace_u_new in
  s' = remove_us (strip sp data) /\ us_ok (strip sp data) = true.
Proof. exact scan_str_sound. Qed.
Print Assumptions C06_fast_parse_sound_str.

(* no read past the terminator, no write past the number buffer: bytes path as it is (both
   underscore rules), unicode path once the loop bound is `i < end`; for ALL inputs *)
Theorem C06_fast_parse_no_oob_bytes : forall fix_us data,
  scan_bytes fix_us data <> OOBWrite /\ scan_bytes fix_us data <> OOBRead.
Proof. exact scan_bytes_no_oob. Qed.
Print Assumptions C06_fast_parse_no_oob_bytes.

Theorem C06_fast_parse_no_oob_str : forall fix_us fix_sp data,
  scan_str true fix_us fix_sp data <> OOBWrite /\ scan_str true fix_us fix_sp data <> OOBRead.
Proof. exact scan_str_no_oob. Qed.
Print Assumptions C06_fast_parse_no_oob_str.

(* F4: "1e+_5" reaches the parser as "1e+5" *)
Theorem C06_fast_parse_sound_refuted :
  exists data s', scan_bytes false data = Parse s' /\ us_ok (strip isspace_b data) = false.
Proof. exact scan_bytes_old_refuted. Qed.
Print Assumptions C06_fast_parse_sound_refuted.

(* F5: one space + 39 (40) digits: write at index 40 of number[40] (index length+1 of the
   length+1 byte heap buffer); 38 digits: in bounds but the terminator is part of the "number" *)
Theorem C06_fast_parse_no_oob_refuted :
  scan_str false false false (8195 :: repeat 49 39) = OOBWrite /\
  scan_str false false false (8195 :: repeat 49 40) = OOBWrite /\
  scan_str false false false (8195 :: repeat 49 38) = Parse (repeat 49 38 ++ [0]).
Proof. exact scan_str_old_oob_refuted. Qed.
Print Assumptions C06_fast_parse_no_oob_refuted.

(* new finding: " inf\x1c" is returned as inf; CPython's pre-scan keeps the 0x1c, which is
   not an inf/nan spelling; the repaired scanner falls back to CPython *)
Theorem C06_separator_stripped_refuted : forall todecimal,
  scan_str false false false [8195; 105; 110; 102; 28] = Special false false /\
  py_scan_str todecimal [8195; 105; 110; 102; 28] = PyParse [105; 110; 102; 28] /\
  infnan_spelling [105; 110; 102; 28] = None /\
  scan_str true true true [8195; 105; 110; 102; 28] = Fallback.
Proof. exact scan_str_old_separator_refuted. Qed.
Print Assumptions C06_separator_stripped_refuted.

(* non-vacuity: the repaired scanners do hand strings to the parser, and the operands of the
   float theorems include ordinary values *)
Example C06_nonvacuous :
  scan_bytes true [32; 49; 95; 48; 46; 53; 32] = Parse [49; 48; 46; 53] /\
  scan_str true true true [8195; 49; 95; 48; 160] = Parse [49; 48] /\
  fvalid ffive = true /\ fvalid ftenth = true /\
  mod_node_x true ffive ftenth = py_float_rem_x ffive ftenth /\
  mod_old_bad (fmod_exact ffive ftenth) ftenth = false.
Proof. vm_compute. repeat split. Qed.
