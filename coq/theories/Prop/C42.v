(* C42 — compilation is deterministic: the ordered-emission core. Statements only. *)
From Coq Require Import ZArith List Bool Permutation.
From CyVerif Require Import Model.M_SortEmit Proof.P_SortEmit.
Import ListNotations.
Open Scope Z_scope.

(* for every element type, every key function and every two collection orders of the same
   constants (pairwise distinct keys): the sorted emission is identical *)
Theorem C42_sorted_emission_perm_invariant :
  forall (A T : Type) (key : A -> Z) (text : A -> T) l1 l2,
  NoDup (map key l1) -> Permutation l1 l2 -> emit key text l1 = emit key text l2.
Proof. intros. now apply sorted_emission_perm_invariant. Qed.
Print Assumptions C42_sorted_emission_perm_invariant.

Theorem C42_emission_complete :
  forall (A T : Type) (key : A -> Z) (text : A -> T) l, Permutation (emit key text l) (map text l).
Proof. intros. apply emission_complete. Qed.
Print Assumptions C42_emission_complete.

(* the uniqueness hypothesis is necessary: with tied keys the collection order shows through *)
Theorem C42_tie_keeps_collection_order_refuted :
  exists (key : Z * Z -> Z) l1 l2, Permutation l1 l2 /\ emit key (fun c => c) l1 <> emit key (fun c => c) l2.
Proof. exact tie_keeps_collection_order_refuted. Qed.
Print Assumptions C42_tie_keeps_collection_order_refuted.

Example C42_nonvacuous :
  emit (fun c : Z * Z => fst c) snd [(3, 30); (1, 10); (2, 20)] = [10; 20; 30] /\
  emit (fun c : Z * Z => fst c) snd [(2, 20); (3, 30); (1, 10)] = [10; 20; 30].
Proof. vm_compute. intuition congruence. Qed.
