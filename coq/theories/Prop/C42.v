(* C42 — compilation is deterministic: the ordered-emission core. Statements only. *)
From Coq Require Import ZArith List Bool Permutation.
From CyVerif Require Import Model.M_Session Proof.P_Session Model.M_SortEmit Proof.P_SortEmit.
Import ListNotations.
Open Scope Z_scope.

(* for every element type, every key function and every two collection orders of the same
   constants (pairwise distinct keys): the sorted emission is identical *)
Theorem C42_sorted_emission_perm_invariant :
  forall (A T : Type) (key : A -> Z) (text : A -> T) l1 l2,
  NoDup (map key l1) -> Permutation l1 l2 -> emit key text l1 = emit key text l2.
Proof. intros. now apply sorted_emission_perm_invariant. Qed.
Print Assumptions C42_sorted_emission_perm_invariant.

Theorem C42_emission_complete :
  forall (A T : Type) (key : A -> Z) (text : A -> T) l, Permutation (emit key text l) (map text l).
Proof. intros. apply emission_complete. Qed.
Print Assumptions C42_emission_complete.

(* the uniqueness hypothesis is necessary: with tied keys the collection order shows through *)
Theorem C42_tie_keeps_collection_order_refuted :
  exists (key : Z * Z -> Z) l1 l2, Permutation l1 l2 /\ emit key (fun c => c) l1 <> emit key (fun c => c) l2.
Proof. exact tie_keeps_collection_order_refuted. Qed.
Print Assumptions C42_tie_keeps_collection_order_refuted.

Example C42_nonvacuous :
  emit (fun c : Z * Z => fst c) snd [(3, 30); (1, 10); (2, 20)] = [10; 20; 30] /\
  emit (fun c : Z * Z => fst c) snd [(2, 20); (3, 30); (1, 10)] = [10; 20; 30].
Proof. vm_compute. intuition congruence. Qed.

(* ---- the compilation session (Main.py:compile_multiple and its Context) ----
   A Context caches parsed .pxd scopes whose entries carry `used` marks; a module's declarations are
   written from the marks.  [session pxds reset fresh ms] is compile_multiple over the sources [ms];
   reset = true is the code as it is ("context = None" after every source). *)
Close Scope Z_scope.

(* with the reset, every module of every batch gets exactly its isolated output (parsed .pxd files and
   written declarations), at whatever position it is compiled ... *)
Theorem C42_session_reset_isolated :
  forall pxds ms i m, nth_error ms i = Some m ->
  nth_error (session pxds true fresh ms) i = Some (isolated pxds m).
Proof. exact session_reset_nth. Qed.
Print Assumptions C42_session_reset_isolated.

(* ... hence for every reordering of the batch the (module, output) pairs are the same *)
Theorem C42_session_reset_order_independent :
  forall pxds ms ms', Permutation ms ms' ->
  Permutation (combine ms (session pxds true fresh ms)) (combine ms' (session pxds true fresh ms')).
Proof. exact session_reset_order_independent. Qed.
Print Assumptions C42_session_reset_order_independent.

(* without the reset: position |prefix| of the session is [after prefix m], which writes exactly the
   always-written entries of the cimported scopes, the entries m marks, and the entries ANY EARLIER
   module marked; and parses only the .pxd files no earlier module loaded *)
Theorem C42_session_noreset_output :
  forall pxds prefix m rest,
  nth_error (session pxds false fresh (prefix ++ m :: rest)) (length prefix) = Some (after pxds prefix m) /\
  (forall p i, In (p, i) (snd (after pxds prefix m)) <->
     In p (map fst m) /\ i < length (entries_of pxds p) /\
     (nth i (entries_of pxds p) KAlways = KAlways \/ In (p, i) (uses_of m) \/
      exists m', In m' prefix /\ In (p, i) (uses_of m'))) /\
  (forall q, In q (fst (after pxds prefix m)) <->
     In q (map fst m) /\ forall m', In m' prefix -> ~ In q (map fst m')).
Proof.
  intros. split; [apply session_noreset_nth|]. split; intros; [apply after_out_spec|apply after_parsed_spec].
Qed.
Print Assumptions C42_session_noreset_output.

(* so a kept context is invisible for batches that share no .pxd (the only batches the check
   compiled before) ... *)
Theorem C42_session_noreset_disjoint_isolated :
  forall pxds prefix m,
  (forall m' p, In m' prefix -> In p (map fst m') -> ~ In p (map fst m)) ->
  snd (after pxds prefix m) = snd (isolated pxds m).
Proof. exact after_eq_isolated_disjoint. Qed.
Print Assumptions C42_session_noreset_disjoint_isolated.

(* ... and visible in EVERY batch where an earlier module marks a used-only entry of a scope that m
   cimports and does not mark itself: the full property ("the output of m does not depend on the
   prefix") is false for the variant without reset *)
Theorem C42_session_noreset_depends_on_prefix :
  forall pxds prefix m m' p i,
  In m' prefix -> In (p, i) (uses_of m') -> In p (map fst m) ->
  i < length (entries_of pxds p) -> nth i (entries_of pxds p) KAlways = KUsed ->
  ~ In (p, i) (uses_of m) ->
  snd (after pxds prefix m) <> snd (isolated pxds m).
Proof. exact after_neq_isolated. Qed.
Print Assumptions C42_session_noreset_depends_on_prefix.

Theorem C42_session_noreset_refuted :
  exists pxds a b,
    nth_error (session pxds false fresh [a; b]) 1 <> Some (isolated pxds b) /\
    nth_error (session pxds false fresh [b; a]) 0 = Some (isolated pxds b) /\
    nth_error (session pxds true fresh [a; b]) 1 = Some (isolated pxds b).
Proof. exact noreset_depends_on_prefix_refuted. Qed.
Print Assumptions C42_session_noreset_refuted.

Example C42_session_nonvacuous :
  let pxds := [[KAlways; KUsed; KUsed]; [KUsed]] in
  let a := [(0, [1]); (1, [0])] in let b := [(0, [2])] in
  session pxds true fresh [a; b] = [([0; 1], [(0, 0); (0, 1); (1, 0)]); ([0], [(0, 0); (0, 2)])] /\
  session pxds false fresh [a; b] = [([0; 1], [(0, 0); (0, 1); (1, 0)]); ([], [(0, 0); (0, 1); (0, 2)])].
Proof. vm_compute. split; reflexivity. Qed.
