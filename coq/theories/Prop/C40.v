(* C40 - safe type inference never changes pure-Python results.
   Only statements; proofs live in Proof/P_Infer.v.

   FULL statement wanted (false on the code as it is, see C40_safe_span_refuted):
     forall types mo t, In t types -> tsub t (safe_span fx_none types mo) = true
   i.e. the type safe inference gives a local holds every assigned value with unchanged Python
   type and value.  It fails exactly for integers / float objects spanned into a C double. *)
From Coq Require Import ZArith List Bool.
From CyVerif Require Import Lib.CInt Model.M_Infer Proof.P_Infer Gen.Gen_Infer.
Import ListNotations.
Open Scope Z_scope.

(* for ALL lists of assigned types and both values of might_overflow *)
Theorem C40_safe_span_sound_partial : forall fx types mo t,
  In t types ->
  tsub t (safe_span fx types mo) = true \/
  (safe_span fx types mo = TCDouble /\ (t = TPyInt \/ t = TCLong \/ t = TCInt \/ t = TPyFloat)).
Proof. exact safe_span_sound_partial. Qed.
Print Assumptions C40_safe_span_sound_partial.

Theorem C40_safe_span_refuted :
  exists types mo t v, In t types /\ ty_ok t v = true /\ ty_ok (safe_span fx_none types mo) v = false.
Proof. exact safe_span_refuted. Qed.
Print Assumptions C40_safe_span_refuted.

(* repaired variant (proposed_fixes/C40-int_float_span_double): only a float object that may be None
   is still narrowed to a C double *)
Theorem C40_safe_span_sound_fixed : forall fx types mo t,
  fx_float fx = true -> In t types ->
  tsub t (safe_span fx types mo) = true \/ (safe_span fx types mo = TCDouble /\ t = TPyFloat).
Proof. exact safe_span_sound_fixed. Qed.
Print Assumptions C40_safe_span_sound_fixed.

(* a C integer type only for names never used in arithmetic, and only from C integer sources it contains *)
Theorem C40_cint_only_from_cint : forall fx types mo,
  is_cintw (safe_span fx types mo) = true ->
  mo = false /\ forall t, In t types -> is_cintw t = true /\ tsub t (safe_span fx types mo) = true.
Proof. exact safe_span_cint. Qed.
Print Assumptions C40_cint_only_from_cint.

Theorem C40_bint_only_from_bint : forall fx types mo,
  safe_span fx types mo = TCBint -> forall t, In t types -> t = TCBint.
Proof. exact safe_span_bint. Qed.
Print Assumptions C40_bint_only_from_bint.

Theorem C40_double_only_from_float_fixed : forall fx types mo,
  fx_float fx = true -> safe_span fx types mo = TCDouble -> forall t, In t types -> is_floatty t = true.
Proof. exact safe_span_double. Qed.
Print Assumptions C40_double_only_from_float_fixed.

(* tsub means: same Python type (kind) and, for C integers, the value is in range *)
Theorem C40_tsub_sound : forall t r v, tsub t r = true -> ty_ok t v = true -> ty_ok r v = true.
Proof. exact tsub_sound. Qed.
Print Assumptions C40_tsub_sound.

(* expression typing: for every table, store and expression whose nodes satisfy the decidable node
   conditions, the reference value (unbounded ints, Python result kinds) is held unchanged by the
   inferred type *)
Theorem C40_expr_sound : forall T E MO st e v,
  ev st e v -> expr_ok T E MO e = true -> names_ok E MO st e -> ty_ok (ety T E MO e) v = true.
Proof. exact expr_sound. Qed.
Print Assumptions C40_expr_sound.

(* MAIN, for ALL function summaries s, all tables T and every decision vector D the inferer can stop
   at (stable): after any sequence of the function's assignments, evaluated with Python semantics in
   any order, each local holds a value its inferred type represents faithfully.  Side conditions =
   complement of the finding classes: right-hand sides avoid the bad operator typings (expr_ok),
   no int / float-object source for a C double local (span_exc), None only into object locals.
   partial: C-integer-typed arithmetic nodes are excluded by expr_ok; for-range targets are covered
   at their bound expressions; reads follow cf_state (ev_name). *)
Theorem C40_infer_sound_partial : forall fx T s D,
  stable fx T s D MSafe = true ->
  (forall x d, nth x (s_decl s) None = Some d -> d = TObj) ->
  (forall a asg, nth_error (s_assigns s) a = Some asg ->
     expr_ok T (lookup D) (mo_of fx s) (a_rhs asg) = true) ->
  (forall a asg, nth_error (s_assigns s) a = Some asg ->
     span_exc (aty fx T s D a) (lookup D (a_lhs asg)) = false) ->
  (forall a asg, nth_error (s_assigns s) a = Some asg ->
     is_none_rhs (a_rhs asg) = true -> is_pyobj (lookup D (a_lhs asg)) = true) ->
  forall st x v w, steps s (fun _ => None) st -> st x = Some (v, w) -> ty_ok (lookup D x) v = true.
Proof. exact infer_sound_partial. Qed.
Print Assumptions C40_infer_sound_partial.

(* what ty_ok means for the three C types: no wrap, int stays int, float stays float, bool stays bool *)
Theorem C40_c_types_faithful : forall v,
  (ty_ok TCLong v = true -> exists z, v = VInt z /\ - 2 ^ 63 <= z < 2 ^ 63) /\
  (ty_ok TCDouble v = true -> v = VFloat) /\
  (ty_ok TCBint v = true -> exists b, v = VBool b).
Proof.
  intros v. split; [apply ty_ok_cint_value | split; [apply ty_ok_cdouble_value | apply ty_ok_cbint_value]].
Qed.
Print Assumptions C40_c_types_faithful.

(* which operator typings of the running compiler violate the node conditions (finite check) *)
Theorem C40_bad_typings_bin : subset eq3 bad_bin_kinds known_bad_bin = true.
Proof. exact gen_bad_bin_kinds. Qed.
Print Assumptions C40_bad_typings_bin.
Theorem C40_bad_typings_un : subset eq2 (bad_un gen_tables) known_bad_un = true.
Proof. exact gen_bad_un. Qed.
Print Assumptions C40_bad_typings_un.
Theorem C40_bad_typings_cond : subset eq2 (bad_cond gen_tables) known_bad_cond = true
  /\ subset eq2 (bad_bool gen_tables) known_bad_cond = true.
Proof. split; [exact gen_bad_cond | exact gen_bad_bool]. Qed.
Print Assumptions C40_bad_typings_cond.

Theorem C40_neg_bint_refuted : exists v1 v, ty_ok TCBint v1 = true /\ pyun Neg v1 = Some v /\
  ty_ok (un_ty gen_tables Neg TCBint) v = false.
Proof. exact neg_bint_refuted. Qed.
Print Assumptions C40_neg_bint_refuted.
Theorem C40_cond_long_double_refuted :
  exists v, ty_ok TCLong v = true /\ ty_ok (cond_ty gen_tables TCLong TCDouble) v = false.
Proof. exact cond_long_double_refuted. Qed.
Print Assumptions C40_cond_long_double_refuted.

Example C40_nonvacuous :
  safe_span fx_none [TCLong; TCLong] false = TCLong /\ safe_span fx_none [TCLong; TCLong] true = TPyInt /\
  safe_span fx_none [TCBint; TCLong] false = TObj /\ safe_span fx_all [TCLong; TCDouble] false = TObj /\
  expr_ok gen_tables (fun _ => TPyInt) (fun _ => true)
    (EBin Add (EName 0 None [0%nat]) (EInt 1)) = true /\
  (* x = 7; y = x; z = y + 1: stable decisions [long; int object; int object] *)
  stable fx_none gen_tables
    {| s_decl := [None; None; None];
       s_assigns := [ {| a_lhs := 0; a_rhs := EInt 7 |};
                      {| a_lhs := 1; a_rhs := EName 0 (Some TCLong) [0%nat] |};
                      {| a_lhs := 2; a_rhs := EBin Add (EName 1 (Some TPyInt) [1%nat]) (EInt 1) |} ];
       s_body := ESeq (EAsg (Some 0%nat) (EInt 7))
                  (ESeq (EAsg (Some 1%nat) (EName 0 (Some TCLong) [0%nat]))
                        (EAsg (Some 2%nat) (EBin Add (EName 1 (Some TPyInt) [1%nat]) (EInt 1)))) |}
    [TCLong; TPyInt; TPyInt] MSafe = true.
Proof. vm_compute. repeat split; reflexivity. Qed.
