(* C11 -- Emitted C string literals denote exactly the original bytes.
   Only statements; proofs live in Proof/P_CStr.v.  Bytes and characters are numbers (N);
   a byte string is a list of N all < 256.  as_c_string_literal bs limit is the model of
   BytesLiteral.as_c_string_literal (escape_byte_string, split_string_literal with that limit,
   surrounding double quotes); c_read is the reference C reader (translation phases 1, 2, 5, 6). *)
From Coq Require Import NArith List Bool.
From CyVerif Require Import Lib.CInt Model.M_CStr Proof.P_CStr.
Import ListNotations.
Open Scope N_scope.

(* every byte string, every limit >= 6: the literal is produced (the splitter does not run out
   of fuel, the input is in the modelled domain) and a C compiler reads exactly the bytes *)
Theorem C11_emit_reads_back : forall (bs : list N) (limit : nat),
  Forall (fun b => b < 256) bs -> (6 <= limit)%nat ->
  exists txt, as_c_string_literal bs limit = Some txt /\ c_read txt = Some bs.
Proof. exact emit_reads_back. Qed.
Print Assumptions C11_emit_reads_back.

(* the literal has no two adjacent question marks, hence no trigraph; phase 1 leaves it alone *)
Theorem C11_no_trigraph : forall (bs : list N) (limit : nat) (txt : list N),
  Forall (fun b => b < 256) bs -> (6 <= limit)%nat ->
  as_c_string_literal bs limit = Some txt ->
  has_qq txt = false /\ contains_trigraph txt = false /\ phase1 txt = txt.
Proof. exact no_trigraph. Qed.
Print Assumptions C11_no_trigraph.

(* splitting ANY text (not only escape outputs) at any limit >= 6: the chunks concatenate to the
   text, each is at most limit characters and (for a non-empty text) non-empty *)
Theorem C11_chunks_bounded : forall (s : list N) (limit : nat), (6 <= limit)%nat ->
  exists cs, split_chunks s limit = Chunks cs /\ concat cs = s
    /\ Forall (fun c => (length c <= limit)%nat /\ (s <> [] -> (1 <= length c)%nat)) cs.
Proof. exact chunks_bounded. Qed.
Print Assumptions C11_chunks_bounded.

(* termination of the while loop as an explicit obligation: on ANY text, with limit >= 6,
   len(s)+1 iterations suffice (the result is not OutOfFuel) *)
Theorem C11_split_terminates : forall (s : list N) (limit : nat), (6 <= limit)%nat ->
  exists cs, split_loop (S (length s)) s limit = Chunks cs /\ concat cs = s.
Proof. exact split_terminates. Qed.
Print Assumptions C11_split_terminates.

(* the bound 6 is tight: at limit 5 the all-backslash fallback start + limit - limit%2 - 4 is
   start itself and the loop makes no progress on a run of backslashes (the compiler only ever
   calls the function with the default limit 2000, so this is a boundary remark, not a defect) *)
Theorem C11_split_limit5_no_progress :
  exists s, forall fuel, split_loop fuel s 5 = OutOfFuel.
Proof. exact split_limit5_no_progress. Qed.
Print Assumptions C11_split_limit5_no_progress.

(* MSVC branch of _write_cstring_const: the comma separated character constants denote the same
   bytes (and contain no two adjacent question marks) *)
Theorem C11_char_array_form_equal : forall (bs : list N),
  Forall (fun b => b < 256) bs -> bs <> [] ->
  c_read_chars (char_array_form bs) = Some bs /\ has_qq (char_array_form bs) = false.
Proof. exact char_array_form_equal. Qed.
Print Assumptions C11_char_array_form_equal.

(* escape_char: all 256 character constants *)
Theorem C11_escape_char_reads_back : forall b : N, b < 256 ->
  c_read_char ([39] ++ escape_char b ++ [39]) = Some b.
Proof. exact escape_char_reads_back. Qed.
Print Assumptions C11_escape_char_reads_back.

(* non-vacuity: the bytes ? ? / backslash LF dquote 0x80 NUL 1 at limit 8: the text is split into
   five chunks, contains every kind of escape, and reads back; and the reader really performs
   trigraph replacement: dquote ? ? / dquote dquote is the one-byte string dquote *)
Example C11_nonvacuous :
  let bs := [63; 63; 47; 92; 10; 34; 128; 0; 49] in
  Forall (fun b => b < 256) bs /\ (6 <= 8)%nat
  /\ (exists cs, split_chunks (escape_byte_string bs) 8 = Chunks cs /\ length cs = 5%nat)
  /\ (exists txt, as_c_string_literal bs 8 = Some txt /\ c_read txt = Some bs)
  /\ c_read [34; 63; 63; 47; 34; 34] = Some [34].
Proof.
  cbv zeta. split; [repeat constructor|]. split; [repeat constructor|].
  split; [eexists; split; vm_compute; reflexivity|].
  split; [eexists; split; vm_compute; reflexivity|]. vm_compute. reflexivity.
Qed.
