(* C08 -- C complex arithmetic matches Python complex.
   Only statements; proofs live in Proof/P_Complex.v.  Doubles are spec_float values (binary64
   SpecFloat operations); "py_" definitions transcribe CPython 3.12 Objects/complexobject.c. *)
From Coq Require Import ZArith Bool List SpecFloat.
From CyVerif Require Import Model.M_FloatOps Model.M_Complex Proof.P_Complex.
Import ListNotations.
Open Scope Z_scope.

(* ===== + - * unary - conjugate ==  (struct helpers): CPython's results bit for bit, all doubles ===== *)
Theorem C08_sum_same : forall a b, c_sum a b = py_c_sum a b.
Proof. exact sum_same. Qed.
Print Assumptions C08_sum_same.

Theorem C08_diff_same : forall a b, c_diff a b = py_c_diff a b.
Proof. exact diff_same. Qed.
Print Assumptions C08_diff_same.

Theorem C08_prod_same : forall a b, c_prod a b = py_c_prod a b.
Proof. exact prod_same. Qed.
Print Assumptions C08_prod_same.

Theorem C08_neg_conj_eq_same : forall a b,
  c_neg a = py_c_neg a /\ c_conj a = py_conj a /\ c_eq a b = py_eq a b.
Proof. intros a b. repeat split. Qed.
Print Assumptions C08_neg_conj_eq_same.

(* ===== division ===== *)
(* ZeroDivisionError (cdivision off) exactly when CPython raises it, for both variants of the helper *)
Theorem C08_zero_division_exact : forall fixed a b,
  div_node fixed false a b = DivZeroDiv <-> py_complex_div a b = PyZeroDiv.
Proof. exact zero_division_exact. Qed.
Print Assumptions C08_zero_division_exact.

(* FULL STATEMENT, false on the current tree (finding F10 and the b.imag == 0 shortcut):
     forall a b, res_match (div_node false false a b) (py_complex_div a b)                      *)

(* repaired __Pyx_c_quot (proposed_fixes/C08-struct_quot_reciprocal_rounding.diff): CPython's outcome for all operands *)
Theorem C08_quot_fixed_same : forall a b, res_match (div_node true false a b) (py_complex_div a b).
Proof. exact div_node_fixed_same. Qed.
Print Assumptions C08_quot_fixed_same.

(* current __Pyx_c_quot: 1j/(1-2.5j) differs in the last bit with all components finite and b's
   non-zero; 0j/(-5e-324j) is nan+nanj instead of -0+0j; (0-0j)/(1-0j) keeps the -0.0 *)
Theorem C08_quot_refuted :
  (exists a b, ~ res_match (div_node false false a b) (py_complex_div a b) /\
               is_fnz (re b) = true /\ is_fnz (im b) = true /\ is_fin (re a) = true /\ is_fin (im a) = true) /\
  (exists a b, div_node false false a b = DivVal (Cx S754_nan S754_nan) /\
               py_complex_div a b = PyVal (Cx (S754_zero true) (S754_zero false))) /\
  (exists a b, im b = S754_zero true /\ ~ res_match (div_node false false a b) (py_complex_div a b)).
Proof. exact quot_old_refuted. Qed.
Print Assumptions C08_quot_refuted.

(* what holds for the current helper: a real divisor (b.imag = +-0.0, b.real finite non-zero) and a
   dividend with finite non-zero parts give CPython's result; and outside the shortcut both sides
   select the same branch of Smith's method.  "partial": the remaining operands are findings. *)
Theorem C08_quot_real_divisor_partial : forall a b,
  feqb (im b) fzero = true -> is_fnz (re b) = true -> is_fnz (re a) = true -> is_fnz (im a) = true ->
  res_match (div_node false false a b) (py_complex_div a b).
Proof. exact div_node_old_real_divisor_partial. Qed.
Print Assumptions C08_quot_real_divisor_partial.

Theorem C08_quot_same_branch_partial : forall b,
  fgeb (fabs (re b)) (fabs (im b)) = fgeb (absf (re b)) (absf (im b)).
Proof. exact quot_same_branch. Qed.
Print Assumptions C08_quot_same_branch_partial.

(* ===== ** with small integral exponents (c_pow fast path vs complex_pow / c_powi) ===== *)
(* FULL STATEMENT, false: forall a n, -4 <= n <= 4 -> pow_match (c_pow a (n+0j)) (py_complex_pow a (n+0j)) *)

Theorem C08_pow0_same : forall a s1 s2,
  c_pow a (Cx (S754_zero s1) (S754_zero s2)) = PowVal c_1 /\
  py_complex_pow a (Cx (S754_zero s1) (S754_zero s2)) = PyVal c_1.
Proof. exact pow0_same. Qed.
Print Assumptions C08_pow0_same.

(* the exact difference for 1..4: CPython multiplies into r = 1+0j, checks for infinities and
   associates a**3 the other way round *)
Theorem C08_pow_small_relation : forall a s,
  (c_pow a (Cx fone (S754_zero s)) = PowVal a /\
   py_complex_pow a (Cx fone (S754_zero s)) = py_ret (py_c_prod c_1 a)) /\
  (c_pow a (Cx ftwo (S754_zero s)) = PowVal (c_prod a a) /\
   py_complex_pow a (Cx ftwo (S754_zero s)) = py_ret (py_c_prod c_1 (c_prod a a))) /\
  (c_pow a (Cx fthree (S754_zero s)) = PowVal (c_prod (c_prod a a) a) /\
   py_complex_pow a (Cx fthree (S754_zero s)) = py_ret (py_c_prod (py_c_prod c_1 a) (c_prod a a))) /\
  (c_pow a (Cx ffour (S754_zero s)) = PowVal (c_prod (c_prod a a) (c_prod a a)) /\
   py_complex_pow a (Cx ffour (S754_zero s)) = py_ret (py_c_prod c_1 (c_prod (c_prod a a) (c_prod a a)))).
Proof.
  intros a s. split; [|split; [|split]].
  - exact (pow1_relation a s). - exact (pow2_relation a s).
  - exact (pow3_relation a s). - exact (pow4_relation a s).
Qed.
Print Assumptions C08_pow_small_relation.

(* equal results when the product chain stays finite and non-zero in both components
   (1.0 * x = x needs validity of x: Lib/FloatMulOne.v, Flocq) *)
Theorem C08_pow_small_same_partial : forall a s,
  (nice a -> pow_match (c_pow a (Cx fone (S754_zero s))) (py_complex_pow a (Cx fone (S754_zero s)))) /\
  (nice (c_prod a a) ->
   pow_match (c_pow a (Cx ftwo (S754_zero s))) (py_complex_pow a (Cx ftwo (S754_zero s)))) /\
  (nice a -> has_inf (c_prod (c_prod a a) a) = false ->
   pow_match (c_pow a (Cx fthree (S754_zero s))) (py_complex_pow a (Cx fthree (S754_zero s)))) /\
  (nice (c_prod (c_prod a a) (c_prod a a)) ->
   pow_match (c_pow a (Cx ffour (S754_zero s))) (py_complex_pow a (Cx ffour (S754_zero s)))).
Proof.
  intros a s. split; [|split; [|split]].
  - exact (pow1_same_partial a s). - exact (pow2_same_partial a s).
  - exact (pow3_same_partial a s). - exact (pow4_same_partial a s).
Qed.
Print Assumptions C08_pow_small_same_partial.

(* (-0.0-1j)**1 = (-0-1j) vs (0-1j);  (1e308j)**2 = (-inf+0j) vs OverflowError;
   0j**-1 = (nan+nanj) vs ZeroDivisionError *)
Theorem C08_pow_small_refuted :
  (exists a, c_pow a (Cx fone fzero) = PowVal a /\
             py_complex_pow a (Cx fone fzero) = PyVal (Cx fzero (im a)) /\ re a = S754_zero true) /\
  (exists a, c_pow a (Cx ftwo fzero) = PowVal (Cx (S754_infinity true) fzero) /\
             py_complex_pow a (Cx ftwo fzero) = PyOverflow) /\
  (exists a, c_pow a (Cx fmone_ fzero) = PowVal (Cx S754_nan S754_nan) /\
             py_complex_pow a (Cx fmone_ fzero) = PyZeroDiv).
Proof. exact pow_small_refuted. Qed.
Print Assumptions C08_pow_small_refuted.

(* ===== conversion to and from Python complex ===== *)
(* struct variant (and the repaired C99 from_parts): Python -> C -> Python is the identity *)
Theorem C08_conversion_identity : forall fixed z,
  to_py (from_py false fixed z) = z /\ to_py (from_py true true z) = z.
Proof. intros fixed z. split; [apply conv_struct_identity | apply conv_native_fixed_identity]. Qed.
Print Assumptions C08_conversion_identity.

(* FULL STATEMENT, false for the current C99 from_parts (x + y*I): forall z, from_py true false z = z *)
Theorem C08_from_parts_native_refuted :
  from_py true false (Cx fnzero fone) = Cx fzero fone /\
  from_py true false (Cx fzero (finf_ false)) = Cx S754_nan (finf_ false).
Proof. exact from_parts_native_refuted. Qed.
Print Assumptions C08_from_parts_native_refuted.

Theorem C08_from_parts_native_partial : forall z,
  is_fin (im z) = true -> re z <> S754_zero true -> from_py true false z = z.
Proof. exact from_parts_native_partial. Qed.
Print Assumptions C08_from_parts_native_partial.

(* ===== abs ===== *)
(* with hypot (C99 contract for infinities/NaN as hypotheses) the helper returns CPython's value,
   except that CPython raises OverflowError when the modulus of a finite value overflows *)
Theorem C08_abs_hypot_partial : forall hypot : F -> F -> F,
  (forall s y, hypot (S754_infinity s) y = S754_infinity false) ->
  (forall s x, hypot x (S754_infinity s) = S754_infinity false) ->
  (forall y, is_inf y = false -> hypot S754_nan y = S754_nan) ->
  (forall x, is_inf x = false -> hypot x S754_nan = S754_nan) ->
  forall z,
    py_abs hypot z = AbsVal (c_abs hypot true z) \/
    (py_abs hypot z = AbsOverflow /\ is_fin (re z) = true /\ is_fin (im z) = true /\
     is_fin (c_abs hypot true z) = false).
Proof. exact abs_hypot_same. Qed.
Print Assumptions C08_abs_hypot_partial.

(* the variant compiled against CPython >= 3.11 headers (no HAVE_HYPOT): sqrt(x*x + y*y) *)
Theorem C08_abs_naive_refuted : forall hypot : F -> F -> F,
  hypot fzero f1e308 = f1e308 ->
  py_abs hypot (Cx fzero f1e308) = AbsVal f1e308 /\
  c_abs hypot false (Cx fzero f1e308) = S754_infinity false.
Proof. exact abs_naive_refuted. Qed.
Print Assumptions C08_abs_naive_refuted.

Example C08_nonvacuous :
  nice (Cx fthree fseven) /\ nice (c_prod (Cx fthree fseven) (Cx fthree fseven)) /\
  feqb (im (Cx fthree fzero)) fzero = true /\ is_fnz (re (Cx fthree fzero)) = true /\
  div_node false false (Cx fone fseven) (Cx fthree fzero) <> DivZeroDiv /\
  div_node false false (Cx fone fseven) (Cx fzero fnzero) = DivZeroDiv.
Proof. vm_compute. repeat split; discriminate. Qed.
