From Coq Require Import ZArith NArith List Extraction ExtrOcamlBasic.
From CyVerif Require Import Lib.CInt Model.M_Plex.
Extraction "../ocaml/gen/m_plex.ml" ex_keep tm_new tm_add tm_add_set tm_items tm_split
  lexicon_nfa nfa_to_dfa nfa_else_ok config0 scan_tokens ref_tokens events_from scan_fuel
  e_matches ere_of s_elems s_single eclose best_action nfa_ok nfa_bounded chars_to_ranges ranges_cover.
