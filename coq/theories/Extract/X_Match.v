From Coq Require Import ZArith Extraction ExtrOcamlBasic.
From CyVerif Require Import Lib.CInt Model.M_Match.
Extraction "../ocaml/gen/m_match.ml" ex_keep match_ref match_cy pm_ref cy safe_cases as_ok_cases.
