From Coq Require Import ZArith Extraction ExtrOcamlBasic.
From CyVerif Require Import Lib.CInt Model.M_Infer Gen.Gen_Infer.
Extraction "../ocaml/gen/m_infer.ml" ex_keep infer stable span_mode find_span span2 mo_of gen_tables
  bad_bin bad_un bad_cond bad_bool ety ty_ok expr_ok ty_idx ty_of_idx.
