From Coq Require Import ZArith Extraction ExtrOcamlBasic.
From CyVerif Require Import Lib.CInt Model.M_Index.
Extraction "../ocaml/gen/m_index.ml" ex_keep run py_index cpython_subscript getitem_int setitem_int
  delitem_int fast_index wa_flag py_slice py_slice_adjust slice_node setslice_node py_slice_pos crop_slice
  listtuple_getslice unicode_substring fits_ssz is_valid_index.
