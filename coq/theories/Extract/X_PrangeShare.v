From Coq Require Import ZArith Extraction ExtrOcamlBasic.
From CyVerif Require Import Lib.CInt Model.M_PrangeShare.
Extraction "../ocaml/gen/m_prangeshare.ml" ex_keep omp_ops classify region_errors region_wf region_par region_seq final_assignments no_fixes all_fixes.
