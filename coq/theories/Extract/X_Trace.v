From Coq Require Import Extraction ExtrOcamlBasic.
From CyVerif Require Import Lib.CInt Model.M_Trace.
Extraction "../ocaml/gen/m_trace.ml" ex_keep ev_cy ev_py parse well_nested nests_as shape_of size clean started
  count_class throw_as_resume.
