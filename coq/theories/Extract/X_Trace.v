From Coq Require Import Extraction ExtrOcamlBasic.
From CyVerif Require Import Lib.CInt Model.M_Trace Model.M_TraceGen.
Extraction "../ocaml/gen/m_trace.ml" ex_keep ev_cy ev_py parse well_nested nests_as shape_of size clean started
  count_class throw_as_resume
  run seg_at word to_node complete prog_ok func_ok is_term clean_b epilogue default_branch count_yield
  as_is wrap_fixed g_not_inlined.
