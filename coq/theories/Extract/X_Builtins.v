From Coq Require Import ZArith Extraction ExtrOcamlBasic.
From CyVerif Require Import Lib.CInt Model.M_Builtins.
Extraction "../ocaml/gen/m_builtins.ml" ex_keep py_list_pop pyx_list_popindex_macro pyx_list_pop
  py_tailmatch pyx_bytes_single pyx_tuple_loop py_tuple_match
  pyx_decode_c_bytes_range pyx_substring_range pyx_decode_c_string_range py_slice_range
  pyx_abs_c py_abs_c pyx_ord py_ord pyx_chr py_chr
  pyx_dict_get pyx_dict_pop_313 pyx_dict_pop_ignore pyx_dict_setdefault py_dict_get py_dict_pop py_dict_setdefault
  pyx_minmax py_minmax pyx_anyall py_anyall.
