From Coq Require Import NArith Extraction ExtrOcamlBasic.
From CyVerif Require Import Lib.CInt Model.M_Flow.
Extraction "../ocaml/gen/m_flow.ml" ex_keep analyse reaching_definitions initialize classify.
