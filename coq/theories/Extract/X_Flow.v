From Coq Require Import NArith Extraction ExtrOcamlBasic.
From CyVerif Require Import Lib.CInt Model.M_Flow Model.M_FlowCFG.
Extraction "../ocaml/gen/m_flow.ml" ex_keep analyse reaching_definitions initialize classify
  run_cfg cls_at edges_at_end graph_ok wf reachable len.
