From Coq Require Import ZArith Extraction ExtrOcamlBasic.
From CyVerif Require Import Lib.CInt Model.M_DepTree.
Extraction "../ocaml/gen/m_deptree.ml" ex_keep run_table helper_table fuel_for rebuild_decision newest.
