From Coq Require Import ZArith Extraction ExtrOcamlBasic.
From CyVerif Require Import Lib.CInt Model.M_Cmp.
Extraction "../ocaml/gen/m_cmp.ml" ex_keep run_cascade ref_cascade gen_primary
  flatten run_flatten ref_in
  extract extract_common has_dup try_expr xform to_switch visit_if
  eval_cond exec_clauses exec_stmt cond_valid stmt_valid string_labels.
