From Coq Require Import Extraction ExtrOcamlBasic.
From CyVerif Require Import Lib.CInt Model.M_Refs.
Extraction "../ocaml/gen/m_refs.ml" ex_keep gen_fun run_fun orc_of events_of nanny_report exit_call exit_order with_stat.
