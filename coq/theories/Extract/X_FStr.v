From Coq Require Import Extraction ExtrOcamlBasic.
From CyVerif Require Import Lib.CInt Model.M_FStr.
Extraction "../ocaml/gen/m_fstr.ml" ex_keep optimise optimise_inner shape_nodes len_terms known_len kind_terms lit_kind kflags_real mk_kflags.
