From Coq Require Import ZArith Extraction ExtrOcamlBasic.
From CyVerif Require Import Lib.CInt Model.M_CMath Model.M_Shadow Model.M_DivNode.
Extraction "../ocaml/gen/m_cmath.ml" ex_keep div_int mod_int cdiv_c cmod_c div_node mod_node
  div_int_no_overflow mod_int_no_overflow sh_cdiv sh_cmod wrap in_rangeb
  decisions div_stmt mod_stmt divmod_q divmod_r.
