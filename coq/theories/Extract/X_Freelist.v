From Coq Require Import ZArith Extraction ExtrOcamlBasic.
From CyVerif Require Import Lib.CInt Model.M_Freelist.
Extraction "../ocaml/gen/m_freelist.ml" ex_keep mk_cfg run trace trace_ref final_freelist.
