From Coq Require Import ZArith Extraction ExtrOcamlBasic.
From CyVerif Require Import Lib.CInt Model.M_Gen Model.M_AsyncGen.
Extraction "../ocaml/gen/m_asyncgen.ml" ex_keep run_atable_cy run_atable_py fx_none fx_all av_cy av_py
  exc_cls in_cls NONE_CODE FUEL_ID.
