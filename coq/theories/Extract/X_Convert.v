From Coq Require Import ZArith Extraction ExtrOcamlBasic.
From CyVerif Require Import Lib.CInt Model.M_Convert.
Extraction "../ocaml/gen/m_convert.ml" ex_keep from_py to_py roundtrip charp_roundtrip string_roundtrip
  utf8_encode utf8_decode.
