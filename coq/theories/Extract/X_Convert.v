From Coq Require Import ZArith Extraction ExtrOcamlBasic.
From CyVerif Require Import Lib.CInt Model.M_Convert.
Extraction "../ocaml/gen/m_convert.ml" ex_keep from_py to_py roundtrip charp_roundtrip string_roundtrip
  charp_roundtrip_l string_roundtrip_l charp_strlen_l string_size_l unicode_asas kind_of is_ascii
  encode_with decode_with utf8_encode utf8_decode.
