From Coq Require Import ZArith SpecFloat Extraction ExtrOcamlBasic.
From CyVerif Require Import Lib.CInt Model.M_FloatOps Model.M_Complex.
Extraction "../ocaml/gen/m_complex.ml" ex_keep c_eq c_sum c_diff c_prod c_neg c_conj c_is_zero
  div_node c_pow c_abs_naive from_py to_py
  py_c_sum py_c_diff py_c_neg py_c_prod py_conj py_eq py_complex_div py_complex_pow fvalid.
