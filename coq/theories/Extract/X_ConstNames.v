From Coq Require Import ZArith Extraction ExtrOcamlBasic.
From CyVerif Require Import Lib.CInt Model.M_Consts Model.M_ConstNames.
Extraction "../ocaml/gen/m_constnames.ml" ex_keep sanitize spell_ok event_okb dec unique_const_cname
  new_num_const_cname_gen run_events_gen pool0 layout resolve slot_value const_value pool_consts
  pfx_int pfx_float name_limit keep index_find str_to_number.
