From Coq Require Import ZArith Extraction ExtrOcamlBasic.
From CyVerif Require Import Lib.CInt Model.M_IntFmt.
Extraction "../ocaml/gen/m_intfmt.ml" ex_keep cint_to_unicode py_format_int uchar_to_unicode
  py_format_char uchar_to_unicode_b utf8_decode utf8_enc_c utf8_ref padded_consts parse_base buf_size DIGIT_PAIRS_10 DIGIT_PAIRS_8 DIGITS_HEX.
