From Coq Require Import ZArith Extraction ExtrOcamlBasic.
From CyVerif Require Import Lib.CInt Model.M_IOTree.
Extraction "../ocaml/gen/m_iotree.ml" ex_keep init_state step getvalue allmarkers is_empty copyto
  init_spec spec_step wf_op svalue smarkers count_nl run spec_run wf_hist written.
