From Coq Require Import Extraction ExtrOcamlBasic.
From CyVerif Require Import Lib.CInt Model.M_ExprPrint.
Extraction "../ocaml/gen/m_exprprint.ml" ex_keep print pr_old pr_new render reparse expr_eqb wf
  repr_str repr_bytes cy_module rule_module.
