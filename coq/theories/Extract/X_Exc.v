From Coq Require Import Extraction ExtrOcamlBasic.
From CyVerif Require Import Lib.CInt Model.M_Exc Model.M_ExcLab Model.M_ExcVars.
Extraction "../ocaml/gen/m_exc.ml" ex_keep run_ref run_sch get handled run_lab gen g_fun desugar run_tmp resolve.
