From Coq Require Import ZArith Extraction ExtrOcamlBasic.
From CyVerif Require Import Lib.CInt Model.M_Directives Model.M_DirectivesDoc Gen.Gen_Directives.
Extraction "../ocaml/gen/m_directives.ml" ex_keep g_parse_value g_parse_list g_visit_module g_scope_ok
  g_defaults g_py_int codec_from_table get py_isspace lower strip
  doc_immediate doc_behaviour doc_scope_ok doc_scopes g_immediate.
