From Coq Require Import NArith Extraction ExtrOcamlBasic.
From CyVerif Require Import Lib.CInt Model.M_CStr.
Extraction "../ocaml/gen/m_cstr.ml" ex_keep escape_byte_string split_chunks split_string_literal
  as_c_string_literal escape_char split_characters char_array_form c_read c_read_char c_read_chars
  has_qq contains_trigraph.
