From Coq Require Import ZArith Extraction ExtrOcamlBasic.
From CyVerif Require Import Lib.CInt Model.M_BufFmt Model.M_MemviewAxes.
Extraction "../ocaml/gen/m_buffmt.ml" ex_keep check check_fuel render spec_accept layout smatch
  fmt_toks mkfixes mkleaf mktinfo parse_number decimal
  check_tree walk flatten flat_ti s_init s_cur s_advance ticmp cinfo_compat cflat validate_axes.
