From Coq Require Import ZArith Extraction ExtrOcamlBasic.
From CyVerif Require Import Lib.CInt Model.M_BufFmt.
Extraction "../ocaml/gen/m_buffmt.ml" ex_keep check check_fuel render spec_accept layout smatch
  fmt_toks mkfixes mkleaf mktinfo parse_number decimal.
