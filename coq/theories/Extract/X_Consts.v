From Coq Require Import ZArith Extraction ExtrOcamlBasic.
From CyVerif Require Import Lib.CInt Model.M_Consts.
Extraction "../ocaml/gen/m_consts.ml" ex_keep py_int str_to_number strip_us python_int_literal
  signed_literal signed_within_limit legacy_octal py_str py_hex to_base32 bit_length
  int_const_text negated_literal_text emit_num decode_emitted int_emission int_const_key
  scalar_eq make_dedup_key top_key key_eq wf_top wf_node fold_binop fold_unop folded_value
  py_binop py_unop float_as_int float_eq
  top_key2 wf_top2 top_has_mult frozen_key.
