From Coq Require Import ZArith Extraction ExtrOcamlBasic.
From CyVerif Require Import Lib.CInt Model.M_Fold.
Extraction "../ocaml/gen/m_fold.ml" ex_keep fold eval fdenote cres display_only.
