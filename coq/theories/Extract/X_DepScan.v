From Coq Require Import ZArith Extraction ExtrOcamlBasic.
From CyVerif Require Import Lib.CInt Model.M_DepScan.
Extraction "../ocaml/gen/m_depscan.ml" ex_keep scan find_pxd_cands import_rule package_of join_dots render.
