From Coq Require Import ZArith Extraction ExtrOcamlBasic.
From CyVerif Require Import Lib.CInt Model.M_Gen.
Extraction "../ocaml/gen/m_gen.ml" ex_keep run_table_cy run_table_py running_probe_cy fx_none fx_all
  exc_cls in_cls NONE_CODE FUEL_ID.
