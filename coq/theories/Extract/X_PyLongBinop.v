From Coq Require Import ZArith Extraction ExtrOcamlBasic.
From CyVerif Require Import Lib.CInt Lib.PyLong Model.M_PyLongBinop.
Extraction "../ocaml/gen/m_pylongbinop.ml" ex_keep binop binop_z accepts template_ok py_binop of_Z value wfb.
