From Coq Require Import Extraction ExtrOcamlBasic.
From CyVerif Require Import Lib.CInt Model.M_ArgBind.
Extraction "../ocaml/gen/m_argbind.ml" ex_keep bind_cy bind_py call_cy call_py wf_entry erase wf_sig wf_call wf_path.
