From Coq Require Import ZArith Extraction ExtrOcamlBasic.
From CyVerif Require Import Lib.CInt Model.M_LZSS.
Extraction "../ocaml/gen/m_lzss.ml" ex_keep compress decompress decompress_string tokenize pack
  expand lzss_emitted encode_match.
