From Coq Require Import ZArith Extraction ExtrOcamlBasic.
From CyVerif Require Import Lib.CInt Model.M_Prange Model.M_Range.
Extraction "../ocaml/gen/m_range.ml" ex_keep py_range py_reversed_range py_for range_loop
  reversed_loop_const reversed_loop_rt rev_bound1_const rev_bound1_rt fwd_safe rev_safe
  enum_body py_enumerate py_for_pairs log_body l0 plog_body.
