From Coq Require Import ZArith SpecFloat Extraction ExtrOcamlBasic.
From CyVerif Require Import Lib.CInt Model.M_FloatOps.
Extraction "../ocaml/gen/m_floatops.ml" ex_keep mod_node_x py_float_rem_x floordiv_node_x
  py_float_floor_div_x truediv_node fadd fsub fmul fdiv feqb fltb fleb fvalid fmod_exact floor_exact.
