From Coq Require Import NArith Extraction ExtrOcamlBasic.
From CyVerif Require Import Lib.CInt Model.M_StrLit.
Extraction "../ocaml/gen/m_strlit.ml" ex_keep lex_escape append_escape_sequence decode py_value visible
  big_octal encode_utf8 decode_utf8 uesc_encode unicode_escape_decode contains_surrogates
  index_width index_decl gen_table unpack_table compressions default_compression choose guard
  c_array_of gen_image init_data init_table run_module py_object id_codec lzss_compress.
