From Coq Require Import NArith Extraction ExtrOcamlBasic.
From CyVerif Require Import Lib.CInt Model.M_StrLit.
From CyVerif Require Model.M_LZSS Model.M_StrTab.
Extraction "../ocaml/gen/m_strlit.ml" ex_keep lex_escape append_escape_sequence decode py_value visible
  big_octal encode_utf8 decode_utf8 uesc_encode unicode_escape_decode contains_surrogates
  index_width index_decl gen_table unpack_table compressions default_compression choose guard
  c_array_of gen_image init_data init_table run_module py_object id_codec lzss_compress
  M_LZSS.tokenize M_LZSS.pack M_LZSS.decompress_string M_LZSS.encode_match
  M_StrTab.ref_fields M_StrTab.form_of M_StrTab.lzss_unpack M_StrTab.refs_of.
