From Coq Require Import NArith List Extraction ExtrOcamlBasic.
From CyVerif Require Import Lib.CInt Model.M_CacheKey.
Extraction "../ocaml/gen/m_cachekey.ml" ex_keep run_concrete serialise.
