From Coq Require Import Extraction ExtrOcamlBasic.
From CyVerif Require Import Lib.CInt Model.M_EvalOrder.
Extraction "../ocaml/gen/m_evalorder.ml" ex_keep run_stmt ref_run mk_flags.
