From Coq Require Import Extraction ExtrOcamlBasic.
From CyVerif Require Import Lib.CInt Model.M_CCallMap Model.M_EvalOrder.
Extraction "../ocaml/gen/m_evalorder.ml" ex_keep run_stmt ref_run mk_flags mk_flags8 stmt_rejected ccmap bsimple tsimple.
