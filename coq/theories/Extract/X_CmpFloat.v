From Coq Require Import ZArith Extraction ExtrOcamlBasic.
From CyVerif Require Import Lib.CInt Lib.PyLong Model.M_CmpInt Model.M_CmpFloat.
Extraction "../ocaml/gen/m_cmpfloat.ml" ex_keep f_lp64_312 f_lp64_311 f_lp64_noint f_llp64_noint f_ilp32_15
  zop fop zfop dop cmp_num cmp_floatint cmp_intfloat fbranch dbl_okb wfb value of_Z.
