From Coq Require Import ZArith Extraction ExtrOcamlBasic.
From CyVerif Require Import Lib.CInt Model.M_GlobalCache.
Extraction "../ocaml/gen/m_globalcache.ml" ex_keep run w0 nm_of.
