From Coq Require Import ZArith Extraction ExtrOcamlBasic.
From CyVerif Require Import Lib.CInt Model.M_ExcSpec Model.M_ExcTest.
Extraction "../ocaml/gen/m_excspec.ml" ex_keep normalise observe_via observe documented exc_compatible
  wf_specb val_okb c_test propagates cpp_map
  ceval eq_test emitted stored fires site_spec fn_spec observe_value float_test float_stored.
