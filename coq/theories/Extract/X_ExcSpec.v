From Coq Require Import ZArith Extraction ExtrOcamlBasic.
From CyVerif Require Import Lib.CInt Model.M_ExcSpec.
Extraction "../ocaml/gen/m_excspec.ml" ex_keep normalise observe_via observe documented exc_compatible
  wf_specb val_okb c_test propagates cpp_map.
