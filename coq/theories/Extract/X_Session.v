From Coq Require Import Extraction ExtrOcamlBasic.
From CyVerif Require Import Lib.CInt Model.M_Session.
Extraction "../ocaml/gen/m_session.ml" ex_keep session isolated after.
