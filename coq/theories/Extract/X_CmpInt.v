From Coq Require Import ZArith Extraction ExtrOcamlBasic.
From CyVerif Require Import Lib.CInt Lib.PyLong Model.M_CmpInt.
Extraction "../ocaml/gen/m_cmpint.ml" ex_keep lp64_312 lp64_311 lp64_noint ilp32_15
  zop cmp_intint cmp_exact cmp_values branch_values digits_values tag of_Z
  wfb value branch_of loop_iters.
