From Coq Require Import List Bool Extraction ExtrOcamlBasic.
From CyVerif Require Import Lib.CInt Model.M_CallArgs.
Extraction "../ocaml/gen/m_callargs.ml" ex_keep parse_args accepts py_valid_b.
