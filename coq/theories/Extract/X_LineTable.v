From Coq Require Import ZArith Extraction ExtrOcamlBasic.
From CyVerif Require Import Lib.CInt Model.M_LineTable.
Extraction "../ocaml/gen/m_linetable.ml" ex_keep build_line_table encode_single encode_varint
  decode_positions decode_lines advance_with_locations advance.
