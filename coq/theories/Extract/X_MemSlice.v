From Coq Require Import ZArith Extraction ExtrOcamlBasic.
From CyVerif Require Import Lib.CInt Model.M_MemSlice.
Extraction "../ocaml/gen/m_memslice.ml" ex_keep slice_dim index_dim slice_triple simple_slice
  slice_intermediates py_slice_indices py_slice_ssize py_index unellipsify slice_nd getitem_nd
  elem_offset base_index fixes_none fixes_all.
