From Coq Require Import ZArith Extraction ExtrOcamlBasic.
From CyVerif Require Import Lib.CInt Model.M_Prange.
Extraction "../ocaml/gen/m_prange.ml" ex_keep nsteps prange_values py_range py_range_len run finish.
