From Coq Require Import NArith Extraction ExtrOcamlBasic.
From CyVerif Require Import Lib.CInt Model.M_Strip.
Extraction "../ocaml/gen/m_strip.ml" ex_keep strip ref_classify.
