From Coq Require Import ZArith Extraction ExtrOcamlBasic.
From CyVerif Require Import Lib.CInt Lib.PyLong Model.M_CIntConv.
Extraction "../ocaml/gen/m_cintconv.ml" ex_keep from_py to_py roundtrip observe from_py_obj
  pyindex_as_ssize_t pylong_as_ssize_t bint_from_py of_Z value wfb ndigits
  lp64_internals lp64_nointernals lp64_limited wrap in_rangeb.
