From Coq Require Import Extraction ExtrOcamlBasic.
From CyVerif Require Import Lib.CInt Model.M_ArgList.
Extraction "../ocaml/gen/m_arglist.ml" ex_keep fmt_arglist canon read_sig fmt_of fmt_of_self.
