From Coq Require Import ZArith Extraction ExtrOcamlBasic.
From CyVerif Require Import Lib.CInt Model.M_Unpack.
Extraction "../ocaml/gen/m_unpack.ml" ex_keep cy_assign ref_assign cy_items_assign cy_star_g cy_unpack ref_unpack cy_tuple2.
