From Coq Require Import ZArith Extraction ExtrOcamlBasic.
From CyVerif Require Import Lib.CInt Lib.MiniPy Model.M_Closure.
Extraction "../ocaml/gen/m_closure.ml" ex_keep run_cells run_scopes.
