From Coq Require Import NArith ZArith Extraction ExtrOcamlBasic.
From CyVerif Require Import Lib.CInt Model.M_Dataclass.
Extraction "../ocaml/gen/m_dataclass.ml" ex_keep cy_decide py_decide cy_order py_order cy_equal py_equal
  oz_ident oz_rel nv_ident nv_eqv.
