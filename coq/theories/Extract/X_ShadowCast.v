From Coq Require Import ZArith Extraction ExtrOcamlBasic.
From CyVerif Require Import Lib.CInt Model.M_ShadowCast.
Extraction "../ocaml/gen/m_shadowcast.ml" ex_keep cast declare wrapn base c_trunc py_trunc round_to_double.
