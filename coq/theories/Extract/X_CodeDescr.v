From Coq Require Import ZArith Extraction ExtrOcamlBasic.
From CyVerif Require Import Lib.CInt Model.M_CodeDescr.
Extraction "../ocaml/gen/m_codedescr.ml" ex_keep wf_src emitted widths store fields pack unpack
  code_of compiled_sig source_sig survives skip_genexpr skip_generators skip_none
  defaults_of kwdefaults_of varnames flags_of bitlen.
