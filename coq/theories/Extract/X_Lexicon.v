From Coq Require Import ZArith List Bool Extraction ExtrOcamlBasic.
From CyVerif Require Import Lib.CInt Model.M_Plex Model.M_Lexicon.
Import ListNotations.
Open Scope Z_scope.
(* the rules as closed regular-expression data (evaluated here so that Coq's string type, used only
   to write character sets readably in the model, is not extracted) *)
Definition x_lex_int : ere := Eval vm_compute in lex_int.
Definition x_lex_float : ere := Eval vm_compute in lex_float.
Definition x_lex_imag_old : ere := Eval vm_compute in lex_imag false.
Definition x_lex_imag_new : ere := Eval vm_compute in lex_imag true.
Definition x_py_integer : ere := Eval vm_compute in py_integer.
Definition x_py_float : ere := Eval vm_compute in py_floatnumber.
Definition x_py_imag : ere := Eval vm_compute in py_imagnumber.
Definition x_lex_strbegin : ere := Eval vm_compute in lex_strbegin.
Definition x_py_strbegin : ere := Eval vm_compute in py_strbegin.
(* 1 INT, 2 FLOAT, 3 IMAG, 0 not one number token (rule order of the lexicon) *)
Definition x_token_kind (fixed : bool) (t : list Z) : Z :=
  let w := map EvChar t in
  if n_matches x_lex_int w then 1 else if n_matches x_lex_float w then 2
  else if n_matches (if fixed then x_lex_imag_new else x_lex_imag_old) w then 3 else 0.
Definition x_py_kind (t : list Z) : Z :=
  let w := map EvChar t in
  if n_matches x_py_integer w then 1 else if n_matches x_py_float w then 2
  else if n_matches x_py_imag w then 3 else 0.
Definition x_strbegin (t : list Z) : bool * bool :=
  let w := map EvChar t in (n_matches x_lex_strbegin w, n_matches x_py_strbegin w).
Definition x_lex_text : ere := Eval vm_compute in lex_text.
Definition x_lex_number (fixed : bool) : ere := EAlt x_lex_int (EAlt x_lex_float (if fixed then x_lex_imag_new else x_lex_imag_old)).
(* longest-match scan of a run of n dots with the evaluated rules (same function as M_Lexicon.scan_dots) *)
Fixpoint x_scan_dots (fuel : nat) (fixed : bool) (n : nat) : list nat :=
  match fuel, n with
  | O, _ | _, O => []
  | S f, _ => let k := longest x_lex_text (dots n) in
              if (0 <? longest (x_lex_number fixed) (dots n))%nat then [] else
              match k with O => [] | _ => k :: x_scan_dots f fixed (n - k) end
  end.
Extraction "../ocaml/gen/m_lexicon.ml" ex_keep x_token_kind x_py_kind x_strbegin decode_int_token
  int_token_outcome int_token_value x_scan_dots dot_tokens import_level.
