From Coq Require Import ZArith Extraction ExtrOcamlBasic.
From CyVerif Require Import Lib.CInt Model.M_Fused Model.M_FusedArgs.
Extraction "../ocaml/gen/m_fused.ml" ex_keep pysort ty_lt split_fused map_fused dispatch_cy call_cy
  doc_choice doc_call getitem all_sigs
  plans run_plan fetch_all bind_py wf_sig hazard_free decl_of call2_cy doc_call2 call_index defaults_tuple.
