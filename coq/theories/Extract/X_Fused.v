From Coq Require Import ZArith Extraction ExtrOcamlBasic.
From CyVerif Require Import Lib.CInt Model.M_Fused.
Extraction "../ocaml/gen/m_fused.ml" ex_keep pysort ty_lt split_fused map_fused dispatch_cy call_cy
  doc_choice doc_call getitem all_sigs.
