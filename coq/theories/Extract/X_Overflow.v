From Coq Require Import ZArith Extraction ExtrOcamlBasic.
From CyVerif Require Import Lib.CInt Model.M_CMath Model.M_Overflow.
Extraction "../ocaml/gen/m_overflow.ml" ex_keep wrap in_rangeb helper binop_node neg_node abs_node
  spurious binop_dispatch sdiv_helper udiv_helper lshift_ub_free smul_ub_free sadd_ub_free ssub_ub_free
  annotate consolidate run_top ref_eval env_of_list div_node pyx_min pyx_max
  typedef_node dispatch_choice binop_dispatch_v lshift_td nogil_node.
