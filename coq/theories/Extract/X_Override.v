From Coq Require Import ZArith Extraction ExtrOcamlBasic.
From CyVerif Require Import Lib.CInt Model.M_Override Model.M_VTable.
Extraction "../ocaml/gen/m_override.ml" ex_keep run_cy run_py w0 p0 prefilter vslot wf_hier no_ext_def leaf_op
  build split_at vt_call vt_ref wf_chain wf_vt vrun_cy vrun_py chain_of ext_base.
