From Coq Require Import ZArith Extraction ExtrOcamlBasic.
From CyVerif Require Import Lib.CInt Model.M_Override.
Extraction "../ocaml/gen/m_override.ml" ex_keep run_cy run_py w0 p0 prefilter vslot wf_hier no_ext_def leaf_op.
