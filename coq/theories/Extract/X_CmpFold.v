From Coq Require Import ZArith Extraction ExtrOcamlBasic.
From CyVerif Require Import Lib.CInt Model.M_Cmp Model.M_CmpFold Model.M_CmpNot.
Extraction "../ocaml/gen/m_cmpfold.ml" ex_keep fold run_fold ref_cascade plain obs status
  handle_not run_not ref_not.
