From Coq Require Import ZArith Extraction ExtrOcamlBasic.
From CyVerif Require Import Lib.CInt Model.M_IntPow Model.M_PowDoc.
Extraction "../ocaml/gen/m_intpow.ml" ex_keep int_pow int_pow_ck pow2 pow2_value wrap in_rangeb
  pow_type pow_coerced doc_coerced deliver doc_allows.
