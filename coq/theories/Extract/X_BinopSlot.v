From Coq Require Import Extraction ExtrOcamlBasic.
From CyVerif Require Import Lib.CInt Model.M_BinopSlot.
Extraction "../ocaml/gen/m_binopslot.ml" ex_keep run run_capi exc_same_type exc_multi_slot sq_concat_applies rc_run.
