From Coq Require Import ZArith Extraction ExtrOcamlBasic.
From CyVerif Require Import Lib.CInt Model.M_AsDouble.
Extraction "../ocaml/gen/m_asdouble.ml" ex_keep scan_bytes scan_str py_scan_bytes py_scan_str
  infnan_spelling us_ok remove_us.
