From Coq Require Import ZArith Extraction ExtrOcamlBasic.
From CyVerif Require Import Lib.CInt Model.M_Pickle.
Extraction "../ocaml/gen/m_pickle.ml" ex_keep all_members all_names decide decide_walk_n compile_error
  effective_reduce effective_setstate accepted new_obj reduce unpickle set_state load load_into get.
