(* Proofs about Model/M_Freelist.v *)
From Coq Require Import ZArith List Bool Lia ZifyBool.
From CyVerif Require Import Model.M_Freelist.
Import ListNotations.
Open Scope Z_scope.

Lemma sget_sset_eq : forall s j v, sget (sset s j v) j = v.
Proof.
  intros s j. revert s. induction j as [|j IH]; intros [|x r] v; try reflexivity.
  - exact (IH [] v).
  - exact (IH r v).
Qed.

(* ---- with the memset, a new object does not depend on the freelist *)
Lemma alloc_memset_fst : forall c t fl, c_memset c = true -> fst (alloc c t fl) = new_blk (c_nc c) (c_no c).
Proof.
  intros c t fl Hm. unfold alloc, alloc_raw. rewrite Hm.
  destruct (eligible c t); [destruct fl as [|b fl']|]; reflexivity.
Qed.

Lemma step_memset : forall c fl s o, c_memset c = true ->
  let '(_, s1, ob) := step c fl s o in step_ref (c_nc c) (c_no c) s o = (s1, ob).
Proof.
  intros c fl s o Hm. destruct o as [i t|i f v|i f v|i|i]; cbn [step step_ref].
  - pose proof (alloc_memset_fst c t fl Hm) as Ha. destruct (alloc c t fl) as [b fl1]. cbn in Ha. subst b. reflexivity.
  - destruct (sget s i) as [[t b]|]; reflexivity.
  - destruct (sget s i) as [[t b]|]; reflexivity.
  - reflexivity.
  - reflexivity.
Qed.

(* MAIN: the observations of every program are those of the specification (fresh zero / None objects),
   whatever the freelist holds, whether freelists are enabled, with or without type specs, for every
   freelist size *)
Theorem memset_trace_eq_ref : forall c fl s p, c_memset c = true ->
  trace c fl s p = trace_ref (c_nc c) (c_no c) s p.
Proof.
  intros c fl s p Hm. unfold trace. revert fl s.
  induction p as [|o r IH]; intros fl s; [reflexivity|].
  cbn [run trace_ref].
  pose proof (step_memset c fl s o Hm) as Hs.
  destruct (step c fl s o) as [[fl1 s1] ob]. rewrite Hs.
  specialize (IH fl1 s1). destruct (run c fl1 s1 r) as [tr flz]. cbn [fst] in *.
  destruct ob; rewrite IH; reflexivity.
Qed.

(* the property: two build configurations (freelists on / off, type specs on / off, any freelist
   contents and capacities) of the same class give the same observations *)
Theorem memset_config_independent : forall c1 c2 fl1 fl2 s p,
  c_memset c1 = true -> c_memset c2 = true -> c_nc c1 = c_nc c2 -> c_no c1 = c_no c2 ->
  trace c1 fl1 s p = trace c2 fl2 s p.
Proof.
  intros c1 c2 fl1 fl2 s p H1 H2 Hc Ho.
  rewrite (memset_trace_eq_ref c1 fl1 s p H1), (memset_trace_eq_ref c2 fl2 s p H2), Hc, Ho. reflexivity.
Qed.

(* in particular the first observation of a new object is zero / None *)
Corollary memset_new_object_default : forall c fl s i t,
  c_memset c = true -> trace c fl s [ONew i t; OGet i] = [Some (new_blk (c_nc c) (c_no c))].
Proof.
  intros c fl s i t Hm. rewrite (memset_trace_eq_ref c fl s _ Hm). cbn [trace_ref step_ref].
  rewrite sget_sset_eq. reflexivity.
Qed.

(* ---- without the memset the configurations are distinguishable *)
Theorem nomemset_config_dependent_refuted :
  exists p, trace (mk_cfg true false false 4 1 0) [] [] p <> trace (mk_cfg false false false 4 1 0) [] [] p.
Proof. exists witness_prog. vm_compute. discriminate. Qed.

(* ... and the new object is not the default one *)
Theorem nomemset_new_object_stale_refuted :
  exists fl, trace (mk_cfg true false false 4 1 0) fl [] [ONew 0 TExact; OGet 0]
             <> [Some (new_blk 1 0)].
Proof. exists [{| b_c := [5]; b_o := [] |}]. vm_compute. discriminate. Qed.

(* ---- the object attributes are default in BOTH variants (the initialisation function sets them):
   only C-typed attributes can show the difference *)
Definition same_o (x y : option (tclass * blk)) : Prop :=
  match x, y with
  | None, None => True
  | Some (t1, b1), Some (t2, b2) => t1 = t2 /\ b_o b1 = b_o b2
  | _, _ => False
  end.

Definition store_rel (s1 s2 : store) : Prop := forall i, same_o (sget s1 i) (sget s2 i).

Lemma sget_nil : forall i, sget [] i = None.
Proof. intros [|i]; reflexivity. Qed.

Lemma sget_sset_neq : forall s j i v, i <> j -> sget (sset s j v) i = sget s i.
Proof.
  intros s j. revert s. induction j as [|j IH]; intros [|x r] i v Hne; destruct i as [|i]; try congruence; try reflexivity.
  - destruct i; reflexivity.
  - change (sget (sset [] j v) i = None). rewrite (IH [] i v) by congruence. apply sget_nil.
  - change (sget (sset r j v) i = sget r i). apply IH. congruence.
Qed.

Lemma store_rel_set : forall s1 s2 j v1 v2, store_rel s1 s2 -> same_o v1 v2 ->
  store_rel (sset s1 j v1) (sset s2 j v2).
Proof.
  intros s1 s2 j v1 v2 Hr Hv i. destruct (Nat.eq_dec i j) as [->|Hne].
  - rewrite !sget_sset_eq. exact Hv.
  - rewrite !sget_sset_neq by exact Hne. apply Hr.
Qed.

Lemma alloc_o : forall c t fl, b_o (fst (alloc c t fl)) = repeat 1 (c_no c).
Proof.
  intros c t fl. unfold alloc. destruct (alloc_raw c t fl) as [b fl']. reflexivity.
Qed.

Lemma step_obj : forall c fl s1 s2 o, store_rel s1 s2 ->
  let '(_, s1', ob1) := step c fl s1 o in
  let '(s2', ob2) := step_ref (c_nc c) (c_no c) s2 o in
  store_rel s1' s2' /\ option_map (option_map b_o) ob1 = option_map (option_map b_o) ob2.
Proof.
  intros c fl s1 s2 o Hr. destruct o as [i t|i f v|i f v|i|i]; cbn [step step_ref].
  - pose proof (alloc_o c t fl) as Ha. destruct (alloc c t fl) as [b fl1]. cbn [fst] in Ha. split; [|reflexivity].
    apply store_rel_set; [exact Hr|]. cbn. split; [reflexivity|]. exact Ha.
  - pose proof (Hr i) as Hi. destruct (sget s1 i) as [[t1 b1]|], (sget s2 i) as [[t2 b2]|]; cbn in Hi; try contradiction.
    + split; [|reflexivity]. apply store_rel_set; [exact Hr|]. cbn. exact Hi.
    + split; [exact Hr|reflexivity].
  - pose proof (Hr i) as Hi. destruct (sget s1 i) as [[t1 b1]|], (sget s2 i) as [[t2 b2]|]; cbn in Hi; try contradiction.
    + split; [|reflexivity]. apply store_rel_set; [exact Hr|]. cbn. destruct Hi as [-> ->]. split; reflexivity.
    + split; [exact Hr|reflexivity].
  - split; [|reflexivity]. apply store_rel_set; [exact Hr|]. exact I.
  - split; [exact Hr|]. pose proof (Hr i) as Hi.
    destruct (sget s1 i) as [[t1 b1]|], (sget s2 i) as [[t2 b2]|]; cbn in Hi; try contradiction; cbn.
    + destruct Hi as [_ ->]. reflexivity.
    + reflexivity.
Qed.

Theorem any_variant_object_attributes_default : forall c fl s p,
  obj_part (trace c fl s p) = obj_part (trace_ref (c_nc c) (c_no c) s p).
Proof.
  intros c fl s p. unfold trace.
  assert (G : forall fl s1 s2, store_rel s1 s2 ->
              obj_part (fst (run c fl s1 p)) = obj_part (trace_ref (c_nc c) (c_no c) s2 p)).
  { induction p as [|o r IH]; intros fl0 s1 s2 Hr; [reflexivity|].
    cbn [run trace_ref].
    pose proof (step_obj c fl0 s1 s2 o Hr) as Hs.
    destruct (step c fl0 s1 o) as [[fl1 s1'] ob1].
    destruct (step_ref (c_nc c) (c_no c) s2 o) as [s2' ob2].
    destruct Hs as [Hr' Hob].
    specialize (IH fl1 s1' s2' Hr'). destruct (run c fl1 s1' r) as [tr flz]. cbn [fst] in *.
    destruct ob1 as [x1|], ob2 as [x2|]; cbn in Hob; try discriminate.
    - unfold obj_part in *. cbn [map]. rewrite IH. injection Hob as Hob. rewrite Hob. reflexivity.
    - exact IH. }
  apply G. intro i. destruct (sget s i) as [[t b]|]; cbn; auto.
Qed.

(* ---- the freelist index stays inside the array: freecount <= N (when it starts there) *)
Lemma dealloc_len : forall c t b fl, (length fl <= c_cap c)%nat -> (length (dealloc c t b fl) <= c_cap c)%nat.
Proof.
  intros c t b fl H. unfold dealloc.
  destruct (eligible c t); cbn [andb]; [|exact H].
  destruct (Nat.ltb_spec (length fl) (c_cap c)); cbn [length]; lia.
Qed.

Lemma alloc_len : forall c t fl, (length (snd (alloc c t fl)) <= length fl)%nat.
Proof.
  intros c t fl. unfold alloc, alloc_raw.
  destruct (eligible c t); [destruct fl as [|b fl']|]; cbn; lia.
Qed.

Theorem freecount_bounded : forall c fl s p, (length fl <= c_cap c)%nat ->
  (length (final_freelist c fl s p) <= c_cap c)%nat.
Proof.
  intros c fl s p. unfold final_freelist. revert fl s.
  induction p as [|o r IH]; intros fl s H; [exact H|].
  cbn [run].
  assert (Hs : (length (fst (fst (step c fl s o))) <= c_cap c)%nat).
  { destruct o as [i t|i f v|i f v|i|i]; cbn [step].
    - pose proof (alloc_len c t fl) as Ha. destruct (alloc c t fl) as [b fl1]. cbn [fst snd] in *.
      unfold release. destruct (sget s i) as [[t0 b0]|]; [apply dealloc_len|]; lia.
    - destruct (sget s i) as [[t b]|]; exact H.
    - destruct (sget s i) as [[t b]|]; exact H.
    - cbn [fst]. unfold release. destruct (sget s i) as [[t0 b0]|]; [apply dealloc_len|]; exact H.
    - exact H. }
  destruct (step c fl s o) as [[fl1 s1] ob]. cbn [fst] in Hs.
  specialize (IH fl1 s1 Hs). destruct (run c fl1 s1 r) as [tr flz]. exact IH.
Qed.
