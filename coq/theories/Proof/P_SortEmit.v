From Coq Require Import ZArith List Bool Lia Permutation Sorted.
From CyVerif Require Import Model.M_SortEmit.
Import ListNotations.
Open Scope Z_scope.

Section Emit.
  Context {A : Type} (key : A -> Z).
  Definition kle (a b : A) : Prop := key a <= key b.

  Lemma insert_perm x l : Permutation (insert key x l) (x :: l).
  Proof.
    induction l as [|y r IH]; cbn; [reflexivity|].
    destruct (key x <=? key y); [reflexivity|].
    rewrite IH. apply perm_swap.
  Qed.

  Lemma isort_perm l : Permutation (isort key l) l.
  Proof. induction l as [|x r IH]; cbn; [reflexivity|]. rewrite insert_perm. now apply perm_skip. Qed.

  Lemma insert_sorted x l : StronglySorted kle l -> StronglySorted kle (insert key x l).
  Proof.
    induction 1 as [|y r Hs IH Hall]; cbn; [repeat constructor|].
    destruct (Z.leb_spec (key x) (key y)) as [Hle|Hgt].
    - constructor; [constructor; assumption|]. constructor; [exact Hle|].
      eapply Forall_impl; [|exact Hall]. intros z Hz. unfold kle in *. lia.
    - constructor; [exact IH|].
      eapply Permutation_Forall; [apply Permutation_sym, insert_perm|].
      constructor; [unfold kle; lia|exact Hall].
  Qed.

  Lemma isort_sorted l : StronglySorted kle (isort key l).
  Proof. induction l as [|x r IH]; cbn; [constructor|]. now apply insert_sorted. Qed.

  (* a strongly sorted list with pairwise distinct keys is determined by its set of elements *)
  Lemma sorted_perm_unique l1 : forall l2,
    StronglySorted kle l1 -> StronglySorted kle l2 -> NoDup (map key l1) ->
    Permutation l1 l2 -> l1 = l2.
  Proof.
    induction l1 as [|x r1 IH]; intros l2 S1 S2 Hnd Hp.
    - apply Permutation_nil in Hp. now subst.
    - destruct l2 as [|y r2]; [apply Permutation_sym, Permutation_nil in Hp; discriminate|].
      inversion S1 as [|? ? S1' F1]; subst. inversion S2 as [|? ? S2' F2]; subst.
      inversion Hnd as [|? ? Hnotin Hnd']; subst.
      assert (Hxy : x = y).
      { assert (Hx : In x (y :: r2)) by (eapply Permutation_in; [exact Hp|now left]).
        assert (Hy : In y (x :: r1)) by (eapply Permutation_in; [apply Permutation_sym; exact Hp|now left]).
        destruct Hx as [->|Hx]; [reflexivity|]. destruct Hy as [->|Hy]; [reflexivity|].
        rewrite Forall_forall in F1, F2. specialize (F1 _ Hy). specialize (F2 _ Hx). unfold kle in *.
        assert (E : key x = key y) by lia.
        exfalso. apply Hnotin. rewrite E. now apply in_map. }
      subst y. f_equal. apply IH; try assumption. now apply Permutation_cons_inv in Hp.
  Qed.

  (* emission after sorting does not depend on the collection order *)
  Theorem sorted_emission_perm_invariant {T} (text : A -> T) l1 l2 :
    NoDup (map key l1) -> Permutation l1 l2 -> emit key text l1 = emit key text l2.
  Proof.
    intros Hnd Hp. unfold emit. f_equal.
    apply sorted_perm_unique; try apply isort_sorted.
    - eapply Permutation_NoDup; [|exact Hnd]. apply Permutation_map, Permutation_sym, isort_perm.
    - rewrite isort_perm, Hp. apply Permutation_sym, isort_perm.
  Qed.

  (* nothing is lost or duplicated by the ordering step *)
  Theorem emission_complete {T} (text : A -> T) l : Permutation (emit key text l) (map text l).
  Proof. unfold emit. apply Permutation_map, isort_perm. Qed.
End Emit.

(* without unique keys the claim fails: ties keep collection order (list.sort is stable) *)
Theorem tie_keeps_collection_order_refuted :
  exists (key : Z * Z -> Z) l1 l2, Permutation l1 l2 /\ emit key (fun c => c) l1 <> emit key (fun c => c) l2.
Proof.
  exists fst, [(1, 10); (1, 20)], [(1, 20); (1, 10)]. split; [apply perm_swap|].
  vm_compute. intros H. inversion H.
Qed.
