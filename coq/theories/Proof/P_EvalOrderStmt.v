(* P_EvalOrderStmt - C20, statements: (cascaded / unpacking) assignments and augmented assignments.
   The code of gen_stmt has the event trace, the leaf sequence and the final variables of ref_stmt. *)
From Coq Require Import List Bool Arith Lia.
From CyVerif Require Import Model.M_CCallMap Model.M_EvalOrder Proof.P_EvalOrder.
Import ListNotations.

Section StmtProofs.
Variable S : sem.
Variable F : flags.

(* machine state vs reference result, relative to the state the statement started in *)
Definition sim (st0 st : state) (sr : sres) : Prop :=
  mvars st = svars sr /\ trace st = trace st0 ++ sev sr /\ leaflog st = leaflog st0 ++ slf sr.

Lemma gen_val e n : eok F e = true ->
  let '(code, ro, n') := gen F CVal e n in
  n <= n' /\ opok ro n' /\
  forall st, exists st', let r := eval S (mvars st) MVal e in
    run S code st Normal = (st', Normal) /\ ext n None st st' (rev r) (rlf r) /\ getop st' ro = rv r.
Proof.
  intros H. pose proof (gen_correct S F e H CVal n I) as G.
  destruct (gen F CVal e n) as [[code ro] n']. destruct G as (A & L & O & Q & _ & R). auto.
Qed.

Lemma run_op c st t o args :
  run S (IOp t o args :: c) st Normal =
  run S c (set_temp st t (fst (opsem S o (map (getop st) args))) (snd (opsem S o (map (getop st) args)))) Normal.
Proof. simpl. destruct (opsem S o (map (getop st) args)). reflexivity. Qed.

Definition starget_ok (t : starget) : bool :=
  match t with TName _ => true | TStore _ es => forallb (eok F) es end.
Definition target_ok (t : target) : bool :=
  match t with TS t1 => starget_ok t1 | TTup l => forallb starget_ok l end.

(* ---------- one simple target ---------- *)
Lemma store1_ok t v n st0 st sr :
  sim st0 st sr -> opok v n -> starget_ok t = true ->
  let '(c, n') := gen_store1 F t v n in
  n <= n' /\ exists st', run S c st Normal = (st', Normal) /\
    sim st0 st' (ref_store1 S sr t (getop st v)) /\
    (forall u, u < n -> temps st' u = temps st u) /\
    getop st' v = getop st v /\
    (forall x, (forall y, t = TName y -> x <> y) -> mvars st' x = mvars st x).
Proof.
  intros (V & T & L) Ov Ok. destruct t as [x|o es]; simpl.
  - split; [lia|]. eexists. split; [reflexivity|]. simpl. split; [|split; [auto|split]].
    + unfold sim. simpl. rewrite V. auto.
    + destruct v; simpl; auto. unfold upd. destruct (Nat.eqb_spec x0 x); subst; auto.
    + intros y Hy. unfold upd. destruct (Nat.eqb_spec y x); auto. subst. exfalso. apply (Hy x); auto.
  - simpl in Ok. pose proof (gens_correct S F es n st Ok) as G.
    destruct (gens F es n) as [[code rs] n1]. destruct G as (A & O & st1 & B & C & D).
    split; [lia|].
    assert (Gv : getop st1 v = getop st v) by (eapply getop_ext_none; eauto).
    rewrite run_app, B, run_op.
    rewrite map_app, D. simpl map. rewrite Gv.
    eexists. split; [reflexivity|]. destruct C as (C1 & C2 & C3 & C4).
    unfold ref_store1. rewrite <- V.
    destruct (opsem S o (map rv (evals S (mvars st) es) ++ [getop st v])) as [w ev] eqn:E. simpl.
    split; [|split; [|split]].
    + unfold sim. simpl. split; [congruence|]. split.
      * rewrite C2, T, <- !app_assoc. reflexivity.
      * rewrite C3, L, <- !app_assoc. reflexivity.
    + intros u Hu. unfold upd. destruct (Nat.eqb_spec u n1); [lia|]. apply C4; [lia | discriminate].
    + destruct v; simpl in *; auto. unfold upd. destruct (Nat.eqb_spec t n1); [lia|].
      apply C4; [lia | discriminate].
    + intros x _. rewrite C1. reflexivity.
Qed.

(* ---------- the items of a tuple target ---------- *)
Lemma set_temps_spec : forall k f t0 vs,
  (forall u, u < t0 -> set_temps f t0 vs k u = f u) /\
  (forall i, i < k -> set_temps f t0 vs k (t0 + i) = nth i vs VNone).
Proof.
  induction k as [|k IH]; intros f t0 vs; simpl; [split; [auto | intros; lia]|].
  destruct (IH (upd f t0 (hd VNone vs)) (Datatypes.S t0) (tl vs)) as [A B]. split.
  - intros u Hu. rewrite A by lia. unfold upd. destruct (Nat.eqb_spec u t0); [lia | auto].
  - intros [|i] Hi.
    + rewrite Nat.add_0_r, A by lia. unfold upd. rewrite Nat.eqb_refl. destruct vs; reflexivity.
    + replace (t0 + Datatypes.S i) with (Datatypes.S t0 + i) by lia. rewrite B by lia.
      destruct vs; simpl; [destruct i; reflexivity | reflexivity].
Qed.

Lemma store_items_ok : forall ts t0 n vs st0 st sr,
  sim st0 st sr -> t0 + length ts <= n ->
  (forall i, i < length ts -> temps st (t0 + i) = nth i vs VNone) ->
  forallb starget_ok ts = true ->
  let '(c, n') := gen_store_items F ts t0 n in
  n <= n' /\ exists st', run S c st Normal = (st', Normal) /\
    sim st0 st' (ref_store_items S sr ts vs) /\
    (forall u, u < n -> temps st' u = temps st u) /\
    (forall x, (forall y, In (TName y) ts -> x <> y) -> mvars st' x = mvars st x).
Proof.
  induction ts as [|t ts IH]; intros t0 n vs st0 st sr Hs Hn Hv Ok; simpl.
  - split; [lia|]. exists st. auto.
  - simpl in Ok. apply andb_true_iff in Ok. destruct Ok as [Ok1 Ok2]. simpl in Hn.
    pose proof (store1_ok t (OTemp t0) n st0 st sr Hs ltac:(simpl; lia) Ok1) as H1.
    destruct (gen_store1 F t (OTemp t0) n) as [c1 n1]. destruct H1 as (A1 & st1 & B1 & C1 & D1 & _ & E1).
    assert (Hv1 : forall i, i < length ts -> temps st1 (Datatypes.S t0 + i) = nth i (tl vs) VNone).
    { intros i Hi. rewrite D1 by lia. replace (Datatypes.S t0 + i) with (t0 + Datatypes.S i) by lia.
      rewrite Hv by (simpl; lia). destruct vs; simpl; [destruct i; reflexivity | reflexivity]. }
    assert (H0 : getop st (OTemp t0) = hd VNone vs).
    { simpl. pose proof (Hv 0 ltac:(simpl; lia)) as X. rewrite Nat.add_0_r in X. rewrite X. destruct vs; reflexivity. }
    rewrite H0 in C1.
    pose proof (IH (Datatypes.S t0) n1 (tl vs) st0 st1 _ C1 ltac:(lia) Hv1 Ok2) as H2.
    destruct (gen_store_items F ts (Datatypes.S t0) n1) as [c2 n2]. destruct H2 as (A2 & st2 & B2 & C2 & D2 & E2).
    split; [lia|]. exists st2. rewrite run_app, B1. split; [exact B2|]. split; [exact C2|]. split.
    + intros u Hu. rewrite D2 by lia. apply D1. auto.
    + intros x Hx. rewrite E2 by (intros y Hy; apply Hx; right; auto).
      apply E1. intros y ->. apply Hx. left; auto.
Qed.

(* the value operand is not a variable that the tuple target assigns *)
Definition tsafe (v : operand) (t : target) : bool :=
  match v, t with
  | OVar x, TTup l => forallb (fun s => match s with TName y => negb (Nat.eqb x y) | _ => true end) l
  | _, _ => true
  end.

Lemma store_ok t v n st0 st sr :
  sim st0 st sr -> opok v n -> target_ok t = true -> tsafe v t = true ->
  let '(c, n') := gen_store F t v n in
  n <= n' /\ exists st', run S c st Normal = (st', Normal) /\
    sim st0 st' (ref_store S sr t (getop st v)) /\
    (forall u, u < n -> temps st' u = temps st u) /\ getop st' v = getop st v.
Proof.
  intros Hs Ov Ok Sf. destruct t as [t1|ts]; simpl.
  - pose proof (store1_ok t1 v n st0 st sr Hs Ov Ok) as H.
    destruct (gen_store1 F t1 v n) as [c n']. destruct H as (A & st' & B & C & D & E & _).
    split; [auto|]. exists st'. auto.
  - simpl in Ok. destruct Hs as (V & T & L).
    destruct (unpacksem S (length ts) (getop st v)) as [vs ev] eqn:U.
    set (st1 := {| temps := set_temps (temps st) n vs (length ts); mvars := mvars st;
                   trace := trace st ++ ev; leaflog := leaflog st |}).
    destruct (set_temps_spec (length ts) (temps st) n vs) as [P1 P2].
    assert (Hs1 : sim st0 st1 {| svars := svars sr; sev := sev sr ++ ev; slf := slf sr |}).
    { unfold sim. simpl. rewrite V, T, L, app_assoc. auto. }
    pose proof (store_items_ok ts n (n + length ts) vs st0 st1 _ Hs1 ltac:(lia) P2 Ok) as H.
    destruct (gen_store_items F ts n (n + length ts)) as [c n1]. destruct H as (A & st2 & B & C & D & E).
    split; [lia|]. exists st2. simpl run. rewrite U. fold st1. split; [exact B|]. split; [exact C|]. split.
    + intros u Hu. rewrite D by lia. simpl. apply P1. auto.
    + destruct v as [t|x|]; simpl in *; auto.
      * rewrite D by lia. apply P1. auto.
      * rewrite E; auto. intros y Hy Exy. subst y. rewrite forallb_forall in Sf.
        specialize (Sf _ Hy). simpl in Sf. rewrite Nat.eqb_refl in Sf. discriminate.
Qed.

Lemma stores_ok : forall ts v n st0 st sr,
  sim st0 st sr -> opok v n -> forallb target_ok ts = true -> forallb (tsafe v) ts = true ->
  let '(c, n') := gen_stores F ts v n in
  n <= n' /\ exists st', run S c st Normal = (st', Normal) /\ sim st0 st' (ref_stores S sr ts (getop st v)).
Proof.
  induction ts as [|t ts IH]; intros v n st0 st sr Hs Ov Ok Sf; simpl.
  - split; [lia|]. exists st. auto.
  - simpl in Ok, Sf. apply andb_true_iff in Ok. destruct Ok as [Ok1 Ok2].
    apply andb_true_iff in Sf. destruct Sf as [Sf1 Sf2].
    pose proof (store_ok t v n st0 st sr Hs Ov Ok1 Sf1) as H1.
    destruct (gen_store F t v n) as [c1 n1]. destruct H1 as (A1 & st1 & B1 & C1 & D1 & E1).
    pose proof (IH v n1 st0 st1 _ C1 ltac:(eapply opok_weak; eauto) Ok2 Sf2) as H2.
    destruct (gen_stores F ts v n1) as [c2 n2]. destruct H2 as (A2 & st2 & B2 & C2).
    split; [lia|]. exists st2. rewrite run_app, B1. split; [exact B2|]. rewrite E1 in C2. exact C2.
Qed.

(* ---------- assignment statements (targets left to right, every target once) ---------- *)
Theorem assign_correct ts rhs st :
  eok F rhs = true -> forallb target_ok ts = true ->
  (let '(_, v, _) := gen F CVal rhs 0 in forallb (tsafe v) ts = true) ->
  fx_cascade F = true \/ flattens ts rhs = None ->
  let '(code, _) := gen_stmt F (SAssign ts rhs) 0 in
  let r := ref_stmt S (mvars st) (SAssign ts rhs) in
  exists st', run S code st Normal = (st', Normal) /\
    mvars st' = svars r /\ trace st' = trace st ++ sev r /\ leaflog st' = leaflog st ++ slf r.
Proof.
  intros Ok Okt Sf Hf. simpl gen_stmt.
  assert (E : (if fx_cascade F then None else flattens ts rhs) = None).
  { destruct Hf as [->| ->]; [reflexivity | destruct (fx_cascade F); reflexivity]. }
  rewrite E. pose proof (gen_val rhs 0 Ok) as G.
  destruct (gen F CVal rhs 0) as [[c1 v] n1]. destruct G as (A & Ov & R).
  destruct (R st) as (st1 & B1 & (C1 & C2 & C3 & C4) & D1).
  assert (Hs : sim st st1 {| svars := mvars st; sev := rev (eval S (mvars st) MVal rhs);
                            slf := rlf (eval S (mvars st) MVal rhs) |}) by (unfold sim; simpl; auto).
  pose proof (stores_ok ts v n1 st st1 _ Hs Ov Okt Sf) as H.
  destruct (gen_stores F ts v n1) as [c2 n2]. destruct H as (A2 & st2 & B2 & C).
  exists st2. rewrite run_app, B1. split; [exact B2|]. simpl ref_stmt. rewrite <- D1. exact C.
Qed.

(* ---------- augmented assignment ---------- *)
Definition rval (st : state) (r : rexpr) : val :=
  match r with RVar x => mvars st x | RTemp t => temps st t | _ => VNone end.
Definition rsimple (r : rexpr) (n : nat) : Prop :=
  match r with RVar _ => True | RTemp t => t < n | _ => False end.
Definition rop (r : rexpr) : operand :=
  match r with RVar x => OVar x | RTemp t => OTemp t | _ => ONoneC end.

Lemma gen_rexpr_simple r n k : rsimple r n -> gen_rexpr r k = ([], rop r, k).
Proof. destruct r; simpl; intros H; try contradiction; reflexivity. Qed.

Lemma rop_val st r n : rsimple r n -> getop st (rop r) = rval st r.
Proof. destruct r; simpl; intros H; try contradiction; reflexivity. Qed.

Lemma rop_ok r n : rsimple r n -> opok (rop r) n.
Proof. destruct r; simpl; auto. Qed.

Lemma rval_ext r n st st' e l : rsimple r n -> ext n None st st' e l -> rval st' r = rval st r.
Proof.
  intros H (A & _ & _ & D). destruct r; simpl in *; try contradiction; [congruence|].
  apply D; [auto | discriminate].
Qed.

Lemma rsimple_weak r n n' : rsimple r n -> n <= n' -> rsimple r n'.
Proof. destruct r; simpl; auto. lia. Qed.

Lemma let_temp_ok e n : eok F e = true ->
  let '(c, r, n1) := let_temp F e n in
  n <= n1 /\ rsimple r n1 /\
  forall st, exists st', let rr := eval S (mvars st) MVal e in
    run S c st Normal = (st', Normal) /\ ext n None st st' (rev rr) (rlf rr) /\ rval st' r = rv rr.
Proof.
  intros Ok. unfold let_temp. pose proof (gen_val e n Ok) as G.
  destruct (gen F CVal e n) as [[c ro] n1]. destruct G as (A & Ov & R).
  destruct ro as [t|x|].
  - split; [auto|]. split; [exact Ov|]. intros st. destruct (R st) as (st' & B & C & D). exists st'. auto.
  - split; [lia|]. split; [simpl; lia|]. intros st. destruct (R st) as (st1 & B & C & D).
    eexists. rewrite run_app, B. split; [reflexivity|]. split.
    + eapply ext_step0; [exact C | apply ext_set; left; apply le_n | auto].
    + simpl. unfold upd. rewrite Nat.eqb_refl. exact D.
  - split; [lia|]. split; [simpl; lia|]. intros st. destruct (R st) as (st1 & B & C & D).
    eexists. rewrite run_app, B. split; [reflexivity|]. split.
    + eapply ext_step0; [exact C | apply ext_set; left; apply le_n | auto].
    + simpl. unfold upd. rewrite Nat.eqb_refl. exact D.
Qed.

Lemma sefr_false_eq e n :
  sefr F false e n = match e with EName x => ([], RVar x, n) | _ => let_temp F e n end.
Proof.
  destruct e; try reflexivity. destruct o; try reflexivity;
    destruct es as [|? [|? [|? ?]]]; reflexivity.
Qed.

Lemma sefr_false_ok e n : eok F e = true ->
  let '(c, r, n1) := sefr F false e n in
  n <= n1 /\ rsimple r n1 /\
  forall st, exists st', let rr := eval S (mvars st) MVal e in
    run S c st Normal = (st', Normal) /\ ext n None st st' (rev rr) (rlf rr) /\ rval st' r = rv rr.
Proof.
  intros Ok. rewrite sefr_false_eq.
  destruct e; try (apply let_temp_ok; exact Ok).
  split; [lia|]. split; [exact I|]. intros st. exists st. simpl.
  split; [reflexivity|]. split; [apply ext_refl | reflexivity].
Qed.

Definition aug_ok (lhs rhs : expr) : bool :=
  match lhs with
  | EName _ => eok F rhs
  | EOp OGetItem [b; i] => eok F b && eok F i && eok F rhs
  | EOp (OGetAttr _) [o] => fx_inplace F && eok F o && eok F rhs
  | _ => false
  end.

Lemma ext_vars n st st' e l : ext n None st st' e l -> mvars st' = mvars st.
Proof. intros (A & _). exact A. Qed.

Lemma ext_set_temp n st t v ev : n <= t -> ext n None st (set_temp st t v ev) ev [].
Proof. intros H. apply ext_set. left. exact H. Qed.

Theorem aug_correct lhs iop rhs st :
  aug_ok lhs rhs = true ->
  let '(code, _) := gen_stmt F (SAug lhs iop rhs) 0 in
  let r := ref_stmt S (mvars st) (SAug lhs iop rhs) in
  exists st', run S code st Normal = (st', Normal) /\
    mvars st' = svars r /\ trace st' = trace st ++ sev r /\ leaflog st' = leaflog st ++ slf r.
Proof.
  intros Ok. destruct lhs as [| x | | o es | | | | | | | |]; try discriminate.
  - (* x op= rhs *)
    simpl in Ok. simpl gen_stmt. pose proof (gen_val rhs 0 Ok) as G.
    destruct (gen F CVal rhs 0) as [[c1 v] n1]. destruct G as (A & Ov & R).
    destruct (R st) as (st1 & B1 & (C1 & C2 & C3 & C4) & D1).
    rewrite run_app, B1, run_op. simpl map. rewrite D1, C1. simpl ref_stmt.
    destruct (opsem S iop [mvars st x; rv (eval S (mvars st) MVal rhs)]) as [w ev]. simpl.
    eexists. split; [reflexivity|]. simpl. unfold upd at 2. rewrite Nat.eqb_refl.
    rewrite C1, C2, C3, <- !app_assoc. auto.
  - destruct o; try discriminate.
    + (* b[i] op= rhs *)
      destruct es as [|b [|i [|? ?]]]; try discriminate. simpl in Ok.
      apply andb_true_iff in Ok. destruct Ok as [Ok Okr]. apply andb_true_iff in Ok. destruct Ok as [Okb Oki].
      unfold gen_stmt. cbn [sefr].
      pose proof (sefr_false_ok b 0 Okb) as Hb. destruct (sefr F false b 0) as [[cb rb] n1].
      destruct Hb as (Ab & Sb & Rb).
      pose proof (let_temp_ok i n1 Oki) as Hi. destruct (let_temp F i n1) as [[ci ri] n2].
      destruct Hi as (Ai & Si & Ri).
      assert (Sb2 : rsimple rb n2) by (eapply rsimple_weak; eauto).
      cbn [gen_rexpr]. rewrite (gen_rexpr_simple rb n2 n2 Sb2), (gen_rexpr_simple ri n2 n2 Si).
      pose proof (gen_val rhs (Datatypes.S n2) Okr) as Hr.
      destruct (gen F CVal rhs (Datatypes.S n2)) as [[cr r] n3]. destruct Hr as (Ar & Or & Rr).
      rewrite (gen_rexpr_simple rb n2 _ Sb2), (gen_rexpr_simple ri n2 _ Si).
      destruct (Rb st) as (st1 & B1 & C1 & D1).
      pose proof (ext_vars _ _ _ _ _ C1) as V1.
      destruct (Ri st1) as (st2 & B2 & C2 & D2). rewrite V1 in C2, D2. simpl in C2, D2.
      pose proof (ext_vars _ _ _ _ _ C2) as V2. rewrite V1 in V2.
      assert (Gb2 : rval st2 rb = rv (eval S (mvars st) MVal b)).
      { rewrite <- D1. eapply rval_ext; [exact Sb | exact C2]. }
      set (vb := rv (eval S (mvars st) MVal b)) in *. set (vi := rv (eval S (mvars st) MVal i)) in *.
      destruct (opsem S OGetItem [vb; vi]) as [cur ev1] eqn:E1.
      set (st3 := set_temp st2 n2 cur ev1).
      assert (C3 : ext n2 None st2 st3 ev1 []) by (apply ext_set_temp; auto).
      destruct (Rr st3) as (st4 & B4 & C4 & D4).
      assert (V3 : mvars st3 = mvars st) by (simpl; exact V2). rewrite V3 in C4, D4. simpl in C4, D4.
      set (vr := rv (eval S (mvars st) MVal rhs)) in *.
      assert (Gc4 : temps st4 n2 = cur).
      { destruct C4 as (_ & _ & _ & X). rewrite X by (try lia; discriminate). simpl. unfold upd.
        rewrite Nat.eqb_refl. reflexivity. }
      assert (Gb4 : rval st4 rb = vb).
      { rewrite <- Gb2. transitivity (rval st3 rb).
        - eapply rval_ext; [|exact C4]. eapply rsimple_weak; [exact Sb2 | lia].
        - eapply rval_ext; [exact Sb2 | exact C3]. }
      assert (Gi4 : rval st4 ri = vi).
      { rewrite <- D2. transitivity (rval st3 ri).
        - eapply rval_ext; [|exact C4]. eapply rsimple_weak; [exact Si | lia].
        - eapply rval_ext; [exact Si | exact C3]. }
      destruct (opsem S iop [cur; vr]) as [w ev2] eqn:E2.
      set (st5 := set_temp st4 n3 w ev2).
      assert (C5 : ext n3 None st4 st5 ev2 []) by (apply ext_set_temp; auto).
      assert (Gb5 : rval st5 rb = vb).
      { rewrite <- Gb4. eapply rval_ext; [|exact C5]. eapply rsimple_weak; [exact Sb2 | lia]. }
      assert (Gi5 : rval st5 ri = vi).
      { rewrite <- Gi4. eapply rval_ext; [|exact C5]. eapply rsimple_weak; [exact Si | lia]. }
      destruct (opsem S OSetItem [vb; vi; w]) as [u ev3] eqn:E3.
      exists (set_temp st5 (Datatypes.S n3) u ev3).
      split.
      { assert (R01 : run S (cb ++ ci) st Normal = (st2, Normal)) by (rewrite run_app, B1; exact B2).
        assert (W : temps st5 n3 = w) by (simpl; unfold upd; rewrite Nat.eqb_refl; reflexivity).
        rewrite run_app, R01. cbn [app]. cbv beta iota.
        rewrite run_op. cbn [map]. rewrite (rop_val st2 rb n2 Sb2), (rop_val st2 ri n2 Si), Gb2, D2, E1.
        cbn [fst snd]. fold st3.
        rewrite run_app, B4. cbn [app]. cbv beta iota.
        rewrite run_op. cbn [map getop]. rewrite Gc4, D4, E2. cbn [fst snd]. fold st5.
        rewrite run_op. cbn [map]. rewrite (rop_val st5 rb n2 Sb2), (rop_val st5 ri n2 Si), Gb5, Gi5.
        cbn [getop]. rewrite W, E3. reflexivity. }
      simpl ref_stmt. fold vb vi. rewrite E1. fold vr. rewrite E2, E3.
      destruct C1 as (_ & T1 & L1 & _). destruct C2 as (_ & T2 & L2 & _).
      destruct C4 as (V4 & T4 & L4 & _).
      unfold st5. cbn [set_temp mvars trace leaflog svars sev slf].
      rewrite V4, T4, L4. unfold st3. cbn [set_temp mvars trace leaflog].
      rewrite T2, T1, L2, L1. split; [exact V2|]. rewrite <- !app_assoc. split; reflexivity.
    + (* o.a op= rhs *)
      destruct es as [|ob [|? ?]]; try discriminate. simpl in Ok.
      apply andb_true_iff in Ok. destruct Ok as [Ok Okr]. apply andb_true_iff in Ok. destruct Ok as [Fi Oko].
      unfold gen_stmt. cbn [sefr]. rewrite Fi. cbn [negb].
      pose proof (sefr_false_ok ob 0 Oko) as Hb. destruct (sefr F false ob 0) as [[cb rb] n1].
      destruct Hb as (Ab & Sb & Rb).
      cbn [gen_rexpr]. rewrite (gen_rexpr_simple rb n1 n1 Sb).
      pose proof (gen_val rhs (Datatypes.S n1) Okr) as Hr.
      destruct (gen F CVal rhs (Datatypes.S n1)) as [[cr r] n3]. destruct Hr as (Ar & Or & Rr).
      rewrite (gen_rexpr_simple rb n1 _ Sb).
      destruct (Rb st) as (st1 & B1 & C1 & D1).
      pose proof (ext_vars _ _ _ _ _ C1) as V1.
      set (vb := rv (eval S (mvars st) MVal ob)) in *.
      destruct (opsem S (OGetAttr a) [vb]) as [cur ev1] eqn:E1.
      set (st3 := set_temp st1 n1 cur ev1).
      assert (C3 : ext n1 None st1 st3 ev1 []) by (apply ext_set_temp; auto).
      destruct (Rr st3) as (st4 & B4 & C4 & D4).
      assert (V3 : mvars st3 = mvars st) by (simpl; exact V1). rewrite V3 in C4, D4. simpl in C4, D4.
      set (vr := rv (eval S (mvars st) MVal rhs)) in *.
      assert (Gc4 : temps st4 n1 = cur).
      { destruct C4 as (_ & _ & _ & X). rewrite X by (try lia; discriminate). simpl. unfold upd.
        rewrite Nat.eqb_refl. reflexivity. }
      assert (Gb4 : rval st4 rb = vb).
      { rewrite <- D1. transitivity (rval st3 rb).
        - eapply rval_ext; [|exact C4]. eapply rsimple_weak; [exact Sb | lia].
        - eapply rval_ext; [exact Sb | exact C3]. }
      destruct (opsem S iop [cur; vr]) as [w ev2] eqn:E2.
      set (st5 := set_temp st4 n3 w ev2).
      assert (C5 : ext n3 None st4 st5 ev2 []) by (apply ext_set_temp; auto).
      assert (Gb5 : rval st5 rb = vb).
      { rewrite <- Gb4. eapply rval_ext; [|exact C5]. eapply rsimple_weak; [exact Sb | lia]. }
      destruct (opsem S (OSetAttr a) [vb; w]) as [u ev3] eqn:E3.
      exists (set_temp st5 (Datatypes.S n3) u ev3).
      split.
      { assert (W : temps st5 n3 = w) by (simpl; unfold upd; rewrite Nat.eqb_refl; reflexivity).
        rewrite run_app, B1. cbn [app]. cbv beta iota.
        rewrite run_op. cbn [map]. rewrite (rop_val st1 rb n1 Sb), D1, E1. cbn [fst snd]. fold st3.
        rewrite run_app, B4. cbn [app]. cbv beta iota.
        rewrite run_op. cbn [map getop]. rewrite Gc4, D4, E2. cbn [fst snd]. fold st5.
        rewrite run_op. cbn [map]. rewrite (rop_val st5 rb n1 Sb), Gb5.
        cbn [getop]. rewrite W, E3. reflexivity. }
      simpl ref_stmt. fold vb. rewrite E1. fold vr. rewrite E2, E3.
      destruct C1 as (_ & T1 & L1 & _). destruct C4 as (V4 & T4 & L4 & _).
      unfold st5. cbn [set_temp mvars trace leaflog svars sev slf].
      rewrite V4, T4, L4. unfold st3. cbn [set_temp mvars trace leaflog].
      rewrite T1, L1. split; [exact V1|]. rewrite <- !app_assoc. split; reflexivity.
Qed.

(* ---------- every statement ---------- *)
Definition stmt_ok (s : stmt) : bool :=
  match s with
  | SAssign ts rhs =>
      eok F rhs && forallb target_ok ts &&
      (let '(_, v, _) := gen F CVal rhs 0 in forallb (tsafe v) ts) &&
      (fx_cascade F || match flattens ts rhs with None => true | Some _ => false end)
  | SAug lhs _ rhs => aug_ok lhs rhs
  | SDel _ es => forallb (eok F) es
  end.

Theorem stmt_correct s st : stmt_ok s = true ->
  let '(code, _) := gen_stmt F s 0 in
  let r := ref_stmt S (mvars st) s in
  exists st', run S code st Normal = (st', Normal) /\
    mvars st' = svars r /\ trace st' = trace st ++ sev r /\ leaflog st' = leaflog st ++ slf r.
Proof.
  destruct s as [ts rhs|lhs iop rhs|o es]; intros Ok.
  - unfold stmt_ok in Ok.
    apply andb_true_iff in Ok. destruct Ok as [Ok Hf]. apply andb_true_iff in Ok. destruct Ok as [Ok Sf].
    apply andb_true_iff in Ok. destruct Ok as [Oke Okt].
    apply assign_correct; auto.
    + destruct (gen F CVal rhs 0) as [[c v] n]. exact Sf.
    + apply orb_true_iff in Hf. destruct Hf as [Hf|Hf]; [left; auto | right].
      destruct (flattens ts rhs); [discriminate | reflexivity].
  - apply aug_correct. exact Ok.
  - apply (del_correct S F o es st Ok).
Qed.

End StmtProofs.
