(* C50, part 2b: nfa_to_dfa terminates: with fuel above 2^(number of NFA states) the worklist and the
   recursive epsilon closure return a machine (never "out of fuel"). *)
From Coq Require Import ZArith NArith List Bool Lia ZifyBool ZifyNat.
From CyVerif Require Import Model.M_Plex Proof.P_Plex_TMap Proof.P_Plex_Sets Proof.P_Plex_DFA.
Import ListNotations.
Open Scope Z_scope.

Lemma filter_len {A} (f : A -> bool) (l : list A) : (length (filter f l) <= length l)%nat.
Proof. induction l as [|a l IH]; cbn [filter length]; [lia|]. destruct (f a); cbn [length]; lia. Qed.

Lemma NoDup_snoc {A} (l : list A) x : NoDup l -> ~ In x l -> NoDup (l ++ [x]).
Proof.
  induction l as [|a l IH]; intros Hn Hx; cbn [app].
  - constructor; [intros []|constructor].
  - inversion Hn as [|? ? Ha Hl]; subst. constructor.
    + intros Hin. apply in_app_or in Hin. destruct Hin as [Hin|[Heq|[]]]; [contradiction|].
      apply Hx. left. symmetry. exact Heq.
    + apply IH; [exact Hl|]. intros H. apply Hx. right. exact H.
Qed.

Section Term.
Variable m : nfa.
Hypothesis Hwf : forall s, tm_inv (n_tm (n_get m s)).
Hypothesis Helse : forall s, tm_else_ok (n_tm (n_get m s)) = true.

Definition bounded (S : sset) : Prop := forall x, s_mem x S = true -> (x < length m)%nat.

(* every transition target is a state of the machine *)
Hypothesis Heps : forall s, bounded (n_eps (n_get m s)).
Hypothesis Htg : forall s e, bounded (ntrans m s e).
Hypothesis Hpos : (0 < length m)%nat.

(* ---- the epsilon closure ---- *)
Definition unv_in (l : list nat) (acc : sset) : nat := length (filter (fun x => negb (s_mem x acc)) l).
Definition unv (acc : sset) : nat := unv_in (seq 0 (length m)) acc.

Lemma unv_in_mono l a b : (forall x, s_mem x a = true -> s_mem x b = true) -> (unv_in l b <= unv_in l a)%nat.
Proof.
  intros H. unfold unv_in. induction l as [|y l IH]; cbn [filter]; [lia|].
  destruct (s_mem y a) eqn:Ea.
  - rewrite (H y Ea). cbn. exact IH.
  - destruct (s_mem y b); cbn; lia.
Qed.

Lemma unv_in_add l s acc : In s l -> s_mem s acc = false -> (unv_in l (s_add s acc) < unv_in l acc)%nat.
Proof.
  intros Hin Hs. unfold unv_in. induction l as [|y l IH]; [contradiction|]. cbn [filter].
  assert (Hm : (length (filter (fun x => negb (s_mem x (s_add s acc))) l)
                <= length (filter (fun x => negb (s_mem x acc)) l))%nat).
  { apply (unv_in_mono l acc (s_add s acc)). intros x Hx. rewrite s_mem_add, Hx. apply orb_true_r. }
  destruct (Nat.eq_dec y s) as [->|Hne].
  - rewrite Hs, s_mem_add, Nat.eqb_refl. cbn. lia.
  - destruct Hin as [Heq|Hin]; [congruence|]. specialize (IH Hin).
    rewrite s_mem_add. destruct (Nat.eqb_spec s y); [congruence|]. cbn [orb].
    destruct (s_mem y acc); cbn; lia.
Qed.

Lemma eclose_add_total : forall f acc s, (s < length m)%nat -> (unv acc < f)%nat ->
  exists r, eclose_add f m acc s = Some r.
Proof.
  induction f as [|f IH]; intros acc s Hs Hf; [lia|]. cbn [eclose_add].
  destruct (s_mem s acc) eqn:Es; [eauto|].
  assert (Hlt : (unv (s_add s acc) < unv acc)%nat).
  { apply unv_in_add; [|exact Es]. apply in_seq. lia. }
  set (step := fun (a : option sset) (s2 : nat) => do a' <- a; eclose_add f m a' s2).
  assert (Hinner : forall l a, (forall y, In y l -> (y < length m)%nat) -> (unv a < f)%nat ->
            exists r, fold_left step l (Some a) = Some r).
  { induction l as [|y l IHl]; intros a Hl Ha; [cbn; eauto|]. cbn [fold_left]. unfold step at 2.
    destruct (IH a y (Hl y (or_introl eq_refl)) Ha) as (a1 & E1). rewrite E1.
    apply IHl; [intros z Hz; apply Hl; right; exact Hz|].
    destruct (eclose_add_spec m _ _ _ _ E1) as (A1 & _).
    pose proof (unv_in_mono (seq 0 (length m)) a a1 A1). unfold unv in *. lia. }
  apply Hinner; [|lia]. intros y Hy. apply s_elems_spec in Hy. exact (Heps s y Hy).
Qed.

Lemma eclose_total s : (s < length m)%nat -> exists C, eclose m s = Some C.
Proof.
  intros Hs. unfold eclose. apply eclose_add_total; [exact Hs|].
  unfold unv, unv_in.
  pose proof (filter_len (fun x => negb (s_mem x s_empty)) (seq 0 (length m))) as H.
  rewrite seq_length in H. lia.
Qed.

Lemma ereach_bounded x t : (x < length m)%nat -> ereach m x t -> (t < length m)%nat.
Proof.
  intros Hx H. unfold ereach in H. remember [] as w eqn:Ew. revert Hx.
  induction H as [s|s u w t He H IH|s e u w t He H IH]; intros Hx; [exact Hx| |discriminate].
  apply IH; [exact Ew|]. exact (Heps s u He).
Qed.

Lemma eclose_set_total ss : bounded ss -> exists C, eclose_set m ss = Some C.
Proof.
  intros Hb. unfold eclose_set.
  set (step := fun (a : option sset) (s : nat) => do a' <- a; do c <- eclose m s; Some (s_union a' c)).
  assert (Hg : forall l a, (forall y, In y l -> (y < length m)%nat) -> exists r, fold_left step l (Some a) = Some r).
  { induction l as [|y l IHl]; intros a Hl; [cbn; eauto|]. cbn [fold_left]. unfold step at 2.
    destruct (eclose_total y (Hl y (or_introl eq_refl))) as (c & Ec). rewrite Ec.
    apply IHl. intros z Hz. apply Hl. right. exact Hz. }
  apply Hg. intros y Hy. apply s_elems_spec in Hy. exact (Hb y Hy).
Qed.

Lemma items_bounded s c0 c1 tg : In (c0, c1, tg) (tm_items (n_tm (n_get m s))) -> bounded tg.
Proof.
  intros Hi. pose proof (Hwf s) as I. pose proof Hi as Hi'. unfold tm_items in Hi'.
  apply items_loop_spec in Hi'. destruct Hi' as (k & Hk1 & Hk2 & E0 & E1 & _).
  pose proof (sorted_nth_lt _ (inv_sorted _ I) k (S k) ltac:(lia)) as Hlt. rewrite E0, E1 in Hlt.
  destruct (tm_items_range m Hwf Helse _ _ _ _ I Hi) as (R0 & R1).
  rewrite (tm_items_at _ c0 I ltac:(lia) c0 c1 tg Hi ltac:(lia)). exact (Htg s (EvChar c0)).
Qed.

Lemma fold_items_total : forall its tm0, tm_inv tm0 ->
  (forall c0 c1 tg, In (c0, c1, tg) its -> - maxint <= c0 <= maxint /\ - maxint <= c1 <= maxint) ->
  (forall c0 c1 tg, In (c0, c1, tg) its -> bounded tg) ->
  exists tm1, fold_left (item_step m) its (Some tm0) = Some tm1.
Proof.
  induction its as [|[[c0 c1] tg] its IH]; intros tm0 I Hr Hb; [cbn; eauto|].
  cbn [fold_left]. unfold item_step at 2. cbv beta iota.
  assert (Hr' : forall a b g, In (a, b, g) its -> - maxint <= a <= maxint /\ - maxint <= b <= maxint)
    by (intros; eapply Hr; right; eauto).
  assert (Hb' : forall a b g, In (a, b, g) its -> bounded g) by (intros; eapply Hb; right; eauto).
  destruct (s_is_empty tg); [apply IH; assumption|].
  destruct (eclose_set_total tg (Hb c0 c1 tg (or_introl eq_refl))) as (cl & Ec). rewrite Ec.
  destruct (Hr c0 c1 tg (or_introl eq_refl)) as [R0 R1].
  destruct (tm_add_set_spec tm0 c0 c1 cl I R0 R1) as (tm' & Ea & I' & _). rewrite Ea.
  apply IH; assumption.
Qed.

Lemma add_state_transitions_total u s : tm_inv (u_tm u) -> exists u', add_state_transitions m u s = Some u'.
Proof.
  intros I. unfold add_state_transitions.
  change (fun (a : option tmap) (it : Z * Z * sset) =>
            do tm <- a; let '(c0, c1, tg) := it in
            if s_is_empty tg then Some tm else do cl <- eclose_set m tg; tm_add_set tm c0 c1 cl)
    with (item_step m).
  destruct (fold_items_total (tm_items (n_tm (n_get m s))) (u_tm u) I
              (fun a b g Hin => tm_items_range m Hwf Helse _ a b g (Hwf s) Hin)
              (fun a b g Hin => items_bounded s a b g Hin)) as (tm1 & E). rewrite E.
  destruct (eclose_set_total _ (Htg s EvBol)) as (b & Eb). cbn [ntrans] in Eb. rewrite Eb.
  destruct (eclose_set_total _ (Htg s EvEol)) as (l & El). cbn [ntrans] in El. rewrite El.
  destruct (eclose_set_total _ (Htg s EvEof)) as (f & Ef). cbn [ntrans] in Ef. rewrite Ef.
  eauto.
Qed.

Lemma union_transitions_total old : exists u, union_transitions m old = Some u.
Proof.
  unfold union_transitions.
  set (step := fun (a : option utrans) (s : nat) => do u <- a; add_state_transitions m u s).
  assert (Hg : forall l u0, tm_inv (u_tm u0) -> exists u1, fold_left step l (Some u0) = Some u1).
  { induction l as [|s l IHl]; intros u0 I0; [cbn; eauto|]. cbn [fold_left]. unfold step at 2.
    destruct (add_state_transitions_total u0 s I0) as (ua & Ea). rewrite Ea.
    apply IHl. exact (proj1 (add_state_transitions_spec m Hwf Helse u0 ua s I0 Ea)). }
  apply Hg. exact tm_new_inv.
Qed.

Lemma process_state_total sm old : exists r, process_state m sm old = Some r.
Proof.
  unfold process_state. destruct (union_transitions_total old) as (u & Eu). rewrite Eu.
  destruct (add_range_items m (tm_items (u_tm u)) sm _) as [sm1 d1].
  destruct (add_special m (u_bol u) sm1) as [sm2 jb].
  destruct (add_special m (u_eol u) sm2) as [sm3 je].
  destruct (add_special m (u_eof u) sm3) as [sm4 jf]. eauto.
Qed.

(* ---- the worklist: the new states are distinct subsets of the NFA states ---- *)
Definition sm_good (sm : smap) : Prop := NoDup (sm_sets sm) /\ forall S, In S (sm_sets sm) -> bounded S.

Lemma find_idx_none key : forall l k0, find_idx key l k0 = None -> ~ In key l.
Proof.
  induction l as [|x t IH]; intros k0 H; [intros []|]. cbn [find_idx] in H.
  destruct (N.eqb_spec x key) as [->|Hne]; [discriminate|]. intros [Heq|Hin]; [congruence|].
  exact (IH _ H Hin).
Qed.

Lemma old_to_new_good sm ss sm' j : old_to_new m sm ss = (sm', j) -> bounded ss -> sm_good sm -> sm_good sm'.
Proof.
  unfold old_to_new. intros H Hb (Hnd & Hbd). destruct (find_idx ss (sm_sets sm) O) eqn:Ef.
  - inversion H; subst. split; assumption.
  - inversion H; subst; clear H. cbn [sm_sets]. split.
    + apply NoDup_snoc; [exact Hnd|]. eapply find_idx_none; eauto.
    + intros S HS. apply in_app_or in HS. destruct HS as [HS|[<-|[]]]; [apply Hbd; exact HS|exact Hb].
Qed.

Lemma ari_good : forall items sm d sm' d', add_range_items m items sm d = (sm', d') ->
  (forall c0 c1 ss, In (c0, c1, ss) items -> bounded ss) -> sm_good sm -> sm_good sm'.
Proof.
  induction items as [|[[c0 c1] ss] items IH]; intros sm d sm' d' H Hb Hg.
  - cbn in H. inversion H; subst. exact Hg.
  - cbn [add_range_items] in H. destruct (old_to_new m sm ss) as [sm1 j] eqn:Eo.
    eapply IH; [exact H| |].
    + intros a b g Hin. eapply Hb. right. exact Hin.
    + eapply old_to_new_good; [exact Eo| |exact Hg]. eapply Hb. left. reflexivity.
Qed.

Lemma add_special_good ss sm sm' r : add_special m ss sm = (sm', r) -> bounded ss -> sm_good sm -> sm_good sm'.
Proof.
  unfold add_special. intros H Hb Hg. destruct (s_is_empty ss); [inversion H; subst; exact Hg|].
  destruct (old_to_new m sm ss) as [sm1 j] eqn:Eo. inversion H; subst. eapply old_to_new_good; eauto.
Qed.

Lemma uget_bounded old u e : union_transitions m old = Some u -> valid_ev e -> bounded (uget u e).
Proof.
  intros Eu He x Hx. destruct (union_transitions_spec m Hwf Helse old u Eu) as (_ & G).
  apply (G e He x) in Hx. destruct Hx as (s & y & _ & Hy & Hr).
  eapply ereach_bounded; [|exact Hr]. exact (Htg s e y Hy).
Qed.

Lemma process_state_good sm old sm' d : process_state m sm old = Some (sm', d) -> sm_good sm -> sm_good sm'.
Proof.
  unfold process_state. intros H Hg.
  destruct (union_transitions m old) as [u|] eqn:Eu; [|discriminate].
  destruct (union_transitions_spec m Hwf Helse old u Eu) as (Iu & _).
  match type of H with context [add_range_items m ?its sm ?d0] =>
    destruct (add_range_items m its sm d0) as [sm1 d1] eqn:Er end.
  destruct (add_special m (u_bol u) sm1) as [sm2 jb] eqn:Eb.
  destruct (add_special m (u_eol u) sm2) as [sm3 je] eqn:El.
  destruct (add_special m (u_eof u) sm3) as [sm4 jf] eqn:Ef.
  inversion H; subst; clear H.
  eapply add_special_good; [exact Ef|exact (uget_bounded old u EvEof Eu I)|].
  eapply add_special_good; [exact El|exact (uget_bounded old u EvEol Eu I)|].
  eapply add_special_good; [exact Eb|exact (uget_bounded old u EvBol Eu I)|].
  eapply ari_good; [exact Er| |exact Hg].
  intros c0 c1 ss Hi. pose proof Hi as Hi'. unfold tm_items in Hi'.
  apply items_loop_spec in Hi'. destruct Hi' as (k & Hk1 & Hk2 & E0 & E1 & _).
  pose proof (sorted_nth_lt _ (inv_sorted _ Iu) k (S k) ltac:(lia)) as Hlt. rewrite E0, E1 in Hlt.
  destruct (tm_items_range m Hwf Helse _ _ _ _ Iu Hi) as (R0 & R1).
  rewrite (tm_items_at _ c0 Iu ltac:(lia) c0 c1 ss Hi ltac:(lia)).
  apply (uget_bounded old u (EvChar c0) Eu). unfold valid_ev. lia.
Qed.

Definition nsub : N := (2 ^ N.of_nat (length m))%N.

Lemma bounded_lt S : bounded S -> (S < nsub)%N.
Proof.
  intros Hb. unfold nsub. destruct (N.eq_dec S 0) as [->|Hne].
  - apply N.neq_0_lt_0. apply N.pow_nonzero. discriminate.
  - apply N.log2_lt_pow2; [lia|]. pose proof (N.bit_log2 S Hne) as Hbit.
    specialize (Hb (N.to_nat (N.log2 S))). unfold s_mem in Hb. rewrite N2Nat.id in Hb.
    specialize (Hb Hbit). lia.
Qed.

Lemma nodup_bound (l : list N) B : NoDup l -> (forall S, In S l -> (S < B)%N) -> (length l <= N.to_nat B)%nat.
Proof.
  intros Hnd Hlt.
  assert (Hincl : incl l (map N.of_nat (seq 0 (N.to_nat B)))).
  { intros S HS. apply in_map_iff. exists (N.to_nat S). split; [apply N2Nat.id|].
    apply in_seq. specialize (Hlt S HS). lia. }
  pose proof (NoDup_incl_length Hnd Hincl) as H. rewrite map_length, seq_length in H. exact H.
Qed.

Lemma worklist_total : forall fuel sm done, sm_ok m sm -> sm_good sm ->
  (length done <= length (sm_sets sm))%nat -> (N.to_nat nsub - length done < fuel)%nat ->
  exists r, worklist fuel m sm done = Some r.
Proof.
  induction fuel as [|f IH]; intros sm done Hok Hg Hlen Hf; [lia|]. cbn [worklist].
  destruct (nth_error (sm_sets sm) (length done)) as [old|] eqn:En; [|eauto].
  destruct (process_state_total sm old) as ([sm1 d] & Ep). rewrite Ep.
  destruct (process_state_spec m Hwf Helse _ _ _ _ Ep Hok) as (Hok1 & (ex & Eex) & _).
  pose proof (process_state_good _ _ _ _ Ep Hg) as Hg1.
  pose proof (nth_error_lt _ _ _ En) as Hlt.
  destruct Hg as (Hnd & Hbd).
  pose proof (nodup_bound _ nsub Hnd (fun S HS => bounded_lt S (Hbd S HS))) as Hcard.
  apply IH; [exact Hok1|exact Hg1| |].
  - rewrite app_length, Eex, app_length. cbn [length]. lia.
  - rewrite app_length. cbn [length]. change (@length N (sm_sets sm)) with (@length sset (sm_sets sm)) in Hcard.
    set (B := N.to_nat nsub) in *. clearbody B. lia.
Qed.

(* nfa_to_dfa returns a machine whenever the fuel exceeds the number of subsets *)
Theorem nfa_to_dfa_total fuel : (N.to_nat nsub < fuel)%nat -> exists D, nfa_to_dfa fuel m = Some D.
Proof.
  intros Hf. unfold nfa_to_dfa. destruct (eclose_total O Hpos) as (c0 & E0). rewrite E0.
  cbn [old_to_new find_idx sm_sets sm_acts app length].
  match goal with |- context [worklist fuel m ?ss0 []] => set (sm0 := ss0) end.
  destruct (worklist_total fuel sm0 []) as ([sm tr] & Ew).
  - reflexivity.
  - split; [repeat constructor; intros []|]. intros S [<-|[]]. intros x Hx.
    apply (proj2 (eclose_spec m O c0 E0)) in Hx. eapply ereach_bounded; [exact Hpos|exact Hx].
  - cbn. lia.
  - cbn [length]. lia.
  - rewrite Ew. eauto.
Qed.
End Term.

(* ---------- nfa_bounded reflects the hypotheses of nfa_to_dfa_total ---------- *)
Lemma set_bounded_b_spec n S : set_bounded_b n S = true -> forall x, s_mem x S = true -> (x < n)%nat.
Proof.
  unfold set_bounded_b, s_mem. intros H x Hx. apply N.ltb_lt in H.
  destruct (N.eq_dec S 0) as [->|Hne]; [rewrite N.bits_0 in Hx; discriminate|].
  apply N.log2_lt_pow2 in H; [|lia].
  destruct (N.le_gt_cases (N.of_nat x) (N.log2 S)) as [Hle|Hgt]; [lia|].
  rewrite (N.bits_above_log2 S (N.of_nat x) Hgt) in Hx. discriminate.
Qed.

Lemma nfa_bounded_spec m : nfa_bounded m = true ->
  (forall s, bounded m (n_eps (n_get m s))) /\ (forall s e, bounded m (ntrans m s e)) /\ (0 < length m)%nat.
Proof.
  unfold nfa_bounded. intros H. apply andb_true_iff in H. destruct H as [Hp H].
  apply Nat.ltb_lt in Hp. rewrite forallb_forall in H.
  assert (Hs : forall s, let st := n_get m s in
            (forall S, In S (tm_sets (n_tm st)) -> bounded m S) /\ bounded m (n_eps st)
            /\ bounded m (n_bol st) /\ bounded m (n_eol st) /\ bounded m (n_eof st)).
  { intros s. cbn zeta. unfold n_get. destruct (Nat.lt_ge_cases s (length m)) as [Hlt|Hge].
    - specialize (H _ (nth_In m n_new Hlt)).
      repeat (apply andb_true_iff in H; destruct H as [H ?]).
      rename H into Hts. rewrite forallb_forall in Hts.
      split; [intros S HS y Hy; eapply set_bounded_b_spec; [apply Hts; exact HS|exact Hy]|].
      split; [intros y Hy; exact (set_bounded_b_spec _ _ H3 y Hy)|].
      split; [intros y Hy; exact (set_bounded_b_spec _ _ H2 y Hy)|].
      split; intros y Hy; [exact (set_bounded_b_spec _ _ H1 y Hy)|exact (set_bounded_b_spec _ _ H0 y Hy)].
    - rewrite nth_overflow by exact Hge. cbn [n_new n_tm n_eps n_bol n_eol n_eof tm_new tm_sets].
      assert (He0 : bounded m s_empty) by (intros y Hy; rewrite s_mem_empty in Hy; discriminate).
      split; [intros S [<-|[]]; exact He0|]. auto. }
  split; [intros s; exact (proj1 (proj2 (Hs s)))|]. split; [|exact Hp].
  intros s e. destruct (Hs s) as (Ht & _ & Hb & Hl & Hf). destruct e as [c| | | |]; cbn [ntrans]; auto.
  - unfold tm_get. intros x Hx.
    destruct (nth_in_or_default (count_le (tm_codes (n_tm (n_get m s))) c - 1) (tm_sets (n_tm (n_get m s))) s_empty) as [Hin|Hd].
    + exact (Ht _ Hin x Hx).
    + rewrite Hd, s_mem_empty in Hx. discriminate.
  - intros x Hx. rewrite s_mem_empty in Hx. discriminate.
Qed.

(* with the executable checks: nfa_to_dfa returns a machine for fuel above 2^(number of states) *)
Theorem nfa_to_dfa_total_b m fuel : nfa_ok m = true -> nfa_bounded m = true ->
  (N.to_nat (2 ^ N.of_nat (length m)) < fuel)%nat -> exists D, nfa_to_dfa fuel m = Some D.
Proof.
  intros Hok Hb Hf. destruct (nfa_bounded_spec m Hb) as (He & Ht & Hp).
  assert (Hw : (forall s, tm_inv (n_tm (n_get m s))) /\ (forall s, tm_else_ok (n_tm (n_get m s)) = true)).
  { unfold nfa_ok in Hok. rewrite forallb_forall in Hok.
    assert (Hs : forall s, tm_inv_b (n_tm (n_get m s)) && tm_else_ok (n_tm (n_get m s)) = true).
    { intros s. unfold n_get. destruct (Nat.lt_ge_cases s (length m)) as [Hlt|Hge].
      - apply Hok. apply nth_In. exact Hlt.
      - rewrite nth_overflow by exact Hge. reflexivity. }
    split; intros s; specialize (Hs s); apply andb_true_iff in Hs; destruct Hs as [H1 H2]; [|exact H2].
    unfold tm_inv_b in H1. repeat (apply andb_true_iff in H1; destruct H1 as [H1 ?]).
    constructor; [apply Nat.eqb_eq; assumption|apply Nat.leb_le; assumption|lia|lia|].
    clear - H. induction (tm_codes (n_tm (n_get m s))) as [|a t IH]; [exact I|].
    destruct t as [|b t']; [exact I|].
    change (sorted_b (a :: b :: t')) with ((a <? b) && sorted_b (b :: t')) in H.
    apply andb_true_iff in H. destruct H as [H1 H2].
    change (a < b /\ sorted (b :: t')). split; [lia|auto]. }
  destruct Hw as (Hwf & Helse). exact (nfa_to_dfa_total m Hwf Helse He Ht Hp fuel Hf).
Qed.
