(* C50: finite sets of state numbers as bit sets; NFA reachability; epsilon closure. *)
From Coq Require Import ZArith NArith List Bool Lia ZifyBool ZifyNat.
From CyVerif Require Import Model.M_Plex Proof.P_Plex_TMap.
Import ListNotations.
Open Scope Z_scope.

Lemma s_mem_empty i : s_mem i s_empty = false.
Proof. apply N.bits_0. Qed.

Lemma s_mem_add i j s : s_mem i (s_add j s) = Nat.eqb j i || s_mem i s.
Proof.
  unfold s_mem, s_add. rewrite N.setbit_eqb.
  destruct (N.eqb_spec (N.of_nat j) (N.of_nat i)), (Nat.eqb_spec j i); try lia; reflexivity.
Qed.

Lemma s_mem_union i a b : s_mem i (s_union a b) = s_mem i a || s_mem i b.
Proof. apply N.lor_spec. Qed.

Lemma s_ext a b : (forall i, s_mem i a = s_mem i b) -> a = b.
Proof.
  intros H. apply N.bits_inj. intros n. specialize (H (N.to_nat n)). unfold s_mem in H.
  rewrite N2Nat.id in H. exact H.
Qed.

Lemma s_is_empty_spec s : s_is_empty s = true <-> forall i, s_mem i s = false.
Proof.
  unfold s_is_empty. rewrite N.eqb_eq. split.
  - intros -> i. apply s_mem_empty.
  - intros H. apply s_ext. intros i. rewrite H, s_mem_empty. reflexivity.
Qed.

Lemma s_elems_spec s i : In i (s_elems s) <-> s_mem i s = true.
Proof.
  unfold s_elems. rewrite filter_In, in_seq. split; [tauto|]. intros H. split; [|exact H].
  split; [lia|]. cbn. unfold s_mem in H.
  destruct (N.eq_dec s 0) as [->|Hne]; [rewrite N.bits_0 in H; discriminate|].
  assert (N.of_nat i <= N.log2 s)%N.
  { destruct (N.le_gt_cases (N.of_nat i) (N.log2 s)) as [Hle|Hgt]; [exact Hle|].
    rewrite (N.bits_above_log2 s (N.of_nat i) Hgt) in H. discriminate. }
  rewrite N.size_log2 by exact Hne. lia.
Qed.

(* ---------- NFA semantics ---------- *)
Definition ntrans (m : nfa) (s : nat) (e : event) : sset :=
  let st := n_get m s in
  match e with
  | EvChar c => tm_get (n_tm st) c
  | EvBol => n_bol st | EvEol => n_eol st | EvEof => n_eof st
  | EvNone => s_empty
  end.

(* t is reachable from s reading the event word w (epsilon moves anywhere) *)
Inductive nreach (m : nfa) : nat -> list event -> nat -> Prop :=
| nr_refl s : nreach m s [] s
| nr_eps s u w t : s_mem u (n_eps (n_get m s)) = true -> nreach m u w t -> nreach m s w t
| nr_ev s e u w t : s_mem u (ntrans m s e) = true -> nreach m u w t -> nreach m s (e :: w) t.

Definition ereach (m : nfa) (s t : nat) : Prop := nreach m s [] t.

Lemma nreach_app m s w1 u : nreach m s w1 u -> forall w2 t, nreach m u w2 t -> nreach m s (w1 ++ w2) t.
Proof.
  induction 1 as [s|s u' w t' He H IH|s e u' w t' He H IH]; intros w2 t2 H2; cbn [app].
  - exact H2.
  - eapply nr_eps; eauto.
  - eapply nr_ev; eauto.
Qed.

Lemma ereach_trans m a b c : ereach m a b -> ereach m b c -> ereach m a c.
Proof. intros H1 H2. exact (nreach_app m a [] b H1 [] c H2). Qed.

Definition closed (m : nfa) (S : sset) : Prop :=
  forall x y, s_mem x S = true -> s_mem y (n_eps (n_get m x)) = true -> s_mem y S = true.

Lemma closed_ereach m S : closed m S -> forall x y, ereach m x y -> s_mem x S = true -> s_mem y S = true.
Proof.
  intros Hc x y H. unfold ereach in H. remember [] as w eqn:Ew.
  induction H as [s|s u w t He H IH|s e u w t He H IH]; intros Hx; [exact Hx| |discriminate].
  apply IH; [exact Ew|]. eapply Hc; eauto.
Qed.

(* ---------- add_to_epsilon_closure / epsilon_closure / set_epsilon_closure ---------- *)
Lemma fold_none {A B} (f : option B -> A -> option B) :
  (forall x, f None x = None) -> forall l, fold_left f l None = None.
Proof. intros H. induction l as [|x t IH]; cbn; [reflexivity|]. rewrite H. exact IH. Qed.

Section Eclose.
Variable m : nfa.

Definition ec_post (acc : sset) (srcs : list nat) (r : sset) : Prop :=
  (forall x, s_mem x acc = true -> s_mem x r = true)
  /\ (forall y, In y srcs -> s_mem y r = true)
  /\ (forall x, s_mem x r = true -> s_mem x acc = false ->
        forall y, s_mem y (n_eps (n_get m x)) = true -> s_mem y r = true)
  /\ (forall x, s_mem x r = true -> s_mem x acc = true \/ exists y, In y srcs /\ ereach m y x).

Lemma eclose_add_spec : forall f acc s r, eclose_add f m acc s = Some r -> ec_post acc [s] r.
Proof.
  induction f as [|f IH]; intros acc s r H; [discriminate|].
  cbn [eclose_add] in H. destruct (s_mem s acc) eqn:Es.
  - inversion H; subst. repeat split; auto.
    + intros y [->|[]]. exact Es.
    + intros x Hx Hx'. congruence.
  - set (step := fun (a : option sset) (s2 : nat) => do a' <- a; eclose_add f m a' s2) in H.
    assert (Hinner : forall l a r0, fold_left step l (Some a) = Some r0 -> ec_post a l r0).
    { induction l as [|y l IHl]; intros a r0 H0.
      - cbn in H0. inversion H0; subst. split; [auto|]. split; [intros y Hy; destruct Hy|].
        split; [intros x Hx Hx'; congruence|auto].
      - cbn [fold_left] in H0. unfold step at 2 in H0.
        destruct (eclose_add f m a y) as [a1|] eqn:E1;
          [|rewrite fold_none in H0 by reflexivity; discriminate].
        destruct (IH a y a1 E1) as (A1 & A2 & A3 & A4).
        destruct (IHl a1 r0 H0) as (B1 & B2 & B3 & B4).
        repeat split.
        + auto.
        + intros z [->|Hz]; [apply B1, A2; left; reflexivity|apply B2; exact Hz].
        + intros x Hx Hxa z Hz. destruct (s_mem x a1) eqn:Ex1.
          * apply B1. eapply A3; eauto.
          * eapply B3; eauto.
        + intros x Hx. destruct (B4 x Hx) as [Hx1|(z & Hz & Hr)].
          * destruct (A4 x Hx1) as [Ha|(z & [->|[]] & Hr)]; [left; exact Ha|].
            right. exists z. split; [left; reflexivity|exact Hr].
          * right. exists z. split; [right; exact Hz|exact Hr]. }
    destruct (Hinner _ _ _ H) as (B1 & B2 & B3 & B4).
    assert (Hs_r : s_mem s r = true)
      by (apply B1; rewrite s_mem_add, Nat.eqb_refl; reflexivity).
    repeat split.
    + intros x Hx. apply B1. rewrite s_mem_add, Hx. apply orb_true_r.
    + intros y [->|[]]. exact Hs_r.
    + intros x Hx Hxa y Hy. destruct (Nat.eq_dec s x) as [->|Hne].
      * apply B2. apply s_elems_spec. exact Hy.
      * eapply B3; eauto. rewrite s_mem_add, Hxa. destruct (Nat.eqb_spec s x); [lia|reflexivity].
    + intros x Hx. destruct (B4 x Hx) as [Ha|(y & Hy & Hr)].
      * rewrite s_mem_add in Ha. destruct (Nat.eqb_spec s x) as [->|Hne].
        -- right. exists x. split; [left; reflexivity|constructor].
        -- left. exact Ha.
      * right. exists s. split; [left; reflexivity|].
        apply s_elems_spec in Hy. eapply nr_eps; eauto.
Qed.

Lemma eclose_spec s C : eclose m s = Some C ->
  closed m C /\ forall t, s_mem t C = true <-> ereach m s t.
Proof.
  intros H. destruct (eclose_add_spec _ _ _ _ H) as (A1 & A2 & A3 & A4).
  assert (Hc : closed m C) by (intros x y Hx Hy; eapply A3; eauto; apply s_mem_empty).
  split; [exact Hc|]. intros t. split.
  - intros Ht. destruct (A4 t Ht) as [Ha|(y & [->|[]] & Hr)]; [rewrite s_mem_empty in Ha; discriminate|exact Hr].
  - intros Hr. eapply closed_ereach; eauto. apply A2. left. reflexivity.
Qed.

Lemma eclose_set_spec ss C : eclose_set m ss = Some C ->
  closed m C /\ forall t, s_mem t C = true <-> exists s, s_mem s ss = true /\ ereach m s t.
Proof.
  unfold eclose_set.
  set (step := fun (a : option sset) (s : nat) => do a' <- a; do c <- eclose m s; Some (s_union a' c)).
  assert (Hg : forall l a r, fold_left step l (Some a) = Some r ->
            (closed m a -> closed m r) /\
            forall t, s_mem t r = true <-> s_mem t a = true \/ exists s, In s l /\ ereach m s t).
  { induction l as [|y l IHl]; intros a r H0.
    - cbn in H0. inversion H0; subst. split; [auto|]. intros t. split; [auto|]. intros [H|(s & [] & _)]; exact H.
    - cbn [fold_left] in H0. unfold step at 2 in H0. destruct (eclose m y) as [c|] eqn:Ec;
        [|rewrite fold_none in H0 by reflexivity; discriminate].
      destruct (eclose_spec y c Ec) as (Hcc & Hcm). destruct (IHl _ _ H0) as (Hcl & Hm). split.
      + intros Ha. apply Hcl. intros x z Hx Hz. rewrite s_mem_union in Hx |- *.
        apply orb_true_iff in Hx. apply orb_true_iff. destruct Hx as [Hx|Hx]; [left; eapply Ha; eauto|right; eapply Hcc; eauto].
      + intros t. rewrite Hm, s_mem_union, orb_true_iff, Hcm. split.
        * intros [[H|H]|(s & Hs & Hr)]; [left; exact H|right; exists y; split; [left; reflexivity|exact H]|].
          right. exists s. split; [right; exact Hs|exact Hr].
        * intros [H|(s & [->|Hs] & Hr)]; [left; left; exact H|left; right; exact Hr|].
          right. exists s. split; assumption. }
  intros H. destruct (Hg _ _ _ H) as (Hcl & Hm). split.
  - apply Hcl. intros x y Hx. rewrite s_mem_empty in Hx. discriminate.
  - intros t. rewrite Hm. split.
    + intros [H0|(s & Hs & Hr)]; [rewrite s_mem_empty in H0; discriminate|].
      exists s. split; [apply s_elems_spec; exact Hs|exact Hr].
    + intros (s & Hs & Hr). right. exists s. split; [apply s_elems_spec; exact Hs|exact Hr].
Qed.

(* ---------- StateMap.highest_priority_action ---------- *)
Lemma best_action_spec ss :
  (best_action m ss = None /\ forall s, s_mem s ss = true -> n_prio (n_get m s) <= LOWEST_PRIORITY)
  \/ exists s, s_mem s ss = true /\ LOWEST_PRIORITY < n_prio (n_get m s)
               /\ (forall s', s_mem s' ss = true -> n_prio (n_get m s') <= n_prio (n_get m s))
               /\ best_action m ss = n_act (n_get m s).
Proof.
  unfold best_action.
  set (step := fun (b : option Z * Z) (s : nat) =>
                 let st := n_get m s in if n_prio st >? snd b then (n_act st, n_prio st) else b).
  assert (Hg : forall l b,
            (b = (None, LOWEST_PRIORITY) \/ LOWEST_PRIORITY < snd b) ->
            let r := fold_left step l b in
            (forall s, In s l -> n_prio (n_get m s) <= snd r) /\ snd b <= snd r
            /\ (r = b \/ exists s, In s l /\ r = (n_act (n_get m s), n_prio (n_get m s)) /\ snd b < snd r)).
  { induction l as [|y l IHl]; intros b Hb; cbn [fold_left].
    - split; [intros s []|]. split; [lia|left; reflexivity].
    - remember (step b y) as b1 eqn:Eb1.
      assert (Hb1 : (b1 = b /\ n_prio (n_get m y) <= snd b)
                    \/ (b1 = (n_act (n_get m y), n_prio (n_get m y)) /\ snd b < n_prio (n_get m y))).
      { rewrite Eb1. unfold step. cbn zeta. destruct (Z.gtb_spec (n_prio (n_get m y)) (snd b)); [right|left]; split; auto; lia. }
      assert (Hb1' : b1 = (None, LOWEST_PRIORITY) \/ LOWEST_PRIORITY < snd b1).
      { destruct Hb1 as [[E _]|[E Hlt]]; rewrite E; [exact Hb|]. right. cbn [snd].
        destruct Hb as [Eb|Hb]; [rewrite Eb in Hlt; cbn [snd] in Hlt|]; lia. }
      destruct (IHl b1 Hb1') as (H1 & H2 & H3). cbn zeta in *. repeat split.
      + intros s [->|Hs]; [|apply H1; exact Hs]. destruct Hb1 as [[E Hle]|[E Hlt]]; rewrite E in *; cbn [snd] in H2; lia.
      + destruct Hb1 as [[E Hle]|[E Hlt]]; rewrite E in *; cbn [snd] in H2; lia.
      + destruct H3 as [H3|(s & Hs & Er & Hlt)].
        * destruct Hb1 as [[E Hle]|[E Hlt]].
          -- left. rewrite H3. exact E.
          -- right. exists y. split; [left; reflexivity|]. rewrite H3, E. split; [reflexivity|]. cbn [snd]. exact Hlt.
        * right. exists s. split; [right; exact Hs|]. split; [exact Er|].
          destruct Hb1 as [[E Hle]|[E Hlt']]; rewrite E in *; cbn [snd] in Hlt; lia. }
  destruct (Hg (s_elems ss) (None, LOWEST_PRIORITY) (or_introl eq_refl)) as (H1 & H2 & H3). cbn zeta in *.
  destruct H3 as [H3|(s & Hs & Er & Hlt)].
  - left. rewrite H3. split; [reflexivity|]. intros s Hs. specialize (H1 s (proj2 (s_elems_spec ss s) Hs)).
    rewrite H3 in H1. exact H1.
  - right. exists s. split; [apply s_elems_spec; exact Hs|]. rewrite Er in *. cbn in *.
    split; [exact Hlt|]. split; [|reflexivity]. intros s' Hs'. apply H1. apply s_elems_spec. exact Hs'.
Qed.

End Eclose.
