(* C32 -- proofs about the exception-specification model (Model/M_ExcSpec.v). *)
From Coq Require Import ZArith List Bool Lia ZifyBool.
From CyVerif Require Import Lib.CInt Model.M_ExcSpec.
Import ListNotations.
Open Scope Z_scope.

(* ------------------------------------------------------------------ the sentinel test *)
(* the value stored by the epilogue on the error path satisfies the caller's test -- also for NaN,
   for (unsigned)-1 and for opaque constants *)
Lemma c_test_self k s : sent_okb k s = true -> c_test k s (sent_val s) = true.
Proof.
  destruct s as [v o]; destruct k, v as [z|d|p| |a b|ob| |]; cbn; try discriminate; intros _.
  - apply Z.eqb_refl.
  - apply Z.eqb_refl.
  - destruct d as [| |q]; destruct o; cbn; try reflexivity; rewrite Z.eqb_refl; reflexivity.
  - apply Z.eqb_refl.
Qed.

(* __PYX_CHECK_FLOAT_EXCEPTION agrees with == whenever the constant is not NaN: the opaque flag
   does not change the meaning of the test *)
Lemma c_test_opaque k v o1 o2 r : c_test k (Sent v o1) r = c_test k (Sent v o2) r.
Proof.
  destruct k, v as [z|d|p| |a b|ob| |], r as [z'|d'|p'| |a' b'|ob'| |]; cbn; try reflexivity.
  destruct d as [| |q], d' as [| |q'], o1, o2; cbn; try reflexivity;
    try (rewrite Z.eqb_refl; reflexivity).
Qed.

Lemma c_test_sent_eqb k s t r :
  sent_okb k s = true -> sent_okb k t = true -> sent_eqb s t = true -> c_test k s r = c_test k t r.
Proof.
  destruct s as [v o], t as [v' o']; unfold sent_eqb; cbn [sent_val]. intros Hs Ht H.
  destruct v as [z|[| |q]|p| |a b|ob| |], v' as [z'|[| |q']|p'| |a' b'|ob'| |]; cbn in H; try discriminate;
    try (apply Z.eqb_eq in H; subst); apply c_test_opaque.
Qed.

(* ------------------------------------------------------------------ state bookkeeping *)
Lemma state_eta st : {| pending := pending st; unraisable := unraisable st; gil := gil st; viol := viol st |} = st.
Proof. destruct st; reflexivity. Qed.

Definition clean (cn : bool) (st : state) : Prop := pending st = None /\ gil st = negb cn.

Local Opaque c_test.

Ltac destr_state st :=
  destruct st as [p u g vi]; cbn [pending unraisable gil viol] in *.

(* ------------------------------------------------------------------ callee *)
Lemma callee_return sp k fl r st : callee sp k fl (Return r) st = (CRet r, st).
Proof. destr_state st. destruct fl; reflexivity. Qed.

Definition after_raise (sp : fspec) (k : rkind) (e : exc) (st : state) : state :=
  if propagates sp k
  then {| pending := Some e; unraisable := unraisable st; gil := gil st; viol := viol st |}
  else {| pending := None; unraisable := unraisable st ++ [e]; gil := gil st; viol := viol st |}.

Lemma callee_raise sp k fl cn e st :
  ctx_okb fl cn = true -> gil st = negb cn ->
  callee sp k fl (Raise e) st = (CRet (error_retval sp k), after_raise sp k e st).
Proof.
  destr_state st. intros Hc Hg. subst g.
  unfold callee, after_raise, propagates, error_value, raise_in.
  destruct sp as [ev0 ec0]; cbn [ev ec].
  destruct fl, cn; try discriminate; destruct k, ev0 as [sn|], ec0 as [| |h]; reflexivity.
Qed.

(* ------------------------------------------------------------------ main theorem *)
Theorem spec_faithful : forall sp k fl cn b st,
  wf_specb sp k = true -> chk_plus (ec sp) = false ->
  cython_body b = true -> body_val_okb k b = true ->
  ctx_okb fl cn = true -> clean cn st ->
  contract_okb sp k b = true ->
  observe sp k fl cn b st = documented sp k b st.
Proof.
  intros sp k fl cn b st Hwf Hplus Hb Hv Hctx [Hp Hg] Hcon.
  unfold observe, observe_via.
  destruct b as [r|e|x|e r]; try discriminate.
  - (* Return r *)
    rewrite callee_return. destr_state st. subst p g.
    destruct sp as [ev0 ec0]; cbn [ev ec] in *.
    unfold call_site, documented, contract_okb, wf_specb in *; cbn [ev ec o_err o_val o_st] in *.
    destruct ec0 as [| |h]; try discriminate.
    + (* ChkNo *)
      destruct (is_obj k) eqn:Ho.
      * destruct k; try discriminate. destruct r; try discriminate. reflexivity.
      * destruct ev0 as [s|]; cbn.
        -- apply negb_true_iff in Hcon. rewrite Hcon. reflexivity.
        -- reflexivity.
    + (* ChkYes *)
      destruct (is_obj k) eqn:Ho.
      * destruct k; try discriminate. destruct r; try discriminate. reflexivity.
      * destruct ev0 as [s|]; cbn.
        -- destruct (c_test k s r); cbn; [|reflexivity]. destruct cn; reflexivity.
        -- destruct cn; reflexivity.
  - (* Raise e *)
    rewrite (callee_raise sp k fl cn e st Hctx Hg).
    destr_state st. subst p g.
    destruct sp as [ev0 ec0]; cbn [ev ec] in *.
    unfold after_raise, documented, propagates, call_site, error_retval, error_value, noexcept_value, wf_specb in *;
      cbn [ev ec o_err o_val o_st pending unraisable gil viol] in *.
    destruct ec0 as [| |h]; try discriminate.
    + destruct (is_obj k) eqn:Ho.
      * destruct k; try discriminate. destruct ev0; reflexivity.
      * destruct ev0 as [s|]; cbn.
        -- apply andb_true_iff in Hwf. destruct Hwf as [_ Hwf].
           apply andb_true_iff in Hwf. destruct Hwf as [Hwf _].
           apply andb_true_iff in Hwf. destruct Hwf as [Hs _].
           rewrite (c_test_self k s Hs). reflexivity.
        -- reflexivity.
    + destruct (is_obj k) eqn:Ho.
      * destruct k; try discriminate. destruct ev0; reflexivity.
      * destruct ev0 as [s|]; cbn.
        -- apply andb_true_iff in Hwf. destruct Hwf as [_ Hwf].
           apply andb_true_iff in Hwf. destruct Hwf as [Hwf _].
           apply andb_true_iff in Hwf. destruct Hwf as [Hs _].
           rewrite (c_test_self k s Hs). cbn. destruct cn; reflexivity.
        -- destruct cn; reflexivity.
Qed.

(* "except? v": a legitimate return of the sentinel is not reported as an error, and nothing is
   left pending *)
Corollary sentinel_legit_ok : forall s k fl cn r st,
  wf_specb {| ev := Some s; ec := ChkYes |} k = true ->
  val_okb k r = true -> c_test k s r = true ->
  ctx_okb fl cn = true -> clean cn st ->
  observe {| ev := Some s; ec := ChkYes |} k fl cn (Return r) st = {| o_err := false; o_val := r; o_st := st |}.
Proof.
  intros. rewrite spec_faithful; auto.
Qed.

(* noexcept: the exception goes to the unraisable hook exactly once, is cleared, and the caller
   continues with the default value of the return type *)
Corollary noexcept_reports : forall sp k fl cn e st,
  wf_specb sp k = true -> propagates sp k = false ->
  ctx_okb fl cn = true -> clean cn st ->
  let o := observe sp k fl cn (Raise e) st in
  o_err o = false /\ o_val o = noexcept_value k /\
  pending (o_st o) = None /\ unraisable (o_st o) = unraisable st ++ [e] /\
  gil (o_st o) = gil st /\ viol (o_st o) = viol st.
Proof.
  intros sp k fl cn e st Hwf Hprop Hctx Hcl o. subst o.
  assert (Hplus : chk_plus (ec sp) = false).
  { unfold propagates in Hprop. destruct (ec sp); try reflexivity.
    destruct (is_obj k), (ev sp); discriminate. }
  rewrite spec_faithful; auto; [|unfold contract_okb; destruct (ev sp), (ec sp); reflexivity].
  unfold documented. rewrite Hprop. cbn. repeat split; reflexivity.
Qed.

(* a propagating specification delivers the exception raised in the body, and reports nothing *)
Corollary raise_propagates : forall sp k fl cn e st,
  wf_specb sp k = true -> chk_plus (ec sp) = false -> propagates sp k = true ->
  ctx_okb fl cn = true -> clean cn st ->
  let o := observe sp k fl cn (Raise e) st in
  o_err o = true /\ pending (o_st o) = Some e /\ unraisable (o_st o) = unraisable st /\
  gil (o_st o) = gil st /\ viol (o_st o) = viol st.
Proof.
  intros sp k fl cn e st Hwf Hplus Hprop Hctx Hcl o. subst o.
  rewrite spec_faithful; auto; [|unfold contract_okb; destruct (ev sp), (ec sp); reflexivity].
  unfold documented. rewrite Hprop. cbn. repeat split; reflexivity.
Qed.

(* why the contract hypothesis is there: plain "except v" whose body returns v takes the caller's
   error path although no exception is set *)
Theorem except_v_sentinel_return_is_error :
  exists sp k fl cn r st,
    wf_specb sp k = true /\ chk_plus (ec sp) = false /\ val_okb k r = true /\ ctx_okb fl cn = true /\ clean cn st /\
    contract_okb sp k (Return r) = false /\
    o_err (observe sp k fl cn (Return r) st) = true /\ pending (o_st (observe sp k fl cn (Return r) st)) = None.
Proof.
  exists {| ev := Some (Sent (VInt (-1)) false); ec := ChkNo |}, (KInt 32 true), FPlain, false, (VInt (-1)),
         {| pending := None; unraisable := []; gil := true; viol := O |}.
  Local Transparent c_test.
  unfold clean. repeat split; vm_compute; reflexivity.
Qed.
Local Opaque c_test.

(* an exception that was already pending when the call was made: exactly the calls whose check
   condition holds report it; the others leave it pending *)
Theorem stale_characterised : forall sp k fl cn r e0 st,
  wf_specb sp k = true -> chk_plus (ec sp) = false -> val_okb k r = true ->
  ctx_okb fl cn = true -> pending st = Some e0 -> gil st = negb cn ->
  observe sp k fl cn (Return r) st = {| o_err := check_fires sp k r; o_val := r; o_st := st |}.
Proof.
  intros sp k fl cn r e0 st Hwf Hplus Hv Hctx Hp Hg.
  unfold observe, observe_via. rewrite callee_return. destr_state st. subst p g.
  destruct sp as [ev0 ec0]; cbn [ev ec] in *.
  unfold call_site, check_fires, wf_specb in *; cbn [ev ec] in *.
  destruct ec0 as [| |h]; try discriminate.
  - destruct (is_obj k) eqn:Ho.
    + destruct k; try discriminate. destruct r; try discriminate. reflexivity.
    + destruct ev0 as [s|]; cbn; [destruct (c_test k s r)|]; reflexivity.
  - destruct (is_obj k) eqn:Ho.
    + destruct k; try discriminate. destruct r; try discriminate. reflexivity.
    + destruct ev0 as [s|]; cbn.
      * destruct (c_test k s r); cbn; [|reflexivity]. destruct cn; reflexivity.
      * destruct cn; reflexivity.
Qed.

(* ------------------------------------------------------------------ declaration normalisation *)
Lemma in_rangeb_wrap w s v : 1 <= w -> in_rangeb w s (wrap w s v) = true.
Proof. intros. apply in_rangeb_spec. apply wrap_in_range. assumption. Qed.

Theorem normalise_wf : forall f k c sp,
  kind_okb k = true -> normalise f k c = Some sp -> wf_specb sp k = true.
Proof.
  intros f k c sp Hk H. unfold normalise in H.
  destruct (parse_clause (extern f) c) as [[val ck] hc] eqn:Hpc.
  assert (Hcoerce : forall s s', coerce_sent k s = Some s' -> sent_okb k s' = true).
  { intros [v o] s' Hc. destruct k, v; cbn in Hc; try discriminate; inversion Hc; subst; cbn; try reflexivity.
    apply in_rangeb_wrap. cbn in Hk. lia. }
  set (ck1 := if legacy f && negb (is_obj k) && negb hc && chk_true ck && negb (extern f) then ChkNo else ck) in *.
  destruct (chk_plus ck1) eqn:Hp1.
  - inversion H; subst. unfold wf_specb; cbn. rewrite Hk, Hp1. cbn. destruct (is_obj k); [apply orb_true_r|reflexivity].
  - destruct (is_obj k) eqn:Ho.
    + destruct val; try discriminate. inversion H; subst. unfold wf_specb; cbn. rewrite Hk, Ho. reflexivity.
    + cbn [andb] in H.
      match type of H with match ?v1 with _ => _ end = _ => destruct v1 as [s1|] eqn:Hv1 end.
      * destruct (coerce_sent k s1) as [s'|] eqn:Hc; try discriminate.
        inversion H; subst. unfold wf_specb; cbn. rewrite Hk, Ho, Hp1, (Hcoerce _ _ Hc). reflexivity.
      * inversion H; subst. unfold wf_specb; cbn. rewrite Hk, Ho. reflexivity.
Qed.

(* the specification chosen when no clause is written, by return type *)
Theorem default_spec_chosen : forall k,
  kind_okb k = true -> normalise plain_flags k CNone = Some (default_spec k).
Proof.
  intros k Hk. destruct k as [w s| | | | | |]; try reflexivity.
  cbn in Hk. assert (H : 1 <= w) by lia.
  pose proof (wrap_id w s (wrap w s (-1)) H (wrap_in_range w s (-1) H)) as E.
  unfold normalise, default_spec. cbn -[wrap]. rewrite E. reflexivity.
Qed.

(* ... it propagates, needs no user contract, and lies in the domain of spec_faithful *)
Theorem default_spec_in_domain : forall k b,
  kind_okb k = true ->
  wf_specb (default_spec k) k = true /\ chk_plus (ec (default_spec k)) = false /\
  propagates (default_spec k) k = true /\ contract_okb (default_spec k) k b = true.
Proof.
  intros k b Hk. split; [|split; [|split]].
  - apply (normalise_wf plain_flags k CNone); auto using default_spec_chosen.
  - destruct k; reflexivity.
  - destruct k; reflexivity.
  - destruct k; cbn; try reflexivity; destruct b; reflexivity.
Qed.

(* legacy_implicit_noexcept / extern declarations: no clause means noexcept (except for objects) *)
Theorem implicit_noexcept : forall f k,
  (legacy f = true \/ extern f = true) -> is_obj k = false ->
  normalise f k CNone = Some {| ev := None; ec := ChkNo |}.
Proof.
  intros f k H Ho. unfold normalise. destruct f as [lg ex px cp]; cbn in *.
  rewrite Ho. destruct lg, ex; cbn; try reflexivity. destruct H; discriminate.
Qed.

(* objects: every accepted declaration propagates through NULL *)
Theorem object_always_propagates : forall f c sp,
  normalise f KObject c = Some sp -> propagates sp KObject = true.
Proof. intros. reflexivity. Qed.

(* ------------------------------------------------------------------ function pointers *)
Theorem compat_sound : forall fsp psp k fl cn b st,
  wf_specb fsp k = true -> wf_specb psp k = true ->
  chk_plus (ec fsp) = false -> chk_plus (ec psp) = false ->
  exc_compatible fsp psp = true ->
  cython_body b = true -> body_val_okb k b = true ->
  ctx_okb fl cn = true -> clean cn st ->
  contract_okb fsp k b = true ->
  observe_via psp fsp k fl cn b st = documented fsp k b st.
Proof.
  intros fsp psp k fl cn b st Hwf Hwp Hpf Hpp Hc Hb Hv Hctx [Hp Hg] Hcon.
  unfold observe_via.
  destruct fsp as [fev fec], psp as [pev pec]; cbn [ev ec] in *.
  destruct fec as [| |fh]; try discriminate; destruct pec as [| |ph]; try discriminate;
  unfold exc_compatible in Hc; cbn [ev ec chk_plus chk_true andb orb negb] in Hc.
  all: destruct b as [r|e|x|e r]; try discriminate.
  all: try rewrite callee_return; try rewrite (callee_raise _ k fl cn e st Hctx Hg).
  all: destr_state st; subst p g.
  all: unfold wf_specb in Hwf, Hwp; cbn [ev ec chk_plus chk_true] in Hwf, Hwp.
  all: unfold call_site, documented, after_raise, propagates, error_retval, error_value, noexcept_value, contract_okb in *;
       cbn [ev ec o_err o_val o_st pending unraisable gil viol chk_true] in *.
  all: destruct (is_obj k) eqn:Ho;
       [ destruct k; try discriminate; destruct fev, pev; try discriminate;
         try (destruct r; try discriminate); reflexivity | ].
  all: destruct fev as [fs|], pev as [ps|]; cbn [oev_eqb negb andb orb option_map sent_val] in *; try discriminate.
  all: try (destruct (sent_eqb fs ps) eqn:Hse; try discriminate).
  all: try (apply andb_true_iff in Hwf; destruct Hwf as [_ Hwf]; apply andb_true_iff in Hwf; destruct Hwf as [Hwf _];
            apply andb_true_iff in Hwf; destruct Hwf as [Hfs _]).
  all: try (apply andb_true_iff in Hwp; destruct Hwp as [_ Hwp]; apply andb_true_iff in Hwp; destruct Hwp as [Hwp _];
            apply andb_true_iff in Hwp; destruct Hwp as [Hps _]).
  all: try rewrite <- (c_test_sent_eqb k fs ps _ Hfs Hps Hse).
  all: try rewrite (c_test_self k fs Hfs).
  all: try (apply negb_true_iff in Hcon; rewrite Hcon).
  all: cbn; try reflexivity.
  all: try (destruct cn; reflexivity).
  all: try (destruct (c_test k ps _); cbn; try reflexivity; destruct cn; reflexivity).
  all: try (destruct (c_test k fs _); cbn; try reflexivity; destruct cn; reflexivity).
Qed.

(* ------------------------------------------------------------------ C++ "except +" (reduced) *)
Theorem cpp_faithful_reduced : forall h k cn b st,
  kind_okb k = true -> cpp_body_okb h b = true -> body_val_okb k b = true -> clean cn st ->
  observe {| ev := None; ec := ChkPlus h |} k FPlain cn b st
  = documented {| ev := None; ec := ChkPlus h |} k b st.
Proof.
  intros h k cn b st Hk Hb Hv [Hp Hg]. destr_state st. subst p g.
  unfold observe, observe_via, callee, call_site, documented; cbn [ev ec].
  destruct b as [r|e|x|e r]; try discriminate; cbn in Hv.
  - destruct k, r; try discriminate; destruct h, cn; reflexivity.
  - destruct h, cn; reflexivity.
  - destruct h; try discriminate. destruct k, r; try discriminate; destruct cn; reflexivity.
Qed.
