(* C17 -- nested struct dtypes: the checker's struct stack (ctx->head frames with parent_offset)
   walks exactly the members of the flattened tree at their absolute offsets; hence accept <-> layout
   for tree-shaped type infos of any depth follows from the flat theorem (P_BufFmtCount.v). *)
From Coq Require Import ZArith List Bool Lia.
From CyVerif Require Import Model.M_BufFmt Proof.P_BufFmt Proof.P_BufFmtCount.
Import ListNotations.
Open Scope Z_scope.

(* ---- induction principle for the nested inductive ---- *)
Section TInd.
  Variable P : ttype -> Prop.
  Hypothesis Hl : forall l, P (TLeaf l).
  Hypothesis Hs : forall sz fs, Forall (fun f => P (fst f)) fs -> P (TStruct sz fs).
  Fixpoint ttype_ind2 (t : ttype) : P t :=
    match t with
    | TLeaf l => Hl l
    | TStruct sz fs =>
      Hs sz fs ((fix go (l : list (ttype * Z)) : Forall (fun f => P (fst f)) l :=
                   match l with
                   | [] => Forall_nil _
                   | f :: r => Forall_cons f (ttype_ind2 (fst f)) (go r)
                   end) fs)
    end.
End TInd.

Definition flat_fields (fs : list (ttype * Z)) (a : Z) : list (leaf * Z) :=
  (fix go (l : list (ttype * Z)) : list (leaf * Z) :=
     match l with [] => [] | (t1, o1) :: r => flatten t1 (a + o1) ++ go r end) fs.
Lemma flatten_struct : forall sz fs a, flatten (TStruct sz fs) a = flat_fields fs a.
Proof. reflexivity. Qed.
Lemma flat_fields_cons : forall t1 o1 r a, flat_fields ((t1, o1) :: r) a = flatten t1 (a + o1) ++ flat_fields r a.
Proof. reflexivity. Qed.

(* the first member of a struct member is a scalar *)
Definition leaf_first (t : ttype) : Prop :=
  match t with
  | TLeaf _ => True
  | TStruct _ ((TLeaf _, _) :: _) => True
  | _ => False
  end.

(* type infos Buffer.py can emit for C structs: scalars as in the flat theorem, structs non-empty
   with the first member at offset 0 (C guarantee); any depth, any member offsets otherwise.
   deep = false (the code as it is) additionally needs: a struct member that is not the first
   member of its parent begins with a scalar (the complement of finding
   nonfirst_substruct_begins_with_struct) *)
Inductive twf (deep : bool) : ttype -> Prop :=
| twf_leaf : forall l, leaf_wf (l, 0) -> twf deep (TLeaf l)
| twf_struct : forall sz t1 r,
    twf deep t1 ->
    Forall (fun f => twf deep (fst f) /\ (deep = true \/ leaf_first (fst f))) r ->
    twf deep (TStruct sz ((t1, 0) :: r)).

(* the walk as a relation (no fuel) *)
Inductive walks (deep : bool) : stack -> list (leaf * Z) -> Prop :=
| walks_nil : walks deep [] []
| walks_cons : forall st x l, s_cur st = Some x -> walks deep (s_advance deep false st) l ->
                              walks deep st (x :: l).

Lemma walks_fuel : forall deep st l, walks deep st l ->
  forall fuel, (length l <= fuel)%nat -> walk_from fuel deep false st = Ok l.
Proof.
  intros deep st l H. induction H as [|st x l Hc Hw IH]; intros fuel Hf.
  - destruct fuel; reflexivity.
  - destruct st as [|fr st']; [discriminate Hc|].
    destruct fuel as [|f]; [cbn [length] in Hf; lia|].
    cbn [walk_from]. rewrite Hc. rewrite IH by (cbn [length] in Hf; lia). reflexivity.
Qed.

(* push_sub with and without the deep descent agree when the member begins with a scalar *)
Lemma push_sub_leaf_first : forall deep t a st, deep = true \/ leaf_first t ->
  push_sub deep t a st = push_sub true t a st.
Proof.
  intros deep t a st [->|H]; [reflexivity|].
  destruct t as [l|sz fs]; [reflexivity|].
  destruct fs as [|[t1 o1] r]; [reflexivity|].
  destruct t1 as [l1|sz1 fs1]; [|destruct H].
  cbn [push_sub]. destruct deep; reflexivity.
Qed.

(* the top frame's current member is t, at absolute offset a *)
Definition top_is (K : stack) (t : ttype) (a : Z) : Prop :=
  exists fo rest po below, K = ((t, fo) :: rest, po) :: below /\ po + fo = a.

(* advancing from a frame that sits on a non-empty stack *)
Lemma advance_frame : forall deep t1 o1 r a fr K, 
  Forall (fun f => twf deep (fst f) /\ (deep = true \/ leaf_first (fst f))) r ->
  s_advance deep false (((t1, o1) :: r, a) :: fr :: K) =
  match r with
  | [] => s_advance deep false (fr :: K)
  | (t2, o2) :: _ => push_sub true t2 (a + o2) ((r, a) :: fr :: K)
  end.
Proof.
  intros deep t1 o1 r a [ffs gpo] K Hr. cbn [s_advance tl].
  destruct r as [|[t2 o2] r2]; [reflexivity|].
  apply Forall_inv in Hr. cbn [fst] in Hr. destruct Hr as [Hw Hd].
  destruct t2 as [l2|sz2 sub]; [reflexivity|].
  destruct sub as [|[t3 o3] sub'].
  - inversion Hw.
  - cbn [next_in]. rewrite (push_sub_leaf_first deep _ _ _ Hd). reflexivity.
Qed.

(* main invariant, by induction on the tree: entering member t at absolute offset a (the frames
   pushed by the deep descent carry parent_offset = absolute offset of their struct), the checker
   walks flatten t a and then continues as if K's current member had been a scalar *)
Lemma enter_walks : forall deep t, twf deep t -> forall a K l,
  top_is K t a -> walks deep (s_advance deep false K) l ->
  walks deep (push_sub true t a K) (flatten t a ++ l).
Proof.
  intros deep t. induction t as [lf|sz fs IHfs] using ttype_ind2; intros Hw a K l Htop Hl.
  - destruct Htop as (fo & rest & po & below & -> & <-).
    cbn [push_sub flatten app]. apply walks_cons; [reflexivity|exact Hl].
  - inversion Hw as [|sz' t1 r Hw1 Hwr E]; subst fs sz'. clear Hw.
    destruct Htop as (fo & rest & po & below & -> & <-).
    set (K := ((TStruct sz ((t1, 0) :: r), fo) :: rest, po) :: below) in *.
    rewrite flatten_struct.
    (* generalise over the suffix of the member array *)
    assert (G : forall fs' t' o', 
               Forall (fun f => forall a K l, twf deep (fst f) -> top_is K (fst f) a ->
                          walks deep (s_advance deep false K) l ->
                          walks deep (push_sub true (fst f) a K) (flatten (fst f) a ++ l)) ((t', o') :: fs') ->
               twf deep t' ->
               Forall (fun f => twf deep (fst f) /\ (deep = true \/ leaf_first (fst f))) fs' ->
               walks deep (push_sub true t' (po + fo + o') (((t', o') :: fs', po + fo) :: K))
                     (flat_fields ((t', o') :: fs') (po + fo) ++ l)).
    { intros fs'. induction fs' as [|[t2 o2] r2 IHr]; intros t' o' HF Hw' Hwr'.
      - rewrite flat_fields_cons. cbn [flat_fields]. rewrite app_nil_r.
        apply Forall_inv in HF. cbn [fst] in HF. apply HF; [exact Hw'| |].
        + exists o', [], (po + fo), K. split; reflexivity.
        + unfold K at 1. rewrite (advance_frame deep t' o' [] (po + fo) _ below (Forall_nil _)). exact Hl.
      - rewrite flat_fields_cons, <- app_assoc.
        pose proof (Forall_inv HF) as H1. cbn [fst] in H1. apply H1; [exact Hw'| |].
        + exists o', ((t2, o2) :: r2), (po + fo), K. split; reflexivity.
        + unfold K at 1. rewrite (advance_frame deep t' o' ((t2, o2) :: r2) (po + fo) _ below Hwr').
          fold K. apply IHr.
          * exact (Forall_inv_tail HF).
          * exact (proj1 (Forall_inv Hwr')).
          * exact (Forall_inv_tail Hwr'). }
    cbn [push_sub].
    replace (po + fo + 0) with (po + fo + 0) by reflexivity.
    apply G; [|exact Hw1|exact Hwr].
    eapply Forall_impl; [|exact IHfs]. intros f Hf a' K' l' Hwf Ht' Hl'. exact (Hf Hwf a' K' l' Ht' Hl').
Qed.

(* __Pyx_BufFmt_Init pushes the same frames as the deep descent at offset 0 *)
Lemma init_push_deep : forall deep t, twf deep t -> forall st, init_push t st = Ok (push_sub true t 0 st).
Proof.
  intros deep t. induction t as [lf|sz fs IHfs] using ttype_ind2; intros Hw st.
  - reflexivity.
  - inversion Hw as [|sz' t1 r Hw1 Hwr E]; subst fs sz'.
    cbn [init_push push_sub]. apply Forall_inv in IHfs. cbn [fst] in IHfs.
    rewrite (IHfs Hw1). reflexivity.
Qed.

Lemma flatten_length : forall t a, (length (flatten t a) <= tnodes t)%nat.
Proof.
  intros t. induction t as [lf|sz fs IHfs] using ttype_ind2; intros a.
  - cbn. lia.
  - rewrite flatten_struct. cbn [tnodes].
    enough (H : (length (flat_fields fs a) <=
                 (fix go (l : list (ttype * Z)) : nat :=
                    match l with [] => O | (t1, _) :: r => (tnodes t1 + go r)%nat end) fs)%nat) by lia.
    induction fs as [|[t1 o1] r IHr]; [cbn; lia|].
    rewrite flat_fields_cons, app_length.
    pose proof (Forall_inv IHfs (a + o1)) as H1. cbn [fst] in H1.
    specialize (IHr (Forall_inv_tail IHfs)). lia.
Qed.

(* the struct stack yields exactly the flattened members with their absolute offsets *)
Theorem walk_flatten : forall deep t, twf deep t -> walk deep false t = Ok (flatten t 0).
Proof.
  intros deep t Hw. unfold walk, s_init. rewrite (init_push_deep deep t Hw). cbn [bind].
  apply walks_fuel; [|apply flatten_length].
  rewrite <- (app_nil_r (flatten t 0)).
  apply (enter_walks deep t Hw 0 [([(t, 0)], 0)] []).
  - exists 0, [], 0, []. split; reflexivity.
  - cbn [s_advance]. apply walks_nil.
Qed.

Lemma leaf_wf_off : forall l a b, leaf_wf (l, a) -> leaf_wf (l, b).
Proof. intros l a b H. exact H. Qed.

Lemma flatten_wf : forall deep t, twf deep t -> forall a, flat_wf (flatten t a).
Proof.
  intros deep t. induction t as [lf|sz fs IHfs] using ttype_ind2; intros Hw a.
  - inversion Hw; subst. constructor; [|constructor]. eapply leaf_wf_off; eassumption.
  - inversion Hw as [|sz' t1 r Hw1 Hwr E]; subst fs sz'. rewrite flatten_struct.
    assert (Hall : Forall (fun f => twf deep (fst f)) ((t1, 0) :: r)).
    { constructor; [exact Hw1|]. eapply Forall_impl; [|exact Hwr]. intros f Hf; exact (proj1 Hf). }
    clear Hw Hw1 Hwr. revert Hall IHfs. generalize ((t1, 0) :: r). intros fs.
    induction fs as [|[t' o'] fs' IH]; intros Hall IHfs; [constructor|].
    rewrite flat_fields_cons. apply Forall_app. split.
    + exact (Forall_inv IHfs (Forall_inv Hall) (a + o')).
    + exact (IH (Forall_inv_tail Hall) (Forall_inv_tail IHfs)).
Qed.

(* for EVERY byte string the tree checker is the flat checker on the flattened type info *)
Theorem check_tree_flat : forall fx deep s t isz, twf deep t ->
  check_tree fx deep false s t isz = check fx s (flat_ti t) isz.
Proof. intros fx deep s t isz Hw. unfold check_tree. rewrite (walk_flatten deep t Hw). reflexivity. Qed.

Theorem accept_iff_layout_tree : forall fx deep toks t isz,
  Forall tok_ok toks -> twf deep t ->
  (check_tree fx deep false (render (FPlain toks)) t isz = Ok tt <->
   spec_accept (FPlain toks) (flat_ti t) isz = true).
Proof.
  intros fx deep toks t isz Hok Hw. rewrite (check_tree_flat fx deep _ t isz Hw).
  apply accept_iff_layout_counts; [exact Hok|]. exact (flatten_wf deep t Hw 0).
Qed.

Theorem tree_repaired_parser_terminates_in_bounds : forall deep s t isz, twf deep t ->
  check_tree fx_all deep false s t isz = Ok tt \/ check_tree fx_all deep false s t isz = Err \/
  check_tree fx_all deep false s t isz = IntOvf.
Proof. intros deep s t isz Hw. rewrite (check_tree_flat fx_all deep s t isz Hw). apply repaired_parser_terminates_in_bounds. Qed.

(* ---- witnesses ---- *)
Definition lf_int : ttype := TLeaf (mkleaf 73 4 []).
Definition t_inner : ttype := TStruct 8 [(lf_int, 0); (lf_int, 4)].                  (* Inner {int c, d} *)
(* Outer {int a; Mid {int b; Inner inn} m}: three levels, the middle struct at offset 4 *)
Definition t_outer : ttype := TStruct 16 [(lf_int, 0); (TStruct 12 [(lf_int, 0); (t_inner, 4)], 4)].
(* OuterA {int a; MidF {Inner inn; int b} m}: a non-first struct member that begins with a struct *)
Definition t_outerA : ttype := TStruct 16 [(lf_int, 0); (TStruct 12 [(t_inner, 0); (lf_int, 8)], 4)].
Definition toks_4i : list tok := [TItem [52] Ci].     (* "4i" *)

Lemma t_outer_wf : twf false t_outer.
Proof.
  assert (Hi : twf false lf_int).
  { constructor. unfold leaf_wf. cbn. repeat split; auto; try lia; intros [H|H]; discriminate. }
  assert (Hin : twf false t_inner).
  { constructor; [exact Hi|]. constructor; [|constructor]. split; [exact Hi|right; exact I]. }
  constructor; [exact Hi|]. constructor; [|constructor]. split; [|right; exact I].
  constructor; [exact Hi|]. constructor; [|constructor]. split; [exact Hin|right; exact I].
Qed.

Lemma t_outerA_wf : twf true t_outerA.
Proof.
  assert (Hi : twf true lf_int).
  { constructor. unfold leaf_wf. cbn. repeat split; auto; try lia; intros [H|H]; discriminate. }
  assert (Hin : twf true t_inner).
  { constructor; [exact Hi|]. constructor; [|constructor]. split; [exact Hi|left; reflexivity]. }
  constructor; [exact Hi|]. constructor; [|constructor]. split; [|left; reflexivity].
  constructor; [exact Hin|]. constructor; [|constructor]. split; [exact Hi|left; reflexivity].
Qed.

Lemma toks_4i_ok : Forall tok_ok toks_4i.
Proof. constructor; [|constructor]. split; [repeat constructor; cbn; lia|right; cbn; unfold INT_MAX; lia]. Qed.

(* taking the sub-struct offset from the grandparent frame rejects the matching buffer *)
Lemma grandparent_witness :
  spec_accept (FPlain toks_4i) (flat_ti t_outer) 16 = true /\
  check_tree fx_all false true (render (FPlain toks_4i)) t_outer 16 = Err /\
  check_tree fx_all false false (render (FPlain toks_4i)) t_outer 16 = Ok tt.
Proof. repeat split; vm_compute; reflexivity. Qed.

(* the code as it is (no deep descent in the advance loop) rejects a matching buffer; the repair accepts *)
Lemma no_descent_witness :
  spec_accept (FPlain toks_4i) (flat_ti t_outerA) 16 = true /\
  check_tree fx_all false false (render (FPlain toks_4i)) t_outerA 16 = Err /\
  check_tree fx_all true false (render (FPlain toks_4i)) t_outerA 16 = Ok tt.
Proof. repeat split; vm_compute; reflexivity. Qed.
