(* C06 -- proofs about a % b and a // b on C doubles (Model/M_FloatOps.v). *)
From Coq Require Import ZArith Bool List SpecFloat Lia.
From CyVerif Require Import Model.M_FloatOps Lib.FloatMulOne.
Import ListNotations.
Open Scope Z_scope.

(* ---------- the repaired helpers are CPython's algorithms, for every libm ---------- *)

Lemma xorb_neq a b : xorb a b = negb (Bool.eqb b a).
Proof. destruct a, b; reflexivity. Qed.

Theorem mod_new_eq_py : forall (fmod : F -> F -> F) a b,
  mod_node fmod true a b = py_float_rem fmod a b.
Proof.
  intros fmod a b. unfold mod_node, py_float_rem, mod_float, mod_float_new.
  destruct (feqb b fzero); [reflexivity|].
  rewrite xorb_neq. reflexivity.
Qed.

Theorem floordiv_new_eq_py : forall (fmod : F -> F -> F) (ffloor : F -> F) a b,
  floordiv_node fmod ffloor true a b = py_float_floor_div fmod ffloor a b.
Proof. intros. reflexivity. Qed.

(* ---------- the current helpers are refuted (exact fmod / floor) ---------- *)

(* 0.0 % inf = nan (CPython 0.0); 5.0 % inf = nan (5.0); 1.0 % -1.0 = +0.0 (CPython -0.0) *)
Theorem mod_old_refuted :
  mod_node_x false fzero (finf false) = FVal S754_nan /\ py_float_rem_x fzero (finf false) = FVal fzero /\
  mod_node_x false ffive (finf false) = FVal S754_nan /\ py_float_rem_x ffive (finf false) = FVal ffive /\
  mod_node_x false fone fmone = FVal (S754_zero false) /\ py_float_rem_x fone fmone = FVal (S754_zero true).
Proof. vm_compute. repeat split. Qed.

Theorem mod_old_refuted_ex :
  exists a b, fvalid a = true /\ fvalid b = true /\ mod_node_x false a b <> py_float_rem_x a b.
Proof. exists fone, fmone. vm_compute. repeat split; discriminate. Qed.

(* -1.0 // inf = -0.0 (CPython -1.0); 1.0 // 0.1 = 10.0 (CPython 9.0) *)
Theorem floordiv_old_refuted :
  floordiv_node_x false fmone (finf false) = FVal (S754_zero true) /\
  py_float_floor_div_x fmone (finf false) = FVal fmone /\
  floordiv_node_x false fone ftenth = FVal (S754_finite false 5629499534213120 (-49)) /\
  py_float_floor_div_x fone ftenth = FVal (S754_finite false 5066549580791808 (-49)).
Proof. vm_compute. repeat split. Qed.

Theorem floordiv_old_refuted_ex :
  exists a b, fvalid a = true /\ fvalid b = true /\
    floordiv_node_x false a b <> py_float_floor_div_x a b.
Proof. exists fone, ftenth. vm_compute. repeat split; discriminate. Qed.

(* ---------- exact characterisation of the current ModFloat ---------- *)

Definition is_inf (x : F) : bool := match x with S754_infinity _ => true | _ => false end.
Definition is_nan (x : F) : bool := match x with S754_nan => true | _ => false end.
Definition is_pzero (x : F) : bool := match x with S754_zero false => true | _ => false end.
Definition is_neg_finite (x : F) : bool := match x with S754_finite true _ _ => true | _ => false end.

(* the finding class F2, in terms of r = fmod(a, b):
   - b infinite and no adjustment by b happens (r is not NaN):  0 * inf = nan is added
   - r = +0 and b a negative finite number:  +0 + -0 = +0, CPython returns copysign(0, b) = -0 *)
Definition mod_old_bad (r b : F) : bool :=
  (is_inf b && negb (is_nan r) && negb (fnonzero r && xorb (fneg r) (fneg b)))
  || (is_pzero r && is_neg_finite b).

Section ModOld.
  Variable fmod : F -> F -> F.
  (* IEEE fact about the multiplication: 1.0 * b = b (proved below for SpecFloat: [fmul_one_l]) *)
  Hypothesis mul_one : forall b, fvalid b = true -> fmul fone b = b.
  (* C99 7.12.10.1 / F.9.7.1: the only part of fmod's contract the comparison needs *)
  Hypothesis fmod_nan_r : forall a, fmod a S754_nan = S754_nan.

  Lemma mod_old_char_aux : forall r b,
    fvalid b = true -> feqb b fzero = false -> (b = S754_nan -> r = S754_nan) ->
    let old := fadd r (fmul (f_of_bool (fnonzero r && xorb (fneg r) (fneg b))) b) in
    let py := if fnonzero r then (if negb (Bool.eqb (fneg b) (fneg r)) then fadd r b else r)
              else fcopysign fzero b in
    (mod_old_bad r b = false -> old = py) /\ (mod_old_bad r b = true -> old <> py).
  Proof.
    intros r b Hv Hnz Hn. cbv zeta. rewrite <- xorb_neq.
    destruct (fnonzero r && xorb (fneg r) (fneg b)) eqn:C.
    - (* adjustment: r + 1*b *)
      apply andb_prop in C. destruct C as [C1 C2]. rewrite C1, C2.
      cbn [f_of_bool]. rewrite (mul_one b Hv).
      split; [reflexivity|].
      unfold mod_old_bad. rewrite C1, C2. cbn [andb negb]. rewrite andb_false_r. cbn [orb].
      intros H. apply andb_prop in H. destruct H as [H1 H2].
      destruct r as [[|]| | |]; try discriminate.
    - cbn [f_of_bool].
      destruct b as [[|]|[|]| |[|] mb eb]; try discriminate;
        destruct r as [[|]|[|]| |[|] mr er]; cbn in C |- *; try discriminate C;
        (split; [intros Hb; try discriminate Hb; try reflexivity
                | intros Hb; try discriminate Hb; try discriminate]).
      all: discriminate (Hn eq_refl).
  Qed.

  (* current ModFloat = CPython exactly outside the class, and different inside *)
  Theorem mod_old_characterised : forall a b,
    fvalid b = true ->
    (mod_old_bad (fmod a b) b = false -> mod_node fmod false a b = py_float_rem fmod a b) /\
    (feqb b fzero = false -> mod_old_bad (fmod a b) b = true ->
       mod_node fmod false a b <> py_float_rem fmod a b).
  Proof.
    intros a b Hv. unfold mod_node, py_float_rem, mod_float, mod_float_old.
    destruct (feqb b fzero) eqn:Z.
    - split; [reflexivity| discriminate].
    - destruct (mod_old_char_aux (fmod a b) b Hv Z) as [H1 H2].
      { intros ->. apply fmod_nan_r. } cbv zeta in H1, H2.
      split.
      + intros Hb. f_equal. apply H1, Hb.
      + intros _ Hb E. apply (H2 Hb). injection E. auto.
  Qed.
End ModOld.

(* with the IEEE fact discharged (Lib/FloatMulOne.v) *)
Theorem mod_old_characterised_ieee : forall (fmod : F -> F -> F),
  (forall a, fmod a S754_nan = S754_nan) ->
  forall a b, fvalid b = true ->
  (mod_old_bad (fmod a b) b = false -> mod_node fmod false a b = py_float_rem fmod a b) /\
  (feqb b fzero = false -> mod_old_bad (fmod a b) b = true ->
     mod_node fmod false a b <> py_float_rem fmod a b).
Proof. intros fmod Hn. apply (mod_old_characterised fmod fmul_one_l Hn). Qed.
